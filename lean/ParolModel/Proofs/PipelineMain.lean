import ParolModel.Proofs.PipelineLa
/-! Lemmas for C01c, part 3: the automaton `genAuto` builds for a non-terminal accepts exactly the
strong-LL(k) lookahead strings of its alternatives at its own depth (C05's sets through C07's
construction), and the assembled tables satisfy `SetsExact` and `TablesSound`. -/
namespace ParolModel
open KS

theorem decidableM_ok_prod {G : Grammar} {fuel A K k : Nat} (h : decidableM G fuel A K = .ok k) :
    ∃ (i : Nat) (p : Rule), G.prods[i]? = some p ∧ p.lhs = A := by
  unfold decidableM at h
  split at h
  · cases h
  · rename_i pi hpi
    exact ⟨pi, mem_prodIdxs.1 (show pi ∈ prodIdxs G A by rw [hpi]; simp)⟩
  · rename_i hne _
    cases hl : prodIdxs G A with
    | nil => exact absurd hl hne
    | cons i rest => exact ⟨i, mem_prodIdxs.1 (show i ∈ prodIdxs G A by rw [hl]; simp)⟩

theorem laSets_some_comp {G : Grammar} {fuel A k : Nat} {sets : List (Nat × TSet)}
    (h : laSets G fuel A k = some sets) : (firstCode G fuel k).isSome ∧ (followCode G fuel k).isSome := by
  unfold laSets at h
  cases hfv : firstCode G fuel k with
  | none => simp [hfv] at h
  | some fv =>
    cases hfw : followCode G fuel k with
    | none => simp [hfv, hfw] at h
    | some fw => simp

theorem setsLookup_of_mem {sets : List (Nat × List Tuple)} (ok : SetsOk sets) {q : Nat × List Tuple}
    (hq : q ∈ sets) {w : List Nat} (hw : w ∈ q.2) : setsLookup sets w = some (q.1 : Int) := by
  rw [← accOf_Mof, Mof_mem ok hq hw]
  unfold accOf
  have : (q.1 : Int) > -1 := by omega
  simp [this]

/-- What the automaton of one non-terminal does, in terms of the grammar. -/
structure AutoExact (G : Grammar) (A : Nat) (c : LaDfa) : Prop where
  sorted : sortedTrans c.trans = true
  run : ∀ (t : List Nat) (q : Int), runRef c 0 c.prod0 t = some q ↔
    ∃ (j : Nat) (p : Rule), q = (j : Int) ∧ G.prods[j]? = some p ∧ p.lhs = A ∧ LA G c.k A p.rhs t
  vals : ∀ q ∈ dfaProds c, q > -1 → ∃ (j : Nat) (p : Rule), q = (j : Int) ∧ G.prods[j]? = some p ∧ p.lhs = A

theorem LA_zero {G : Grammar} (hprod : KS.Productive G) (hreach : KS.Reachable G) {p : Rule}
    (hp : p ∈ G.prods) (t : Tup) : LA G 0 p.lhs p.rhs t ↔ t = [] := by
  constructor
  · intro h
    have := LA_length_le h
    exact List.eq_nil_of_length_eq_zero (by omega)
  · rintro rfl
    obtain ⟨t, ht⟩ := LA_inhabited hprod hreach hp 0
    have := LA_length_le ht
    have : t = [] := List.eq_nil_of_length_eq_zero (by omega)
    rwa [this] at ht

/-- **C05's sets through C07's construction**: for a grammar of the class, the compiled automaton
    `genAuto` returns for `A` predicts `j` on `t` exactly when `j` is an alternative of `A` and `t`
    one of its strong-LL(k) lookahead strings, `k` the automaton's own depth. -/
theorem genAuto_exact {G : Grammar} {fuel K A : Nat} {c : LaDfa} (hno : NoEoi G)
    (hprod : KS.Productive G) (hreach : KS.Reachable G) (hnlr : NoLeftRec G)
    (h : genAuto G fuel K A = .ok c) : AutoExact G A c := by
  obtain ⟨k, sets, d, hdec, hsets, hd, hc⟩ := genAuto_inv h
  obtain ⟨i0, p0, hp0, hl0⟩ := decidableM_ok_prod hdec
  have hp0m : p0 ∈ G.prods := List.mem_of_getElem? hp0
  rcases decidableM_ok_inv hdec with ⟨rfl, pi, hpi⟩ | ⟨hk, sets', hsets', hdis⟩
  · -- one alternative
    obtain ⟨hkeys, hnil⟩ := laSets_zero_nil hno hsets
    rw [hpi] at hkeys
    obtain ⟨S, rfl⟩ : ∃ S, sets = [(pi, S)] := by
      match sets, hkeys with
      | [(a, S)], hk' =>
        simp only [List.map_cons, List.map_nil, List.cons.injEq, and_true] at hk'
        subst hk'
        exact ⟨S, rfl⟩
    have hS : ∀ t ∈ S, t = [] := hnil (pi, S) (by simp)
    obtain ⟨hs, hck, hrun, hvals⟩ := single_auto hS hd hc
    obtain ⟨p, hp, hl⟩ := mem_prodIdxs.1 (show pi ∈ prodIdxs G A by rw [hpi]; simp)
    have hpm : p ∈ G.prods := List.mem_of_getElem? hp
    have honly : ∀ (j : Nat) (p' : Rule), G.prods[j]? = some p' → p'.lhs = A → j = pi := by
      intro j p' hj hl'
      have := mem_prodIdxs.2 ⟨p', hj, hl'⟩
      rw [hpi] at this
      simpa using this
    refine ⟨hs, ?_, ?_⟩
    · intro t q
      rw [hrun t, hck]
      constructor
      · intro hq
        split at hq
        · rename_i ht
          injection hq with hq
          subst ht
          exact ⟨pi, p, hq.symm, hp, hl, by rw [← hl]; exact (LA_zero hprod hreach hpm []).2 rfl⟩
        · cases hq
      · rintro ⟨j, p', rfl, hj, hl', hLA⟩
        have hjpi := honly j p' hj hl'
        subst hjpi
        have hp'm : p' ∈ G.prods := List.mem_of_getElem? hj
        rw [← hl'] at hLA
        have := (LA_zero hprod hreach hp'm t).1 hLA
        simp [this]
    · intro q hq hgt
      exact ⟨pi, p, hvals q hq hgt, hp, hl⟩
  · -- at least two alternatives, k ≥ 1
    rw [hsets] at hsets'
    injection hsets' with hsets'
    subst hsets'
    obtain ⟨hc1, hc2⟩ := laSets_some_comp hsets
    have hspecAt := setsAreSpecAt_of_class hno hprod hreach hnlr hk hc1 hc2
    have hne : ∃ f, FollowK G k A f := by
      obtain ⟨f, hf⟩ := followKc_inh hreach hp0m k
      exact ⟨f, hl0 ▸ followK_iff_ctx.2 hf⟩
    have hspec := laSets_spec hk hno hspecAt hne hsets
    have ok := setsOk_of_laSpec hno hprod hreach hspec hdis
    obtain ⟨hs, hrun⟩ := compiled_accepts_iff_tuple ok hd hc
    have hck : c.k = d.k := minimizeC_k hc
    have hlow := uniteAll_k hd
    have hup : d.k ≤ k := by
      apply uniteAll_k_le hd
      intro q hq t ht
      obtain ⟨p, _, _, hmem⟩ := hspec.mem q hq
      exact LA_length_le ((hmem t).1 ht)
    -- the depth of the automaton does not change the sets
    have hLA : ∀ (j : Nat) (p : Rule), G.prods[j]? = some p → p.lhs = A → ∀ t, LA G c.k A p.rhs t ↔ LA G k A p.rhs t := by
      intro j p hj hl t
      apply LA_eq_of_short (by omega)
      intro t' ht'
      obtain ⟨S, hS, hmem⟩ := hspec.of_prod hj hl
      have := hlow (j, S) hS t' ((hmem t').2 ht')
      omega
    refine ⟨hs, ?_, ?_⟩
    · intro t q
      rw [hrun t]
      constructor
      · intro hq
        obtain ⟨q', hq', ht, rfl⟩ := setsLookup_some hq
        obtain ⟨p, hp, hl, hmem⟩ := hspec.mem q' hq'
        exact ⟨q'.1, p, rfl, hp, hl, (hLA q'.1 p hp hl t).2 ((hmem t).1 ht)⟩
      · rintro ⟨j, p, rfl, hj, hl, hla⟩
        obtain ⟨S, hS, hmem⟩ := hspec.of_prod hj hl
        exact setsLookup_of_mem ok hS ((hmem t).2 ((hLA j p hj hl t).1 hla))
    · intro q hq hgt
      obtain ⟨q', hq', rfl⟩ := compiled_vals ok hd hc q hq hgt
      obtain ⟨p, hp, hl, _⟩ := hspec.mem q' hq'
      exact ⟨q'.1, p, rfl, hp, hl⟩

/-! ## the assembled tables -/

structure GenFacts (G : Grammar) (K fuel : Nat) (T : LLTables) : Prop where
  gof : gOf T = G
  prods : T.prods = G.prods.map (genProd G)
  auto : ∀ A ∈ ntsOf G, ∃ c, T.dfas[A]? = some c ∧ genAuto G fuel K A = .ok c
  dfas : ∀ a c, T.dfas[a]? = some c → a ∈ ntsOf G

theorem genTables_facts {G : Grammar} {K fuel : Nat} {T : LLTables} (hd : NtsDense G)
    (h : genTables G K fuel = .ok T) : GenFacts G K fuel T := by
  obtain ⟨ds, hds, rfl⟩ := genTables_inv h
  refine ⟨?_, rfl, ?_, ?_⟩
  · simp only [gOf, map_ruleOf_genProd hd, hd.ntIndex (start_mem_ntsOf G)]
  · intro A hA
    exact genAutos_spec (ntsOf G) ds hds A A (hd.getElem? hA)
  · intro a c hc
    have hlen := genAutos_length (ntsOf G) ds hds
    have ha : a < ds.length := by
      rcases Nat.lt_or_ge a ds.length with h' | h'
      · exact h'
      · simp only at hc
        rw [List.getElem?_eq_none h'] at hc; cases hc
    have : (ntsOf G)[a]? = some (ntsOf G)[a] := List.getElem?_eq_getElem (by omega)
    obtain ⟨e, hm⟩ := hd.of_getElem? this
    rw [e] at hm
    exact hm

theorem getElem?_genProds {G : Grammar} {j : Nat} {pq : LLProd}
    (h : (G.prods.map (genProd G))[j]? = some pq) : ∃ r, G.prods[j]? = some r ∧ pq = genProd G r := by
  rw [List.getElem?_map] at h
  cases hr : G.prods[j]? with
  | none => simp [hr] at h
  | some r =>
    simp only [hr, Option.map_some, Option.some.injEq] at h
    exact ⟨r, rfl, h.symm⟩

/-- the tables of a grammar of the class satisfy the set-level premise of `ll_complete_of_sets` -/
theorem genTables_setsExact {G : Grammar} {K fuel : Nat} {T : LLTables} (hd : NtsDense G)
    (hno : NoEoi G) (hprod : KS.Productive G) (hreach : KS.Reachable G) (hnlr : NoLeftRec G)
    (h : genTables G K fuel = .ok T) : SetsExact T := by
  have F := genTables_facts hd h
  have hmemT : ∀ pr ∈ T.prods, ∃ r ∈ G.prods, pr = genProd G r := by
    intro pr hpr
    rw [F.prods] at hpr
    obtain ⟨r, hr, rfl⟩ := List.mem_map.1 hpr
    exact ⟨r, hr, rfl⟩
  refine ⟨?_, ?_, ?_⟩
  · intro pr hpr
    obtain ⟨r, _, rfl⟩ := hmemT pr hpr
    exact genProd_noMarker G r
  · intro pr hpr
    obtain ⟨r, hr, rfl⟩ := hmemT pr hpr
    exact genProd_noEoi hno hr
  · intro pr hpr
    obtain ⟨r, hr, rfl⟩ := hmemT pr hpr
    rw [genProd_lhs hd hr]
    obtain ⟨c, hc, hgen⟩ := F.auto r.lhs (lhs_mem_ntsOf hr)
    have E := genAuto_exact hno hprod hreach hnlr hgen
    refine ⟨c, hc, E.sorted, ?_⟩
    intro t q
    rw [E.run t q, F.gof]
    constructor
    · rintro ⟨j, p, rfl, hj, hl, hla⟩
      have hpm : p ∈ G.prods := List.mem_of_getElem? hj
      refine ⟨j, genProd G p, rfl, ?_, ?_, ?_⟩
      · rw [F.prods, List.getElem?_map, hj]; rfl
      · rw [genProd_lhs hd hpm, hl]
      · rw [ruleOf_genProd hd hpm]; exact hla
    · rintro ⟨j, pq, rfl, hj, hl, hla⟩
      rw [F.prods] at hj
      obtain ⟨p, hp, rfl⟩ := getElem?_genProds hj
      have hpm : p ∈ G.prods := List.mem_of_getElem? hp
      rw [genProd_lhs hd hpm] at hl
      rw [ruleOf_genProd hd hpm] at hla
      exact ⟨j, p, rfl, hp, hl, hla⟩

/-- … and the hypothesis of `ll_sound` -/
theorem genTables_tablesSound {G : Grammar} {K fuel : Nat} {T : LLTables} (hd : NtsDense G)
    (hno : NoEoi G) (hprod : KS.Productive G) (hreach : KS.Reachable G) (hnlr : NoLeftRec G)
    (h : genTables G K fuel = .ok T) : TablesSound T := by
  have F := genTables_facts hd h
  constructor
  · intro a c hc p hp hgt pr hpr
    have ha := F.dfas a c hc
    obtain ⟨c', hc', hgen⟩ := F.auto a ha
    rw [hc] at hc'
    injection hc' with hc'
    subst hc'
    have E := genAuto_exact hno hprod hreach hnlr hgen
    have hmem : p ∈ dfaProds c := by
      rcases hp with rfl | ⟨tr, htr, rfl⟩
      · simp [dfaProds]
      · simp only [dfaProds, List.mem_cons, List.mem_map]
        exact Or.inr ⟨tr, htr, rfl⟩
    obtain ⟨j, r, rfl, hj, hl⟩ := E.vals p hmem hgt
    simp only [Int.toNat_natCast] at hpr
    rw [F.prods] at hpr
    obtain ⟨r', hr', rfl⟩ := getElem?_genProds hpr
    rw [hj] at hr'
    injection hr' with hr'
    subst hr'
    rw [genProd_lhs hd (List.mem_of_getElem? hj), hl]
  · intro pr hpr
    rw [F.prods] at hpr
    obtain ⟨r, hr, rfl⟩ := List.mem_map.1 hpr
    exact genProd_noEoi hno hr

/-! ## no false conflict -/

theorem genAutos_error {G : Grammar} {fuel K : Nat} {e : GenErr} :
    ∀ (l : List Nat), genAutos G fuel K l = .error e → ∃ A ∈ l, genAuto G fuel K A = .error e := by
  intro l
  induction l with
  | nil => intro h; cases h
  | cons B rest ih =>
    intro h
    simp only [genAutos] at h
    split at h
    · rename_i e' he'
      injection h with h
      subst h
      exact ⟨B, List.mem_cons_self, he'⟩
    · split at h
      · rename_i e' he'
        injection h with h
        subst h
        obtain ⟨A, hA, hAe⟩ := ih he'
        exact ⟨A, List.mem_cons_of_mem _ hA, hAe⟩
      · cases h

theorem genAuto_conflict_inv {G : Grammar} {fuel K A : Nat} (h : genAuto G fuel K A = .error .conflict) :
    ∃ k sets, decidableM G fuel A K = .ok k ∧ laSets G fuel A k = some sets ∧
      uniteAll true k sets = some (.error .conflict) := by
  unfold genAuto at h
  split at h
  · rename_i k hk
    split at h
    · cases h
    · rename_i sets hsets
      split at h
      · cases h
      · rename_i e he
        injection h with h
        cases e <;> simp [GenErr.ofLa] at h
        exact ⟨k, sets, hk, hsets, he⟩
      · split at h <;> cases h
  · rename_i e hne
    injection h with h
    cases he : decidableM G fuel A K with
    | ok k => exact absurd he (hne k)
    | errMaxK => rw [he] at h; cases h
    | errNotPart => rw [he] at h; cases h
    | fuel => rw [he] at h; cases h

/-- for a grammar of the class the uniting loop never reports `Conflict in union operation` -/
theorem genAuto_no_conflict {G : Grammar} {fuel K A : Nat} (hno : NoEoi G)
    (hprod : KS.Productive G) (hreach : KS.Reachable G) (hnlr : NoLeftRec G) :
    genAuto G fuel K A ≠ .error .conflict := by
  intro h
  obtain ⟨k, sets, hdec, hsets, hconf⟩ := genAuto_conflict_inv h
  obtain ⟨i0, p0, hp0, hl0⟩ := decidableM_ok_prod hdec
  rcases decidableM_ok_inv hdec with ⟨rfl, pi, hpi⟩ | ⟨hk, sets', hsets', hdis⟩
  · obtain ⟨hkeys, _⟩ := laSets_zero_nil hno hsets
    rw [hpi] at hkeys
    match sets, hkeys, hconf with
    | [(a, S)], _, hconf =>
      simp only [uniteAll, List.foldlM_nil, Option.some.injEq] at hconf
      cases hconf
  · rw [hsets] at hsets'
    injection hsets' with hsets'
    subst hsets'
    obtain ⟨hc1, hc2⟩ := laSets_some_comp hsets
    have hspecAt := setsAreSpecAt_of_class hno hprod hreach hnlr hk hc1 hc2
    have hne : ∃ f, FollowK G k A f := by
      obtain ⟨f, hf⟩ := followKc_inh hreach (List.mem_of_getElem? hp0) k
      exact ⟨f, hl0 ▸ followK_iff_ctx.2 hf⟩
    have hspec := laSets_spec hk hno hspecAt hne hsets
    have ok := setsOk_of_laSpec hno hprod hreach hspec hdis
    have hnil : sets ≠ [] := by
      intro e; subst e; simp [uniteAll] at hconf
    rcases unite_no_false_conflict k ok hnil with ⟨d, hd⟩ | hf
    · rw [hd] at hconf; cases hconf
    · rw [hf] at hconf; cases hconf

end ParolModel
