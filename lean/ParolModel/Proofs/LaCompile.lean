import ParolModel.Proofs.LaMinLoops
/-! Proofs about the `AdjacencyList` model (C07), part 2d: the conversions `CompiledDFA → AdjacencyList`
(`adjOfCompiled`) and back (`as_compiled_dfa`), and the composition `CompiledDFA::minimize`. -/
namespace ParolModel

/-! ### `as_compiled_dfa` -/

theorem mem_rawTrans (a : Adj) (y : Nat × Nat × Nat) :
    y ∈ a.rawTrans ↔ ∃ x ∈ a.list, ∃ n ∈ x.2, y = (x.1, n) := by
  unfold Adj.rawTrans
  simp only [List.mem_flatMap, List.mem_map]
  constructor
  · rintro ⟨x, hx, n, hn, rfl⟩; exact ⟨x, hx, n, hn, rfl⟩
  · rintro ⟨x, hx, n, hn, rfl⟩; exact ⟨x, hx, n, hn, rfl⟩

theorem rawTrans_pairwise {a : Adj} (hwf : AdjWF a) :
    a.rawTrans.Pairwise (fun y z => ¬ (y.1 = z.1 ∧ y.2.2 = z.2.2)) := by
  unfold Adj.rawTrans
  rw [List.pairwise_flatMap]
  constructor
  · intro x hx
    rw [List.pairwise_map]
    have hd := hwf.det x.1 x.2 (bmGet_of_mem hwf.ksl (by cases x; exact hx))
    have hd' : x.2.Pairwise (fun p q => p.2 ≠ q.2) := List.pairwise_map.1 hd
    exact hd'.imp (fun hne hc => hne hc.2)
  · have hk := hwf.ksl
    unfold KS at hk
    have hk' : a.list.Pairwise (fun p q => p.1 < q.1) := List.pairwise_map.1 hk
    refine hk'.imp ?_
    intro p q hlt y hy z hz hc
    obtain ⟨n, _, rfl⟩ := List.mem_map.1 hy
    obtain ⟨m, _, rfl⟩ := List.mem_map.1 hz
    simp only at hc
    omega

theorem asCompiled_spec {a : Adj} {c : LaDfa} (hwf : AdjWF a) (h : a.asCompiled = some c) :
    sortedTrans c.trans = true ∧ c.k = a.k ∧ bmGet a.prods 0 = some c.prod0 ∧
    (∀ tr, tr ∈ c.trans ↔ ∃ nb, bmGet a.list tr.src = some nb ∧ (tr.dst, tr.term) ∈ nb ∧
        bmGet a.prods tr.dst = some tr.prod) := by
  unfold Adj.asCompiled at h
  split at h
  · split at h
    · rename_i p0 hp0
      injection h with h
      subst h
      refine ⟨?_, rfl, hp0, ?_⟩
      · rw [sortedTrans_iff_pairwise]
        apply sortTransList_pairwise
        refine List.Pairwise.filterMap _ ?_ (rawTrans_pairwise hwf)
        intro y z hyz b hb b' hb' hc
        cases hy : bmGet a.prods y.2.1 with
        | none => simp [hy] at hb
        | some p =>
          cases hz : bmGet a.prods z.2.1 with
          | none => simp [hz] at hb'
          | some q =>
            simp only [hy, hz, Option.map_some, Option.some.injEq] at hb hb'
            subst hb; subst hb'
            exact hyz hc
      · intro tr
        simp only
        rw [(sortTransList_perm _).mem_iff, List.mem_filterMap]
        constructor
        · rintro ⟨y, hy, hf⟩
          obtain ⟨x, hx, n, hn, rfl⟩ := (mem_rawTrans a y).1 hy
          cases hp : bmGet a.prods n.1 with
          | none => simp [hp] at hf
          | some p =>
            simp only [hp, Option.map_some, Option.some.injEq] at hf
            subst hf
            exact ⟨x.2, bmGet_of_mem hwf.ksl (by cases x; exact hx), by cases n; exact hn, hp⟩
        · rintro ⟨nb, hnb, hmem, hp⟩
          refine ⟨(tr.src, tr.dst, tr.term), ?_, ?_⟩
          · exact (mem_rawTrans a _).2 ⟨(tr.src, nb), bmGet_some_mem hnb, (tr.dst, tr.term), hmem, rfl⟩
          · simp [hp]
    · cases h
  · cases h

/-- The compiled automaton read relationally is the adjacency list read relationally. -/
theorem asCompiled_run {a : Adj} {c : LaDfa} (hwf : AdjWF a) (h : a.asCompiled = some c) :
    ∀ (w : List Nat) (s : Nat) (q p : Int), bmGet a.prods s = some q →
      (RunC c s q w p ↔ ∃ s', RunA a s w s' ∧ bmGet a.prods s' = some p) := by
  obtain ⟨_, _, _, hmem⟩ := asCompiled_spec hwf h
  intro w
  induction w with
  | nil =>
    intro s q p hq
    constructor
    · intro hr
      cases hr
      exact ⟨s, RunA.nil s, hq⟩
    · rintro ⟨s', hr, hp⟩
      cases hr
      rw [hq] at hp
      injection hp with hp
      subst hp
      exact RunC.nil s q
  | cons t w ih =>
    intro s q p hq
    constructor
    · intro hr
      cases hr with
      | cons tr hm h1 h2 hrest =>
        obtain ⟨nb, hnb, hin, hp⟩ := (hmem tr).1 hm
        obtain ⟨s', hr', hp'⟩ := (ih tr.dst tr.prod p hp).1 hrest
        subst h1; subst h2
        exact ⟨s', RunA.cons nb hnb hin hr', hp'⟩
    · rintro ⟨s', hr, hp⟩
      cases hr with
      | cons nb hnb hin hrest =>
        rename_i dst
        have hpres : (bmGet a.list dst).isSome := hwf.closed s nb hnb (dst, t) hin
        obtain ⟨pd, hpd⟩ := Option.isSome_iff_exists.1 ((hwf.keys dst).1 hpres)
        have hm : (⟨s, t, dst, pd⟩ : Trans) ∈ c.trans := (hmem ⟨s, t, dst, pd⟩).2 ⟨nb, hnb, hin, hpd⟩
        exact RunC.cons ⟨s, t, dst, pd⟩ hm rfl rfl ((ih dst pd p hpd).2 ⟨s', hrest, hp⟩)

theorem asCompiled_acc {a : Adj} {c : LaDfa} (hwf : AdjWF a) (h : a.asCompiled = some c) (w : List Nat) (p : Int) :
    RunC c 0 c.prod0 w p ↔ AccA a w p := by
  obtain ⟨_, _, h0, _⟩ := asCompiled_spec hwf h
  exact asCompiled_run hwf h w 0 c.prod0 p h0

/-! ### `From<CompiledDFA> for AdjacencyList` -/

theorem foldl_inv {α β : Type} (f : β → α → β) (P : List α → β → Prop) (l : List α) :
    ∀ (pre : List α) (b : β), P pre b → (∀ pre x b, x ∈ l → P pre b → P (pre ++ [x]) (f b x)) →
      P (pre ++ l) (l.foldl f b) := by
  induction l with
  | nil => intro pre b h _; simpa using h
  | cons x xs ih =>
    intro pre b h hstep
    simp only [List.foldl_cons]
    have := ih (pre ++ [x]) (f b x) (hstep pre x b List.mem_cons_self h)
      (fun pre' y b' hy hp => hstep pre' y b' (List.mem_cons_of_mem _ hy) hp)
    simpa using this

/-- Hypotheses on the un-minimised compiled automaton (all hold for compiled tries of pairwise
    disjoint prefix-free tuple sets). -/
structure CompiledOk (c : LaDfa) : Prop where
  sorted : sortedTrans c.trans = true
  consistent : ∀ t1 ∈ c.trans, ∀ t2 ∈ c.trans, t1.dst = t2.dst → t1.prod = t2.prod
  nozero : ∀ t ∈ c.trans, t.dst ≠ 0
  leaves : ∀ t ∈ c.trans, t.prod ≠ -1 → ∀ u ∈ c.trans, u.src ≠ t.dst
  leaf0 : c.prod0 ≠ -1 → ∀ u ∈ c.trans, u.src ≠ 0

section adjOf
variable (c : LaDfa)

def list0Of : List (Nat × Nbrs) := c.trans.foldl (fun m t => bmInsert m t.dst ([] : Nbrs)) [(0, [])]
def prodsOf : List (Nat × Int) := c.trans.foldl (fun m t => bmInsert m t.dst t.prod) [(0, c.prod0)]
def listStep (m : List (Nat × Nbrs)) (t : Trans) : List (Nat × Nbrs) :=
  match bmGet m t.src with
  | some nb => bmInsert m t.src (sortPairs (nb ++ [(t.dst, t.term)]))
  | none => m

theorem adjOfCompiled_eq : adjOfCompiled c = ⟨c.trans.foldl listStep (list0Of c), prodsOf c, c.k⟩ := rfl

theorem list0Of_spec : KS (list0Of c) ∧ ∀ s, bmGet (list0Of c) s =
    if s = 0 ∨ ∃ t ∈ c.trans, t.dst = s then some [] else none := by
  have := foldl_inv (fun m (t : Trans) => bmInsert m t.dst ([] : Nbrs))
    (fun pre m => KS m ∧ ∀ s, bmGet m s = if s = 0 ∨ ∃ t ∈ pre, t.dst = s then some [] else none)
    c.trans [] [(0, [])] ?_ ?_
  · simpa [list0Of] using this
  · refine ⟨by simp [KS], ?_⟩
    intro s
    rw [bmGet_cons, bmGet_nil]
    by_cases h : s = 0 <;> simp [h, eq_comm]
  · rintro pre x m _ ⟨hk, hg⟩
    refine ⟨hk.insert _ _, ?_⟩
    intro s
    rw [bmGet_insert, hg]
    by_cases hs : s = x.dst
    · simp [hs]
    · by_cases h0 : s = 0
      · simp [h0]
      · simp only [hs, h0, if_false, false_or, List.mem_append, List.mem_singleton]
        by_cases he : ∃ t ∈ pre, t.dst = s
        · obtain ⟨t, ht, hd⟩ := he
          have : ∃ t, (t ∈ pre ∨ t = x) ∧ t.dst = s := ⟨t, Or.inl ht, hd⟩
          simp [this, (⟨t, ht, hd⟩ : ∃ t ∈ pre, t.dst = s)]
        · have : ¬ ∃ t, (t ∈ pre ∨ t = x) ∧ t.dst = s := by
            rintro ⟨t, ht | ht, hd⟩
            · exact he ⟨t, ht, hd⟩
            · subst ht; exact hs hd.symm
          simp [this, he, h0]

theorem prodsOf_spec : KS (prodsOf c) ∧
    (∀ s, (bmGet (prodsOf c) s).isSome ↔ (s = 0 ∨ ∃ t ∈ c.trans, t.dst = s)) ∧
    (∀ s p, bmGet (prodsOf c) s = some p →
      (s = 0 ∧ p = c.prod0 ∧ ∀ t ∈ c.trans, t.dst ≠ 0) ∨ ∃ t ∈ c.trans, t.dst = s ∧ t.prod = p) := by
  have := foldl_inv (fun m (t : Trans) => bmInsert m t.dst t.prod)
    (fun pre m => KS m ∧ (∀ s, (bmGet m s).isSome ↔ (s = 0 ∨ ∃ t ∈ pre, t.dst = s)) ∧
      (∀ s p, bmGet m s = some p →
        (s = 0 ∧ p = c.prod0 ∧ ∀ t ∈ pre, t.dst ≠ 0) ∨ ∃ t ∈ pre, t.dst = s ∧ t.prod = p))
    c.trans [] [(0, c.prod0)] ?_ ?_
  · simpa [prodsOf] using this
  · refine ⟨by simp [KS], ?_, ?_⟩
    · intro s
      rw [bmGet_cons, bmGet_nil]
      by_cases h : s = 0 <;> simp [h, eq_comm]
    · intro s p h
      rw [bmGet_cons, bmGet_nil] at h
      by_cases h0 : 0 = s
      · simp only [h0, if_true, Option.some.injEq] at h
        exact Or.inl ⟨h0.symm, h.symm, by simp⟩
      · simp [h0] at h
  · rintro pre x m _ ⟨hk, hsome, hval⟩
    refine ⟨hk.insert _ _, ?_, ?_⟩
    · intro s
      rw [bmGet_insert]
      by_cases hs : s = x.dst
      · simp only [hs, if_true, Option.isSome_some, true_iff]
        exact Or.inr ⟨x, by simp, rfl⟩
      · simp only [hs, if_false, hsome s, List.mem_append, List.mem_singleton]
        constructor
        · rintro (h | ⟨t, ht, hd⟩)
          · exact Or.inl h
          · exact Or.inr ⟨t, Or.inl ht, hd⟩
        · rintro (h | ⟨t, ht | ht, hd⟩)
          · exact Or.inl h
          · exact Or.inr ⟨t, ht, hd⟩
          · subst ht; exact absurd hd.symm hs
    · intro s p h
      rw [bmGet_insert] at h
      by_cases hs : s = x.dst
      · simp only [hs, if_true, Option.some.injEq] at h
        exact Or.inr ⟨x, by simp, hs.symm, h⟩
      · simp only [hs, if_false] at h
        rcases hval s p h with ⟨h0, hp, hno⟩ | ⟨t, ht, hd, hp⟩
        · refine Or.inl ⟨h0, hp, ?_⟩
          intro t ht
          rcases List.mem_append.1 ht with ht | ht
          · exact hno t ht
          · simp only [List.mem_singleton] at ht
            subst ht
            intro hd; exact hs (h0.trans hd.symm)
        · exact Or.inr ⟨t, by simp [ht], hd, hp⟩

/-- The neighbour lists after the third loop: for every state of the list, a permutation of the
    processed transitions leaving it. -/
theorem listOf_spec : KS (c.trans.foldl listStep (list0Of c)) ∧
    (∀ s, (bmGet (c.trans.foldl listStep (list0Of c)) s).isSome ↔ (s = 0 ∨ ∃ t ∈ c.trans, t.dst = s)) ∧
    (∀ s nb, bmGet (c.trans.foldl listStep (list0Of c)) s = some nb →
      nb.Perm ((c.trans.filter (fun t => t.src == s)).map (fun t => (t.dst, t.term)))) := by
  obtain ⟨hk0, hg0⟩ := list0Of_spec c
  have := foldl_inv listStep
    (fun pre m => KS m ∧ (∀ s, (bmGet m s).isSome ↔ (bmGet (list0Of c) s).isSome) ∧
      (∀ s nb, bmGet m s = some nb → nb.Perm ((pre.filter (fun t => t.src == s)).map (fun t => (t.dst, t.term)))))
    c.trans [] (list0Of c) ?_ ?_
  · simp only [List.nil_append] at this
    refine ⟨this.1, ?_, this.2.2⟩
    intro s
    rw [this.2.1 s, hg0 s]
    by_cases h : s = 0 ∨ ∃ t ∈ c.trans, t.dst = s <;> simp [h]
  · refine ⟨hk0, fun _ => Iff.rfl, ?_⟩
    intro s nb h
    rw [hg0] at h
    split at h
    · injection h with h; subst h; simp
    · cases h
  · rintro pre x m _ ⟨hk, hsome, hperm⟩
    unfold listStep
    cases hsrc : bmGet m x.src with
    | none =>
      simp only
      refine ⟨hk, hsome, ?_⟩
      intro s nb h
      have hne : s ≠ x.src := by intro he; rw [he, hsrc] at h; cases h
      have : (x.src == s) = false := by simp [Ne.symm hne]
      simp only [List.filter_append, List.filter_cons, this, List.filter_nil, Bool.false_eq_true, if_false,
        List.append_nil]
      exact hperm s nb h
    | some nb0 =>
      simp only
      refine ⟨hk.insert _ _, ?_, ?_⟩
      · intro s
        rw [bmGet_insert, ← hsome s]
        by_cases hs : s = x.src
        · simp [hs, hsrc]
        · simp [hs]
      · intro s nb h
        rw [bmGet_insert] at h
        by_cases hs : s = x.src
        · simp only [hs, if_true, Option.some.injEq] at h
          subst h
          have : (x.src == s) = true := by simp [hs]
          simp only [List.filter_append, List.filter_cons, this, if_true, List.filter_nil, List.map_append,
            List.map_cons, List.map_nil]
          refine (sortPairs_perm _).trans ?_
          exact List.Perm.append_right _ (hs ▸ hperm x.src nb0 hsrc)
        · simp only [hs, if_false] at h
          have : (x.src == s) = false := by simp [Ne.symm hs]
          simp only [List.filter_append, List.filter_cons, this, List.filter_nil, Bool.false_eq_true, if_false,
            List.append_nil]
          exact hperm s nb h

end adjOf

theorem mem_nbrs_adjOf {c : LaDfa} {s : Nat} {nb : Nbrs} (h : bmGet (adjOfCompiled c).list s = some nb) (x : Nat × Nat) :
    x ∈ nb ↔ ∃ t ∈ c.trans, t.src = s ∧ x = (t.dst, t.term) := by
  rw [adjOfCompiled_eq] at h
  have hp := (listOf_spec c).2.2 s nb h
  rw [hp.mem_iff, List.mem_map]
  constructor
  · rintro ⟨t, ht, rfl⟩
    obtain ⟨h1, h2⟩ := List.mem_filter.1 ht
    exact ⟨t, h1, by simpa using h2, rfl⟩
  · rintro ⟨t, ht, hs, rfl⟩
    exact ⟨t, List.mem_filter.2 ⟨ht, by simp [hs]⟩, rfl⟩

theorem adjOfCompiled_wf {c : LaDfa} (hc : CompiledOk c) : AdjWF (adjOfCompiled c) := by
  obtain ⟨hkl, hsl, hpl⟩ := listOf_spec c
  obtain ⟨hkp, hsp, hvp⟩ := prodsOf_spec c
  have hpw : c.trans.Pairwise transLt := (sortedTrans_iff_pairwise _).1 hc.sorted
  refine ⟨by rw [adjOfCompiled_eq]; exact hkl, by rw [adjOfCompiled_eq]; exact hkp, ?_, ?_, ?_, ?_, ?_⟩
  · intro s
    rw [adjOfCompiled_eq]
    simp only
    rw [hsl s, hsp s]
  · intro s nb h
    have hp := hpl s nb (by rw [adjOfCompiled_eq] at h; exact h)
    rw [(hp.map Prod.snd).nodup_iff, List.map_map]
    have : ((c.trans.filter (fun t => t.src == s)).Pairwise transLt) := hpw.sublist List.filter_sublist
    rw [List.Nodup, List.pairwise_map]
    refine (List.Pairwise.and_mem.1 this).imp ?_
    intro t u ⟨h1, h2, hlt⟩
    have e1 : t.src = s := by simpa using (List.mem_filter.1 h1).2
    have e2 : u.src = s := by simpa using (List.mem_filter.1 h2).2
    unfold transLt at hlt
    simp only [Function.comp]
    omega
  · intro s nb h x hx
    obtain ⟨t, ht, _, rfl⟩ := (mem_nbrs_adjOf h x).1 hx
    rw [adjOfCompiled_eq]
    simp only
    rw [hsl]
    exact Or.inr ⟨t, ht, rfl⟩
  · intro s p hp hne
    rw [adjOfCompiled_eq] at hp ⊢
    simp only at hp ⊢
    have hsome : (bmGet (c.trans.foldl listStep (list0Of c)) s).isSome := by
      rw [hsl s, ← hsp s, hp]; rfl
    obtain ⟨nb, hnb⟩ := Option.isSome_iff_exists.1 hsome
    have hperm := hpl s nb hnb
    have hempty : c.trans.filter (fun t => t.src == s) = [] := by
      rw [List.filter_eq_nil_iff]
      intro u hu
      rcases hvp s p hp with ⟨h0, hp0, _⟩ | ⟨t, ht, hd, hpr⟩
      · have := hc.leaf0 (hp0 ▸ hne) u hu
        simp [h0, this]
      · have := hc.leaves t ht (hpr ▸ hne) u hu
        simp [← hd, this]
    rw [hempty] at hperm
    simp only [List.map_nil, List.perm_nil] at hperm
    rw [hnb, hperm]
  · rw [adjOfCompiled_eq]
    simp only
    rw [hsl]; simp

/-- The annotation the adjacency list stores for the target of a transition is the transition's. -/
theorem adjOf_prod_dst {c : LaDfa} (hc : CompiledOk c) {t : Trans} (ht : t ∈ c.trans) :
    bmGet (adjOfCompiled c).prods t.dst = some t.prod := by
  obtain ⟨_, hsp, hvp⟩ := prodsOf_spec c
  rw [adjOfCompiled_eq]
  simp only
  obtain ⟨p, hp⟩ := Option.isSome_iff_exists.1 ((hsp t.dst).2 (Or.inr ⟨t, ht, rfl⟩))
  rcases hvp t.dst p hp with ⟨h0, _, _⟩ | ⟨u, hu, hd, hpr⟩
  · exact absurd h0 (hc.nozero t ht)
  · rw [hp, ← hpr, hc.consistent u hu t ht hd]

theorem adjOf_prod_zero {c : LaDfa} (hc : CompiledOk c) : bmGet (adjOfCompiled c).prods 0 = some c.prod0 := by
  obtain ⟨_, hsp, hvp⟩ := prodsOf_spec c
  rw [adjOfCompiled_eq]
  simp only
  obtain ⟨p, hp⟩ := Option.isSome_iff_exists.1 ((hsp 0).2 (Or.inl rfl))
  rcases hvp 0 p hp with ⟨_, hp0, _⟩ | ⟨u, hu, hd, _⟩
  · rw [hp, hp0]
  · exact absurd hd (hc.nozero u hu)

theorem adjOf_run {c : LaDfa} (hc : CompiledOk c) :
    ∀ (w : List Nat) (s : Nat) (q p : Int), (bmGet (adjOfCompiled c).list s).isSome →
      bmGet (adjOfCompiled c).prods s = some q →
      (RunC c s q w p ↔ ∃ s', RunA (adjOfCompiled c) s w s' ∧ bmGet (adjOfCompiled c).prods s' = some p) := by
  have hwf := adjOfCompiled_wf hc
  intro w
  induction w with
  | nil =>
    intro s q p _ hq
    constructor
    · intro hr; cases hr; exact ⟨s, RunA.nil s, hq⟩
    · rintro ⟨s', hr, hp⟩
      cases hr
      rw [hq] at hp; injection hp with hp; subst hp
      exact RunC.nil s q
  | cons t w ih =>
    intro s q p hs hq
    obtain ⟨nb, hnb⟩ := Option.isSome_iff_exists.1 hs
    constructor
    · intro hr
      cases hr with
      | cons tr hm h1 h2 hrest =>
        have hin : (tr.dst, tr.term) ∈ nb := (mem_nbrs_adjOf hnb _).2 ⟨tr, hm, h1, rfl⟩
        have hpres := hwf.closed s nb hnb _ hin
        obtain ⟨s', hr', hp'⟩ := (ih tr.dst tr.prod p hpres (adjOf_prod_dst hc hm)).1 hrest
        subst h2
        exact ⟨s', RunA.cons nb hnb hin hr', hp'⟩
    · rintro ⟨s', hr, hp⟩
      cases hr with
      | cons nb' hnb' hin hrest =>
        rw [hnb] at hnb'; injection hnb' with e; subst e
        obtain ⟨tr, hm, h1, he⟩ := (mem_nbrs_adjOf hnb _).1 hin
        simp only [Prod.mk.injEq] at he
        obtain ⟨e1, e2⟩ := he
        have hpres := hwf.closed s nb hnb _ hin
        subst e1
        exact RunC.cons tr hm h1 e2.symm
          ((ih tr.dst tr.prod p hpres (adjOf_prod_dst hc hm)).2 ⟨s', hrest, hp⟩)

theorem adjOf_acc {c : LaDfa} (hc : CompiledOk c) (w : List Nat) (p : Int) :
    RunC c 0 c.prod0 w p ↔ AccA (adjOfCompiled c) w p :=
  adjOf_run hc w 0 c.prod0 p (adjOfCompiled_wf hc).zero (adjOf_prod_zero hc)

/-! ### `AdjacencyList::minimize` and `CompiledDFA::minimize` -/

theorem minimize_step {a a' : Adj} {ch : List Nat} (hwf : AdjWF a) (h : a.minimize ch = some a') : MinStep' a a' := by
  unfold Adj.minimize at h
  split at h
  · cases h
  · rename_i a1 ch1 h1
    split at h
    · cases h
    · rename_i a2 ch2 h2
      have st1 := mergeFinals_step hwf h1
      have st2 := combineEquiv_step _ st1.wf h2
      have st3 := renumber_step _ st2.wf h
      exact (st1.trans st2).weaken.trans st3

/-- Everything the minimised compiled automaton inherits from the un-minimised one. -/
theorem minimizeC_spec {c c' : LaDfa} {ch : List Nat} (hc : CompiledOk c) (h : minimizeC c ch = some c') :
    sortedTrans c'.trans = true ∧ c'.k = c.k ∧ ∀ w p, RunC c' 0 c'.prod0 w p ↔ RunC c 0 c.prod0 w p := by
  unfold minimizeC at h
  split at h
  · cases h
  · rename_i a hmin
    have st := minimize_step (adjOfCompiled_wf hc) hmin
    obtain ⟨hs, hk, _, _⟩ := asCompiled_spec st.wf h
    refine ⟨hs, by rw [hk, st.k]; rfl, ?_⟩
    intro w p
    rw [asCompiled_acc st.wf h, ← st.acc, ← adjOf_acc hc]

end ParolModel
