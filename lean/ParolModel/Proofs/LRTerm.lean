import ParolModel.Proofs.LRSim
import ParolModel.Model.LRTermCheck
/-! Termination of the LR parser model for tables with a ranking certificate (C19, LR half).

Invariant (`TInv`): the state stack is a path of the automaton spelling the counting parse-tree-stack
entries, with state 0 at the bottom. Measure (`termMeasure`):
`U * (stack height) + v t (top state) + |input| * (U + V + 1)` where `t` is the type of the next
significant token. A shift consumes a token and raises the first two summands by at most `U + V`;
a reduction keeps the lookahead and lowers the first two summands by the certificate. -/
namespace ParolModel

theorem LRRank.val_le {R : LRRank} (h : (R.tab.all fun e => e.2.all fun v => decide (v ≤ R.maxv)) = true)
    (t q : Nat) : R.val t q ≤ R.maxv := by
  unfold LRRank.val
  cases hf : R.tab.find? (·.1 == t) with
  | none => simp
  | some e =>
    simp only
    cases hq : e.2[q]? with
    | none => simp
    | some v =>
      simp only
      have he := List.mem_of_find?_eq_some hf
      have hv := List.mem_of_getElem? hq
      simp only [List.all_eq_true, decide_eq_true_eq] at h
      exact h e he v hv

/-- Lookahead terminal of a state: type of the next significant token. -/
def coreLa (c : LRCore) : Nat := nextTerm (coreDrainSt c).input

def termMeasure (R : LRRank) (c : LRCore) : Nat :=
  R.unit * c.states.length + R.val (coreLa c) (c.states.headD 0) +
    c.input.length * (R.unit + R.maxv + 1)

structure TInv (T : LRTables) (c : LRCore) : Prop where
  path : Path T c.states (c.items.map itemSym)
  bottom : c.states.getLast? = some 0

theorem coreGoto_eq {T : LRTables} {c : LRCore} {n nt top : Nat} {rest : List Nat}
    (hd : c.states.drop n = top :: rest) :
    coreGoto T c n nt =
      match (T.rows[top]?).bind (fun r => findGoto r nt) with
      | none => .stop c .internal
      | some g => .next { c with states := g :: top :: rest } := by
  unfold coreGoto
  have : ¬ c.states.length ≤ n := by
    intro hle
    rw [List.drop_eq_nil_of_le hle] at hd; cases hd
  rw [if_neg this]
  simp only [hd]
  cases (T.rows[top]?).bind (fun r => findGoto r nt) <;> rfl

/-- What a `next` step of the table action does to invariant and measure: either a token is consumed
    (shift) or the input is untouched and `U * height + v t top` drops (reduce). -/
theorem coreAct_term {T : LRTables} {gprods : List Rule} {R : LRRank} (hv : lrTableValid T gprods = true)
    (hr : lrRankOk T gprods R = true) {c c' : LRCore} (hinv : TInv T c) (h : coreAct T c = .next c') :
    TInv T c' ∧
    ((c'.input.length < c.input.length ∧ c'.states.length = c.states.length + 1) ∨
     (c'.input = c.input ∧
      R.unit * c'.states.length + R.val (nextTerm c.input) (c'.states.headD 0) <
        R.unit * c.states.length + R.val (nextTerm c.input) (c.states.headD 0))) := by
  simp only [lrTableValid, Bool.and_eq_true, beq_iff_eq] at hv
  obtain ⟨⟨⟨⟨hlen, hprods⟩, hacc⟩, hpred0⟩, hrows⟩ := hv
  simp only [lrRankOk, Bool.and_eq_true] at hr
  obtain ⟨_, hrk⟩ := hr
  have hacc0 := lrAccOf_zero_none hpred0
  unfold coreAct at h
  cases hst : c.states with
  | nil => simp only [hst] at h; cases h
  | cons cur sts =>
    simp only [hst] at h
    have hpath : Path T (cur :: sts) (c.items.map itemSym) := by rw [← hst]; exact hinv.path
    have hbot : (cur :: sts).getLast? = some 0 := by rw [← hst]; exact hinv.bottom
    cases hrow : T.rows[cur]? with
    | none => simp only [hrow] at h; cases h
    | some row =>
      simp only [hrow] at h
      have hrowmem : (row, cur) ∈ T.rows.zipIdx := by
        rw [List.mem_zipIdx_iff_getElem?]; simpa using hrow
      cases hact : findAct row (nextTerm c.input) with
      | none => simp only [hact] at h; cases h
      | some act =>
        simp only [hact] at h
        have hactmem := mem_of_findAct hact
        have hchk := (List.all_eq_true.1 ((List.all_eq_true.1 hrows) (row, cur) hrowmem)) _ hactmem
        have hrchk := (List.all_eq_true.1 ((List.all_eq_true.1 hrk) (row, cur) hrowmem)) _ hactmem
        cases act with
        | shift next =>
          simp only at h
          cases hin : c.input with
          | nil => simp only [hin] at h; cases h
          | cons t rest =>
            simp only [hin] at h
            injection h with h
            subst h
            have hty : nextTerm c.input = t.ty := by rw [hin]; rfl
            obtain ⟨ha, hp⟩ := acc_of_edge hacc (edge_of_shift hrow hact)
            rw [hty] at ha
            refine ⟨⟨?_, ?_⟩, Or.inl ⟨?_, ?_⟩⟩
            · simpa [itemSym, hst] using Path.step ha hp hpath
            · simpa [hst] using hbot
            · simp
            · simp
        | reduce nt p =>
          simp only at h hchk hrchk
          cases hgr : gprods[p]? with
          | none => simp [hgr] at hchk
          | some r =>
            simp only [hgr, Bool.and_eq_true, beq_iff_eq] at hchk hrchk
            obtain ⟨hlhs, _⟩ := hchk
            have hplt : p < T.prods.length := by
              have := (List.getElem?_eq_some_iff.1 hgr).1; omega
            have hpr : T.prods[p]? = some T.prods[p] := List.getElem?_eq_getElem hplt
            generalize T.prods[p] = pr at hpr
            have hzip := zip_all_get hprods hgr hpr
            simp only [Bool.and_eq_true, beq_iff_eq] at hzip
            obtain ⟨hl2, hlen2⟩ := hzip
            have hrr := Path.spells_len hacc0 r.rhs.reverse cur sts _ hpath hbot hrchk
            simp only [List.length_reverse, List.length_map] at hrr
            obtain ⟨_, s2, sts', hdrop, hfin, hpath2⟩ :=
              Path.spells r.rhs.reverse cur sts _ hpath hrchk (by simpa using hrr)
            simp only [List.length_reverse] at hdrop hpath2
            have hplen := Path.length_eq hpath
            simp only [List.length_cons, List.length_map] at hplen
            have hheight : sts.length + 1 = r.rhs.length + (sts'.length + 1) := by
              have := congrArg List.length hdrop
              simp only [List.length_drop, List.length_cons] at this
              omega
            rw [hlen2] at hdrop hpath2 hrr
            rw [coreAction_some hpr hrr] at h
            simp only at h
            have hdrop' : (coreReduced c p pr).states.drop pr.len = s2 :: sts' := by
              simp only [coreReduced, hst]; exact hdrop
            rw [coreGoto_eq hdrop'] at h
            simp only [rankStepOk] at hfin
            cases hg : (T.rows[s2]?).bind (fun r => findGoto r nt) with
            | none => simp only [hg] at h; cases h
            | some g =>
              simp only [hg, decide_eq_true_eq] at h hfin
              injection h with h
              subst h
              simp only [Option.bind_eq_some_iff] at hg
              obtain ⟨row2, hrow2, hgoto⟩ := hg
              obtain ⟨ha, hp⟩ := acc_of_edge hacc (edge_of_goto hrow2 hgoto)
              refine ⟨⟨?_, ?_⟩, Or.inr ⟨rfl, ?_⟩⟩
              · simp only [coreReduced, List.map_cons, itemSym, List.map_drop]
                rw [← hl2, hlhs]
                exact Path.step ha hp hpath2
              · have := getLast?_drop_cons hdrop
                simp only [List.getLast?_cons_cons]
                rw [this]; exact hbot
              · simp only [List.length_cons, List.headD_cons]
                rw [hheight]
                have e1 : R.unit * (sts'.length + 1 + 1) = R.unit * sts'.length + R.unit + R.unit := by
                  simp only [Nat.mul_add, Nat.mul_one]
                have e2 : R.unit * (r.rhs.length + (sts'.length + 1)) =
                    R.unit * r.rhs.length + (R.unit * sts'.length + R.unit) := by
                  simp only [Nat.mul_add, Nat.mul_one]
                rw [e1, e2]
                omega
        | accept =>
          simp only at h
          cases hp0 : T.prods.findIdx? (·.lhs == T.start) with
          | none => simp only [hp0] at h; cases h
          | some p0 =>
            simp only [hp0] at h
            cases hca : coreAction T c p0 with
            | none => simp only [hca] at h; cases h
            | some x => simp only [hca] at h; cases h

theorem coreDrainSt_input_le (c : LRCore) : (coreDrainSt c).input.length ≤ c.input.length := by
  obtain ⟨pre, h1, _⟩ := coreDrain_pre c.input c.comments
  have hi : (coreDrainSt c).input = (coreDrain c.input c.comments).1 := rfl
  rw [hi]
  have := congrArg List.length h1
  simp only [List.length_append] at this
  omega

theorem coreDrain_fst_cm : ∀ (inp : List MTok) (cm cm' : List Nat), (coreDrain inp cm).1 = (coreDrain inp cm').1 := by
  intro inp
  induction inp with
  | nil => intro cm cm'; rfl
  | cons t rest ih =>
    intro cm cm'
    simp only [coreDrain]
    by_cases hs : t.skip = true
    · simp only [hs, if_true]; exact ih _ _
    · have hs' : t.skip = false := by simpa using hs
      simp only [hs', Bool.false_eq_true, if_false]

/-- The lookahead of a state whose input is already drained. -/
theorem coreLa_of_drained {c : LRCore} (h : Drained c.input) : coreLa c = nextTerm c.input := by
  unfold coreLa
  rw [coreDrainSt_of_drained h]

/-- **Every `next` step lowers the measure** (and keeps the invariant). -/
theorem coreStep_term {T : LRTables} {gprods : List Rule} {R : LRRank} (hv : lrTableValid T gprods = true)
    (hr : lrRankOk T gprods R = true) (md : Option Nat) {c c' : LRCore} (hinv : TInv T c)
    (h : coreStep T md c = .next c') : TInv T c' ∧ termMeasure R c' < termMeasure R c := by
  have hmax : ∀ t q, R.val t q ≤ R.maxv := by
    simp only [lrRankOk, Bool.and_eq_true] at hr
    exact LRRank.val_le hr.1
  unfold coreStep at h
  split at h
  · cases h
  · have hd : Drained (coreDrainSt c).input := coreDrain_drained _ _
    have hinv' : TInv T (coreDrainSt c) := ⟨hinv.path, hinv.bottom⟩
    obtain ⟨hi, hm⟩ := coreAct_term hv hr hinv' h
    refine ⟨hi, ?_⟩
    have hle := coreDrainSt_input_le c
    have hst : (coreDrainSt c).states = c.states := rfl
    rw [hst] at hm
    unfold termMeasure
    generalize hW : R.unit + R.maxv + 1 = W
    rcases hm with ⟨hlt, hlen⟩ | ⟨hin, hlt⟩
    · have h1 : c'.input.length + 1 ≤ c.input.length := by omega
      have h2 := Nat.mul_le_mul_right W h1
      rw [Nat.add_mul, Nat.one_mul] at h2
      have h3 := hmax (coreLa c') (c'.states.headD 0)
      rw [hlen, Nat.mul_add, Nat.mul_one]
      omega
    · have hd' : Drained c'.input := by rw [hin]; exact hd
      have hla : coreLa c' = coreLa c := by rw [coreLa_of_drained hd', hin]; rfl
      rw [hla]
      have hla2 : coreLa c = nextTerm (coreDrainSt c).input := rfl
      rw [hla2]
      have h2 := Nat.mul_le_mul_right W hle
      rw [hin]
      omega

/-- A `stop` step never reports `fuel`. -/
theorem coreStep_stop_ne_fuel {T : LRTables} {md : Option Nat} {c c' : LRCore} {r : Res}
    (h : coreStep T md c = .stop c' r) : r ≠ .fuel := by
  unfold coreStep at h
  split at h
  · injection h with _ h; rw [← h]; intro h'; cases h'
  · generalize coreDrainSt c = d at h
    unfold coreAct at h
    cases hst : d.states with
    | nil => simp only [hst] at h; injection h with _ h; rw [← h]; intro h'; cases h'
    | cons cur sts =>
      simp only [hst] at h
      cases hrow : T.rows[cur]? with
      | none => simp only [hrow] at h; injection h with _ h; rw [← h]; intro h'; cases h'
      | some row =>
        simp only [hrow] at h
        cases hact : findAct row (nextTerm d.input) with
        | none => simp only [hact] at h; injection h with _ h; rw [← h]; intro h'; cases h'
        | some act =>
          simp only [hact] at h
          cases act with
          | shift next =>
            simp only at h
            cases hin : d.input with
            | nil => simp only [hin] at h; injection h with _ h; rw [← h]; intro h'; cases h'
            | cons t rest => simp only [hin] at h; cases h
          | reduce nt p =>
            simp only at h
            cases hca : coreAction T d p with
            | none => simp only [hca] at h; injection h with _ h; rw [← h]; intro h'; cases h'
            | some x => simp only [hca] at h; rw [coreGoto_stop h]; intro h'; cases h'
          | accept =>
            simp only at h
            cases hp0 : T.prods.findIdx? (·.lhs == T.start) with
            | none => simp only [hp0] at h; injection h with _ h; rw [← h]; intro h'; cases h'
            | some p0 =>
              simp only [hp0] at h
              cases hca : coreAction T d p0 with
              | none => simp only [hca] at h; injection h with _ h; rw [← h]; intro h'; cases h'
              | some x => simp only [hca] at h; cases h

/-- With a certificate, fuel above the measure is never exhausted. -/
theorem lrCore_term {T : LRTables} {gprods : List Rule} {R : LRRank} (hv : lrTableValid T gprods = true)
    (hr : lrRankOk T gprods R = true) (md : Option Nat) :
    ∀ (fuel : Nat) (c : LRCore) (steps : Nat), TInv T c → termMeasure R c < fuel →
      (lrCore T md fuel c steps).res ≠ .fuel := by
  intro fuel
  induction fuel with
  | zero => intro c steps _ h; omega
  | succ fuel ih =>
    intro c steps hinv hm
    rw [lrCore]
    cases hst : coreStep T md c with
    | next c' =>
      obtain ⟨hi, hlt⟩ := coreStep_term hv hr md hinv hst
      exact ih c' _ hi (by omega)
    | stop c' r =>
      exact coreStep_stop_ne_fuel hst
    | fin c' => simp only [coreOut]; intro hf; cases hf

theorem termMeasure_init (R : LRRank) (hmax : ∀ t q, R.val t q ≤ R.maxv) (toks : List MTok) :
    termMeasure R ⟨[0], toks, [], [], []⟩ < R.fuel toks := by
  unfold termMeasure LRRank.fuel
  have := hmax (coreLa ⟨[0], toks, [], [], []⟩) 0
  simp only [List.length_cons, List.length_nil, List.headD_cons, Nat.add_mul, Nat.one_mul, Nat.zero_add, Nat.mul_one]
  omega

end ParolModel
