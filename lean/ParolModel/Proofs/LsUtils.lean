import ParolModel.Model.LsUtils
/-! Lemmas about the position/offset model (`Model/LsUtils.lean`), used by `Props/C30`. -/
namespace ParolModel.LsUtils

theorem utf8Len_append (a b : List Char) : utf8Len (a ++ b) = utf8Len a + utf8Len b := by
  induction a with
  | nil => simp [utf8Len]
  | cons c a ih => simp [utf8Len, ih]; omega

theorem utf8Len_eq_zero {a : List Char} (h : utf8Len a = 0) : a = [] := by
  cases a with
  | nil => rfl
  | cons c a =>
    have := Char.utf8Size_pos c
    simp [utf8Len] at h; omega

theorem utf8Len_le_of_prefix {a b : List Char} (h : a <+: b) : utf8Len a ≤ utf8Len b := by
  obtain ⟨t, rfl⟩ := h
  rw [utf8Len_append]; omega

/-- Two prefixes of one text are ordered by their byte lengths. -/
theorem prefix_of_utf8Len_le {x y t : List Char} (hx : x <+: t) (hy : y <+: t)
    (h : utf8Len x ≤ utf8Len y) : x <+: y := by
  rcases List.prefix_or_prefix_of_prefix hx hy with h1 | h1
  · exact h1
  · obtain ⟨z, rfl⟩ := h1
    rw [utf8Len_append] at h
    have hz : z = [] := utf8Len_eq_zero (by omega)
    subst hz; simp

/-! ### `split_at` -/

theorem splitAtBytes_append (a b : List Char) : splitAtBytes (a ++ b) (utf8Len a) = some (a, b) := by
  induction a with
  | nil => cases b <;> simp [splitAtBytes, utf8Len]
  | cons c a ih =>
    have hc := Char.utf8Size_pos c
    have h1 : utf8Len (c :: a) ≠ 0 := by simp [utf8Len]; omega
    have h2 : c.utf8Size ≤ utf8Len (c :: a) := by simp [utf8Len]
    have h3 : utf8Len (c :: a) - c.utf8Size = utf8Len a := by simp [utf8Len]
    simp only [List.cons_append, splitAtBytes, h1, if_false, h2, if_true, h3, ih]
    rfl

theorem splitAtBytes_some {t : List Char} {n : Nat} {a b : List Char}
    (h : splitAtBytes t n = some (a, b)) : t = a ++ b ∧ utf8Len a = n := by
  induction t generalizing n a b with
  | nil =>
    simp only [splitAtBytes] at h
    split at h
    · cases h; simp [utf8Len, *]
    · cases h
  | cons c t ih =>
    simp only [splitAtBytes] at h
    split at h
    · cases h; simp [utf8Len, *]
    · split at h
      · cases hr : splitAtBytes t (n - c.utf8Size) with
        | none => simp [hr] at h
        | some r =>
          obtain ⟨a', b'⟩ := r
          simp [hr] at h
          obtain ⟨rfl, rfl⟩ := h
          obtain ⟨h1, h2⟩ := ih hr
          subst h1
          simp [utf8Len, h2]; omega
      · cases h

theorem splitAtBytes_isSome_iff (t : List Char) (n : Nat) :
    (splitAtBytes t n).isSome ↔ ∃ a, a <+: t ∧ utf8Len a = n := by
  constructor
  · intro h
    cases hr : splitAtBytes t n with
    | none => simp [hr] at h
    | some r =>
      obtain ⟨a, b⟩ := r
      obtain ⟨h1, h2⟩ := splitAtBytes_some hr
      exact ⟨a, ⟨b, h1.symm⟩, h2⟩
  · rintro ⟨a, ⟨b, rfl⟩, rfl⟩
    simp [splitAtBytes_append]

theorem isCharBoundaryB_iff (t : List Char) (n : Nat) :
    isCharBoundaryB t n = true ↔ ∃ a, a <+: t ∧ utf8Len a = n := by
  induction t generalizing n with
  | nil =>
    simp only [isCharBoundaryB, beq_iff_eq]
    constructor
    · rintro rfl; exact ⟨[], List.prefix_refl _, rfl⟩
    · rintro ⟨a, ha, rfl⟩
      have : a = [] := List.prefix_nil.mp ha
      subst this; rfl
  | cons c t ih =>
    simp only [isCharBoundaryB, Bool.or_eq_true, beq_iff_eq, Bool.and_eq_true, decide_eq_true_eq, ih]
    constructor
    · rintro (rfl | ⟨hle, a, ha, hlen⟩)
      · exact ⟨[], List.nil_prefix, rfl⟩
      · refine ⟨c :: a, ?_, ?_⟩
        · obtain ⟨s, rfl⟩ := ha; exact ⟨s, rfl⟩
        · simp [utf8Len, hlen]; omega
    · rintro ⟨a, ha, rfl⟩
      cases a with
      | nil => left; rfl
      | cons d a =>
        right
        obtain ⟨s, hs⟩ := ha
        simp at hs
        obtain ⟨rfl, rfl⟩ := hs
        refine ⟨by simp [utf8Len], a, ⟨s, rfl⟩, by simp [utf8Len]⟩

/-! ### `lines()` -/

theorem stripSuffixChar_eq_some {ch : Char} : ∀ {l l' : List Char},
    stripSuffixChar ch l = some l' ↔ l = l' ++ [ch]
  | [], l' => by simp [stripSuffixChar]
  | [c], l' => by
    simp only [stripSuffixChar]
    constructor
    · intro h
      split at h
      · cases h; simp [*]
      · cases h
    · intro h
      cases l' with
      | nil => simp at h; simp [h]
      | cons d l' =>
        simp at h
  | c :: d :: ds, l' => by
    have ih := @stripSuffixChar_eq_some ch (d :: ds)
    simp only [stripSuffixChar, Option.map_eq_some_iff]
    cases l' with
    | nil => simp
    | cons e l'' =>
      simp only [List.cons_append, List.cons.injEq]
      constructor
      · rintro ⟨a, ha, rfl, rfl⟩
        exact ⟨rfl, ih.mp ha⟩
      · rintro ⟨rfl, h⟩
        exact ⟨l'', ih.mpr h, rfl, rfl⟩

/-- A piece is its line followed by the stripped terminator: nothing (then the piece has no
    final `\n`), `\n`, or `\r\n`. -/
theorem linesMap_spec (p : List Char) :
    (p = linesMap p ∧ stripSuffixChar '\n' p = none) ∨
    p = linesMap p ++ ['\n'] ∨ p = linesMap p ++ ['\r', '\n'] := by
  unfold linesMap
  split
  · left; simp [*]
  · rename_i l h1
    have e1 := stripSuffixChar_eq_some.mp h1
    split
    · right; left; exact e1
    · rename_i l' h2
      have e2 := stripSuffixChar_eq_some.mp h2
      right; right; subst e2; simpa using e1

theorem linesMap_prefix (p : List Char) : linesMap p <+: p := by
  rcases linesMap_spec p with h | h | h
  · rw [← h.1]; exact List.prefix_refl _
  · exact ⟨_, h.symm⟩
  · exact ⟨_, h.symm⟩

theorem splitInclusive_flatten (t : List Char) : (splitInclusive t).flatten = t := by
  induction t with
  | nil => rfl
  | cons c cs ih =>
    simp only [splitInclusive]
    split
    · simp [ih]
    · split
      · rename_i h; rw [h] at ih; simp at ih; simp [← ih]
      · rename_i p ps h; rw [h] at ih; simp at ih; simp [ih]

/-- Every piece that has a successor ends with `\n`. -/
def NonLastNl : List (List Char) → Prop
  | [] => True
  | [_] => True
  | p :: q :: r => (stripSuffixChar '\n' p).isSome ∧ NonLastNl (q :: r)

theorem stripSuffixChar_cons_isSome {ch c : Char} {p : List Char}
    (h : (stripSuffixChar ch p).isSome) : (stripSuffixChar ch (c :: p)).isSome := by
  cases p with
  | nil => simp [stripSuffixChar] at h
  | cons d ds => simp only [stripSuffixChar]; simpa using h

theorem splitInclusive_nonLastNl (t : List Char) : NonLastNl (splitInclusive t) := by
  induction t with
  | nil => trivial
  | cons c cs ih =>
    simp only [splitInclusive]
    split
    · rename_i hc
      cases h : splitInclusive cs with
      | nil => trivial
      | cons q r =>
        rw [h] at ih
        exact ⟨by simp [stripSuffixChar, hc], ih⟩
    · split
      · trivial
      · rename_i p ps h
        rw [h] at ih
        cases ps with
        | nil => trivial
        | cons q r => exact ⟨stripSuffixChar_cons_isSome ih.1, ih.2⟩

/-! ### the loop of `pos_to_offset` -/

theorem cr_size : utf8Len ['\r', '\n'] = 2 := by decide
theorem nl_size : utf8Len ['\n'] = 1 := by decide

/-- After consuming the first `n` lines the offset is the byte length of the first `n` pieces
    (current code): every `split_at` inside the loop succeeds. -/
theorem advance_spec (ps : List (List Char)) (hok : NonLastNl ps) :
    ∀ (pre : List Char) (n : Nat),
      advance true (pre ++ ps.flatten) ((ps.map linesMap).take n) (utf8Len pre)
        = some (utf8Len pre + utf8Len (ps.take n).flatten) := by
  induction ps with
  | nil => intro pre n; simp [advance, utf8Len]
  | cons p rest ih =>
    intro pre n
    cases n with
    | zero => simp [advance, utf8Len]
    | succ m =>
      have hrest : NonLastNl rest := by
        cases rest with
        | nil => trivial
        | cons q r => exact hok.2
      simp only [List.map_cons, List.take_succ_cons, advance, List.flatten_cons]
      have hsplit : ∀ term, p = linesMap p ++ term →
          splitAtBytes (pre ++ (p ++ rest.flatten)) (utf8Len pre + utf8Len (linesMap p))
            = some (pre ++ linesMap p, term ++ rest.flatten) := by
        intro term hp
        have : pre ++ (p ++ rest.flatten) = (pre ++ linesMap p) ++ (term ++ rest.flatten) := by
          conv => lhs; rw [hp]
          simp
        rw [this, ← utf8Len_append]
        exact splitAtBytes_append _ _
      have hnext : advance true (pre ++ (p ++ rest.flatten)) ((rest.map linesMap).take m)
            (utf8Len pre + utf8Len p)
          = some (utf8Len pre + (utf8Len p + utf8Len (rest.take m).flatten)) := by
        have := ih hrest (pre ++ p) m
        rw [utf8Len_append] at this
        simpa [Nat.add_assoc] using this
      rcases linesMap_spec p with ⟨hp, hnone⟩ | hp | hp
      · -- last piece, no terminator
        have hr : rest = [] := by
          cases rest with
          | nil => rfl
          | cons q r => have := hok.1; simp [hnone] at this
        subst hr
        have := hsplit [] (by simpa using hp)
        simp only [List.flatten_nil, List.append_nil] at this ⊢
        rw [this]
        simp [startsWith, advance, ← hp]
      · have := hsplit ['\n'] hp
        rw [this]
        have e : utf8Len pre + utf8Len (linesMap p) + 1 = utf8Len pre + utf8Len p := by
          conv => rhs; rw [hp, utf8Len_append, nl_size]
          omega
        simp only [List.cons_append, List.nil_append, startsWith]
        simp only [show ('\n' == '\r') = false by decide, Bool.false_and, Bool.false_eq_true,
          if_false, if_true, beq_self_eq_true, Bool.true_and, e]
        rw [hnext, utf8Len_append]
      · have := hsplit ['\r', '\n'] hp
        rw [this]
        have e : utf8Len pre + utf8Len (linesMap p) + 2 = utf8Len pre + utf8Len p := by
          conv => rhs; rw [hp, utf8Len_append, cr_size]
          omega
        simp only [List.cons_append, List.nil_append, startsWith, beq_self_eq_true, Bool.true_and,
          if_true, e]
        rw [hnext, utf8Len_append]

/-- Closed form of the current `pos_to_offset`: start of the addressed piece plus the byte length of
    the first `character` characters of its line (the whole line if it is shorter; nothing if the
    line does not exist). In particular it never panics. -/
theorem posToOffset_eq (input : List Char) (l c : Nat) :
    posToOffset true input l c =
      some (utf8Len ((splitInclusive input).take l).flatten +
            utf8Len ((((splitInclusive input)[l]?.map linesMap).getD []).take c)) := by
  have hadv := advance_spec (splitInclusive input) (splitInclusive_nonLastNl input) [] l
  simp only [List.nil_append, splitInclusive_flatten, utf8Len, Nat.zero_add] at hadv
  unfold posToOffset lines
  rw [hadv]
  simp only [List.getElem?_map]
  cases hp : (splitInclusive input)[l]? with
  | none => simp [utf8Len]
  | some p =>
    simp only [Option.map_some, Option.getD_some]
    by_cases he : (linesMap p).isEmpty = true
    · have : linesMap p = [] := by simpa using he
      simp [this, utf8Len]
    · simp only [he, Bool.false_eq_true, if_false, charIndexNth]
      by_cases hc : c < (linesMap p).length
      · simp [hc]
      · simp only [hc, if_false, if_true]
        rw [List.take_of_length_le (l := linesMap p) (by omega)]

theorem take_flatten_getElem (ps : List (List Char)) (l : Nat) (p : List Char)
    (h : ps[l]? = some p) : ((ps.take l).flatten ++ p) <+: ps.flatten := by
  induction ps generalizing l with
  | nil => simp at h
  | cons q qs ih =>
    cases l with
    | zero =>
      simp at h; subst h
      simp
    | succ m =>
      simp at h
      have := ih m h
      simp only [List.take_succ_cons, List.flatten_cons, List.append_assoc]
      exact (List.prefix_append_right_inj q).mpr this

theorem take_flatten_prefix (ps : List (List Char)) (l : Nat) :
    (ps.take l).flatten <+: ps.flatten := by
  conv => rhs; rw [← List.take_append_drop l ps]
  rw [List.flatten_append]
  exact List.prefix_append _ _

/-- The result of the current `pos_to_offset` is the byte length of a prefix of the text. -/
theorem posToOffset_prefix (input : List Char) (l c : Nat) :
    ∃ x, x <+: input ∧ posToOffset true input l c = some (utf8Len x) := by
  rw [posToOffset_eq]
  cases hp : (splitInclusive input)[l]? with
  | none =>
    refine ⟨((splitInclusive input).take l).flatten, ?_, by simp [utf8Len]⟩
    have := take_flatten_prefix (splitInclusive input) l
    rwa [splitInclusive_flatten] at this
  | some p =>
    refine ⟨((splitInclusive input).take l).flatten ++ (linesMap p).take c, ?_, ?_⟩
    · have h1 := take_flatten_getElem (splitInclusive input) l p hp
      rw [splitInclusive_flatten] at h1
      refine List.IsPrefix.trans ?_ h1
      refine (List.prefix_append_right_inj _).mpr ?_
      exact List.IsPrefix.trans (List.take_prefix _ _) (linesMap_prefix p)
    · simp [utf8Len_append]

/-! ### monotonicity -/

theorem utf8Len_take_le (x : List Char) (c c' : Nat) (h : c ≤ c') :
    utf8Len (x.take c) ≤ utf8Len (x.take c') := by
  apply utf8Len_le_of_prefix
  exact (List.take_prefix_take_left (by omega))

theorem start_mono (ps : List (List Char)) (l l' : Nat) (h : l ≤ l') :
    utf8Len (ps.take l).flatten ≤ utf8Len (ps.take l').flatten := by
  apply utf8Len_le_of_prefix
  obtain ⟨t, ht⟩ : ps.take l <+: ps.take l' := List.take_prefix_take_left (by omega)
  rw [← ht, List.flatten_append]
  exact List.prefix_append _ _

theorem start_succ (ps : List (List Char)) (l : Nat) (p : List Char) (h : ps[l]? = some p) :
    utf8Len (ps.take (l + 1)).flatten = utf8Len (ps.take l).flatten + utf8Len p := by
  induction ps generalizing l with
  | nil => simp at h
  | cons q qs ih =>
    cases l with
    | zero => simp at h; subst h; simp [utf8Len]
    | succ m =>
      simp at h
      have := ih m h
      simp only [List.take_succ_cons, List.flatten_cons, utf8Len_append, this]
      omega

/-- `pos_to_offset` is monotone in the position (lexicographic order). -/
theorem posToOffset_mono (input : List Char) (l c l' c' : Nat)
    (h : l < l' ∨ (l = l' ∧ c ≤ c')) {a b : Nat}
    (ha : posToOffset true input l c = some a) (hb : posToOffset true input l' c' = some b) :
    a ≤ b := by
  rw [posToOffset_eq] at ha hb
  cases ha; cases hb
  rcases h with h | ⟨rfl, h⟩
  · have h1 := start_mono (splitInclusive input) (l + 1) l' (by omega)
    have h2 : utf8Len ((splitInclusive input).take l).flatten +
        utf8Len ((((splitInclusive input)[l]?.map linesMap).getD []).take c)
        ≤ utf8Len ((splitInclusive input).take (l + 1)).flatten := by
      cases hp : (splitInclusive input)[l]? with
      | none =>
        simp [utf8Len]
        exact start_mono _ _ _ (by omega)
      | some p =>
        rw [start_succ _ _ _ hp]
        simp only [Option.map_some, Option.getD_some]
        have := utf8Len_le_of_prefix (List.IsPrefix.trans (List.take_prefix c _) (linesMap_prefix p))
        omega
    omega
  · have := utf8Len_take_le ((((splitInclusive input)[l]?.map linesMap).getD [])) c c' h
    omega

end ParolModel.LsUtils
