import ParolModel.Proofs.Terminals
/-! # L7 refinement: constructors, element access, tests, `push`, `extend`, `set`, `clear`, `of` -/
namespace ParolModel
namespace Tm

local macro "bvd" : tactic => `(tactic| bv_decide (config := {timeout := 1800}))

/-! ## a few more bit-level facts -/

theorem eps_and_maskS (b : BitVec 8) (hb : b ≤ 12) : 65535#128 &&& maskS b = maskS b := by
  unfold maskS; bvd
theorem maskS_ne_zero (b : BitVec 8) (h1 : 1 ≤ b) (hb : b ≤ 12) : maskS b ≠ 0#128 := by
  unfold maskS; bvd
theorem eltS_zero (b s : BitVec 8) : eltS 0#128 b s = 0#128 := by
  unfold eltS maskS; bvd
theorem zeroAbove_zero (s : BitVec 8) : zeroAbove 0#128 s := by
  unfold zeroAbove PAYLOAD; bvd
theorem and_maskS_self (t : BitVec 128) (b : BitVec 8) : eltS t b 0 = t &&& maskS b := by
  unfold eltS; bvd
theorem zeroAbove_mono (t : BitVec 128) (s s' : BitVec 8) (h : s ≤ s') (hz : zeroAbove t s) : zeroAbove t s' := by
  unfold zeroAbove PAYLOAD at *; bvd

theorem cases_le_12 (b : BitVec 8) (hb : b ≤ 12) :
    b = 0 ∨ b = 1 ∨ b = 2 ∨ b = 3 ∨ b = 4 ∨ b = 5 ∨ b = 6 ∨ b = 7 ∨ b = 8 ∨ b = 9 ∨ b = 10 ∨ b = 11 ∨ b = 12 := by
  bv_omega

theorem maskS_toNat (b : BitVec 8) (hb : b ≤ 12) : (maskS b).toNat = 2 ^ b.toNat - 1 := by
  rcases cases_le_12 b hb with h | h | h | h | h | h | h | h | h | h | h | h | h <;> subst h <;> decide

theorem pow_bits_le {b : Nat} (h : b ≤ 12) : 2 ^ b ≤ 4096 := by
  have : 2 ^ b ≤ 2 ^ 12 := Nat.pow_le_pow_right (by omega) h
  omega

/-! ## header-only changes -/

theorem setBits_eq (t : BitVec 128) (b : BitVec 8) (h1 : 1 ≤ b) (h : b ≤ 15) : setBits t b = some (setBitsRaw t b) := by
  have hb := bits_setBitsRaw t b h
  have hne : ¬ b = 0 := by bv_omega
  show (if bits (setBitsRaw t b) = 0 then none else some (setBitsRaw t b)) = _
  rw [hb, if_neg hne]

theorem incIndex_eq (t : BitVec 128) (h : len t < 10) : incIndex t = some (setNextIndex t (nextIndex t + 1)) := by
  have : (nextIndex t + 1).toNat ≤ MAX_K := by
    simp only [len] at h; rw [MAX_K_eq]; bv_omega
  show (if (nextIndex t + 1).toNat ≤ MAX_K then some (setNextIndex t (nextIndex t + 1)) else none) = _
  rw [if_pos this]

/-- a word whose header and zero boundary are known is well-formed -/
theorem wf_intro (t : BitVec 128) (b : BitVec 8) (n : Nat) (hb : bits t = b) (hn : nextIndex t = BitVec.ofNat 8 n)
    (h1 : 1 ≤ b) (h12 : b ≤ 12) (hn10 : n ≤ 10) (hz : zeroAbove t (BitVec.ofNat 8 (n * b.toNat))) :
    WF t ∧ len t = n := by
  have hl : len t = n := by simp only [len, hn, BitVec.toNat_ofNat]; omega
  refine ⟨wf_of_zeroAbove ?_ ?_ ?_ ?_, hl⟩
  · rw [hb]; bv_omega
  · rw [hb]; bv_omega
  · omega
  · rw [hl]; simp only [off, hb]; exact hz

/-! ## constructors -/

theorem log2_bound {m : Nat} (h : m + 1 < 4096) : Nat.log2 (m + 1) + 1 ≤ 12 := by
  have := (Nat.log2_lt (by omega : m + 1 ≠ 0)).2 (show m + 1 < 2 ^ 12 by omega)
  omega

theorem log2_bound' {m : Nat} (h : 4096 ≤ m + 1) : 12 < Nat.log2 (m + 1) + 1 := by
  have := (Nat.le_log2 (by omega : m + 1 ≠ 0)).2 (show 2 ^ 12 ≤ m + 1 by omega)
  omega

theorem bitsFor_bounds {m : Nat} (h : m + 1 < 4096) : 1 ≤ bitsFor m ∧ bitsFor m ≤ 12 := by
  have := log2_bound h; simp only [bitsFor]; omega

/-- the empty word of width `b` -/
def emptyW (b : BitVec 8) : BitVec 128 := setBitsRaw 0#128 b

theorem emptyW_spec (b : BitVec 8) (h1 : 1 ≤ b) (h12 : b ≤ 12) :
    WF (emptyW b) ∧ bits (emptyW b) = b ∧ len (emptyW b) = 0 ∧ abs (emptyW b) = [] := by
  have hb : bits (emptyW b) = b := bits_setBitsRaw _ _ (by bv_omega)
  have hn : nextIndex (emptyW b) = BitVec.ofNat 8 0 := by
    simp only [emptyW]; rw [nextIndex_setBitsRaw, nextIndex_zero]; rfl
  have hz : zeroAbove (emptyW b) (BitVec.ofNat 8 (0 * b.toNat)) := by
    show zeroAbove (setBitsRaw 0#128 b) _
    rw [zeroAbove_congr (payload_setBitsRaw 0#128 b)]; exact zeroAbove_zero _
  obtain ⟨hw, hl⟩ := wf_intro _ b 0 hb hn h1 h12 (by omega) hz
  refine ⟨hw, hb, hl, ?_⟩
  simp [abs, hl]

theorem new_eq {m : Nat} (h : m + 1 < 4096) : new m = some (emptyW (BitVec.ofNat 8 (bitsFor m))) := by
  have hb := bitsFor_bounds h
  have h64 : ¬ (m + 1 ≥ 2 ^ 64) := by omega
  unfold new
  simp only [h64, if_false]
  have : ¬ (Nat.log2 (m + 1) + 1 > MAX_BITS) := by rw [MAX_BITS_eq]; simp only [bitsFor] at hb; omega
  simp only [this, if_false]
  exact setBits_eq _ _ (by simp only [bitsFor] at hb; bv_omega) (by simp only [bitsFor] at hb; bv_omega)

theorem new_none {m : Nat} (h : 4096 ≤ m + 1) : new m = none := by
  unfold new
  by_cases h64 : m + 1 ≥ 2 ^ 64
  · simp [h64]
  · have : Nat.log2 (m + 1) + 1 > MAX_BITS := by rw [MAX_BITS_eq]; have := log2_bound' h; omega
    simp [h64, this]

theorem ofNat8_bitsFor {m : Nat} (h : m + 1 < 4096) :
    1 ≤ BitVec.ofNat 8 (bitsFor m) ∧ BitVec.ofNat 8 (bitsFor m) ≤ 12 ∧ (BitVec.ofNat 8 (bitsFor m)).toNat = bitsFor m := by
  have hb := bitsFor_bounds h
  refine ⟨by bv_omega, by bv_omega, ?_⟩
  simp only [BitVec.toNat_ofNat]; omega

/-! ## element access -/

theorem rawGet_lt {t : BitVec 128} (h : WF t) {i : Nat} (hi : i ≤ 10) : (rawGet t i).toNat < 4096 := by
  rw [rawGet_eq h hi]
  have h1 := eltS_le_mask t (bits t) (off t i)
  have h2 := maskS_lt (bits t) (bits_le12 h)
  bv_omega

theorem decode_eq_code (m v : BitVec 128) (hv : v.toNat < 65536) : decode m v = (symOfRaw m v).code := by
  unfold decode symOfRaw
  split <;> simp [TSym.code, Nat.mod_eq_of_lt hv]

theorem get_spec {t : BitVec 128} (h : WF t) (i : Nat) : get t i = some (specGet (abs t) i) := by
  unfold get specGet
  rw [abs_getElem?]
  by_cases hi : i < len t
  · have hi10 : i ≤ 10 := by have := h.len_le; omega
    have := mul_le_120 h hi10
    have hs : shr? t (i * (bits t).toNat) = some (t >>> (i * (bits t).toNat)) := by
      simp only [shr?]; rw [if_pos (by omega)]
    simp only [hi, if_true, hs, Option.map_some]
    have : (t >>> (i * (bits t).toNat)) &&& mask t = rawGet t i := rfl
    rw [this, decode_eq_code _ _ (by have := rawGet_lt h hi10; omega)]
    rfl
  · simp [hi]

theorem last_spec {t : BitVec 128} (h : WF t) : last t = some ((abs t).getLast?.map TSym.code) := by
  unfold last
  by_cases he : len t = 0
  · have : isEmpty t = true := (isEmpty_iff t).2 he
    have hnil : abs t = [] := by apply List.eq_nil_of_length_eq_zero; simp [he]
    simp [this, hnil]
  · have : isEmpty t = false := by
      cases hh : isEmpty t
      · rfl
      · exact absurd ((isEmpty_iff t).1 hh) he
    simp only [this, Bool.false_eq_true, if_false, he]
    rw [get_spec h, specGet, List.getLast?_eq_getElem?, abs_length]

theorem code_eq_EOI (s : TSym) : (s.code = EOI) ↔ s = .term EOI := by
  cases s <;> simp [TSym.code, EOI, EPS]

theorem last_is_end {t : BitVec 128} (h : WF t) :
    last t = some ((abs t).getLast?.map TSym.code) ∧
    (((abs t).getLast?.map TSym.code == some EOI) = ((abs t).getLast? == some (.term EOI))) := by
  refine ⟨last_spec h, ?_⟩
  cases hl : (abs t).getLast? with
  | none => rfl
  | some s =>
    simp only [Option.map_some]
    rw [Bool.eq_iff_iff]
    simp only [beq_iff_eq, Option.some.injEq]
    exact code_eq_EOI s

theorem isEps_spec {t : BitVec 128} (_h : WF t) : isEps t = specIsEps (abs t) := by
  unfold isEps specIsEps
  by_cases h1 : len t = 1
  · have hn : nextIndex t = 1 := by simp only [len] at h1; bv_omega
    have habs : abs t = [symAt t 0] := by simp [abs_def, h1, List.range_succ]
    have hraw : rawGet t 0 = t &&& mask t := by simp [rawGet]
    rw [habs]
    simp only [hn, bne_self_eq_false, Bool.false_eq_true, if_false, symAt, hraw, symOfRaw]
    rw [Bool.eq_iff_iff]
    by_cases hm : t &&& mask t = mask t <;> simp [hm]
  · have hn : (nextIndex t != 1) = true := by
      simp only [bne_iff_ne, ne_eq]; intro hh; apply h1; simp [len, hh]
    have : ¬ abs t = [TSym.eps] := by
      intro hh; apply h1; rw [← abs_length, hh]; rfl
    rw [if_pos hn]
    symm; simpa using this

theorem isKComplete_spec {t : BitVec 128} (h : WF t) (k : Nat) : isKComplete t k = some (specIsKComplete (abs t) k) := by
  unfold isKComplete specIsKComplete
  rw [isEps_spec h]
  unfold specIsEps
  by_cases he : (abs t == [TSym.eps]) = true
  · simp [he]
  · have he' : (abs t == [TSym.eps]) = false := by simpa using he
    simp only [he', Bool.false_eq_true, if_false, Bool.not_false, Bool.true_and, abs_length]
    by_cases hk : len t ≥ k
    · simp [hk]
    · obtain ⟨hl, hc⟩ := last_is_end h
      simp only [hk, if_false, hl, hc, decide_false, Bool.false_or]

theorem kLen_spec (t : BitVec 128) (k : Nat) : kLen t k = specKLen (abs t) k := by simp [kLen, specKLen]

/-! ## `clear` -/

theorem clear_spec {t : BitVec 128} (h : WF t) :
    ∃ t', clear t = some t' ∧ WF t' ∧ bits t' = bits t ∧ abs t' = [] := by
  refine ⟨emptyW (bits t), setBits_eq _ _ (bits_ge1 h) (by have := bits_le12 h; bv_omega), ?_⟩
  have := emptyW_spec (bits t) (bits_ge1 h) (bits_le12 h)
  exact ⟨this.1, this.2.1, this.2.2.2⟩

/-! ## `set`, `push`, `extend` -/

theorem validArg_cases {b v : Nat} (h : validArg b v = true) : v = EPS ∨ v + 1 < 2 ^ b := by
  simpa [validArg] using h

theorem sym_stored (b : BitVec 8) (hb : b ≤ 12) (v : Nat) (hv : validArg b.toNat v = true) :
    symOfRaw (maskS b) (BitVec.ofNat 128 v &&& maskS b) = symOfArg v := by
  have hp := pow_bits_le (show b.toNat ≤ 12 by bv_omega)
  rcases validArg_cases hv with h | h
  · subst h
    have : BitVec.ofNat 128 EPS = 65535#128 := rfl
    rw [this, eps_and_maskS b hb]
    simp [symOfRaw, symOfArg]
  · have hm := maskS_toNat b hb
    have hand : (BitVec.ofNat 128 v &&& maskS b).toNat = v := by
      rw [BitVec.toNat_and, hm, Nat.and_two_pow_sub_one_eq_mod, BitVec.toNat_ofNat]
      rw [Nat.mod_eq_of_lt (show v < 2 ^ 128 by omega), Nat.mod_eq_of_lt (by omega)]
    have hne : BitVec.ofNat 128 v &&& maskS b ≠ maskS b := by
      intro hh; have := congrArg BitVec.toNat hh; rw [hand, hm] at this; omega
    have hv' : v ≠ EPS := by simp only [EPS]; omega
    simp [symOfRaw, symOfArg, hne, hand, hv']

theorem set_eq {t : BitVec 128} (h : WF t) {i v : Nat} (hi : i < 10) (hv : validArg (bits t).toNat v = true) :
    set t i v = some (setS t (bits t) (off t i) (BitVec.ofNat 128 v)) := by
  have hb := h.bits_le
  have hp := pow_bits_le hb
  have hm := maskS_toNat (bits t) (bits_le12 h)
  have h120 := mul_le_120 h (show i ≤ 10 by omega)
  have c1 : (!(decide (v ≤ (mask t).toNat % 65536) || v == EPS)) = false := by
    rw [mask_eq, hm]
    rcases validArg_cases hv with hh | hh
    · simp [hh]
    · have : v ≤ (2 ^ (bits t).toNat - 1) % 65536 := by rw [Nat.mod_eq_of_lt (by omega)]; omega
      simp [this]
  have c2 : (v == INVALID) = false := by
    rcases validArg_cases hv with hh | hh
    · simp [hh, EPS, INVALID]
    · simp only [INVALID]; have : v ≠ 65534 := by omega
      simpa using this
  have h128 : i * (bits t).toNat < 128 := by omega
  unfold set
  simp only [c1, c2, Bool.false_eq_true, if_false, shl?, if_pos h128]
  simp only [setS, off, mask_eq]
  rw [shl_nat _ _ (by omega), shl_nat _ _ (by omega)]

/-- fields of a word after `set` at position `i` followed by a header change -/
theorem set_fields {t : BitVec 128} (h : WF t) {i : Nat} (hi : i < 10) (w : BitVec 128) :
    let t' := setS t (bits t) (off t i) w
    bits t' = bits t ∧ nextIndex t' = nextIndex t ∧
    eltS t' (bits t) (off t i) = w &&& maskS (bits t) ∧
    ∀ j, j < 10 → j ≠ i → eltS t' (bits t) (off t j) = eltS t (bits t) (off t j) := by
  have hb := bits_le12 h
  have hs := off_le_108 h hi
  have hsb := off_add_bits_le_120 h hi
  refine ⟨bits_setS _ _ _ _ hb hs hsb, nextIndex_setS _ _ _ _ hb hs hsb, eltS_setS_same _ _ _ _ hb hs, ?_⟩
  intro j hj hne
  apply eltS_setS_other _ _ _ _ _ hb hs (off_le_108 h hj)
  rcases Nat.lt_or_gt_of_ne hne with hlt | hgt
  · right; exact off_add_bits_le h hlt (by omega)
  · left; exact off_add_bits_le h hgt (by omega)

theorem specPush_full {l : List TSym} (x : TSym) (h : l.length ≥ 10) : specPush l x = (false, l) := by
  have : l.length ≥ MAX_K := by rw [MAX_K_eq]; exact h
  simp [specPush, this]
theorem specPush_end {l : List TSym} (x : TSym) (h : l.length < 10) (he : (l.getLast? == some (TSym.term EOI)) = true) :
    specPush l x = (true, l) := by
  have : ¬ l.length ≥ MAX_K := by rw [MAX_K_eq]; omega
  simp only [specPush, this, if_false, he, if_true]
theorem specPush_append {l : List TSym} (x : TSym) (h : l.length < 10) (he : (l.getLast? == some (TSym.term EOI)) = false) :
    specPush l x = (true, l ++ [x]) := by
  have : ¬ l.length ≥ MAX_K := by rw [MAX_K_eq]; omega
  simp only [specPush, this, if_false, he, Bool.false_eq_true]

theorem push_spec {t : BitVec 128} (h : WF t) {v : Nat} (hv : validArg (bits t).toNat v = true) :
    ∃ r t', push t v = some (r, t') ∧ WF t' ∧ bits t' = bits t ∧ specPush (abs t) (symOfArg v) = (r, abs t') := by
  by_cases hfull : len t ≥ 10
  · have : len t ≥ MAX_K := by rw [MAX_K_eq]; exact hfull
    exact ⟨false, t, by simp [push, this], h, rfl, specPush_full _ (by simpa using hfull)⟩
  · obtain ⟨hl, hc⟩ := last_is_end h
    have hfull' : ¬ len t ≥ MAX_K := by rw [MAX_K_eq]; exact hfull
    by_cases hend : ((abs t).getLast? == some (TSym.term EOI)) = true
    · refine ⟨true, t, ?_, h, rfl, specPush_end _ (by simpa using hfull) hend⟩
      unfold push
      simp only [hfull', if_false, hl, hc, hend, if_true]
    · have hend' : ((abs t).getLast? == some (TSym.term EOI)) = false := by simpa using hend
      have hn : len t < 10 := by omega
      have hinv : (v == INVALID) = false := by
        rcases validArg_cases hv with hh | hh
        · simp [hh, EPS, INVALID]
        · have hp := pow_bits_le h.bits_le
          have : v ≠ 65534 := by omega
          simpa [INVALID] using this
      obtain ⟨f1, f2, f3, f4⟩ := set_fields h hn (BitVec.ofNat 128 v)
      let t1 := setS t (bits t) (off t (len t)) (BitVec.ofNat 128 v)
      have hlen1 : len t1 = len t := congrArg BitVec.toNat f2
      have hinc : incIndex t1 = some (setNextIndex t1 (nextIndex t1 + 1)) := incIndex_eq t1 (by omega)
      let t2 := setNextIndex t1 (nextIndex t1 + 1)
      have hidx : nextIndex t1 + 1 ≤ 15 := by
        have : (nextIndex t1).toNat = len t := hlen1
        bv_omega
      have hb2 : bits t2 = bits t := by
        show bits (setNextIndex t1 _) = _
        rw [bits_setNextIndex _ _ hidx]; exact f1
      have hn2 : nextIndex t2 = BitVec.ofNat 8 (len t + 1) := by
        show nextIndex (setNextIndex t1 _) = _
        rw [nextIndex_setNextIndex _ _ hidx]
        have : (nextIndex t1).toNat = len t := hlen1
        bv_omega
      have hpay : t2 &&& PAYLOAD = t1 &&& PAYLOAD := payload_setNextIndex _ _
      have hz2 : zeroAbove t2 (BitVec.ofNat 8 ((len t + 1) * (bits t).toNat)) := by
        rw [zeroAbove_congr hpay]
        have := zeroAbove_setS_push t (bits t) (off t (len t)) (BitVec.ofNat 128 v) (bits_le12 h)
          (off_le_108 h hn) (off_add_bits_le_120 h hn) (wf_zeroAbove h)
        rw [← off_succ] at this
        exact this
      obtain ⟨hw2, hl2⟩ := wf_intro t2 (bits t) (len t + 1) hb2 hn2 (bits_ge1 h) (bits_le12 h) (by omega) hz2
      refine ⟨true, t2, ?_, hw2, hb2, ?_⟩
      · unfold push
        simp only [hfull', if_false, hl, hc, hend', Bool.false_eq_true, hinv, set_eq h hn hv]
        show (match incIndex t1 with | none => none | some t2 => some (true, t2)) = _
        rw [hinc]
      · rw [specPush_append _ (by simpa using hn) hend']
        congr 1
        symm
        apply abs_eq_of
        · simp [hl2]
        · intro i hi
          simp only [List.length_append, abs_length, List.length_singleton] at hi
          have hoff : ∀ j, off t2 j = off t j := fun j => off_congr hb2 j
          by_cases hlt : i < len t
          · rw [List.getElem_append_left (by simpa using hlt), abs_getElem]
            apply symAt_congr hw2 h (by omega) (by omega) hb2
            rw [hb2, hoff]
            rw [eltS_congr hpay _ _ (bits_le12 h) (off_le_108 h (by omega)) (off_add_bits_le_120 h (by omega))]
            exact f4 i (by omega) (by omega)
          · have hieq : i = len t := by omega
            subst hieq
            rw [List.getElem_append_right (by simp)]
            simp only [abs_length, Nat.sub_self, List.getElem_cons_zero]
            rw [symAt_eq hw2 (by omega), hb2, hoff]
            rw [eltS_congr hpay _ _ (bits_le12 h) (off_le_108 h hn) (off_add_bits_le_120 h hn), f3]
            exact sym_stored _ (bits_le12 h) _ hv

theorem extend_spec {t : BitVec 128} (h : WF t) (vs : List Nat) (hv : vs.all (validArg (bits t).toNat) = true) :
    ∃ t', extend t vs = some t' ∧ WF t' ∧ bits t' = bits t ∧ abs t' = specExtend (abs t) (vs.map symOfArg) := by
  induction vs generalizing t with
  | nil => exact ⟨t, rfl, h, rfl, rfl⟩
  | cons v vs ih =>
    simp only [List.all_cons, Bool.and_eq_true] at hv
    obtain ⟨r, t1, hp, hw1, hb1, hs1⟩ := push_spec h hv.1
    obtain ⟨t2, he, hw2, hb2, ha2⟩ := ih hw1 (by rw [hb1]; exact hv.2)
    refine ⟨t2, ?_, hw2, by rw [hb2, hb1], ?_⟩
    · simp only [extend, hp]; exact he
    · simp only [List.map_cons, specExtend, hs1]; exact ha2

theorem set_spec {t : BitVec 128} (h : WF t) {i v : Nat} (hi : i < len t) (hv : validArg (bits t).toNat v = true) :
    ∃ t', set t i v = some t' ∧ WF t' ∧ bits t' = bits t ∧ abs t' = (abs t).set i (symOfArg v) := by
  have hlen := h.len_le
  have hi10 : i < 10 := by omega
  obtain ⟨f1, f2, f3, f4⟩ := set_fields h hi10 (BitVec.ofNat 128 v)
  let t1 := setS t (bits t) (off t i) (BitVec.ofNat 128 v)
  have hl1 : len t1 = len t := by simp only [len, t1, f2]
  have hz : zeroAbove t1 (off t1 (len t1)) := by
    rw [hl1, off_congr (show bits t1 = bits t from f1)]
    exact zeroAbove_setS_inside t (bits t) (off t i) (off t (len t)) _ (bits_le12 h) (off_le_108 h hi10)
      (off_le_120 h hlen) (off_add_bits_le h hi hlen) (wf_zeroAbove h)
  have hw1 : WF t1 := wf_of_zeroAbove (by rw [f1]; exact h.bits_pos) (by rw [f1]; exact h.bits_le) (by omega) hz
  refine ⟨t1, set_eq h hi10 hv, hw1, f1, ?_⟩
  apply abs_eq_of
  · simp [hl1]
  · intro j hj
    simp only [List.length_set, abs_length] at hj
    rw [List.getElem_set]
    have hoff : ∀ j, off t1 j = off t j := fun j => off_congr f1 j
    by_cases hji : i = j
    · subst hji
      simp only [if_true]
      rw [symAt_eq hw1 (by omega), f1, hoff, f3]
      exact sym_stored _ (bits_le12 h) _ hv
    · simp only [hji, if_false]
      rw [abs_getElem]
      apply symAt_congr hw1 h (by omega) (by omega) f1
      rw [f1, hoff]
      exact f4 j (by omega) (fun hh => hji hh.symm)

end Tm
end ParolModel
