import ParolModel.Model.LaBuild
import ParolModel.Proofs.LaDfa
/-! Proofs about the generator-side model of the lookahead automata (C07). -/
namespace ParolModel

end ParolModel
