import ParolModel.Model.LaBuild
import ParolModel.Proofs.LaDfa
/-! Proofs about the generator-side model of the lookahead automata (C07), part 1:
tries (`from_k_tuples`), the `k` field, the conversion `compileRaw`. -/
namespace ParolModel

/-! ### Reference run on a `LookaheadDFA` and its relation to `runRef` on the compiled form -/

/-- State reached from `s` over `w` (none if stuck). -/
def runL (d : LDfa) : Nat → List Nat → Option Nat
  | s, [] => some s
  | s, t :: ts =>
    match lkp d.trans s t with
    | some s' => runL d s' ts
    | none => none

theorem runL_append (d : LDfa) : ∀ (u v : List Nat) (s : Nat),
    runL d s (u ++ v) = (runL d s u).bind (fun s' => runL d s' v) := by
  intro u
  induction u with
  | nil => intro v s; simp [runL]
  | cons t ts ih =>
    intro v s
    simp only [List.cons_append, runL]
    cases lkp d.trans s t with
    | none => simp
    | some s' => simpa using ih v s'

def accOf (a : Int) : Option Int := if a > -1 then some a else none

theorem stepRef_compileRaw (d : LDfa) (s t : Nat) :
    stepRef (compileRaw d) s t =
      (d.trans.find? (fun e => e.src = s ∧ e.term = t)).map
        (fun e => (⟨e.src, e.term, e.dst, annot d.prods e.dst⟩ : Trans)) := by
  simp only [stepRef, compileRaw, List.find?_map]
  rfl

theorem runRef_compileRaw (d : LDfa) : ∀ (w : List Nat) (s : Nat),
    runRef (compileRaw d) s (annot d.prods s) w =
      (runL d s w).bind (fun s' => accOf (annot d.prods s')) := by
  intro w
  induction w with
  | nil => intro s; simp [runRef, runL, accOf]
  | cons t ts ih =>
    intro s
    simp only [runRef, runL, stepRef_compileRaw, lkp]
    cases h : d.trans.find? (fun e => e.src = s ∧ e.term = t) with
    | none => simp
    | some e => simpa using ih e.dst

theorem compileRaw_prod0 (d : LDfa) : (compileRaw d).prod0 = annot d.prods 0 := rfl

/-! ### Sorted insertion -/

theorem mem_insertEdge (e x : Edge) : ∀ l : List Edge, x ∈ insertEdge e l ↔ x = e ∨ x ∈ l := by
  intro l
  induction l with
  | nil => simp [insertEdge]
  | cons y ys ih =>
    simp only [insertEdge]
    split
    · simp
    · simp only [List.mem_cons, ih]
      constructor
      · rintro (h | h | h) <;> simp [h]
      · rintro (h | h | h) <;> simp [h]

theorem find_insertEdge (e : Edge) (s t : Nat) : ∀ l : List Edge,
    l.find? (fun x => x.src = e.src ∧ x.term = e.term) = none →
    (insertEdge e l).find? (fun x => x.src = s ∧ x.term = t) =
      if e.src = s ∧ e.term = t then some e else l.find? (fun x => x.src = s ∧ x.term = t) := by
  intro l
  induction l with
  | nil => intro _; simp [insertEdge, List.find?]
  | cons y ys ih =>
    intro hn
    simp only [List.find?_cons] at hn
    split at hn
    · cases hn
    · rename_i hy
      simp only [insertEdge]
      split
      · simp only [List.find?_cons]
        by_cases he : e.src = s ∧ e.term = t
        · simp [he]
        · simp [he]
      · simp only [List.find?_cons, ih hn]
        by_cases hy2 : y.src = s ∧ y.term = t
        · have : ¬ (e.src = s ∧ e.term = t) := by
            intro he
            simp only [decide_eq_false_iff_not] at hy
            exact hy ⟨hy2.1.trans he.1.symm, hy2.2.trans he.2.symm⟩
          simp [hy2, this]
        · simp [hy2]

theorem lkp_insertEdge (e : Edge) (s t : Nat) (l : List Edge) (h : lkp l e.src e.term = none) :
    lkp (insertEdge e l) s t = if e.src = s ∧ e.term = t then some e.dst else lkp l s t := by
  unfold lkp at *
  have hn : l.find? (fun x => x.src = e.src ∧ x.term = e.term) = none := by
    cases hf : l.find? (fun x => x.src = e.src ∧ x.term = e.term) with
    | none => rfl
    | some x => rw [hf] at h; cases h
  rw [find_insertEdge e s t l hn]
  split <;> simp

theorem lkp_some_mem {l : List Edge} {s t dst : Nat} (h : lkp l s t = some dst) :
    (⟨s, t, dst⟩ : Edge) ∈ l := by
  unfold lkp at h
  cases hf : l.find? (fun e => e.src = s ∧ e.term = t) with
  | none => rw [hf] at h; cases h
  | some e =>
    rw [hf] at h
    simp only [Option.map_some, Option.some.injEq] at h
    have hm := List.mem_of_find?_eq_some hf
    have hp := List.find?_some hf
    simp only [decide_eq_true_eq] at hp
    have : e = ⟨s, t, dst⟩ := by
      cases e; simp_all
    exact this ▸ hm

/-! ### The trie invariant

`label s` is the word that leads from state 0 to state `s`; `M w` is the production annotation of
the state with label `w` (−1: not accepting, also for words without a state). -/

structure TrieInv (d : LDfa) (label : Nat → List Nat) (M : List Nat → Int) : Prop where
  pos : 0 < d.prods.length
  label0 : label 0 = []
  edge : ∀ e ∈ d.trans, e.src < d.prods.length ∧ e.dst < d.prods.length ∧ label e.dst = label e.src ++ [e.term]
  reach : ∀ s, s < d.prods.length → runL d 0 (label s) = some s
  prods : ∀ s, s < d.prods.length → d.prods[s]? = some (M (label s))
  supp : ∀ w, M w ≠ -1 → ∃ s, s < d.prods.length ∧ label s = w

theorem TrieInv.run_label {d : LDfa} {label : Nat → List Nat} {M : List Nat → Int} (h : TrieInv d label M) :
    ∀ (w : List Nat) (s0 s : Nat), s0 < d.prods.length → runL d s0 w = some s →
      s < d.prods.length ∧ label s = label s0 ++ w := by
  intro w
  induction w with
  | nil =>
    intro s0 s hs0 hr
    simp only [runL, Option.some.injEq] at hr
    subst hr
    simp [hs0]
  | cons t ts ih =>
    intro s0 s hs0 hr
    simp only [runL] at hr
    cases hl : lkp d.trans s0 t with
    | none => simp [hl] at hr
    | some s1 =>
      simp only [hl] at hr
      obtain ⟨_, h2, h3⟩ := h.edge _ (lkp_some_mem hl)
      obtain ⟨h4, h5⟩ := ih s1 s h2 hr
      refine ⟨h4, ?_⟩
      rw [h5, h3]
      simp

theorem TrieInv.run0 {d : LDfa} {label : Nat → List Nat} {M : List Nat → Int} (h : TrieInv d label M)
    {w : List Nat} {s : Nat} (hr : runL d 0 w = some s) : s < d.prods.length ∧ label s = w := by
  have := h.run_label w 0 s h.pos hr
  simpa [h.label0] using this

theorem TrieInv.label_inj {d : LDfa} {label : Nat → List Nat} {M : List Nat → Int} (h : TrieInv d label M)
    {s s' : Nat} (hs : s < d.prods.length) (hs' : s' < d.prods.length) (he : label s = label s') : s = s' := by
  have h1 := h.reach s hs
  have h2 := h.reach s' hs'
  rw [he] at h1
  rw [h1] at h2
  exact Option.some.inj h2

/-- What the compiled (not yet minimised) trie predicts: exactly the annotation function `M`. -/
theorem TrieInv.runRef_eq {d : LDfa} {label : Nat → List Nat} {M : List Nat → Int} (h : TrieInv d label M)
    (hM : ∀ w, -1 ≤ M w) (w : List Nat) :
    runRef (compileRaw d) 0 (compileRaw d).prod0 w = accOf (M w) := by
  rw [compileRaw_prod0, runRef_compileRaw]
  cases hr : runL d 0 w with
  | some s =>
    obtain ⟨hs, hl⟩ := h.run0 hr
    have hp := h.prods s hs
    simp only [Option.bind_some, annot, hp, hl]
    have := hM w
    by_cases h0 : M w ≥ 0
    · simp [h0]
    · have : M w = -1 := by omega
      simp [this, accOf]
  | none =>
    simp only [Option.bind_none]
    by_cases hm : M w = -1
    · simp [hm, accOf]
    · obtain ⟨s, hs, hl⟩ := h.supp w hm
      have := h.reach s hs
      rw [hl, hr] at this
      cases this

/-! ### `add_transition`, the walk along a tuple, marking -/

theorem runL_mono_add {d : LDfa} {src term : Nat} (hn : lkp d.trans src term = none) (dst : Nat) :
    ∀ (w : List Nat) (s s' : Nat), runL d s w = some s' →
      runL { d with prods := d.prods ++ [-1], trans := insertEdge ⟨src, term, dst⟩ d.trans } s w = some s' := by
  intro w
  induction w with
  | nil => intro s s' h; simpa [runL] using h
  | cons t ts ih =>
    intro s s' h
    simp only [runL] at h ⊢
    rw [lkp_insertEdge ⟨src, term, dst⟩ s t d.trans hn]
    cases hl : lkp d.trans s t with
    | none => simp [hl] at h
    | some s1 =>
      simp only [hl] at h
      have hne : ¬ (src = s ∧ term = t) := by
        rintro ⟨rfl, rfl⟩
        rw [hn] at hl
        cases hl
      simp only [hne, if_false]
      exact ih s1 s' h

theorem addTransition_some {d : LDfa} {src term dst : Nat} (hl : lkp d.trans src term = some dst) :
    addTransition d src term = (d, dst) := by
  simp [addTransition, hl]

theorem addTransition_none {d : LDfa} {src term : Nat} (hl : lkp d.trans src term = none) :
    addTransition d src term =
      ({ d with prods := d.prods ++ [-1], trans := insertEdge ⟨src, term, d.prods.length⟩ d.trans }, d.prods.length) := by
  simp [addTransition, hl]

theorem addTransition_inv {d : LDfa} {label : Nat → List Nat} {M : List Nat → Int}
    (h : TrieInv d label M) {src : Nat} (hs : src < d.prods.length) (term : Nat) :
    ∃ label', TrieInv (addTransition d src term).1 label' M ∧
      (addTransition d src term).2 < (addTransition d src term).1.prods.length ∧
      label' (addTransition d src term).2 = label src ++ [term] ∧
      (∀ s, s < d.prods.length → label' s = label s) ∧
      d.prods.length ≤ (addTransition d src term).1.prods.length ∧
      (addTransition d src term).1.k = d.k ∧
      (∀ s, d.prods.length ≤ s → s < (addTransition d src term).1.prods.length → label' s = label src ++ [term]) := by
  cases hl : lkp d.trans src term with
  | some dst =>
    rw [addTransition_some hl]
    obtain ⟨_, h2, h3⟩ := h.edge _ (lkp_some_mem hl)
    exact ⟨label, h, h2, h3, fun _ _ => rfl, Nat.le_refl _, rfl, fun s h1 h2 => absurd h2 (by simp only; omega)⟩
  | none =>
    rw [addTransition_none hl]
    obtain ⟨n, hn⟩ : ∃ n, n = d.prods.length := ⟨_, rfl⟩
    obtain ⟨w', hw'⟩ : ∃ w', w' = label src ++ [term] := ⟨_, rfl⟩
    obtain ⟨label', hlabel'⟩ : ∃ f : Nat → List Nat, f = fun s => if s = n then w' else label s := ⟨_, rfl⟩
    rw [← hn] at hs ⊢
    have hpos : 0 < n := hn ▸ h.pos
    have hold : ∀ s, s < n → label' s = label s := by
      intro s hs'
      have : s ≠ n := by omega
      simp [hlabel', this]
    have hnew : label' n = w' := by simp [hlabel']
    -- the new word has no state yet
    have hfresh : ∀ s, s < n → label s ≠ w' := by
      intro s hs' he
      have hr := h.reach s (hn ▸ hs')
      rw [he, hw', runL_append] at hr
      rw [h.reach src (hn ▸ hs)] at hr
      simp [runL, hl] at hr
    have hlen : (d.prods ++ [(-1 : Int)]).length = n + 1 := by simp [hn]
    refine ⟨label', ?_, by simp only [hlen]; omega, by simp only [hnew, hw'], hold, by simp only [hlen]; omega, rfl, ?_⟩
    rotate_left
    · intro s h1 h2
      simp only [hlen] at h2
      have : s = n := by omega
      subst this
      simp only [hnew, hw']
    refine ⟨by simp only [hlen]; omega, ?_, ?_, ?_, ?_, ?_⟩
    · rw [hold 0 hpos]; exact h.label0
    · intro e he
      simp only [hlen]
      rcases (mem_insertEdge _ _ _).1 he with rfl | he
      · refine ⟨by simp only []; omega, by simp only []; omega, ?_⟩
        simp only [hnew, hold src hs, hw']
      · obtain ⟨h1, h2, h3⟩ := h.edge e he
        rw [← hn] at h1 h2
        refine ⟨by omega, by omega, ?_⟩
        rw [hold _ h1, hold _ h2]; exact h3
    · intro s hs'
      simp only [hlen] at hs'
      by_cases hsn : s = n
      · subst hsn
        rw [hnew, hw', runL_append]
        have := runL_mono_add hl s (label src) 0 src (h.reach src (hn ▸ hs))
        rw [this]
        simp only [Option.bind_some, runL]
        rw [lkp_insertEdge ⟨src, term, s⟩ src term d.trans hl]
        simp
      · have hlt : s < n := by omega
        rw [hold s hlt]
        exact runL_mono_add hl n (label s) 0 s (h.reach s (hn ▸ hlt))
    · intro s hs'
      simp only [hlen] at hs'
      by_cases hsn : s = n
      · subst hsn
        rw [hnew]
        have hm : M w' = -1 := by
          by_cases hm : M w' = -1
          · exact hm
          · obtain ⟨s', hs2, he⟩ := h.supp w' hm
            exact absurd he (hfresh s' (hn ▸ hs2))
        simp [hm, hn]
      · have hlt : s < n := by omega
        rw [hold s hlt, List.getElem?_append_left (hn ▸ hlt)]
        exact h.prods s (hn ▸ hlt)
    · intro w hw
      obtain ⟨s, hs2, he⟩ := h.supp w hw
      rw [← hn] at hs2
      exact ⟨s, by simp only [hlen]; omega, by rw [hold s hs2]; exact he⟩

theorem addPath_inv : ∀ (ts : List Nat) {d : LDfa} {label : Nat → List Nat} {M : List Nat → Int},
    TrieInv d label M → ∀ {cur : Nat}, cur < d.prods.length →
    ∃ label', TrieInv (addPath d cur ts).1 label' M ∧
      (addPath d cur ts).2 < (addPath d cur ts).1.prods.length ∧
      label' (addPath d cur ts).2 = label cur ++ ts ∧
      (∀ s, s < d.prods.length → label' s = label s) ∧
      d.prods.length ≤ (addPath d cur ts).1.prods.length ∧
      (addPath d cur ts).1.k = d.k ∧
      (∀ s, d.prods.length ≤ s → s < (addPath d cur ts).1.prods.length → ∃ v, label' s ++ v = label cur ++ ts) := by
  intro ts
  induction ts with
  | nil =>
    intro d label M h cur hc
    exact ⟨label, by simpa [addPath] using h, by simpa [addPath] using hc, by simp [addPath],
      fun _ _ => rfl, by simp [addPath], by simp [addPath], fun s h1 h2 => absurd h2 (by simp only [addPath]; omega)⟩
  | cons t ts ih =>
    intro d label M h cur hc
    obtain ⟨l1, h1, hlt1, hl1, hold1, hle1, hk1, hnew1⟩ := addTransition_inv h hc t
    obtain ⟨l2, h2, hlt2, hl2, hold2, hle2, hk2, hnew2⟩ := ih h1 hlt1
    refine ⟨l2, by simpa [addPath] using h2, by simpa [addPath] using hlt2, ?_, ?_, ?_, ?_, ?_⟩
    · simp only [addPath]
      rw [hl2, hl1]; simp
    · intro s hs
      rw [hold2 s (by omega), hold1 s hs]
    · simp only [addPath]; omega
    · simp only [addPath]; rw [hk2, hk1]
    · intro s hs1 hs2
      simp only [addPath] at hs2
      by_cases hlt : s < (addTransition d cur t).1.prods.length
      · refine ⟨ts, ?_⟩
        rw [hold2 s hlt, hnew1 s hs1 hlt]; simp
      · obtain ⟨v, hv⟩ := hnew2 s (by omega) hs2
        exact ⟨v, by rw [hv, hl1]; simp⟩

/-- `addTuple` marks the state of `t` with `p` (for `p ≠ -1`). -/
theorem addTuple_inv {d : LDfa} {label : Nat → List Nat} {M : List Nat → Int}
    (h : TrieInv d label M) (p : Int) (t : Tuple) :
    ∃ label', TrieInv (addTuple p d t) label' (fun w => if w = t then p else M w) ∧
      (addTuple p d t).k = max d.k t.length ∧
      (∀ s, s < d.prods.length → label' s = label s) ∧
      (∀ s, d.prods.length ≤ s → s < (addTuple p d t).prods.length → ∃ v, label' s ++ v = t) ∧
      d.prods.length ≤ (addTuple p d t).prods.length := by
  obtain ⟨l1, h1, hlt, hl, hold, hle, hk, hnew⟩ := addPath_inv t h h.pos
  rw [h.label0, List.nil_append] at hl
  simp only [h.label0, List.nil_append] at hnew
  refine ⟨l1, ?_, by simp [addTuple, hk], hold, by simpa [addTuple] using hnew, by simpa [addTuple] using hle⟩
  unfold addTuple
  simp only
  generalize hd1 : (addPath d 0 t).1 = d1 at *
  generalize hr : (addPath d 0 t).2 = r at *
  have hrun : ∀ (w : List Nat) (s : Nat), runL { d1 with prods := d1.prods.set r p, k := max d1.k t.length } s w = runL d1 s w := by
    intro w
    induction w with
    | nil => intro s; rfl
    | cons a as ih =>
      intro s
      simp only [runL]
      cases lkp d1.trans s a with
      | none => rfl
      | some s' => exact ih s'
  refine ⟨by simpa using h1.pos, h1.label0, ?_, ?_, ?_, ?_⟩
  · intro e he
    simpa using h1.edge e he
  · intro s hs
    rw [hrun]
    exact h1.reach s (by simpa using hs)
  · intro s hs
    have hs' : s < d1.prods.length := by simpa using hs
    simp only
    by_cases hsr : s = r
    · subst hsr
      simp [hl, hs']
    · have hne : l1 s ≠ t := by
        intro he
        exact hsr (h1.label_inj hs' hlt (he.trans hl.symm))
      rw [List.getElem?_set_ne (Ne.symm hsr)]
      simp only [hne, if_false]
      exact h1.prods s hs'
  · intro w hw
    by_cases hwt : w = t
    · subst hwt
      exact ⟨r, by simpa using hlt, hl⟩
    · simp only [hwt, if_false] at hw
      obtain ⟨s, hs, he⟩ := h1.supp w hw
      exact ⟨s, by simpa using hs, he⟩

theorem foldl_addTuple_inv (p : Int) : ∀ (ts : List Tuple) {d : LDfa} {label : Nat → List Nat} {M : List Nat → Int},
    TrieInv d label M →
    ∃ label', TrieInv (ts.foldl (addTuple p) d) label' (fun w => if w ∈ ts then p else M w) ∧
      d.k ≤ (ts.foldl (addTuple p) d).k ∧ (∀ t ∈ ts, t.length ≤ (ts.foldl (addTuple p) d).k) ∧
      (p ≠ -1 → (∀ s, s < d.prods.length → ∃ u, M (label s ++ u) ≠ -1) →
        ∀ s, s < (ts.foldl (addTuple p) d).prods.length → ∃ u, (if label' s ++ u ∈ ts then p else M (label' s ++ u)) ≠ -1) := by
  intro ts
  induction ts with
  | nil =>
    intro d label M h
    exact ⟨label, by simpa using h, by simp, by simp, by intro _ hl s hs; simpa using hl s hs⟩
  | cons t ts ih =>
    intro d label M h
    obtain ⟨l1, h1, hk1, hold1, hnew1, hle1⟩ := addTuple_inv h p t
    obtain ⟨l2, h2, hk2, hk3, hlive2⟩ := ih h1
    have hfun : (fun w => if w ∈ t :: ts then p else M w) = (fun w => if w ∈ ts then p else if w = t then p else M w) := by
      funext w
      by_cases h1 : w = t <;> by_cases h2 : w ∈ ts <;> simp [h1, h2]
    refine ⟨l2, ?_, ?_, ?_, ?_⟩
    rotate_left 3
    · intro hp hlive s hs
      simp only [List.foldl_cons] at hs
      have hl1 : ∀ s, s < (addTuple p d t).prods.length → ∃ u, (if l1 s ++ u = t then p else M (l1 s ++ u)) ≠ -1 := by
        intro s hs
        by_cases hlt : s < d.prods.length
        · obtain ⟨u, hu⟩ := hlive s hlt
          refine ⟨u, ?_⟩
          rw [hold1 s hlt]
          split
          · exact hp
          · exact hu
        · obtain ⟨v, hv⟩ := hnew1 s (by omega) hs
          exact ⟨v, by simp [hv, hp]⟩
      obtain ⟨u, hu⟩ := hlive2 hp hl1 s hs
      refine ⟨u, ?_⟩
      have := congrFun hfun (l2 s ++ u)
      rw [this]; exact hu
    · simp only [List.foldl_cons]
      rw [hfun]; exact h2
    · simp only [List.foldl_cons]; omega
    · intro u hu
      simp only [List.foldl_cons]
      rcases List.mem_cons.1 hu with rfl | hu
      · omega
      · exact hk3 u hu

theorem foldl_addTuple_k0 (p : Int) : ∀ (ts : List Tuple) (d : LDfa), d.k ≤ (ts.foldl (addTuple p) d).k := by
  intro ts
  induction ts with
  | nil => intro d; simp
  | cons t ts ih =>
    intro d
    simp only [List.foldl_cons]
    have h1 := ih (addTuple p d t)
    have h2 : d.k ≤ (addTuple p d t).k := by
      simp only [addTuple]
      have : ∀ (ts : List Nat) (d : LDfa) (cur : Nat), (addPath d cur ts).1.k = d.k := by
        intro ts
        induction ts with
        | nil => intro d cur; rfl
        | cons a as ih2 =>
          intro d cur
          simp only [addPath]
          rw [ih2]
          unfold addTransition
          split <;> rfl
      rw [this]; omega
    omega

theorem mem_insertTuple (k : Nat) (t x : Tuple) : ∀ l : List Tuple, x ∈ insertTuple k t l ↔ x = t ∨ x ∈ l := by
  intro l
  induction l with
  | nil => simp [insertTuple]
  | cons y ys ih =>
    simp only [insertTuple]
    split
    · simp
    · simp only [List.mem_cons, ih]
      constructor
      · rintro (h | h | h) <;> simp [h]
      · rintro (h | h | h) <;> simp [h]

theorem mem_sortTuples (k : Nat) (x : Tuple) : ∀ l : List Tuple, x ∈ sortTuples k l ↔ x ∈ l := by
  intro l
  induction l with
  | nil => simp [sortTuples]
  | cons y ys ih =>
    have : sortTuples k (y :: ys) = insertTuple k y (sortTuples k ys) := rfl
    rw [this, mem_insertTuple, ih]; simp

theorem trieInv_init : TrieInv (LDfa.init (-1)) (fun _ => []) (fun _ => -1) := by
  refine ⟨by simp [LDfa.init], rfl, ?_, ?_, ?_, ?_⟩
  · intro e he; simp [LDfa.init] at he
  · intro s hs
    have : s = 0 := by simp [LDfa.init] at hs; omega
    subst this; simp [runL]
  · intro s hs
    have : s = 0 := by simp [LDfa.init] at hs; omega
    subst this; rfl
  · intro w hw; exact absurd rfl hw

/-- The trie of a non-empty tuple set `S` for production `p`: annotation `p` exactly on `S`; every
    state is a prefix of a tuple. -/
theorem fromKTuples_inv (k : Nat) (S : List Tuple) (p : Nat) (hS : S ≠ []) :
    ∃ label, TrieInv (fromKTuples k S p) label (fun w => if w ∈ S then (p : Int) else -1) ∧
      (∀ t ∈ S, t.length ≤ (fromKTuples k S p).k) ∧
      (∀ s, s < (fromKTuples k S p).prods.length → ∃ u, label s ++ u ∈ S) := by
  unfold fromKTuples
  have hne : S.isEmpty = false := by cases S <;> simp_all
  simp only [hne, Bool.false_eq_true, if_false]
  have hfun : (fun w => if w ∈ sortTuples k S then (p : Int) else -1) = (fun w => if w ∈ S then (p : Int) else -1) := by
    funext w; simp [mem_sortTuples]
  have hp : (p : Int) ≠ -1 := by omega
  cases hsort : sortTuples k S with
  | nil =>
    obtain ⟨t, ht⟩ := List.exists_mem_of_ne_nil S hS
    have := (mem_sortTuples k t S).2 ht
    rw [hsort] at this; cases this
  | cons t ts =>
    simp only [List.foldl_cons]
    obtain ⟨l1, h1, _, hold1, hnew1, _⟩ := addTuple_inv trieInv_init (p : Int) t
    obtain ⟨l, h, _, hk, hlive⟩ := foldl_addTuple_inv (p : Int) ts h1
    have hfun2 : (fun w => if w ∈ ts then (p : Int) else if w = t then (p : Int) else -1) =
        (fun w => if w ∈ S then (p : Int) else -1) := by
      rw [← hfun, hsort]
      funext w
      by_cases h1 : w = t <;> by_cases h2 : w ∈ ts <;> simp [h1, h2]
    refine ⟨l, ?_, ?_, ?_⟩
    · rw [← hfun2]; exact h
    · intro u hu
      have hu' := (mem_sortTuples k u S).2 hu
      rw [hsort] at hu'
      rcases List.mem_cons.1 hu' with rfl | hu'
      · have h0 := foldl_addTuple_k0 (p : Int) ts (addTuple (p : Int) (LDfa.init (-1)) u)
        have h1 : (addTuple (p : Int) (LDfa.init (-1)) u).k = max (LDfa.init (-1)).k u.length := by
          obtain ⟨_, _, hk', _⟩ := addTuple_inv trieInv_init (p : Int) u
          exact hk'
        omega
      · exact hk u hu'
    · have hl1 : ∀ s, s < (addTuple (p : Int) (LDfa.init (-1)) t).prods.length →
          ∃ u, (if l1 s ++ u = t then (p : Int) else -1) ≠ -1 := by
        intro s hs
        by_cases hlt : s < (LDfa.init (-1)).prods.length
        · have : s = 0 := by simp [LDfa.init] at hlt; omega
          subst this
          refine ⟨t, ?_⟩
          rw [hold1 0 hlt]
          simp [hp]
        · obtain ⟨v, hv⟩ := hnew1 s (by omega) hs
          exact ⟨v, by simp [hv, hp]⟩
      intro s hs
      obtain ⟨u, hu⟩ := hlive hp hl1 s hs
      refine ⟨u, ?_⟩
      have := congrFun hfun2 (l s ++ u)
      rw [this] at hu
      by_cases hm : l s ++ u ∈ S
      · exact hm
      · simp [hm] at hu

end ParolModel
