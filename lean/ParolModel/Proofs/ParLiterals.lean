import ParolModel.Model.ParLiterals
import ParolModel.Proofs.Regex
import ParolModel.Proofs.RegexSem
/-! Lemmas for C25: a terminal that matches the whole input and is not shadowed by an earlier
terminal yields exactly one token; shape of the literal terminals of the PAR lexer; soundness of the
structural comparer. -/
namespace ParolModel.Par
open ParolModel

/-! ### `bestOf` when one terminal matches the whole input -/

theorem bestOf_keep (len : ScanTerm → Option Nat) (N tok : Nat) :
    ∀ (post : List ScanTerm), (∀ u ∈ post, ∀ n, len u = some n → n ≤ N) →
      bestOf len post (some (N, tok)) = some (N, tok) := by
  intro post
  induction post with
  | nil => intro _; rfl
  | cons u post ih =>
    intro h
    have hu := h u (List.mem_cons_self)
    have hpost : ∀ v ∈ post, ∀ n, len v = some n → n ≤ N := fun v hv => h v (List.mem_cons_of_mem _ hv)
    simp only [bestOf]
    cases hl : len u with
    | none => simpa using ih hpost
    | some n =>
      have : ¬ n > N := by have := hu n hl; omega
      simp only [this, if_false]
      exact ih hpost

theorem bestOf_full (len : ScanTerm → Option Nat) (N : Nat) (t : ScanTerm) (post : List ScanTerm)
    (ht : len t = some N) (hpost : ∀ u ∈ post, ∀ n, len u = some n → n ≤ N) :
    ∀ (pre : List ScanTerm) (best : Option (Nat × Nat)),
      (∀ u ∈ pre, ∀ n, len u = some n → n < N) →
      (best = none ∨ ∃ m k, best = some (m, k) ∧ m < N) →
      bestOf len (pre ++ t :: post) best = some (N, t.tok) := by
  intro pre
  induction pre with
  | nil =>
    intro best _ hb
    simp only [List.nil_append, bestOf, ht]
    rcases hb with rfl | ⟨m, k, rfl, hm⟩
    · exact bestOf_keep len N t.tok post hpost
    · have : N > m := hm
      simp only [this, if_true]
      exact bestOf_keep len N t.tok post hpost
  | cons u pre ih =>
    intro best hpre hb
    have hu := hpre u (List.mem_cons_self)
    have hpre' : ∀ v ∈ pre, ∀ n, len v = some n → n < N := fun v hv => hpre v (List.mem_cons_of_mem _ hv)
    simp only [List.cons_append, bestOf]
    cases hl : len u with
    | none => exact ih best hpre' hb
    | some n =>
      have hn := hu n hl
      rcases hb with rfl | ⟨m, k, rfl, hm⟩
      · exact ih _ hpre' (Or.inr ⟨n, u.tok, rfl, hn⟩)
      · simp only []
        by_cases hc : n > m
        · simp only [hc, if_true]; exact ih _ hpre' (Or.inr ⟨n, u.tok, rfl, hn⟩)
        · simp only [hc, if_false]; exact ih _ hpre' (Or.inr ⟨m, k, rfl, hm⟩)

/-- A terminal without lookahead whose regex matches the whole (non-empty) input has match length
    `|w|`. -/
theorem matchLen_full (t : ScanTerm) (w : List Nat) (hla : t.la = none) (hw : w ≠ [])
    (hm : matchesRe t.re w = true) : t.matchLen w = some w.length := by
  rw [ScanTerm.matchLen_eq_spec]
  have hlen : 1 ≤ w.length := by cases w with | nil => exact absurd rfl hw | cons _ _ => simp
  cases h : t.matchLenSpec w with
  | none =>
    have := matchLenSpec_none t w h w.length hlen (Nat.le_refl _)
    exact absurd ⟨by simpa using hm, by simp [hla, laHolds]⟩ this
  | some n =>
    obtain ⟨_, h2, _, _, hmax⟩ := matchLenSpec_some t w n h
    by_cases hn : n = w.length
    · rw [hn]
    · have := hmax w.length (by omega) (Nat.le_refl _)
      exact absurd ⟨by simpa using hm, by simp [hla, laHolds]⟩ this

/-- A terminal whose regex does not match the whole input has a strictly shorter match. -/
theorem matchLen_lt_of_not_full (u : ScanTerm) (w : List Nat) (hm : matchesRe u.re w = false) (n : Nat)
    (h : u.matchLen w = some n) : n < w.length := by
  rw [ScanTerm.matchLen_eq_spec] at h
  obtain ⟨_, h2, h3, _, _⟩ := matchLenSpec_some u w n h
  by_cases hn : n = w.length
  · subst hn; simp at h3; rw [h3] at hm; cases hm
  · omega

/-- If the terminals of the start mode are `pre ++ t :: post`, `t` (no lookahead) matches the whole
    non-empty input and no terminal of `pre` does, the input is exactly one token of `t`. -/
theorem single_token_of_full_match (modes : List ScanMode) (m : ScanMode) (pre post : List ScanTerm) (t : ScanTerm)
    (w : List Nat) (hm0 : modes[0]? = some m) (hterms : m.terms = pre ++ t :: post) (hla : t.la = none) (hw : w ≠ [])
    (hfull : matchesRe t.re w = true) (hpre : ∀ u ∈ pre, matchesRe u.re w = false) :
    tokenizeSpec modes w = some [⟨t.tok, 0, w.length, 0⟩] := by
  cases w with
  | nil => exact absurd rfl hw
  | cons x xs =>
    have hstep : stepMatch modes ⟨0, []⟩ (x :: xs) = some ((x :: xs).length, t.tok) := by
      simp only [stepMatch, hm0, hterms]
      apply bestOf_full _ _ t post (matchLen_full t _ hla hw hfull)
      · intro u _ n hn; exact (ScanTerm.matchLen_bounds u _ n hn).2
      · intro u hu n hn; exact matchLen_lt_of_not_full u _ (hpre u hu) n hn
      · exact Or.inl rfl
    simp only [tokenizeSpec, List.length_cons, tokenizeFuel, hstep]
    have hdrop : xs.drop (xs.length + 1 - 1) = [] := by simp
    simp only [hdrop]
    cases hf : xs.length with
    | zero => simp [tokenizeFuel]
    | succ k => simp [tokenizeFuel]

/-! ### Shape of a literal terminal -/

theorem splitLit_shape (r : Re) (d : Nat) (b : Re) (h : splitLit r = some (d, b)) :
    r = .cat (.cls ⟨[(d, d)], false⟩) (.cat (.star b) (.cls ⟨[(d, d)], false⟩)) := by
  unfold splitLit at h
  split at h
  · split at h
    · rename_i hc
      obtain ⟨rfl, rfl, rfl⟩ := hc
      simp only [Option.some.injEq, Prod.mk.injEq] at h
      obtain ⟨rfl, rfl⟩ := h
      rfl
    · cases h
  · cases h

theorem chr_matches (d : Nat) : ReMatches (.cls ⟨[(d, d)], false⟩) [d] :=
  .cls _ d (by simp [Cls.mem])

/-- the printed literal belongs to the language of `d (body)* d` when the body does -/
theorem lit_matches (d : Nat) (b : Re) (t : List Nat) (h : matchesRe (.star b) t = true) :
    matchesRe (.cat (.cls ⟨[(d, d)], false⟩) (.cat (.star b) (.cls ⟨[(d, d)], false⟩))) (d :: (t ++ [d])) = true := by
  rw [matchesRe_iff] at h ⊢
  exact ReMatches.cat (u := [d]) (chr_matches d) (ReMatches.cat h (chr_matches d))

/-- conversely, a match of `d (body)* d` is `d`, a body, `d` -/
theorem lit_matches_inv (d : Nat) (b : Re) (t : List Nat)
    (h : matchesRe (.cat (.cls ⟨[(d, d)], false⟩) (.cat (.star b) (.cls ⟨[(d, d)], false⟩))) (d :: (t ++ [d])) = true) :
    matchesRe (.star b) t = true := by
  rw [matchesRe_iff] at h ⊢
  obtain ⟨u, v, huv, hu, hv⟩ := (ReMatches.cat_iff _ _ _).1 h
  obtain ⟨x, rfl, _⟩ := (ReMatches.cls_iff _ _).1 hu
  obtain ⟨p, q, hpq, hp, hq⟩ := (ReMatches.cat_iff _ _ _).1 hv
  obtain ⟨y, rfl, _⟩ := (ReMatches.cls_iff _ _).1 hq
  simp only [List.cons_append, List.nil_append, List.cons.injEq] at huv
  obtain ⟨_, rfl⟩ := huv
  have : t = p := by
    have := List.append_inj_left' hpq (by simp)
    exact this
  rw [this]; exact hp

/-! ### The comparer -/

theorem neq_none {α} [DecidableEq α] (what : String) (a b : α) (h : neq what a b = none) : a = b := by
  unfold neq at h; split at h
  · assumption
  · cases h

theorem orElse'_none (a b : Option String) (h : orElse' a b = none) : a = none ∧ b = none := by
  cases a <;> simp_all [orElse']

theorem firstDiff_none {α} (f : α → α → Option String) (hf : ∀ a b, f a b = none → a = b) :
    ∀ (l m : List α) (i : Nat), firstDiff f l m i = none → l = m := by
  intro l
  induction l with
  | nil => intro m i h; cases m with
    | nil => rfl
    | cons _ _ => simp [firstDiff] at h
  | cons a as ih =>
    intro m i h
    cases m with
    | nil => simp [firstDiff] at h
    | cons b bs =>
      simp only [firstDiff] at h
      split at h
      · cases h
      · rename_i hab
        rw [hf a b hab, ih bs (i + 1) h]

theorem map_none {α} (o : Option α) (f : α → String) (h : o.map f = none) : o = none := by
  cases o <;> simp_all

theorem strEq_none (a b : String) (h : strEq a b = none) : a = b := neq_none _ a b h

theorem symEq_none (a b : PSym) (h : symEq a b = none) : a = b := by
  unfold symEq at h
  obtain ⟨h1, h⟩ := orElse'_none _ _ h
  obtain ⟨h2, h⟩ := orElse'_none _ _ h
  obtain ⟨h3, h⟩ := orElse'_none _ _ h
  obtain ⟨h4, h⟩ := orElse'_none _ _ h
  obtain ⟨h5, h⟩ := orElse'_none _ _ h
  obtain ⟨h6, h7⟩ := orElse'_none _ _ h
  cases a; cases b
  simp only [PSym.mk.injEq]
  exact ⟨neq_none _ _ _ h1, neq_none _ _ _ h2, neq_none _ _ _ h3, neq_none _ _ _ h4, neq_none _ _ _ h5,
    neq_none _ _ _ h6, neq_none _ _ _ h7⟩

theorem prodEq_none (a b : PProd) (h : prodEq a b = none) : a = b := by
  unfold prodEq at h
  obtain ⟨h1, h⟩ := orElse'_none _ _ h
  obtain ⟨h2, h3⟩ := orElse'_none _ _ h
  cases a; cases b
  simp only [PProd.mk.injEq]
  exact ⟨neq_none _ _ _ h1, neq_none _ _ _ h2, firstDiff_none symEq symEq_none _ _ _ (map_none _ _ h3)⟩

theorem scannerEq_none (a b : PScanner) (h : scannerEq a b = none) : a = b := by
  unfold scannerEq at h
  obtain ⟨h1, h⟩ := orElse'_none _ _ h
  obtain ⟨h2, h⟩ := orElse'_none _ _ h
  obtain ⟨h3, h⟩ := orElse'_none _ _ h
  obtain ⟨h4, h⟩ := orElse'_none _ _ h
  obtain ⟨h5, h⟩ := orElse'_none _ _ h
  obtain ⟨h6, h⟩ := orElse'_none _ _ h
  obtain ⟨h7, h8⟩ := orElse'_none _ _ h
  cases a; cases b
  simp only [PScanner.mk.injEq]
  exact ⟨neq_none _ _ _ h1, firstDiff_none strEq strEq_none _ _ _ (map_none _ _ h2),
    firstDiff_none strEq strEq_none _ _ _ (map_none _ _ h3), neq_none _ _ _ h4, neq_none _ _ _ h5, neq_none _ _ _ h6,
    firstDiff_none strEq strEq_none _ _ _ (map_none _ _ h7), firstDiff_none strEq strEq_none _ _ _ (map_none _ _ h8)⟩

theorem configEq_none (a b : PCfg) (h : configEq a b = none) : a = b := by
  unfold configEq at h
  obtain ⟨h1, h⟩ := orElse'_none _ _ h
  obtain ⟨h2, h⟩ := orElse'_none _ _ h
  obtain ⟨h3, h⟩ := orElse'_none _ _ h
  obtain ⟨h4, h⟩ := orElse'_none _ _ h
  obtain ⟨h5, h⟩ := orElse'_none _ _ h
  obtain ⟨h6, h⟩ := orElse'_none _ _ h
  obtain ⟨h7, h⟩ := orElse'_none _ _ h
  obtain ⟨h8, h9⟩ := orElse'_none _ _ h
  cases a; cases b
  simp only [PCfg.mk.injEq]
  exact ⟨neq_none _ _ _ h1, neq_none _ _ _ h2, neq_none _ _ _ h3, neq_none _ _ _ h4,
    firstDiff_none strEq strEq_none _ _ _ (map_none _ _ h5), firstDiff_none strEq strEq_none _ _ _ (map_none _ _ h6),
    neq_none _ _ _ h7, firstDiff_none prodEq prodEq_none _ _ _ (map_none _ _ h8),
    firstDiff_none scannerEq scannerEq_none _ _ _ (map_none _ _ h9)⟩

theorem firstDiff_refl {α} (f : α → α → Option String) (hf : ∀ a, f a a = none) :
    ∀ (l : List α) (i : Nat), firstDiff f l l i = none := by
  intro l
  induction l with
  | nil => intro i; rfl
  | cons a as ih => intro i; simp [firstDiff, hf a, ih]

theorem configEq_refl (a : PCfg) : configEq a a = none := by
  have hs : ∀ s : String, strEq s s = none := fun s => by simp [strEq, neq]
  have hsym : ∀ s : PSym, symEq s s = none := fun s => by simp [symEq, neq, orElse']
  have hprod : ∀ p : PProd, prodEq p p = none := fun p => by
    simp [prodEq, neq, orElse', firstDiff_refl symEq hsym]
  have hsc : ∀ s : PScanner, scannerEq s s = none := fun s => by
    simp [scannerEq, neq, orElse', firstDiff_refl strEq hs]
  simp [configEq, neq, orElse', firstDiff_refl strEq hs, firstDiff_refl prodEq hprod, firstDiff_refl scannerEq hsc]

end ParolModel.Par
