import ParolModel.Proofs.KSets
/-! Lemmas about the faithful models of `first_k`, `follow_k` and the caches; sentential-form
characterisation of FOLLOW_k. -/
namespace ParolModel.KS

/-! ## FOLLOW_k via sentential forms -/

/-- `Derives G s σ`: the sentential form `σ` is derivable from `s` (any derivation order). -/
inductive Derives (G : Grammar) : List Sym → List Sym → Prop
  | refl (s : List Sym) : Derives G s s
  | step {s α β : List Sym} (p : Rule) :
      Derives G s (α ++ Sym.n p.lhs :: β) → p ∈ G.prods → Derives G s (α ++ p.rhs ++ β)

/-- FOLLOW_k(A) = { k-prefix of v·EOI | start ⇒* α A β, β ⇒* v } -/
def FollowK (G : Grammar) (k : Nat) (A : Nat) (t : Tup) : Prop :=
  ∃ α β v, Derives G [.n G.start] (α ++ Sym.n A :: β) ∧ Yield G β v ∧ t = (v ++ [0]).take k

theorem followCtx_derives {G : Grammar} {A : Nat} {γ : List Sym} (h : FollowCtx G A γ) :
    ∃ α, Derives G [.n G.start] (α ++ Sym.n A :: γ) := by
  induction h with
  | start => exact ⟨[], by simpa using Derives.refl _⟩
  | step p hp α β γ B hr _ ih =>
    obtain ⟨α', hd⟩ := ih
    refine ⟨α' ++ α, ?_⟩
    have := Derives.step p hd hp
    rw [hr] at this
    simpa [List.append_assoc] using this

theorem derives_followCtx {G : Grammar} {σ : List Sym} (hd : Derives G [.n G.start] σ) :
    ∀ α A β, σ = α ++ Sym.n A :: β → ∀ v, Yield G β v → ∃ γ, FollowCtx G A γ ∧ Yield G γ v := by
  induction hd with
  | refl =>
    intro α A β h v hv
    cases α with
    | nil =>
      simp only [List.nil_append, List.cons.injEq, Sym.n.injEq] at h
      obtain ⟨h1, h2⟩ := h
      subst h1; subst h2
      exact ⟨[], .start, hv⟩
    | cons x xs =>
      simp only [List.cons_append, List.cons.injEq] at h
      have := h.2
      cases xs <;> simp at this
  | @step α0 β0 p hd0 hp ih =>
    intro α A β h v hv
    -- where does the occurrence `A` sit in α0 ++ p.rhs ++ β0 ?
    rw [List.append_assoc] at h
    rcases List.append_eq_append_iff.1 h with ⟨a', h1, h2⟩ | ⟨c', h1, h2⟩
    · -- α = α0 ++ a', p.rhs ++ β0 = a' ++ n A :: β
      rcases List.append_eq_append_iff.1 h2 with ⟨b', h3, h4⟩ | ⟨d', h3, h4⟩
      · -- a' = p.rhs ++ b', β0 = b' ++ n A :: β : the occurrence lies in β0
        refine ih (α0 ++ Sym.n p.lhs :: b') A β ?_ v hv
        rw [h4]; simp
      · -- p.rhs = a' ++ d', n A :: β = d' ++ β0
        cases d' with
        | nil =>
          -- β0 = n A :: β
          simp only [List.nil_append] at h4
          refine ih (α0 ++ [Sym.n p.lhs]) A β ?_ v hv
          rw [← h4]; simp
        | cons x d'' =>
          simp only [List.cons_append, List.cons.injEq] at h4
          obtain ⟨hx, hβ⟩ := h4
          subst hx
          -- the occurrence lies in p.rhs = a' ++ n A :: d'', β = d'' ++ β0
          subst hβ
          obtain ⟨v1, v0, rfl, hv1, hv0⟩ := Yield.split hv
          obtain ⟨γ, hc, hy⟩ := ih α0 p.lhs β0 rfl v0 hv0
          exact ⟨d'' ++ γ, FollowCtx.step p hp a' d'' γ A h3 hc, Yield.append hv1 hy⟩
    · -- α0 = α ++ c', n A :: β = c' ++ (p.rhs ++ β0)
      cases c' with
      | nil =>
        -- n A :: β = p.rhs ++ β0 and α0 = α: handled like the first branch with a' = []
        simp only [List.nil_append] at h2
        simp only [List.append_nil] at h1
        subst h1
        cases hrhs : p.rhs with
        | nil =>
          rw [hrhs] at h2
          simp only [List.nil_append] at h2
          refine ih (α0 ++ [Sym.n p.lhs]) A β ?_ v hv
          rw [← h2]; simp
        | cons x d'' =>
          rw [hrhs] at h2
          simp only [List.cons_append, List.cons.injEq] at h2
          obtain ⟨hx, hβ⟩ := h2
          subst hx; subst hβ
          obtain ⟨v1, v0, rfl, hv1, hv0⟩ := Yield.split hv
          obtain ⟨γ, hc, hy⟩ := ih α0 p.lhs β0 rfl v0 hv0
          exact ⟨d'' ++ γ, FollowCtx.step p hp [] d'' γ A (by simpa using hrhs) hc, Yield.append hv1 hy⟩
      | cons x c'' =>
        simp only [List.cons_append, List.cons.injEq] at h2
        obtain ⟨hx, hβ⟩ := h2
        subst hx
        -- the occurrence lies in α0 = α ++ n A :: c'', β = c'' ++ p.rhs ++ β0
        subst hβ
        have hv' : Yield G (c'' ++ Sym.n p.lhs :: β0) v := by
          obtain ⟨v1, v2, rfl, hv1, hv2⟩ := Yield.split hv
          obtain ⟨v3, v4, rfl, hv3, hv4⟩ := Yield.split hv2
          exact Yield.append hv1 (Yield.nonterm p hp hv3 hv4)
        refine ih α A (c'' ++ Sym.n p.lhs :: β0) ?_ v hv'
        rw [h1]; simp

/-- The two formulations of FOLLOW_k (right contexts / sentential forms) coincide. -/
theorem followK_iff_ctx {G : Grammar} {k A : Nat} {t : Tup} : FollowK G k A t ↔ FollowKc G k A t := by
  constructor
  · rintro ⟨α, β, v, hd, hv, rfl⟩
    obtain ⟨γ, hc, hy⟩ := derives_followCtx hd α A β rfl v hv
    exact ⟨γ, v, hc, hy, rfl⟩
  · rintro ⟨γ, v, hc, hv, rfl⟩
    obtain ⟨α, hd⟩ := followCtx_derives hc
    exact ⟨α, γ, v, hd, hv, rfl⟩

/-! ## caches are memo tables -/

def CacheOK (G : Grammar) (fuel : Nat) (c : Caches) : Prop :=
  (∀ k v, lookupK k c.first = some v → firstCode G fuel k = some v) ∧
  (∀ k v, lookupK k c.follow = some v → followCode G fuel k = some v)

theorem cacheOK_empty (G : Grammar) (fuel : Nat) : CacheOK G fuel Caches.empty := by
  constructor <;> intro k v h <;> simp [Caches.empty, lookupK] at h

theorem lookupK_cons {α} (k j : Nat) (v : α) (l : List (Nat × α)) :
    lookupK k ((j, v) :: l) = if j = k then some v else lookupK k l := rfl

theorem cacheOK_addFirst {G : Grammar} {fuel : Nat} {c : Caches} (h : CacheOK G fuel c) {k : Nat}
    {v : FirstVec} (hv : firstCode G fuel k = some v) :
    CacheOK G fuel { c with first := (k, v) :: c.first } := by
  refine ⟨?_, h.2⟩
  intro j w hj
  simp only [lookupK_cons] at hj
  split at hj
  · rename_i e; subst e; injection hj with hj; subst hj; exact hv
  · exact h.1 j w hj

theorem cacheOK_addFollow {G : Grammar} {fuel : Nat} {c : Caches} (h : CacheOK G fuel c) {k : Nat}
    {v : List TSet × Env} (hv : followCode G fuel k = some v) :
    CacheOK G fuel { c with follow := (k, v) :: c.follow } := by
  refine ⟨h.1, ?_⟩
  intro j w hj
  simp only [lookupK_cons] at hj
  split at hj
  · rename_i e; subst e; injection hj with hj; subst hj; exact hv
  · exact h.2 j w hj

theorem firstGet_spec {G : Grammar} {fuel : Nat} :
    ∀ (k : Nat) (c : Caches) (v : FirstVec) (c' : Caches), CacheOK G fuel c →
      firstGet G fuel k c = some (v, c') → firstCode G fuel k = some v ∧ CacheOK G fuel c' := by
  intro k
  induction k with
  | zero =>
    intro c v c' hc h
    simp only [firstGet] at h
    split at h
    · rename_i w hw
      injection h with h; injection h with h1 h2; subst h1; subst h2
      exact ⟨hc.1 0 _ hw, hc⟩
    · cases hi : iterFirst G 0 fuel (initFirst0 G) with
      | none => simp [hi] at h
      | some w =>
        simp only [hi, Option.map_some, Option.some.injEq, Prod.mk.injEq] at h
        obtain ⟨h1, h2⟩ := h
        subst h1; subst h2
        have : firstCode G fuel 0 = some w := by simp [firstCode, hi]
        exact ⟨this, cacheOK_addFirst hc this⟩
  | succ k ih =>
    intro c v c' hc h
    simp only [firstGet] at h
    split at h
    · rename_i w hw
      injection h with h; injection h with h1 h2; subst h1; subst h2
      exact ⟨hc.1 _ _ hw, hc⟩
    · cases hg : firstGet G fuel k c with
      | none => simp [hg] at h
      | some pr =>
        obtain ⟨prev, c1⟩ := pr
        obtain ⟨hprev, hc1⟩ := ih c prev c1 hc hg
        simp only [hg, Option.bind_some] at h
        cases hi : iterFirst G (k+1) fuel prev with
        | none => simp [hi] at h
        | some w =>
          simp only [hi, Option.map_some, Option.some.injEq, Prod.mk.injEq] at h
          obtain ⟨h1, h2⟩ := h
          subst h1; subst h2
          have : firstCode G fuel (k+1) = some w := by simp [firstCode, hprev, hi]
          exact ⟨this, cacheOK_addFirst hc1 this⟩

theorem followGet_spec {G : Grammar} {fuel : Nat} :
    ∀ (k : Nat) (c : Caches) (v : List TSet × Env) (c' : Caches), CacheOK G fuel c →
      followGet G fuel k c = some (v, c') → followCode G fuel k = some v ∧ CacheOK G fuel c' := by
  intro k
  induction k with
  | zero =>
    intro c v c' hc h
    simp only [followGet] at h
    split at h
    · rename_i w hw
      injection h with h; injection h with h1 h2; subst h1; subst h2
      exact ⟨hc.2 0 _ hw, hc⟩
    · cases hg : firstGet G fuel 0 c with
      | none => simp [hg] at h
      | some pr =>
        obtain ⟨fv, c1⟩ := pr
        obtain ⟨hfv, hc1⟩ := firstGet_spec 0 c fv c1 hc hg
        simp only [hg, Option.bind_some] at h
        cases hi : iterFollow 0 (envGet fv.nts) (followEqs G) fuel ((followEqs G).map fun _ => []) (initFollowAcc G) with
        | none => simp [hi] at h
        | some w =>
          simp only [hi, Option.map_some, Option.some.injEq, Prod.mk.injEq] at h
          obtain ⟨h1, h2⟩ := h
          subst h1; subst h2
          have : followCode G fuel 0 = some w := by simp [followCode, hfv, hi]
          exact ⟨this, cacheOK_addFollow hc1 this⟩
  | succ k ih =>
    intro c v c' hc h
    simp only [followGet] at h
    split at h
    · rename_i w hw
      injection h with h; injection h with h1 h2; subst h1; subst h2
      exact ⟨hc.2 _ _ hw, hc⟩
    · cases hg : firstGet G fuel (k+1) c with
      | none => simp [hg] at h
      | some pr =>
        obtain ⟨fv, c1⟩ := pr
        obtain ⟨hfv, hc1⟩ := firstGet_spec (k+1) c fv c1 hc hg
        simp only [hg, Option.bind_some] at h
        cases hg2 : followGet G fuel k c1 with
        | none => simp [hg2] at h
        | some pr2 =>
          obtain ⟨prev, c2⟩ := pr2
          obtain ⟨hprev, hc2⟩ := ih c1 prev c2 hc1 hg2
          simp only [hg2, Option.bind_some] at h
          cases hi : iterFollow (k+1) (envGet fv.nts) (followEqs G) fuel prev.1 (initFollowAcc G) with
          | none => simp [hi] at h
          | some w =>
            simp only [hi, Option.map_some, Option.some.injEq, Prod.mk.injEq] at h
            obtain ⟨h1, h2⟩ := h
            subst h1; subst h2
            have : followCode G fuel (k+1) = some w := by simp [followCode, hfv, hprev, hi]
            exact ⟨this, cacheOK_addFollow hc2 this⟩

theorem followDirect_spec {G : Grammar} {fuel : Nat} :
    ∀ (k : Nat) (c : Caches) (v : List TSet × Env) (c' : Caches), CacheOK G fuel c →
      followDirect G fuel k c = some (v, c') → followCode G fuel k = some v ∧ CacheOK G fuel c' := by
  intro k c v c' hc h
  cases k with
  | zero =>
    simp only [followDirect] at h
    cases hg : firstGet G fuel 0 c with
    | none => simp [hg] at h
    | some pr =>
      obtain ⟨fv, c1⟩ := pr
      obtain ⟨hfv, hc1⟩ := firstGet_spec 0 c fv c1 hc hg
      simp only [hg, Option.bind_some] at h
      cases hi : iterFollow 0 (envGet fv.nts) (followEqs G) fuel ((followEqs G).map fun _ => []) (initFollowAcc G) with
      | none => simp [hi] at h
      | some w =>
        simp only [hi, Option.map_some, Option.some.injEq, Prod.mk.injEq] at h
        obtain ⟨h1, h2⟩ := h
        subst h1; subst h2
        exact ⟨by simp [followCode, hfv, hi], hc1⟩
  | succ k =>
    simp only [followDirect] at h
    cases hg : firstGet G fuel (k+1) c with
    | none => simp [hg] at h
    | some pr =>
      obtain ⟨fv, c1⟩ := pr
      obtain ⟨hfv, hc1⟩ := firstGet_spec (k+1) c fv c1 hc hg
      simp only [hg, Option.bind_some] at h
      cases hg2 : followGet G fuel k c1 with
      | none => simp [hg2] at h
      | some pr2 =>
        obtain ⟨prev, c2⟩ := pr2
        obtain ⟨hprev, hc2⟩ := followGet_spec k c1 prev c2 hc1 hg2
        simp only [hg2, Option.bind_some] at h
        cases hi : iterFollow (k+1) (envGet fv.nts) (followEqs G) fuel prev.1 (initFollowAcc G) with
        | none => simp [hi] at h
        | some w =>
          simp only [hi, Option.map_some, Option.some.injEq, Prod.mk.injEq] at h
          obtain ⟨h1, h2⟩ := h
          subst h1; subst h2
          exact ⟨by simp [followCode, hfv, hprev, hi], hc2⟩

theorem runReqs_spec {G : Grammar} {fuel : Nat} :
    ∀ (reqs : List Req) (c : Caches) (rs : List Reply), CacheOK G fuel c →
      runReqs G fuel reqs c = some rs → reqs.mapM (pureReply G fuel) = some rs := by
  intro reqs
  induction reqs with
  | nil => intro c rs _ h; simp [runReqs] at h; simp [h]
  | cons q qs ih =>
    intro c rs hc h
    cases q with
    | first k =>
      simp only [runReqs] at h
      cases hg : firstGet G fuel k c with
      | none => simp [hg] at h
      | some pr =>
        obtain ⟨v, c1⟩ := pr
        obtain ⟨hv, hc1⟩ := firstGet_spec k c v c1 hc hg
        simp only [hg, Option.bind_some] at h
        cases hr : runReqs G fuel qs c1 with
        | none => simp [hr] at h
        | some l =>
          simp only [hr, Option.map_some, Option.some.injEq] at h
          subst h
          simp [List.mapM_cons, pureReply, hv, ih c1 l hc1 hr]
    | follow k =>
      simp only [runReqs] at h
      cases hg : followGet G fuel k c with
      | none => simp [hg] at h
      | some pr =>
        obtain ⟨v, c1⟩ := pr
        obtain ⟨hv, hc1⟩ := followGet_spec k c v c1 hc hg
        simp only [hg, Option.bind_some] at h
        cases hr : runReqs G fuel qs c1 with
        | none => simp [hr] at h
        | some l =>
          simp only [hr, Option.map_some, Option.some.injEq] at h
          subst h
          simp [List.mapM_cons, pureReply, hv, ih c1 l hc1 hr]
    | followDirect k =>
      simp only [runReqs] at h
      cases hg : followDirect G fuel k c with
      | none => simp [hg] at h
      | some pr =>
        obtain ⟨v, c1⟩ := pr
        obtain ⟨hv, hc1⟩ := followDirect_spec k c v c1 hc hg
        simp only [hg, Option.bind_some] at h
        cases hr : runReqs G fuel qs c1 with
        | none => simp [hr] at h
        | some l =>
          simp only [hr, Option.map_some, Option.some.injEq] at h
          subst h
          simp [List.mapM_cons, pureReply, hv, ih c1 l hc1 hr]

end ParolModel.KS
