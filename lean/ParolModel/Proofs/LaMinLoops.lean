import ParolModel.Proofs.LaMin
/-! Proofs about the `AdjacencyList` model (C07), part 2c: `rename_state` on a present state, the
loops of `minimize` (`combine_states`, the two grouping phases, `renumber_states`). -/
namespace ParolModel

/-- What every phase of `minimize` preserves. -/
structure MinStep (a a' : Adj) : Prop where
  wf : AdjWF a'
  acc : ∀ w p, AccA a w p ↔ AccA a' w p
  mono : ∀ s q, bmGet a'.prods s = some q → bmGet a.prods s = some q
  k : a'.k = a.k

theorem MinStep.refl {a : Adj} (hwf : AdjWF a) : MinStep a a :=
  ⟨hwf, fun _ _ => Iff.rfl, fun _ _ h => h, rfl⟩

theorem MinStep.trans {a b c : Adj} (h1 : MinStep a b) (h2 : MinStep b c) : MinStep a c :=
  ⟨h2.wf, fun w p => (h1.acc w p).trans (h2.acc w p), fun s q h => h1.mono s q (h2.mono s q h), h2.k.trans h1.k⟩

theorem combineTwo_step {a a' : Adj} {keep merge : Nat} (hwf : AdjWF a) (h : a.combineTwo keep merge = some a')
    (hsame : ∀ lm lk, bmGet a.list merge = some lm → bmGet a.list keep = some lk → lm = lk) (h0 : merge ≠ 0) :
    MinStep a a' := by
  refine ⟨combineTwo_wf hwf h hsame h0, ?_, ?_, ?_⟩
  · intro w p
    exact (combineTwo_sim hwf h hsame).accA (by simp [hmap, Ne.symm h0]) hwf.zero w p
  · intro s q hq
    rw [combineTwo_get_prods h hsame] at hq
    by_cases hs : s = merge
    · simp [hs] at hq
    · simpa [hs] using hq
  · obtain ⟨_, _, rfl⟩ := combineTwo_eq h hsame
    rfl

theorem foldlM_option_cons {α β : Type} (f : β → α → Option β) (x : α) (xs : List α) (b : β) :
    (x :: xs).foldlM f b = (f b x).bind (fun b' => xs.foldlM f b') := by
  simp [List.foldlM_cons]

theorem combineFold_step (keep : Nat) : ∀ (rest : List Nat) {a a' : Adj}, AdjWF a →
    rest.foldlM (fun (a : Adj) m => a.combineTwo keep m) a = some a' →
    (∀ m ∈ rest, ∀ lm lk, bmGet a.list m = some lm → bmGet a.list keep = some lk → lm = lk) →
    (∀ m ∈ rest, m ≠ 0) → MinStep a a' := by
  intro rest
  induction rest with
  | nil =>
    intro a a' hwf h _ _
    simp only [List.foldlM_nil] at h
    injection h with h
    subst h
    exact MinStep.refl hwf
  | cons m ms ih =>
    intro a a' hwf h hsame h0
    rw [foldlM_option_cons] at h
    cases h1 : a.combineTwo keep m with
    | none => simp [h1] at h
    | some a1 =>
      simp only [h1, Option.bind_some] at h
      have hs1 := hsame m List.mem_cons_self
      have st1 := combineTwo_step hwf h1 hs1 (h0 m List.mem_cons_self)
      refine st1.trans (ih st1.wf h ?_ (fun m' hm' => h0 m' (List.mem_cons_of_mem _ hm')))
      intro m' hm' lm lk e1 e2
      rw [combineTwo_get_list h1 hs1] at e1 e2
      by_cases hm1 : m' = m
      · simp [hm1] at e1
      · by_cases hk1 : keep = m
        · simp [hk1] at e2
        · simp only [hm1, hk1, if_false] at e1 e2
          cases g1 : bmGet a.list m' with
          | none => simp [g1] at e1
          | some lm0 =>
            cases g2 : bmGet a.list keep with
            | none => simp [g2] at e2
            | some lk0 =>
              simp only [g1, g2, Option.map_some, Option.some.injEq] at e1 e2
              have := hsame m' (List.mem_cons_of_mem _ hm') lm0 lk0 g1 g2
              subst this
              rw [← e1, ← e2]

/-- `combine_states` on a group whose members (if present) have equal neighbour lists. -/
theorem combineStates_step {a a' : Adj} {states : List Nat} (hwf : AdjWF a)
    (h : a.combineStates states = some a')
    (hsame : ∀ m ∈ states, ∀ m' ∈ states, ∀ lm lk, bmGet a.list m = some lm → bmGet a.list m' = some lk → lm = lk)
    (hsorted : states.Pairwise (· < ·)) : MinStep a a' := by
  cases states with
  | nil =>
    simp only [Adj.combineStates] at h
    injection h with h
    subst h
    exact MinStep.refl hwf
  | cons keep rest =>
    simp only [Adj.combineStates] at h
    refine combineFold_step keep rest hwf h ?_ ?_
    · intro m hm lm lk e1 e2
      exact hsame m (List.mem_cons_of_mem _ hm) keep List.mem_cons_self lm lk e1 e2
    · intro m hm
      have := (List.pairwise_cons.1 hsorted).1 m hm
      omega

/-! ### `group_by` and the iteration orders -/

theorem mem_groupInsert {α κ : Type} [DecidableEq κ] (k : κ) (x : α) :
    ∀ (gs : List (κ × List α)) (g' : κ × List α), g' ∈ groupInsert k x gs →
      g' ∈ gs ∨ (∃ g ∈ gs, g.1 = k ∧ g' = (g.1, g.2 ++ [x])) ∨ g' = (k, [x]) := by
  intro gs
  induction gs with
  | nil => intro g' h; simp [groupInsert] at h; exact Or.inr (Or.inr h)
  | cons g gs ih =>
    intro g' h
    simp only [groupInsert] at h
    split at h
    · rename_i hk
      rcases List.mem_cons.1 h with rfl | h
      · exact Or.inr (Or.inl ⟨g, List.mem_cons_self, hk, rfl⟩)
      · exact Or.inl (List.mem_cons_of_mem _ h)
    · rcases List.mem_cons.1 h with rfl | h
      · exact Or.inl List.mem_cons_self
      · rcases ih g' h with h | ⟨g0, hg0, hk, rfl⟩ | h
        · exact Or.inl (List.mem_cons_of_mem _ h)
        · exact Or.inr (Or.inl ⟨g0, List.mem_cons_of_mem _ hg0, hk, rfl⟩)
        · exact Or.inr (Or.inr h)

theorem groupBy_foldl {α κ : Type} [DecidableEq κ] (key : α → κ) : ∀ (l : List α) (acc : List (κ × List α)) (pre : List α),
    (∀ g ∈ acc, g.2.Sublist pre ∧ ∀ x ∈ g.2, key x = g.1) →
    ∀ g ∈ l.foldl (fun acc x => groupInsert (key x) x acc) acc, g.2.Sublist (pre ++ l) ∧ ∀ x ∈ g.2, key x = g.1 := by
  intro l
  induction l with
  | nil => intro acc pre h g hg; simpa using h g hg
  | cons x xs ih =>
    intro acc pre h g hg
    simp only [List.foldl_cons] at hg
    have := ih (groupInsert (key x) x acc) (pre ++ [x]) ?_ g hg
    · simpa using this
    · intro g' hg'
      rcases mem_groupInsert (key x) x acc g' hg' with h1 | ⟨g0, hg0, hk, rfl⟩ | rfl
      · obtain ⟨hs, hkey⟩ := h g' h1
        exact ⟨hs.trans (List.sublist_append_left _ _), hkey⟩
      · obtain ⟨hs, hkey⟩ := h g0 hg0
        refine ⟨hs.append (List.Sublist.refl _), ?_⟩
        intro y hy
        rcases List.mem_append.1 hy with hy | hy
        · exact hkey y hy
        · simp only [List.mem_singleton] at hy
          subst hy; exact hk.symm
      · refine ⟨List.sublist_append_right _ _, ?_⟩
        intro y hy
        simp only [List.mem_singleton] at hy
        subst hy; rfl

theorem groupBy_mem {α κ : Type} [DecidableEq κ] (key : α → κ) (l : List α) {g : κ × List α}
    (hg : g ∈ groupBy key l) : g.2.Sublist l ∧ ∀ x ∈ g.2, key x = g.1 := by
  have := groupBy_foldl key l [] [] (by intro g hg; cases hg) g hg
  simpa using this

theorem permute_mem {α : Type} : ∀ (n : Nat) (ch : List Nat) (l : List α), ∀ g ∈ (permute n ch l).1, g ∈ l := by
  intro n
  induction n with
  | zero => intro ch l g hg; simp [permute] at hg
  | succ n ih =>
    intro ch l g hg
    simp only [permute] at hg
    split at hg
    · simp at hg
    · rename_i x hx
      simp only [List.mem_cons] at hg
      rcases hg with rfl | hg
      · exact List.mem_of_getElem? hx
      · exact (List.eraseIdx_sublist _ _).subset (ih _ _ g hg)

/-! ### First phase: accepting states per production -/

theorem groupsFold_step {a0 : Adj} (hwf0 : AdjWF a0) : ∀ (gs : List (Int × List (Nat × Int))) {a a' : Adj}, MinStep a0 a →
    gs.foldlM (fun (a : Adj) (g : Int × List (Nat × Int)) => a.combineStates (g.2.map (·.1))) a = some a' →
    (∀ g ∈ gs, g.2.Sublist a0.prods ∧ ∀ x ∈ g.2, x.2 ≠ -1) → MinStep a0 a' := by
  intro gs
  induction gs with
  | nil =>
    intro a a' st h _
    simp only [List.foldlM_nil] at h
    injection h with h
    subst h; exact st
  | cons g gs ih =>
    intro a a' st h hg
    rw [foldlM_option_cons] at h
    cases h1 : a.combineStates (g.2.map (·.1)) with
    | none => simp [h1] at h
    | some a1 =>
      simp only [h1, Option.bind_some] at h
      obtain ⟨hsub, hkey⟩ := hg g List.mem_cons_self
      have hleaf : ∀ m ∈ g.2.map (·.1), ∀ lm, bmGet a.list m = some lm → lm = [] := by
        intro m hm lm e
        obtain ⟨x, hx, rfl⟩ := List.mem_map.1 hm
        have hq : (bmGet a.prods x.1).isSome := (st.wf.keys x.1).1 (by simp [e])
        obtain ⟨q, hq⟩ := Option.isSome_iff_exists.1 hq
        have hq0 := st.mono x.1 q hq
        have hx0 : bmGet a0.prods x.1 = some x.2 := bmGet_of_mem hwf0.ksp (by cases x; exact hsub.subset hx)
        rw [hx0] at hq0
        injection hq0 with hq0
        have := st.wf.leaves x.1 q hq (by rw [← hq0]; exact hkey x hx)
        rw [e] at this
        injection this
      have st1 : MinStep a a1 := by
        refine combineStates_step st.wf h1 ?_ ?_
        · intro m hm m' hm' lm lk e1 e2
          rw [hleaf m hm lm e1, hleaf m' hm' lk e2]
        · have : KS g.2 := hwf0.ksp.sublist hsub
          simpa [KS] using this
      exact ih (st.trans st1) h (fun g' hg' => hg g' (List.mem_cons_of_mem _ hg'))

theorem mergeFinals_step {a a' : Adj} {ch ch' : List Nat} (hwf : AdjWF a)
    (h : a.mergeFinals ch = some (a', ch')) : MinStep a a' := by
  unfold Adj.mergeFinals at h
  simp only [Option.map_eq_some_iff, Prod.mk.injEq] at h
  obtain ⟨a1, hfold, rfl, _⟩ := h
  refine groupsFold_step hwf _ (MinStep.refl hwf) hfold ?_
  intro g hg
  have hg' := permute_mem _ _ _ g hg
  obtain ⟨hsub, hkey⟩ := groupBy_mem (fun x : Nat × Int => x.2) _ hg'
  have hsub2 : g.2.Sublist a.prods := hsub.trans List.filter_sublist
  refine ⟨hsub2, ?_⟩
  intro x hx
  have := (List.mem_filter.1 (hsub.subset hx)).2
  simpa using this

/-! ### Second phase: non-accepting states with equal neighbour lists -/

theorem combineEquiv_step : ∀ (fuel : Nat) {a a' : Adj} {ch ch' : List Nat}, AdjWF a →
    Adj.combineEquiv fuel a ch = some (a', ch') → MinStep a a' := by
  intro fuel
  induction fuel with
  | zero => intro a a' ch ch' _ h; simp [Adj.combineEquiv] at h
  | succ fuel ih =>
    intro a a' ch ch' hwf h
    simp only [Adj.combineEquiv] at h
    split at h
    · cases h
    · injection h with h
      injection h with h1 _
      subst h1
      exact MinStep.refl hwf
    · rename_i g gs heq
      split at h
      · cases h
      · rename_i grp hgrp
        split at h
        · cases h
        · rename_i a1 h1
          have hmem : grp ∈ g :: gs := List.mem_of_getElem? hgrp
          -- the candidate groups come from `groupBy` on a filtered sublist of `a.list`
          have hcand : grp ∈ (groupBy (fun x : Nat × Nbrs => x.2)
              (a.list.filter (fun x => bmGet a.prods x.1 == some (-1)))) := by
            unfold Adj.equivGroups at heq
            split at heq
            · injection heq with heq
              rw [← heq] at hmem
              exact (List.mem_filter.1 hmem).1
            · cases heq
          obtain ⟨hsub, hkey⟩ := groupBy_mem (fun x : Nat × Nbrs => x.2) _ hcand
          have hsub2 : grp.2.Sublist a.list := hsub.trans List.filter_sublist
          have st1 : MinStep a a1 := by
            refine combineStates_step hwf h1 ?_ ?_
            · intro m hm m' hm' lm lk e1 e2
              obtain ⟨x, hx, rfl⟩ := List.mem_map.1 hm
              obtain ⟨y, hy, rfl⟩ := List.mem_map.1 hm'
              have ex : bmGet a.list x.1 = some x.2 := bmGet_of_mem hwf.ksl (by cases x; exact hsub2.subset hx)
              have ey : bmGet a.list y.1 = some y.2 := bmGet_of_mem hwf.ksl (by cases y; exact hsub2.subset hy)
              rw [ex] at e1; rw [ey] at e2
              injection e1 with e1; injection e2 with e2
              rw [← e1, ← e2, hkey x hx, hkey y hy]
            · have : KS grp.2 := hwf.ksl.sublist hsub2
              simpa [KS] using this
          exact st1.trans (ih st1.wf h)

/-! ### `rename_state` of a present state to a fresh number -/

section rename
variable {a : Adj} {s new : Nat} {e : Nbrs} {p : Int}

theorem renameState_get_list (h1 : bmGet a.list s = some e) (h2 : bmGet a.prods s = some p) (x : Nat) :
    bmGet (a.renameState s new).list x =
      (if x = new then some e else if x = s then none else bmGet a.list x).map (fun nb => nbRename nb s new) := by
  rw [renameState_present h1 h2]
  simp only
  rw [bmGet_mapVal (fun _ nb => nbRename nb s new), bmGet_insert, bmGet_remove]

theorem renameState_get_prods (h1 : bmGet a.list s = some e) (h2 : bmGet a.prods s = some p) (x : Nat) :
    bmGet (a.renameState s new).prods x = if x = new then some p else if x = s then none else bmGet a.prods x := by
  rw [renameState_present h1 h2]
  simp only
  rw [bmGet_insert, bmGet_remove]

theorem renameState_sim (hwf : AdjWF a) (h1 : bmGet a.list s = some e) (h2 : bmGet a.prods s = some p)
    (hnew : bmGet a.prods new = none) : Sim a (a.renameState s new) (hmap s new) := by
  have hnewl : bmGet a.list new = none := by
    have := hwf.keys new
    rw [hnew] at this
    cases hg : bmGet a.list new with
    | none => rfl
    | some v => rw [hg] at this; simp at this
  refine ⟨?_, ?_, hwf.closed⟩
  · intro x nb hnb
    have hxn : x ≠ new := by intro he; rw [he, hnewl] at hnb; cases hnb
    by_cases hx : x = s
    · subst hx
      rw [h1] at hnb; injection hnb with hnb; subst hnb
      refine ⟨nbRename e x new, ?_, fun y => mem_nbRename _ _ _ y⟩
      rw [renameState_get_list h1 h2]
      simp [hmap]
    · refine ⟨nbRename nb s new, ?_, fun y => mem_nbRename _ _ _ y⟩
      rw [renameState_get_list h1 h2]
      simp [hmap, hx, hxn, hnb]
  · intro x hxp
    have hxn : x ≠ new := by intro he; rw [he, hnewl] at hxp; cases hxp
    rw [renameState_get_prods h1 h2]
    by_cases hx : x = s
    · subst hx; simp [hmap, h2]
    · simp [hmap, hx, hxn]

theorem renameState_wf (hwf : AdjWF a) (h1 : bmGet a.list s = some e) (h2 : bmGet a.prods s = some p)
    (hnew : bmGet a.prods new = none) (hs0 : s ≠ 0) : AdjWF (a.renameState s new) := by
  have hnewl : bmGet a.list new = none := by
    have := hwf.keys new
    rw [hnew] at this
    cases hg : bmGet a.list new with
    | none => rfl
    | some v => rw [hg] at this; simp at this
  have hl := renameState_get_list (new := new) h1 h2
  have hp := renameState_get_prods (new := new) h1 h2
  have hsn : s ≠ new := by intro he; rw [he, hnew] at h2; cases h2
  -- every neighbour list of the result is a renamed neighbour list of `a`
  have hsrc : ∀ x nb', bmGet (a.renameState s new).list x = some nb' →
      ∃ x0 nb0, bmGet a.list x0 = some nb0 ∧ nb' = nbRename nb0 s new ∧ (x = new ∧ x0 = s ∨ x ≠ new ∧ x ≠ s ∧ x0 = x) := by
    intro x nb' hnb'
    rw [hl] at hnb'
    by_cases hxn : x = new
    · simp only [hxn, if_true, Option.map_some, Option.some.injEq] at hnb'
      exact ⟨s, e, h1, hnb'.symm, Or.inl ⟨hxn, rfl⟩⟩
    · by_cases hxs : x = s
      · simp [hxs, hsn] at hnb'
      · simp only [hxn, hxs, if_false] at hnb'
        cases hg : bmGet a.list x with
        | none => simp [hg] at hnb'
        | some nb0 =>
          simp only [hg, Option.map_some, Option.some.injEq] at hnb'
          exact ⟨x, nb0, hg, hnb'.symm, Or.inr ⟨hxn, hxs, rfl⟩⟩
  refine ⟨?_, ?_, ?_, ?_, ?_, ?_, ?_⟩
  · rw [renameState_present h1 h2]
    exact ((hwf.ksl.remove s).insert new e).mapVal (fun x => nbRename x.2 s new)
  · rw [renameState_present h1 h2]
    exact (hwf.ksp.remove s).insert new p
  · intro x
    rw [hl, hp]
    by_cases hxn : x = new
    · simp [hxn]
    · by_cases hxs : x = s
      · simp [hxs, hsn]
      · simp only [hxn, hxs, if_false, Option.isSome_map]
        exact hwf.keys x
  · intro x nb' hnb'
    obtain ⟨x0, nb0, hg, rfl, _⟩ := hsrc x nb' hnb'
    exact (nbRename_terms_perm nb0 s new).nodup_iff.2 (hwf.det x0 nb0 hg)
  · intro x nb' hnb' y hy
    obtain ⟨x0, nb0, hg, rfl, _⟩ := hsrc x nb' hnb'
    obtain ⟨z, hz, rfl⟩ := (mem_nbRename nb0 s new y).1 hy
    have hpres := hwf.closed x0 nb0 hg z hz
    simp only [hl, hmap]
    by_cases hzs : z.1 = s
    · simp [hzs]
    · have hzn : z.1 ≠ new := by intro he; rw [he, hnewl] at hpres; cases hpres
      simpa [hzs, hzn] using hpres
  · intro x q hq hqne
    rw [hp] at hq
    rw [hl]
    by_cases hxn : x = new
    · simp only [hxn, if_true, Option.some.injEq] at hq
      subst hq
      have := hwf.leaves s p h2 hqne
      rw [h1] at this; injection this with this
      simp [hxn, this, nbRename_nil]
    · by_cases hxs : x = s
      · subst hxs; simp [hsn] at hq
      · simp only [hxn, hxs, if_false] at hq
        simp [hxn, hxs, hwf.leaves x q hq hqne, nbRename_nil]
  · rw [hl]
    have h0n : (0 : Nat) ≠ new := by
      intro he
      have := hwf.zero
      rw [he, hnewl] at this; cases this
    simpa [h0n, Ne.symm hs0] using hwf.zero

end rename

/-! ### `renumber_states` -/

theorem firstMismatch_spec : ∀ (l : List (Nat × Int)) (i s : Nat), firstMismatch i l = some s → KS l →
    (∀ x ∈ l, i ≤ x.1) → (∃ q, (s, q) ∈ l) ∧ i < s := by
  intro l
  induction l with
  | nil => intro i s h; simp [firstMismatch] at h
  | cons x xs ih =>
    intro i s h hks hle
    simp only [firstMismatch] at h
    split at h
    · rename_i hne
      injection h with h
      subst h
      have := hle x List.mem_cons_self
      exact ⟨⟨x.2, by simp⟩, by omega⟩
    · rename_i heq
      have heq' : x.1 = i := by
        by_cases h' : x.1 = i
        · exact h'
        · exact absurd h' heq
      obtain ⟨hks', hlt⟩ := hks.cons_inv
      obtain ⟨⟨q, hq⟩, hlt2⟩ := ih (i + 1) s h hks' (fun y hy => by have := hlt y hy; omega)
      exact ⟨⟨q, List.mem_cons_of_mem _ hq⟩, by omega⟩

/-- As `MinStep`, without the statement about unchanged annotations (renumbering moves them). -/
structure MinStep' (a a' : Adj) : Prop where
  wf : AdjWF a'
  acc : ∀ w p, AccA a w p ↔ AccA a' w p
  k : a'.k = a.k

theorem MinStep.weaken {a a' : Adj} (h : MinStep a a') : MinStep' a a' := ⟨h.wf, h.acc, h.k⟩

theorem MinStep'.refl {a : Adj} (hwf : AdjWF a) : MinStep' a a := ⟨hwf, fun _ _ => Iff.rfl, rfl⟩

theorem MinStep'.trans {a b c : Adj} (h1 : MinStep' a b) (h2 : MinStep' b c) : MinStep' a c :=
  ⟨h2.wf, fun w p => (h1.acc w p).trans (h2.acc w p), h2.k.trans h1.k⟩

theorem renumber_step : ∀ (fuel : Nat) {a a' : Adj}, AdjWF a → Adj.renumber fuel a = some a' → MinStep' a a' := by
  intro fuel
  induction fuel with
  | zero => intro a a' _ h; simp [Adj.renumber] at h
  | succ fuel ih =>
    intro a a' hwf h
    simp only [Adj.renumber] at h
    split at h
    · injection h with h; subst h; exact MinStep'.refl hwf
    · rename_i s hs
      split at h
      · cases h
      · rename_i new hnew
        obtain ⟨⟨p, hp⟩, hs0⟩ := firstMismatch_spec a.prods 0 s hs hwf.ksp (fun _ _ => Nat.zero_le _)
        have h2 : bmGet a.prods s = some p := bmGet_of_mem hwf.ksp hp
        obtain ⟨e, h1⟩ := Option.isSome_iff_exists.1 ((hwf.keys s).2 (by simp [h2]))
        have hfresh : bmGet a.prods new = none := by
          have := List.find?_some hnew
          simpa using this
        have st1 : MinStep' a (a.renameState s new) := by
          refine ⟨renameState_wf hwf h1 h2 hfresh (by omega), ?_, ?_⟩
          · intro w q
            exact (renameState_sim hwf h1 h2 hfresh).accA (by simp [hmap]; omega) hwf.zero w q
          · rw [renameState_present h1 h2]
        exact st1.trans (ih st1.wf h)

end ParolModel
