import ParolModel.Proofs.Adapter
import ParolModel.Proofs.LLTree
/-! C23, LL(k) side: a declarative parse `DS` of the LL parser model (`Proofs/LLTree.lean`) is a
derivation forest of the attributed grammar with the same productions. -/
namespace ParolModel.Ast

def toPT (s : ASym) : PT :=
  match s.sym with
  | .t a => .t a
  | .n a => .n a

/-- The attributed production table `G` and the generated LL tables `T` describe the same
    productions (same numbering, left-hand sides and right-hand sides). Decidable. -/
def compat (T : LLTables) (G : AGrammar) : Bool :=
  T.prods.length == G.prods.length &&
  (T.prods.zip G.prods).all (fun x => x.1.lhs == x.2.lhs && x.1.rhsRev.reverse == x.2.rhs.map toPT)

theorem compat_get {T : LLTables} {G : AGrammar} (h : compat T G = true) {p : Nat} {pr : LLProd}
    (hp : T.prods[p]? = some pr) :
    ∃ apr, G.prods[p]? = some apr ∧ apr.lhs = pr.lhs ∧ apr.rhs.map toPT = pr.rhsRev.reverse := by
  simp only [compat, Bool.and_eq_true, beq_iff_eq, List.all_eq_true] at h
  obtain ⟨hlen, hall⟩ := h
  have hlt : p < T.prods.length := by
    rcases List.getElem?_eq_some_iff.1 hp with ⟨hlt, _⟩; exact hlt
  have hlt2 : p < G.prods.length := by omega
  refine ⟨G.prods[p], List.getElem?_eq_getElem hlt2, ?_⟩
  have hz : (T.prods.zip G.prods)[p]? = some (pr, G.prods[p]) := by
    rw [List.getElem?_zip_eq_some]
    exact ⟨hp, List.getElem?_eq_getElem hlt2⟩
  have := hall _ (List.mem_of_getElem? hz)
  exact ⟨this.1.symm, this.2.symm⟩

theorem sigToks_afterSkips {inp rest' : List MTok} {tok : MTok} (hrest : afterSkips inp = tok :: rest')
    (hskip : tok.skip = false) : sigToks inp = tok :: sigToks rest' := by
  have h1 := lead_after inp
  rw [hrest] at h1
  rw [← h1]
  have hl : sigToks (leadSkips inp) = [] := by
    simp only [sigToks, leadSkips, List.filter_eq_nil_iff]
    intro t ht
    have := leadSkips_all_skip inp t ht
    simp [this]
  simp only [sigToks, List.filter_append] at hl ⊢
  rw [hl]
  simp [hskip]

/-- A declarative parse of the LL parser model is a derivation forest of the attributed grammar:
    same action trace, same children, and its leaves are the significant tokens it consumed. -/
theorem ds_forest {T : LLTables} {G : AGrammar} (hT : TablesSound T) (hc : compat T G = true)
    {syms : List PT} {inp r : List MTok} {acts : List (Nat × List PTItem)} {tr : List TreeEv} {cm : List Nat}
    {items : List PTItem} (h : DS T syms inp r acts tr cm items) :
    ∀ (asyms : List ASym), asyms.map toPT = syms →
    ∃ f, wf G asyms f = true ∧ f.trace = acts ∧ f.items = items ∧
      (sigToks inp).map (·.id) = f.allToks ++ (sigToks r).map (·.id) := by
  induction h with
  | nil =>
    intro asyms ha
    have : asyms = [] := by simpa using ha
    subst this
    exact ⟨.nil, by simp [wf], rfl, rfl, by simp [Forest.allToks]⟩
  | @tok a ss inp rest' r acts tr cm items tok hrest hskip hty _ ih =>
    intro asyms ha
    cases asyms with
    | nil => simp at ha
    | cons s ss' =>
      simp only [List.map_cons, List.cons.injEq] at ha
      obtain ⟨hs, hss⟩ := ha
      obtain ⟨f, hw, htr, hit, htk⟩ := ih ss' hss
      refine ⟨.tok tok.id tok.ty f, ?_, by simpa [Forest.trace] using htr, by simp [Forest.items, hit], ?_⟩
      · have : s.sym = .t tok.ty := by
          unfold toPT at hs
          cases hsym : s.sym with
          | t i => simp [hsym] at hs; rw [hs, hty]
          | n i => simp [hsym] at hs
        simp [wf, this, hw]
      · rw [sigToks_afterSkips hrest hskip]
        simp [Forest.allToks, htk]
  | @nt a ss inp mid r acts1 acts2 tr1 tr2 cm1 cm2 items1 items2 p pr hp hpr _ _ ih1 ih2 =>
    intro asyms ha
    cases asyms with
    | nil => simp at ha
    | cons s ss' =>
      simp only [List.map_cons, List.cons.injEq] at ha
      obtain ⟨hs, hss⟩ := ha
      -- the predicted production belongs to `a`
      have hlhs : pr.lhs = a := by
        unfold predict at hp
        cases hd : T.dfas[a]? with
        | none => simp [hd] at hp
        | some d =>
          simp only [hd, Option.some.injEq] at hp
          obtain ⟨hfrom, hgt⟩ := eval_ok_from d true _ _ hp
          exact hT.lhs_ok a d hd _ hfrom hgt pr (by simpa using hpr)
      obtain ⟨apr, hapr, hal, har⟩ := compat_get hc hpr
      obtain ⟨f1, hw1, htr1, hit1, htk1⟩ := ih1 apr.rhs har
      obtain ⟨f2, hw2, htr2, hit2, htk2⟩ := ih2 ss' hss
      refine ⟨.node p a f1 f2, ?_, ?_, ?_, ?_⟩
      · have : s.sym = .n a := by
          unfold toPT at hs
          cases hsym : s.sym with
          | t i => simp [hsym] at hs
          | n i => simp [hsym] at hs; rw [hs]
        simp [wf, this, hapr, hal, hlhs, hw1, hw2]
      · simp [Forest.trace, htr1, htr2, hit1]
      · simp [Forest.items, hit2, hlhs]
      · rw [htk1, htk2]; simp [Forest.allToks]

end ParolModel.Ast
