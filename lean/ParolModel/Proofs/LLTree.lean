import ParolModel.Proofs.LL
/-! Big-step characterisation of successful LL(k) runs (C02, C14, C17, C20).

`SD` mirrors the loop of `llLoop` one constructor per branch, but as a relation that also records what
the run emits (actions, tree events, comment ids). `llLoop_SD` shows that every successful run of
the executable model is such a derivation. `DS` is the declarative reading on grammar-symbol
sequences — a derivation tree given by its traversal — and `SD_decompose` extracts it. -/
namespace ParolModel

def tokEv (t : MTok) : TreeEv := .tok t.id

def leadSkips (inp : List MTok) : List MTok := inp.takeWhile (·.skip)
def afterSkips (inp : List MTok) : List MTok := inp.dropWhile (·.skip)
def commentIds (l : List MTok) : List Nat := (l.filter (·.comment)).map (·.id)

theorem lead_after (inp : List MTok) : leadSkips inp ++ afterSkips inp = inp :=
  List.takeWhile_append_dropWhile

/-- `drainSkips` in closed form. -/
theorem drainSkips_eq (o : Opts) : ∀ (inp : List MTok) (tr : List TreeEv) (cm : List Nat),
    drainSkips o inp tr cm =
      (afterSkips inp,
       if o.trim then tr else ((leadSkips inp).map tokEv).reverse ++ tr,
       (commentIds (leadSkips inp)).reverse ++ cm) := by
  intro inp
  induction inp with
  | nil => intro tr cm; cases o.trim <;> simp [drainSkips, afterSkips, leadSkips, commentIds]
  | cons t rest ih =>
    intro tr cm
    simp only [drainSkips]
    by_cases hs : t.skip = true
    · simp only [hs, if_true, ih]
      have h1 : afterSkips (t :: rest) = afterSkips rest := by simp [afterSkips, List.dropWhile, hs]
      have h2 : leadSkips (t :: rest) = t :: leadSkips rest := by simp [leadSkips, List.takeWhile, hs]
      rw [h1, h2]
      cases o.trim <;> by_cases hc : t.comment = true <;>
        simp [commentIds, hc, tokEv, List.filter_cons]
    · have hs' : t.skip = false := by simpa using hs
      have h1 : afterSkips (t :: rest) = t :: rest := by simp [afterSkips, List.dropWhile, hs']
      have h2 : leadSkips (t :: rest) = [] := by simp [leadSkips, List.takeWhile, hs']
      simp only [hs', Bool.false_eq_true, if_false, h1, h2]
      cases o.trim <;> simp [commentIds]

theorem afterSkips_firstSig {inp : List MTok} {tok : MTok} (h : firstSig inp = some tok) :
    ∃ rest, afterSkips inp = tok :: rest ∧ tok.skip = false := by
  induction inp with
  | nil => simp [firstSig, sigToks] at h
  | cons t rest ih =>
    by_cases hs : t.skip = true
    · have : firstSig rest = some tok := by simpa [firstSig, sigToks_cons_skip hs] using h
      obtain ⟨r, hr, hk⟩ := ih this
      exact ⟨r, by simpa [afterSkips, List.dropWhile, hs] using hr, hk⟩
    · have hs' : t.skip = false := by simpa using hs
      simp [firstSig, sigToks_cons_sig hs'] at h
      subst h
      exact ⟨rest, by simp [afterSkips, List.dropWhile, hs'], hs'⟩

theorem afterSkips_nil_of_noSig {inp : List MTok} (h : firstSig inp = none) : afterSkips inp = [] := by
  induction inp with
  | nil => rfl
  | cons t rest ih =>
    by_cases hs : t.skip = true
    · have : firstSig rest = none := by simpa [firstSig, sigToks_cons_skip hs] using h
      simpa [afterSkips, List.dropWhile, hs] using ih this
    · have hs' : t.skip = false := by simpa using hs
      simp [firstSig, sigToks_cons_sig hs'] at h

/-- Big-step semantics of the successful part of the loop, with step count. Arguments: steps,
    parser stack, input, parse-tree stack before; then: remaining input when the stack is empty,
    emitted actions, tree events (untrimmed), comment ids, parse-tree stack after. -/
inductive SD (T : LLTables) : Nat → List PT → List MTok → List PTItem →
    List MTok → List (Nat × List PTItem) → List TreeEv → List Nat → List PTItem → Prop
  | done {inp pt} : SD T 0 [] inp pt inp [] [] [] pt
  | tok {n a st inp pt rest' r acts tr cm ptOut} (tok : MTok) :
      afterSkips inp = tok :: rest' → tok.skip = false → tok.ty = a →
      SD T n st rest' (.tok tok.id tok.ty :: pt) r acts tr cm ptOut →
      SD T (n + 1) (.t a :: st) inp pt r acts
        ((leadSkips inp).map tokEv ++ tokEv tok :: tr) (commentIds (leadSkips inp) ++ cm) ptOut
  | nt {n a st inp pt r acts tr cm ptOut} (p : Nat) (pr : LLProd) :
      predict T a inp = some (.ok (Int.ofNat p)) → T.prods[p]? = some pr →
      SD T n (pr.rhsRev.reverse ++ .e p :: st) inp (.nt pr.lhs :: pt) r acts tr cm ptOut →
      SD T (n + 1) (.n a :: st) inp pt r acts (.open_ (some pr.lhs) :: tr) cm ptOut
  | e {n st inp pt r acts tr cm ptOut} (p : Nat) (pr : LLProd) :
      T.prods[p]? = some pr → pr.rhsRev.length ≤ pt.length →
      SD T n st inp (pt.drop pr.rhsRev.length) r acts tr cm ptOut →
      SD T (n + 1) (.e p :: st) inp pt r ((p, (pt.take pr.rhsRev.length).reverse) :: acts)
        (.close :: tr) cm ptOut

theorem finish_ok_out (o : Opts) (s : LLState) (steps : Nat)
    (h : (finish o s none steps).res = .ok) :
    firstSig (afterSkips s.input) = none ∧
    finish o s none steps =
      ⟨.ok, s.actions.reverse,
        (TreeEv.close :: (if o.trim then s.tree else ((leadSkips s.input).map tokEv).reverse ++ s.tree)).reverse,
        ((commentIds (leadSkips s.input)).reverse ++ s.comments).reverse, steps⟩ := by
  unfold finish at h ⊢
  rw [drainSkips_eq] at h ⊢
  simp only at h ⊢
  cases hf : firstSig (afterSkips s.input) with
  | some t => simp [hf] at h
  | none => simp [hf]

theorem abort_res (s : LLState) (r : Res) (steps : Nat) : (abort s r steps).res = r := rfl

theorem finish_err_res (o : Opts) (s : LLState) (e : Option Nat) (steps : Nat) :
    (finish o s (some e) steps).res ≠ .ok := by
  intro h; exact absurd (finish_ok o s _ steps h).1 (by simp)

theorem pushProduction_fields {T : LLTables} {o : Opts} {s s' : LLState} {p : Nat} {r : Option Res}
    {pr : LLProd} (hpr : T.prods[p]? = some pr) (h : pushProduction T o s p = some (s', r)) :
    s'.ptStack = .nt pr.lhs :: s.ptStack ∧ s'.actions = s.actions ∧ s'.comments = s.comments ∧
    s'.tree = (if o.trim then s.tree else .open_ (some pr.lhs) :: s.tree) := by
  unfold pushProduction at h
  simp only [hpr] at h
  cases hm : o.maxDepth with
  | none =>
    simp only [hm] at h
    injection h with h; injection h with h1 h2
    subst h1; exact ⟨rfl, rfl, rfl, rfl⟩
  | some m =>
    simp only [hm] at h
    split at h <;> split at h <;>
    · injection h with h; injection h with h1 h2
      subst h1; exact ⟨rfl, rfl, rfl, rfl⟩

/-- Every successful run of the executable loop is an `SD` derivation, and its outputs are the
    accumulated ones followed by what the derivation emits, the trailing skip tokens and the
    closing of the root node. -/
theorem llLoop_SD (T : LLTables) (o : Opts) (hne : ∀ pr ∈ T.prods, PT.t 0 ∉ pr.rhsRev) :
    ∀ (fuel : Nat) (s : LLState) (steps : Nat) (out : LLOut), PT.t 0 ∉ s.stack →
    llLoop T o fuel s steps = out → out.res = .ok →
    ∃ n r acts tr cm ptOut, SD T n s.stack s.input s.ptStack r acts tr cm ptOut ∧
      firstSig (afterSkips r) = none ∧
      out.actions = s.actions.reverse ++ acts ∧
      out.tree =
        s.tree.reverse ++ (if o.trim then [] else tr ++ (leadSkips r).map tokEv) ++ [TreeEv.close] ∧
      out.comments = s.comments.reverse ++ cm ++ commentIds (leadSkips r) := by
  intro fuel
  induction fuel with
  | zero => intro s steps out _ h hok; rw [← h] at hok; simp [llLoop, abort] at hok
  | succ fuel ih =>
    intro s steps out hno h hok
    unfold llLoop at h
    split at h
    · rename_i hacc
      have hst : s.stack = [] := by
        rcases (inputAccepted_iff _).1 hacc with h0 | h0
        · exact h0
        · rw [h0] at hno; simp at hno
      rw [← h] at hok
      obtain ⟨hf, heq⟩ := finish_ok_out o s steps hok
      rw [heq] at h
      refine ⟨0, s.input, [], [], [], s.ptStack, by rw [hst]; exact .done, hf, ?_, ?_, ?_⟩
      · rw [← h]; simp
      · rw [← h]; cases o.trim <;> simp
      · rw [← h]; simp
    · rename_i hacc
      split at h
      · rename_i hs
        exact absurd ((inputAccepted_iff _).2 (Or.inl hs)) hacc
      · -- terminal
        rename_i a st hs
        split at h
        · rename_i tok hf
          split at h
          · rename_i hty
            obtain ⟨rest', hrest, hskip⟩ := afterSkips_firstSig hf
            rw [drainSkips_eq] at h
            simp only [hrest, List.drop_one, List.tail_cons] at h
            have hno' : PT.t 0 ∉ st := by rw [hs] at hno; exact fun hm => hno (List.mem_cons_of_mem _ hm)
            obtain ⟨n, r, acts, tr, cm, ptOut, hsd, hf', ha, ht, hc⟩ := ih _ _ out hno' h hok
            simp only at hsd ha ht hc
            refine ⟨n + 1, r, acts, _, _, ptOut, by rw [hs]; exact SD.tok tok hrest hskip hty hsd, hf', ?_, ?_, ?_⟩
            · rw [ha]
            · rw [ht]; cases o.trim <;> simp [tokEv]
            · rw [hc]; simp
          · rw [← h] at hok; exact absurd hok (finish_err_res _ _ _ _)
        · split at h
          · rw [← h] at hok; simp [abort_res] at hok
          · rw [← h] at hok; exact absurd hok (finish_err_res _ _ _ _)
      · -- non-terminal
        rename_i a st hs
        split at h
        · rename_i p hp
          split at h
          · rw [← h] at hok; simp [abort_res] at hok
          · rename_i hpos
            split at h
            · rename_i s' hpush
              obtain ⟨pr, hpr, hst', hin', _⟩ := pushProduction_spec hpush
              obtain ⟨hf1, hf2, hf3, hf4⟩ := pushProduction_fields hpr hpush
              simp only at hst' hin' hf1 hf2 hf3 hf4
              have hno' : PT.t 0 ∉ s'.stack := by
                rw [hst']
                intro hm
                rcases List.mem_append.1 hm with hm | hm
                · exact hne pr (List.mem_of_getElem? hpr) (by simpa using hm)
                · rcases List.mem_cons.1 hm with hm | hm
                  · cases hm
                  · rw [hs] at hno; exact hno (List.mem_cons_of_mem _ hm)
              obtain ⟨n, r, acts, tr, cm, ptOut, hsd, hf', ha, ht, hc⟩ := ih s' _ out hno' h hok
              rw [hst', hin', hf1] at hsd
              have hpn : p = Int.ofNat p.toNat := by
                have : (p.toNat : Int) = p := Int.toNat_of_nonneg (by omega)
                exact this.symm
              refine ⟨n + 1, r, acts, _, cm, ptOut,
                by rw [hs]; exact SD.nt p.toNat pr (by rw [← hpn]; exact hp) hpr hsd, hf', ?_, ?_, ?_⟩
              · rw [ha, hf2]
              · rw [ht, hf4]; cases o.trim <;> simp
              · rw [hc, hf3]
            · rename_i s' r hpush
              obtain ⟨_, _, _, _, hr⟩ := pushProduction_spec hpush
              rw [← h] at hok; simp only [abort_res] at hok
              exact absurd (by rw [hok]) hr
            · rw [← h] at hok; simp [abort_res] at hok
        · rw [← h] at hok; exact absurd hok (finish_err_res _ _ _ _)
        · rw [← h] at hok; simp [abort_res] at hok
      · -- end-of-production marker
        rename_i p st hs
        split at h
        · rw [← h] at hok; simp [abort_res] at hok
        · rename_i pr hpr
          simp only [] at h
          by_cases hlen : s.ptStack.length < pr.rhsRev.length
          · rw [if_pos hlen] at h
            rw [← h] at hok; simp [abort_res] at hok
          · rw [if_neg hlen] at h
            have hno' : PT.t 0 ∉ st := by rw [hs] at hno; exact fun hm => hno (List.mem_cons_of_mem _ hm)
            obtain ⟨n, r, acts, tr, cm, ptOut, hsd, hf', ha, ht, hc⟩ := ih _ _ out hno' h hok
            simp only at hsd ha ht hc
            refine ⟨n + 1, r, _, _, cm, ptOut, by rw [hs]; exact SD.e p pr hpr (by omega) hsd, hf', ?_, ?_, ?_⟩
            · rw [ha]; simp
            · rw [ht]; cases o.trim <;> simp
            · rw [hc]



theorem leadSkips_all_skip : ∀ (inp : List MTok) (t : MTok), t ∈ leadSkips inp → t.skip = true := by
  intro inp
  induction inp with
  | nil => intro t ht; simp [leadSkips] at ht
  | cons x rest ih =>
    intro t ht
    by_cases hs : x.skip = true
    · have : leadSkips (x :: rest) = x :: leadSkips rest := by simp [leadSkips, List.takeWhile, hs]
      rw [this] at ht
      rcases List.mem_cons.1 ht with rfl | ht
      · exact hs
      · exact ih t ht
    · have hs' : x.skip = false := by simpa using hs
      have : leadSkips (x :: rest) = [] := by simp [leadSkips, List.takeWhile, hs']
      rw [this] at ht; cases ht

def PT.isE : PT → Bool
  | .e _ => true
  | _ => false

/-- Declarative reading of a successful parse of a grammar-symbol sequence: a derivation forest
    given by its traversal. For a non-terminal, the chosen production's right-hand side is parsed
    (`DS … rhs …`), its semantic action `(p, items₁)` is emitted after the actions of its children and
    before those of its right siblings (post-order), its node is opened before and closed after its
    children's events. `items` lists one entry per symbol, in symbol order. -/
inductive DS (T : LLTables) : List PT → List MTok → List MTok →
    List (Nat × List PTItem) → List TreeEv → List Nat → List PTItem → Prop
  | nil {inp} : DS T [] inp inp [] [] [] []
  | tok {a ss inp rest' r acts tr cm items} (tok : MTok) :
      afterSkips inp = tok :: rest' → tok.skip = false → tok.ty = a →
      DS T ss rest' r acts tr cm items →
      DS T (.t a :: ss) inp r acts ((leadSkips inp).map tokEv ++ tokEv tok :: tr)
        (commentIds (leadSkips inp) ++ cm) (.tok tok.id tok.ty :: items)
  | nt {a ss inp mid r acts1 acts2 tr1 tr2 cm1 cm2 items1 items2} (p : Nat) (pr : LLProd) :
      predict T a inp = some (.ok (Int.ofNat p)) → T.prods[p]? = some pr →
      DS T pr.rhsRev.reverse inp mid acts1 tr1 cm1 items1 →
      DS T ss mid r acts2 tr2 cm2 items2 →
      DS T (.n a :: ss) inp r (acts1 ++ (p, items1) :: acts2)
        (.open_ (some pr.lhs) :: tr1 ++ .close :: tr2) (cm1 ++ cm2) (.nt pr.lhs :: items2)

theorem DS_items_length {T : LLTables} {syms inp r acts tr cm items}
    (h : DS T syms inp r acts tr cm items) : items.length = syms.length := by
  induction h with
  | nil => rfl
  | tok _ _ _ _ _ ih => simp [ih]
  | nt _ _ _ _ _ _ _ ih2 => simp [ih2]

/-- Splitting an `SD` derivation of `syms ++ rest` (with `syms` free of end-of-production markers)
    into the declarative parse of `syms` and the `SD` derivation of `rest`. -/
theorem SD_decompose (T : LLTables)
    (hwf : ∀ pr ∈ T.prods, ∀ x ∈ pr.rhsRev, PT.isE x = false) :
    ∀ (n : Nat) (syms rest : List PT) (inp : List MTok) (pt : List PTItem) (r : List MTok)
      (acts : List (Nat × List PTItem)) (tr : List TreeEv) (cm : List Nat) (ptOut : List PTItem),
    (∀ x ∈ syms, PT.isE x = false) →
    SD T n (syms ++ rest) inp pt r acts tr cm ptOut →
    ∃ n2 mid acts1 acts2 tr1 tr2 cm1 cm2 items, n2 ≤ n ∧
      DS T syms inp mid acts1 tr1 cm1 items ∧
      SD T n2 rest mid (items.reverse ++ pt) r acts2 tr2 cm2 ptOut ∧
      acts = acts1 ++ acts2 ∧ tr = tr1 ++ tr2 ∧ cm = cm1 ++ cm2 := by
  intro n
  induction n using Nat.strongRecOn with
  | _ n ih =>
    intro syms rest inp pt r acts tr cm ptOut hsyms hsd
    cases syms with
    | nil =>
      exact ⟨n, inp, [], acts, [], tr, [], cm, [], Nat.le_refl _, .nil, by simpa using hsd, rfl, rfl, rfl⟩
    | cons x ss =>
      have hss : ∀ y ∈ ss, PT.isE y = false := fun y hy => hsyms y (List.mem_cons_of_mem _ hy)
      generalize hstk : (x :: ss) ++ rest = stk at hsd
      cases hsd with
      | done => cases hstk
      | @tok n' a st _ _ rest' _ _ tr' cm' _ tok hrest hskip hty hsd' =>
        simp only [List.cons_append, List.cons.injEq] at hstk
        obtain ⟨hx, hst⟩ := hstk
        subst hx; subst hst
        obtain ⟨n2, mid, acts1, acts2, tr1, tr2, cm1, cm2, items, hle, hds, hsd2, ha, ht, hc⟩ :=
          ih n' (Nat.lt_succ_self _) ss rest rest' _ r acts tr' cm' ptOut hss hsd'
        refine ⟨n2, mid, acts1, acts2, _, tr2, _, cm2, _, by omega,
          DS.tok tok hrest hskip hty hds, ?_, ha, ?_, ?_⟩
        · simpa using hsd2
        · rw [ht]; simp
        · rw [hc]; simp
      | @nt n' a st _ _ _ _ tr' _ _ p pr hp hpr hsd' =>
        simp only [List.cons_append, List.cons.injEq] at hstk
        obtain ⟨hx, hst⟩ := hstk
        subst hx; subst hst
        have hrhs : ∀ y ∈ pr.rhsRev.reverse, PT.isE y = false := by
          intro y hy
          exact hwf pr (List.mem_of_getElem? hpr) y (by simpa using hy)
        obtain ⟨n2, mid1, acts1, actsR, tr1, trR, cm1, cmR, items1, hle1, hds1, hsdR, ha1, ht1, hc1⟩ :=
          ih n' (Nat.lt_succ_self _) pr.rhsRev.reverse (.e p :: (ss ++ rest)) inp _ r acts tr' cm ptOut hrhs hsd'
        -- invert the end-of-production step
        generalize hstk2 : PT.e p :: (ss ++ rest) = stk2 at hsdR
        cases hsdR with
        | done => cases hstk2
        | tok _ _ _ _ _ => cases hstk2
        | nt _ _ _ _ _ => cases hstk2
        | @e n3 st3 _ _ _ actsE trE _ _ p' pr' hpr' hlen hsd3 =>
          simp only [List.cons.injEq, PT.e.injEq] at hstk2
          obtain ⟨hp', hst3⟩ := hstk2
          subst hp'; subst hst3
          have hprr : pr' = pr := by rw [hpr] at hpr'; injection hpr' with h; exact h.symm
          subst hprr
          have hl : items1.length = pr'.rhsRev.length := by
            rw [DS_items_length hds1]; simp
          have htake : ((items1.reverse ++ PTItem.nt pr'.lhs :: pt).take pr'.rhsRev.length).reverse = items1 := by
            rw [← hl, ← List.length_reverse, List.take_left]; simp
          have hdrop : (items1.reverse ++ PTItem.nt pr'.lhs :: pt).drop pr'.rhsRev.length = PTItem.nt pr'.lhs :: pt := by
            rw [← hl, ← List.length_reverse, List.drop_left]
          rw [hdrop] at hsd3
          rw [htake] at ha1
          obtain ⟨n4, mid2, acts2a, acts2b, tr2a, tr2b, cm2a, cm2b, items2, hle2, hds2, hsd4, ha2, ht2, hc2⟩ :=
            ih n3 (by omega) ss rest mid1 _ r actsE trE cmR ptOut hss hsd3
          refine ⟨n4, mid2, acts1 ++ (p, items1) :: acts2a, acts2b, _, tr2b, cm1 ++ cm2a, cm2b, _, by omega,
            DS.nt p pr' hp hpr hds1 hds2, ?_, ?_, ?_, ?_⟩
          · simpa using hsd4
          · rw [ha1, ha2]; simp
          · rw [ht1, ht2]; simp
          · rw [hc1, hc2]; simp
      | e p pr hpr hlen hsd' =>
        simp only [List.cons_append, List.cons.injEq] at hstk
        obtain ⟨hx, _⟩ := hstk
        subst hx
        have := hsyms (.e p) List.mem_cons_self
        simp [PT.isE] at this

/-- The significant token types a declarative parse consumes form a derivation of its symbols:
    the traversal really is a derivation tree of the consumed input. -/
theorem DS_yield (T : LLTables) (hT : TablesSound T) {syms inp r acts tr cm items}
    (h : DS T syms inp r acts tr cm items) :
    ∃ consumed, sigTypes inp = consumed ++ sigTypes r ∧ Yield (gOf T) (stackSyms syms) consumed := by
  induction h with
  | nil => exact ⟨[], rfl, .nil⟩
  | @tok a ss inp rest' r acts tr cm items tok hrest hskip hty _ ih =>
    obtain ⟨c, hc, hy⟩ := ih
    refine ⟨a :: c, ?_, by simpa using Yield.term a hy⟩
    have : sigToks inp = tok :: sigToks rest' := by
      have h1 := lead_after inp
      rw [hrest] at h1
      rw [← h1]
      have hl : sigToks (leadSkips inp) = [] := by
        simp only [sigToks, leadSkips, List.filter_eq_nil_iff]
        intro t ht
        have := leadSkips_all_skip inp t ht
        simp [this]
      simp only [sigToks, List.filter_append] at hl ⊢
      rw [hl]
      simp [hskip]
    simp only [sigTypes, this, List.map_cons, hty] at hc ⊢
    rw [hc]; rfl
  | @nt a ss inp mid r acts1 acts2 tr1 tr2 cm1 cm2 items1 items2 p pr hp hpr _ _ ih1 ih2 =>
    obtain ⟨c1, hc1, hy1⟩ := ih1
    obtain ⟨c2, hc2, hy2⟩ := ih2
    refine ⟨c1 ++ c2, by rw [hc1, hc2, List.append_assoc], ?_⟩
    unfold predict at hp
    cases hd : T.dfas[a]? with
    | none => simp [hd] at hp
    | some d =>
      simp only [hd, Option.some.injEq] at hp
      obtain ⟨hfrom, hgt⟩ := eval_ok_from d true _ _ hp
      have hlhs := hT.lhs_ok a d hd _ hfrom hgt pr (by simpa using hpr)
      have hmem : ruleOf pr ∈ (gOf T).prods := by
        simp only [gOf, List.mem_map]; exact ⟨pr, List.mem_of_getElem? hpr, rfl⟩
      have := Yield.nonterm (ruleOf pr) hmem hy1 hy2
      simpa [ruleOf, hlhs] using this

end ParolModel
