import ParolModel.Proofs.FrontToBack
/-! The class of grammars in which C05/C06/C07 are proved (`KS.Productive`, `KS.Reachable`,
`KS.NoLeftRec`: what parol's three grammar checks establish, `pre_established_analysis`) on plain
grammars WITH NAMES (`ProdN`, `ReachN`, `NoLRN`), and the bridge to the numbered grammar in both
directions. (Used by Proofs/FrontToBackLf.lean: left factoring preserves the class.) -/
namespace ParolModel
open KS

/-- every non-terminal used on a right-hand side derives some terminal string -/
def ProdN (rs : List RuleN) : Prop :=
  ∀ r ∈ rs, ∀ Y ∈ symsNames r.rhs, ∃ w, YieldE (rs.map RuleN.toEProd) [.n Y .none] w

/-- reachable from the start symbol in the "occurs on a right-hand side of" graph -/
inductive RN (rs : List RuleN) (st : Name) : Name → Prop
  | start : RN rs st st
  | step (r : RuleN) (Y : Name) : r ∈ rs → RN rs st r.lhs → Y ∈ symsNames r.rhs → RN rs st Y

def ReachN (rs : List RuleN) (st : Name) : Prop := ∀ r ∈ rs, RN rs st r.lhs

/-- the left-corner relation (through nullable prefixes) has a rank function -/
def NoLRN (rs : List RuleN) : Prop :=
  ∃ ρ : Name → Nat, ∀ r ∈ rs, ∀ (α : List SymN) (Y : Name) (sa : SAttr) (β : List SymN),
    r.rhs = α ++ .n Y sa :: β → YieldE (rs.map RuleN.toEProd) (α.map SymN.toFactor) [] →
    ρ Y < ρ r.lhs

structure WFN (rs : List RuleN) (st : Name) : Prop where
  prod : ProdN rs
  reach : ReachN rs st
  nolr : NoLRN rs

/-! ## small facts -/

theorem symsNames_cons (s : SymN) (ss : List SymN) : symsNames (s :: ss) = s.names ++ symsNames ss := by
  simp [symsNames]

theorem mem_symsNames {Y : Name} {ss : List SymN} : Y ∈ symsNames ss ↔ ∃ sa, SymN.n Y sa ∈ ss := by
  simp only [symsNames, List.mem_flatMap]
  constructor
  · rintro ⟨s, hs, hY⟩
    cases s with
    | t a => simp [SymN.names] at hY
    | n A sa => simp only [SymN.names, List.mem_singleton] at hY; subst hY; exact ⟨sa, hs⟩
  · rintro ⟨sa, hs⟩
    exact ⟨_, hs, by simp [SymN.names]⟩

theorem yieldE_sa {G : List EProd} {A : Name} {sa sa' : SAttr} {w : List Nat}
    (h : YieldE G [.n A sa] w) : YieldE G [.n A sa'] w := (yieldE_nt_inv h).yield sa'

/-- a symbol string all of whose non-terminals are productive is productive -/
theorem yieldE_of_prodNames {G : List EProd} : ∀ (ss : List SymN),
    (∀ Y ∈ symsNames ss, ∃ w, YieldE G [.n Y .none] w) → ∃ w, YieldE G (ss.map SymN.toFactor) w
  | [], _ => ⟨[], .nil⟩
  | s :: ss, h => by
    obtain ⟨v, hv⟩ := yieldE_of_prodNames ss (fun Y hY => h Y (by
      rw [symsNames_cons]; exact List.mem_append_right _ hY))
    cases s with
    | t a => exact ⟨a :: v, .term a hv⟩
    | n A sa =>
      obtain ⟨u, hu⟩ := h A (by rw [symsNames_cons]; simp [SymN.names])
      exact ⟨u ++ v, YieldE.cons (yieldE_sa hu) hv⟩

theorem rn_mem {rs : List RuleN} {st Y : Name} (h : RN rs st Y) : Y = st ∨ Y ∈ namesN rs := by
  cases h with
  | start => exact .inl rfl
  | step r Y hr _ hY => exact .inr ((namesN_spec hr).2 Y hY)

/-! ## the numbered grammar -/

/-- image of a named symbol in the numbered grammar -/
def numSym (ν : Name → Nat) (τ : Nat → Nat) (s : SymN) : Sym := Sym.mapT τ (s.toSym ν)

theorem mem_prods_num {ν : Name → Nat} {τ : Nat → Nat} {st : Name} {B : List RuleN} {p : Rule} :
    p ∈ (mapTerms τ (toGrammar ν st B)).prods ↔
      ∃ r ∈ B, p = ⟨ν r.lhs, r.rhs.map (numSym ν τ)⟩ := by
  simp only [mapTerms, toGrammar, List.mem_map, RuleN.toRule]
  constructor
  · rintro ⟨_, ⟨r, hr, rfl⟩, rfl⟩
    exact ⟨r, hr, by simp [numSym]⟩
  · rintro ⟨r, hr, rfl⟩
    exact ⟨_, ⟨r, hr, rfl⟩, by simp [numSym]⟩

theorem numSym_eq_n {ν : Name → Nat} {τ : Nat → Nat} {s : SymN} {b : Nat}
    (h : numSym ν τ s = .n b) : ∃ Y sa, s = .n Y sa ∧ b = ν Y := by
  cases s with
  | t a => simp [numSym, SymN.toSym, Sym.mapT] at h
  | n Y sa =>
    simp only [numSym, SymN.toSym, Sym.mapT, Sym.n.injEq] at h
    exact ⟨Y, sa, rfl, h.symm⟩

theorem map_numSym (ν : Name → Nat) (τ : Nat → Nat) (ss : List SymN) :
    ss.map (numSym ν τ) = (ss.map (SymN.toSym ν)).map (Sym.mapT τ) := by
  rw [List.map_map]; rfl

theorem yield_num_of_yieldE {ν : Name → Nat} {τ : Nat → Nat} {st : Name} {B : List RuleN}
    {ss : List SymN} {w : List Nat} (h : YieldE (B.map RuleN.toEProd) (ss.map SymN.toFactor) w) :
    Yield (mapTerms τ (toGrammar ν st B)) (ss.map (numSym ν τ)) (w.map τ) := by
  rw [map_numSym]
  exact yield_mapTerms τ (yieldE_to_yield ν st B h ss rfl)

theorem yieldE_of_yield_num {ν : Name → Nat} {τ : Nat → Nat} {st : Name} {B : List RuleN}
    {V : List Name} (hinj : InjOn ν V) (hV : ∀ x ∈ namesN B, x ∈ V)
    {ss : List SymN} {u : List Nat}
    (h : Yield (mapTerms τ (toGrammar ν st B)) (ss.map (numSym ν τ)) u)
    (hss : ∀ x ∈ symsNames ss, x ∈ V) :
    ∃ w, u = w.map τ ∧ YieldE (B.map RuleN.toEProd) (ss.map SymN.toFactor) w := by
  obtain ⟨w, rfl, hw⟩ := yield_of_mapTerms τ h (ss.map (SymN.toSym ν)) (map_numSym ν τ ss)
  exact ⟨w, rfl, yield_to_yieldE ν st B V hinj hV hw ss rfl hss⟩

/-! ## numbered → named -/

theorem rn_of_followCtx {ν : Name → Nat} {τ : Nat → Nat} {st : Name} {B : List RuleN}
    {V : List Name} (hinj : InjOn ν V) (hV : ∀ x ∈ namesN B, x ∈ V) (hst : st ∈ V)
    {a : Nat} {γ : List Sym} (h : FollowCtx (mapTerms τ (toGrammar ν st B)) a γ) :
    ∃ A, a = ν A ∧ RN B st A := by
  induction h with
  | start => exact ⟨st, rfl, .start⟩
  | step p hp α β γ b hr _ ih =>
    obtain ⟨r, hrB, rfl⟩ := mem_prods_num.1 hp
    obtain ⟨A, hA, hRA⟩ := ih
    simp only at hA hr
    have hAV : A ∈ V := by
      rcases rn_mem hRA with rfl | h
      · exact hst
      · exact hV _ h
    have : A = r.lhs := hinj _ hAV _ (hV _ (namesN_spec hrB).1) hA.symm
    subst this
    have hb : Sym.n b ∈ r.rhs.map (numSym ν τ) := by rw [hr]; simp
    obtain ⟨s, hs, hsb⟩ := List.mem_map.1 hb
    obtain ⟨Y, sa, rfl, rfl⟩ := numSym_eq_n hsb
    exact ⟨Y, rfl, .step r Y hrB hRA (mem_symsNames.2 ⟨sa, hs⟩)⟩

/-- **numbered → named**: the class of the numbered grammar (any terminal map, any numbering of
    the names that is injective on the names of the grammar) gives the class with names. -/
theorem wfn_of_ks {ν : Name → Nat} {τ : Nat → Nat} {st : Name} {B : List RuleN}
    {V : List Name} (hinj : InjOn ν V) (hV : ∀ x ∈ namesN B, x ∈ V) (hst : st ∈ V)
    (hprod : KS.Productive (mapTerms τ (toGrammar ν st B)))
    (hreach : KS.Reachable (mapTerms τ (toGrammar ν st B)))
    (hnlr : KS.NoLeftRec (mapTerms τ (toGrammar ν st B))) : WFN B st := by
  refine ⟨?_, ?_, ?_⟩
  · intro r hr Y hY
    obtain ⟨sa, hs⟩ := mem_symsNames.1 hY
    have hp : (⟨ν r.lhs, r.rhs.map (numSym ν τ)⟩ : Rule) ∈ (mapTerms τ (toGrammar ν st B)).prods :=
      mem_prods_num.2 ⟨r, hr, rfl⟩
    have hmem : Sym.n (ν Y) ∈ (⟨ν r.lhs, r.rhs.map (numSym ν τ)⟩ : Rule).rhs :=
      List.mem_map.2 ⟨_, hs, by simp [numSym, SymN.toSym, Sym.mapT]⟩
    obtain ⟨u, hu⟩ := hprod _ hp (ν Y) hmem
    have hu' : Yield (mapTerms τ (toGrammar ν st B)) ([SymN.n Y .none].map (numSym ν τ)) u := by
      simpa [numSym, SymN.toSym, Sym.mapT] using hu
    obtain ⟨w, _, hw⟩ := yieldE_of_yield_num hinj hV hu' (by
      intro x hx
      simp only [symsNames, List.flatMap_cons, SymN.names, List.flatMap_nil, List.append_nil,
        List.mem_singleton] at hx
      subst hx
      exact hV _ ((namesN_spec hr).2 _ hY))
    exact ⟨w, by simpa [SymN.toFactor] using hw⟩
  · intro r hr
    have hp : (⟨ν r.lhs, r.rhs.map (numSym ν τ)⟩ : Rule) ∈ (mapTerms τ (toGrammar ν st B)).prods :=
      mem_prods_num.2 ⟨r, hr, rfl⟩
    obtain ⟨γ, _, hc, _⟩ := hreach _ hp
    obtain ⟨A, hA, hRA⟩ := rn_of_followCtx hinj hV hst hc
    have hAV : A ∈ V := by
      rcases rn_mem hRA with rfl | h
      · exact hst
      · exact hV _ h
    have : A = r.lhs := hinj _ hAV _ (hV _ (namesN_spec hr).1) hA.symm
    exact this ▸ hRA
  · obtain ⟨ρ, hρ⟩ := hnlr
    refine ⟨fun Y => ρ (ν Y), ?_⟩
    intro r hr α Y sa β hrhs hnull
    apply hρ (ν r.lhs) (ν Y)
    refine ⟨⟨ν r.lhs, r.rhs.map (numSym ν τ)⟩, mem_prods_num.2 ⟨r, hr, rfl⟩, rfl,
      α.map (numSym ν τ), β.map (numSym ν τ), ?_, ?_⟩
    · simp [hrhs, numSym, SymN.toSym, Sym.mapT]
    · simpa using yield_num_of_yieldE (ν := ν) (τ := τ) (st := st) hnull

/-! ## named → numbered (numbering = position in a table of the names) -/

theorem followCtx_of_rn {tbl : List Name} {τ : Nat → Nat} {st : Name} {B : List RuleN}
    {A : Name} (h : RN B st A) :
    ∃ γ : List SymN, FollowCtx (mapTerms τ (toGrammar (indexIn tbl) st B)) (indexIn tbl A)
        (γ.map (numSym (indexIn tbl) τ)) ∧
      ∀ Y ∈ symsNames γ, ∃ r ∈ B, Y ∈ symsNames r.rhs := by
  induction h with
  | start => exact ⟨[], FollowCtx.start, by simp [symsNames]⟩
  | step r Y hr _ hY ih =>
    obtain ⟨γ, hc, hγ⟩ := ih
    obtain ⟨sa, hs⟩ := mem_symsNames.1 hY
    obtain ⟨α, β, hrhs⟩ := List.append_of_mem hs
    refine ⟨β ++ γ, ?_, ?_⟩
    · have := FollowCtx.step (G := mapTerms τ (toGrammar (indexIn tbl) st B))
        ⟨indexIn tbl r.lhs, r.rhs.map (numSym (indexIn tbl) τ)⟩ (mem_prods_num.2 ⟨r, hr, rfl⟩)
        (α.map (numSym (indexIn tbl) τ)) (β.map (numSym (indexIn tbl) τ))
        (γ.map (numSym (indexIn tbl) τ)) (indexIn tbl Y)
        (by simp [hrhs, numSym, SymN.toSym, Sym.mapT]) hc
      simpa using this
    · intro Z hZ
      simp only [symsNames, List.flatMap_append, List.mem_append] at hZ
      rcases hZ with hZ | hZ
      · refine ⟨r, hr, ?_⟩
        rw [hrhs]
        simp only [symsNames, List.flatMap_append, List.flatMap_cons, List.mem_append]
        exact .inr (.inr hZ)
      · exact hγ Z hZ

/-- **named → numbered**: the class with names gives the class of the grammar numbered through a
    table that contains its names (`numberG` is of this form). -/
theorem ks_of_wfn {tbl : List Name} {τ : Nat → Nat} {st : Name} {B : List RuleN}
    (htbl : ∀ x ∈ namesN B, x ∈ tbl) (h : WFN B st) :
    KS.Productive (mapTerms τ (toGrammar (indexIn tbl) st B)) ∧
    KS.Reachable (mapTerms τ (toGrammar (indexIn tbl) st B)) ∧
    KS.NoLeftRec (mapTerms τ (toGrammar (indexIn tbl) st B)) := by
  have hinj := indexIn_injOn tbl
  refine ⟨?_, ?_, ?_⟩
  · intro p hp b hb
    obtain ⟨r, hr, rfl⟩ := mem_prods_num.1 hp
    obtain ⟨s, hs, hsb⟩ := List.mem_map.1 hb
    obtain ⟨Y, sa, rfl, rfl⟩ := numSym_eq_n hsb
    obtain ⟨w, hw⟩ := h.prod r hr Y (mem_symsNames.2 ⟨sa, hs⟩)
    have := yield_num_of_yieldE (ν := indexIn tbl) (τ := τ) (st := st) (ss := [.n Y .none])
      (by simpa [SymN.toFactor] using hw)
    exact ⟨w.map τ, by simpa [numSym, SymN.toSym, Sym.mapT] using this⟩
  · intro p hp
    obtain ⟨r, hr, rfl⟩ := mem_prods_num.1 hp
    obtain ⟨γ, hc, hγ⟩ := followCtx_of_rn (tbl := tbl) (τ := τ) (h.reach r hr)
    obtain ⟨v, hv⟩ := yieldE_of_prodNames (G := B.map RuleN.toEProd) γ (fun Y hY => by
      obtain ⟨r', hr', hY'⟩ := hγ Y hY
      exact h.prod r' hr' Y hY')
    exact ⟨_, v.map τ, hc, yield_num_of_yieldE hv⟩
  · obtain ⟨ρ, hρ⟩ := h.nolr
    refine ⟨fun n => ρ (tbl[n]?.getD []), ?_⟩
    rintro a b ⟨p, hp, rfl, α', β', hrhs, hnull⟩
    obtain ⟨r, hr, rfl⟩ := mem_prods_num.1 hp
    simp only at hrhs
    obtain ⟨α, rest, hsplit, rfl, hrest⟩ := List.map_eq_append_iff.1 hrhs
    obtain ⟨s, β, rfl, hsb, rfl⟩ := List.map_eq_cons_iff.1 hrest
    obtain ⟨Y, sa, rfl, rfl⟩ := numSym_eq_n hsb
    have hnames := (namesN_spec hr).2
    have hαV : ∀ x ∈ symsNames α, x ∈ tbl := by
      intro x hx
      apply htbl x (hnames x _)
      rw [hsplit]
      simp only [symsNames, List.flatMap_append, List.mem_append]
      exact .inl hx
    obtain ⟨w, hw0, hw⟩ := yieldE_of_yield_num hinj htbl hnull hαV
    have hw0' : w = [] := by cases w <;> simp at hw0 ⊢
    subst hw0'
    have hlt := hρ r hr α Y sa β hsplit hw
    have hY : Y ∈ tbl := htbl Y (hnames Y (by
      rw [hsplit]; simp [symsNames, SymN.names]))
    have hl : r.lhs ∈ tbl := htbl _ (namesN_spec hr).1
    simp only [indexIn_lookup hY, indexIn_lookup hl, Option.getD_some]
    exact hlt

end ParolModel
