import ParolModel.Model.ParLiterals
import ParolModel.Proofs.ParLiterals
/-! Lemmas for C25, part 2: exactness of `litOk` (a single literal token implies `litOk`) and the
in-context theorem (a literal whose body does not end in a backslash is delimited by its own closing
delimiter whatever follows). -/
namespace ParolModel.Par
open ParolModel

/-! ### Uniqueness of the split of a terminal list at a token number -/

theorem split_unique : ∀ (p1 p2 q1 q2 : List ScanTerm) (a b : ScanTerm),
    p1 ++ a :: q1 = p2 ++ b :: q2 → a.tok = b.tok → ((p1 ++ a :: q1).map (·.tok)).Nodup → p1 = p2 ∧ a = b := by
  intro p1
  induction p1 with
  | nil =>
    intro p2 q1 q2 a b h htok hnd
    cases p2 with
    | nil =>
      simp only [List.nil_append, List.cons.injEq] at h
      exact ⟨rfl, h.1⟩
    | cons c p2' =>
      simp only [List.nil_append, List.cons_append, List.cons.injEq] at h
      obtain ⟨rfl, rfl⟩ := h
      simp only [List.nil_append, List.map_cons, List.nodup_cons] at hnd
      exfalso; apply hnd.1
      simp only [List.map_append, List.map_cons, List.mem_append, List.mem_cons]
      right; left; exact htok
  | cons c p1' ih =>
    intro p2 q1 q2 a b h htok hnd
    cases p2 with
    | nil =>
      simp only [List.nil_append, List.cons_append, List.cons.injEq] at h
      obtain ⟨rfl, _⟩ := h
      simp only [List.cons_append, List.map_cons, List.nodup_cons] at hnd
      exfalso; apply hnd.1
      simp only [List.map_append, List.map_cons, List.mem_append, List.mem_cons]
      right; left; exact htok.symm
    | cons c' p2' =>
      simp only [List.cons_append, List.cons.injEq] at h
      obtain ⟨rfl, h2⟩ := h
      simp only [List.cons_append, List.map_cons, List.nodup_cons] at hnd
      obtain ⟨hp, ha⟩ := ih p2' q1 q2 a b h2 htok hnd.2
      exact ⟨by rw [hp], ha⟩

/-- (as `C13.step_longest_first`) the match chosen at a position belongs to one terminal of the mode,
    every terminal declared before it has a strictly shorter match -/
theorem step_first (modes : List ScanMode) (st : ScanSt) (w : List Nat) (n tok : Nat)
    (h : stepMatch modes st w = some (n, tok)) :
    ∃ m pre t post, modes[st.mode]? = some m ∧ m.terms = pre ++ t :: post ∧ t.tok = tok ∧
      t.matchLenSpec w = some n ∧ (∀ u ∈ pre, ∀ k, u.matchLenSpec w = some k → k < n) := by
  unfold stepMatch at h
  split at h
  · cases h
  · rename_i m hm
    rcases bestOf_spec _ _ _ _ _ h with ⟨hb', _⟩ | ⟨pre, t, post, hts, htok, hlen, _, hpre, _⟩
    · cases hb'
    · refine ⟨m, pre, t, post, hm, hts, htok, ?_, ?_⟩
      · rw [← ScanTerm.matchLen_eq_spec]; exact hlen
      · intro u hu k hk; exact hpre u hu k (by rw [ScanTerm.matchLen_eq_spec]; exact hk)

/-- If the whole non-empty input is one token starting at 0, the first step of the tokenizer
    matched it. -/
theorem first_step_of_single (modes : List ScanMode) (w : List Nat) (tk : ScanTok) (hw : w ≠ []) (hs : tk.start = 0)
    (h : tokenizeSpec modes w = some [tk]) : stepMatch modes ⟨0, []⟩ w = some (tk.stop, tk.tok) := by
  cases w with
  | nil => exact absurd rfl hw
  | cons x xs =>
    simp only [tokenizeSpec, List.length_cons, tokenizeFuel] at h
    split at h
    · have := (tokenizeFuel_progress modes _ _ _ _ _ h).1 tk (List.mem_singleton.mpr rfl)
      omega
    · rename_i n tok hm
      simp only [Option.map_eq_some_iff] at h
      obtain ⟨ts', _, hts⟩ := h
      simp only [List.cons.injEq] at hts
      obtain ⟨rfl, _⟩ := hts
      simpa using hm

/-! ### The body regex `(\\.|[^d])*` never lets an unescaped delimiter through -/

theorem getLast?_cons_ne {α} [DecidableEq α] (x : α) (u : List α) (y : α) (h : (x :: u).getLast? ≠ some y) (hu : u ≠ []) :
    u.getLast? ≠ some y := by
  cases u with
  | nil => exact absurd rfl hu
  | cons z u' => simpa [List.getLast?_cons_cons] using h

/-- A match of `((\\.)|[^d])` is one character other than `d`, or a backslash and one character. -/
theorem body_match_cases (d : Nat) (any nd : Cls) (hd : nd.mem d = false) (p : List Nat)
    (h : ReMatches (.alt (.cat (.cls ⟨[(92, 92)], false⟩) (.cls any)) (.cls nd)) p) :
    (∃ c, p = [c] ∧ c ≠ d) ∨ (∃ c, p = [92, c]) := by
  rcases (ReMatches.alt_iff _ _ _).1 h with h1 | h1
  · right
    obtain ⟨u, v, rfl, hu, hv⟩ := (ReMatches.cat_iff _ _ _).1 h1
    obtain ⟨y, rfl, hy⟩ := (ReMatches.cls_iff _ _).1 hu
    obtain ⟨c, rfl, _⟩ := (ReMatches.cls_iff _ _).1 hv
    have : y = 92 := by
      simp [Cls.mem] at hy; omega
    subst this
    exact ⟨c, rfl⟩
  · left
    obtain ⟨c, rfl, hc⟩ := (ReMatches.cls_iff _ _).1 h1
    refine ⟨c, rfl, ?_⟩
    intro hcd; subst hcd; rw [hd] at hc; cases hc

/-- No string of `((\\.)|[^d])*` contains a `d` that is not directly preceded by a backslash:
    if `u` does not end in a backslash, `u ++ d :: v` is not in the language. -/
theorem star_body_no_delim (d : Nat) (any nd : Cls) (hd : nd.mem d = false) (hd92 : d ≠ 92) :
    ∀ (n : Nat) (s u v : List Nat), s.length ≤ n → s = u ++ d :: v → u.getLast? ≠ some 92 →
      ¬ ReMatches (.star (.alt (.cat (.cls ⟨[(92, 92)], false⟩) (.cls any)) (.cls nd))) s := by
  intro n
  induction n with
  | zero =>
    intro s u v hlen hs _ _
    subst hs; simp at hlen
  | succ n ih =>
    intro s u v hlen hs hlast hm
    cases s with
    | nil => cases u <;> simp at hs
    | cons x w' =>
      obtain ⟨p, q, rfl, hp, hq⟩ := ReMatches.star_cons _ x w' hm
      rcases body_match_cases d any nd hd (x :: p) hp with ⟨c, hc, hcd⟩ | ⟨c, hc⟩
      · -- one plain character
        simp only [List.cons.injEq] at hc
        obtain ⟨rfl, rfl⟩ := hc
        cases u with
        | nil =>
          simp only [List.nil_append, List.cons.injEq] at hs
          exact hcd hs.1
        | cons y u' =>
          simp only [List.cons_append, List.nil_append, List.cons.injEq] at hs
          obtain ⟨rfl, rfl⟩ := hs
          refine ih (u' ++ d :: v) u' v ?_ rfl ?_ hq
          · simp at hlen ⊢; omega
          · by_cases hu' : u' = []
            · subst hu'; simp
            · exact getLast?_cons_ne _ _ _ hlast hu'
      · -- a backslash and one character
        simp only [List.cons.injEq] at hc
        obtain ⟨rfl, rfl⟩ := hc
        cases u with
        | nil =>
          simp only [List.nil_append, List.cons.injEq] at hs
          exact hd92 hs.1.symm
        | cons y u' =>
          cases u' with
          | nil =>
            simp only [List.cons_append, List.nil_append, List.cons.injEq] at hs
            obtain ⟨rfl, _⟩ := hs
            simp at hlast
          | cons z u'' =>
            simp only [List.cons_append, List.nil_append, List.cons.injEq] at hs
            obtain ⟨rfl, rfl, rfl⟩ := hs
            refine ih (u'' ++ d :: v) u'' v ?_ rfl ?_ hq
            · simp at hlen ⊢; omega
            · by_cases hu'' : u'' = []
              · subst hu''; simp
              · have h1 := getLast?_cons_ne _ _ _ hlast (by simp)
                exact getLast?_cons_ne _ _ _ h1 hu''

/-- The first character of a non-empty body is not the delimiter. -/
theorem star_body_head_ne (d : Nat) (any nd : Cls) (hd : nd.mem d = false) (hd92 : d ≠ 92) (c : Nat) (t : List Nat)
    (h : ReMatches (.star (.alt (.cat (.cls ⟨[(92, 92)], false⟩) (.cls any)) (.cls nd))) (c :: t)) : c ≠ d := by
  intro hcd
  subst hcd
  exact star_body_no_delim c any nd hd hd92 _ (c :: t) [] t (Nat.le_refl _) rfl (by simp) h

/-- No overrun: `d t d` followed by more text is not a longer match of `d (body)* d` when `t` does
    not end in a backslash. -/
theorem lit_no_overrun (d : Nat) (any nd : Cls) (hd : nd.mem d = false) (hd92 : d ≠ 92) (t r : List Nat) (hr : r ≠ [])
    (hlast : t.getLast? ≠ some 92) :
    matchesRe (.cat (.cls ⟨[(d, d)], false⟩)
      (.cat (.star (.alt (.cat (.cls ⟨[(92, 92)], false⟩) (.cls any)) (.cls nd))) (.cls ⟨[(d, d)], false⟩)))
      (d :: (t ++ d :: r)) = false := by
  cases hm : matchesRe _ (d :: (t ++ d :: r)) with
  | false => rfl
  | true =>
    exfalso
    rw [matchesRe_iff] at hm
    obtain ⟨u, v, huv, hu, hv⟩ := (ReMatches.cat_iff _ _ _).1 hm
    obtain ⟨x, rfl, _⟩ := (ReMatches.cls_iff _ _).1 hu
    obtain ⟨p, q, rfl, hp, hq⟩ := (ReMatches.cat_iff _ _ _).1 hv
    obtain ⟨y, rfl, _⟩ := (ReMatches.cls_iff _ _).1 hq
    simp only [List.cons_append, List.nil_append, List.cons.injEq] at huv
    obtain ⟨_, huv⟩ := huv
    -- `t ++ d :: r = p ++ [y]` with `r` non-empty: `p = t ++ d :: r'`
    rcases List.eq_nil_or_concat r with hr' | ⟨r', e, rfl⟩
    · exact hr hr'
    · have h2 : (t ++ d :: r') ++ [e] = p ++ [y] := by simpa using huv
      have h3 : t ++ d :: r' = p := List.append_inj_left' h2 rfl
      subst h3
      exact star_body_no_delim d any nd hd hd92 _ _ t r' (Nat.le_refl _) rfl hlast hp

/-! ### Terminals that cannot get past the first or second character -/

/-- a terminal whose regex is dead or exhausted after the first character matches at most it -/
theorem matchLen_le_one (u : ScanTerm) (d : Nat) (xs : List Nat)
    (h : deriv u.re d = .empty ∨ deriv u.re d = .eps) (n : Nat) (hn : u.matchLen (d :: xs) = some n) : n ≤ 1 := by
  rcases h with h | h
  · simp [ScanTerm.matchLen, longestFromFast, h] at hn
  · cases xs with
    | nil =>
      simp only [ScanTerm.matchLen, longestFromFast, h] at hn
      split at hn <;> simp_all
    | cons c cs =>
      simp only [ScanTerm.matchLen, longestFromFast, h, deriv] at hn
      split at hn <;> simp_all

theorem matchLen_none_of_dead (u : ScanTerm) (d : Nat) (xs : List Nat) (h : deriv u.re d = .empty) :
    u.matchLen (d :: xs) = none := by
  simp [ScanTerm.matchLen, longestFromFast, h]

/-- a regex that begins with the two literal characters `a b` matches no prefix of `a c …`, `c ≠ b` -/
theorem no_prefix_two (a b c : Nat) (X : Re) (hc : c ≠ b) (xs : List Nat) (n : Nat) :
    matchesRe (.cat (.cat (.cls ⟨[(a, a)], false⟩) (.cls ⟨[(b, b)], false⟩)) X) ((a :: c :: xs).take n) = false := by
  cases hm : matchesRe _ ((a :: c :: xs).take n) with
  | false => rfl
  | true =>
    exfalso
    rw [matchesRe_iff] at hm
    obtain ⟨u, v, huv, hu, _⟩ := (ReMatches.cat_iff _ _ _).1 hm
    obtain ⟨p, q, rfl, hp, hq⟩ := (ReMatches.cat_iff _ _ _).1 hu
    obtain ⟨y, rfl, _⟩ := (ReMatches.cls_iff _ _).1 hp
    obtain ⟨z, rfl, hz⟩ := (ReMatches.cls_iff _ _).1 hq
    have hzb : z = b := by simp [Cls.mem] at hz; omega
    subst hzb
    match n, huv with
    | 0, huv => simp at huv
    | 1, huv => simp at huv
    | n + 2, huv =>
      simp only [List.take_succ_cons, List.cons_append, List.nil_append, List.cons.injEq] at huv
      exact hc huv.2.1

theorem matchLen_none_of_no_prefix (u : ScanTerm) (w : List Nat)
    (h : ∀ n, matchesRe u.re (w.take n) = false) : u.matchLen w = none := by
  rw [ScanTerm.matchLen_eq_spec]
  cases hm : u.matchLenSpec w with
  | none => rfl
  | some n =>
    obtain ⟨_, _, h3, _, _⟩ := matchLenSpec_some u w n hm
    rw [h n] at h3; cases h3

/-- the literal's own terminal: in context its match length is exactly `|t| + 2` -/
theorem matchLen_lit_ctx (tm : ScanTerm) (hla : tm.la = none) (d : Nat) (any nd : Cls) (hd : nd.mem d = false) (hd92 : d ≠ 92)
    (hre : tm.re = .cat (.cls ⟨[(d, d)], false⟩)
      (.cat (.star (.alt (.cat (.cls ⟨[(92, 92)], false⟩) (.cls any)) (.cls nd))) (.cls ⟨[(d, d)], false⟩)))
    (t rest : List Nat)
    (hb : matchesRe (.star (.alt (.cat (.cls ⟨[(92, 92)], false⟩) (.cls any)) (.cls nd))) t = true)
    (hlast : t.getLast? ≠ some 92) :
    tm.matchLen (d :: (t ++ d :: rest)) = some (t.length + 2) := by
  rw [ScanTerm.matchLen_eq_spec]
  have hsplit : d :: (t ++ d :: rest) = (d :: (t ++ [d])) ++ rest := by simp
  have hfull : matchesRe tm.re ((d :: (t ++ d :: rest)).take (t.length + 2)) = true := by
    have : (d :: (t ++ d :: rest)).take (t.length + 2) = d :: (t ++ [d]) := by
      rw [hsplit]; exact List.take_left' (by simp)
    rw [this, hre]
    exact lit_matches d _ t hb
  have hok : ∀ r, laHolds tm.la r = true := by intro r; simp [hla, laHolds]
  have hlenw : (d :: (t ++ d :: rest)).length = t.length + 2 + rest.length := by simp; omega
  cases hm : tm.matchLenSpec (d :: (t ++ d :: rest)) with
  | none =>
    have := matchLenSpec_none tm _ hm (t.length + 2) (by omega) (by omega)
    exact absurd ⟨hfull, hok _⟩ this
  | some n =>
    obtain ⟨_, h2, h3, _, hmax⟩ := matchLenSpec_some tm _ n hm
    by_cases hn : n = t.length + 2
    · rw [hn]
    · exfalso
      by_cases hlt : n < t.length + 2
      · exact hmax (t.length + 2) hlt (by omega) ⟨hfull, hok _⟩
      · -- n > |t| + 2: overrun
        have hgt : t.length + 2 < n := by omega
        have hl1 : (d :: (t ++ [d])).length = t.length + 2 := by simp
        have htake : (d :: (t ++ d :: rest)).take n = d :: (t ++ d :: rest.take (n - (t.length + 2))) := by
          rw [hsplit, List.take_append, hl1, List.take_of_length_le (by rw [hl1]; omega)]
          simp
        rw [htake, hre] at h3
        rw [hlenw] at h2
        have hne : rest.take (n - (t.length + 2)) ≠ [] := by
          intro he
          rcases List.take_eq_nil_iff.1 he with h0 | h0
          · omega
          · subst h0; simp at h2; omega
        rw [lit_no_overrun d any nd hd hd92 t _ hne hlast] at h3
        cases h3

end ParolModel.Par
