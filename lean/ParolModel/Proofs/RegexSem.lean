import ParolModel.Model.Regex
/-! Declarative meaning of `Re` and correctness of the derivative-based matcher (with the
normalising smart constructors) with respect to it. -/
namespace ParolModel

/-- Declarative meaning of a regex: the strings it matches. -/
inductive ReMatches : Re → List Nat → Prop
  | eps : ReMatches .eps []
  | cls (c : Cls) (x : Nat) : c.mem x = true → ReMatches (.cls c) [x]
  | cat {a b : Re} {u v : List Nat} : ReMatches a u → ReMatches b v → ReMatches (.cat a b) (u ++ v)
  | altL {a b : Re} {w : List Nat} : ReMatches a w → ReMatches (.alt a b) w
  | altR {a b : Re} {w : List Nat} : ReMatches b w → ReMatches (.alt a b) w
  | starNil {a : Re} : ReMatches (.star a) []
  | starCons {a : Re} {u v : List Nat} : ReMatches a u → ReMatches (.star a) v → ReMatches (.star a) (u ++ v)

theorem ReMatches.empty_iff (w : List Nat) : ¬ ReMatches .empty w := by
  intro h; generalize hr : Re.empty = r at h; cases h <;> cases hr

theorem ReMatches.eps_iff (w : List Nat) : ReMatches .eps w ↔ w = [] := by
  constructor
  · intro h; generalize hr : Re.eps = r at h; cases h <;> first | rfl | cases hr
  · rintro rfl; exact .eps

theorem ReMatches.cls_iff (c : Cls) (w : List Nat) : ReMatches (.cls c) w ↔ ∃ x, w = [x] ∧ c.mem x = true := by
  constructor
  · intro h; generalize hr : Re.cls c = r at h
    cases h <;> cases hr
    rename_i x hm; exact ⟨x, rfl, hm⟩
  · rintro ⟨x, rfl, h⟩; exact .cls c x h

theorem ReMatches.cat_iff (a b : Re) (w : List Nat) :
    ReMatches (.cat a b) w ↔ ∃ u v, w = u ++ v ∧ ReMatches a u ∧ ReMatches b v := by
  constructor
  · intro h; generalize hr : Re.cat a b = r at h
    cases h <;> cases hr
    rename_i u v h1 h2; exact ⟨u, v, rfl, h1, h2⟩
  · rintro ⟨u, v, rfl, h1, h2⟩; exact .cat h1 h2

theorem ReMatches.alt_iff (a b : Re) (w : List Nat) : ReMatches (.alt a b) w ↔ ReMatches a w ∨ ReMatches b w := by
  constructor
  · intro h; generalize hr : Re.alt a b = r at h
    cases h <;> cases hr
    · rename_i h1; exact Or.inl h1
    · rename_i h1; exact Or.inr h1
  · rintro (h | h); exact .altL h; exact .altR h

/-- A non-empty match of `a*` starts with a non-empty match of `a`. -/
theorem ReMatches.star_cons (a : Re) (x : Nat) (w : List Nat) (h : ReMatches (.star a) (x :: w)) :
    ∃ u v, w = u ++ v ∧ ReMatches a (x :: u) ∧ ReMatches (.star a) v := by
  generalize hr : Re.star a = r at h
  generalize hw : x :: w = w' at h
  induction h with
  | eps => cases hr
  | cls => cases hr
  | cat => cases hr
  | altL => cases hr
  | altR => cases hr
  | starNil => cases hw
  | @starCons a' u v h1 h2 _ ih2 =>
    cases hr
    cases u with
    | nil => exact ih2 rfl (by simpa using hw)
    | cons y u =>
      simp only [List.cons_append, List.cons.injEq] at hw
      obtain ⟨rfl, rfl⟩ := hw
      exact ⟨u, v, rfl, h1, h2⟩

theorem nullable_iff (r : Re) : nullable r = true ↔ ReMatches r [] := by
  induction r with
  | empty => simp [nullable, ReMatches.empty_iff]
  | eps => simp [nullable, ReMatches.eps_iff]
  | cls c => simp [nullable, ReMatches.cls_iff]
  | cat a b iha ihb =>
    simp only [nullable, Bool.and_eq_true, iha, ihb, ReMatches.cat_iff]
    constructor
    · rintro ⟨h1, h2⟩; exact ⟨[], [], rfl, h1, h2⟩
    · rintro ⟨u, v, h, h1, h2⟩
      have : u = [] ∧ v = [] := by simpa using h.symm
      rw [this.1] at h1; rw [this.2] at h2; exact ⟨h1, h2⟩
  | alt a b iha ihb => simp [nullable, iha, ihb, ReMatches.alt_iff]
  | star a _ => simp [nullable]; exact .starNil

theorem catAssoc_iff (a b : Re) (w : List Nat) : ReMatches (catAssoc a b) w ↔ ReMatches (.cat a b) w := by
  induction a generalizing w with
  | empty => simp [catAssoc, ReMatches.cat_iff, ReMatches.empty_iff]
  | eps =>
    simp only [catAssoc, ReMatches.cat_iff, ReMatches.eps_iff]
    constructor
    · intro h; exact ⟨[], w, rfl, rfl, h⟩
    · rintro ⟨u, v, rfl, rfl, h⟩; simpa using h
  | cls c => simp [catAssoc]
  | cat a1 a2 _ ih2 =>
    simp only [catAssoc, ReMatches.cat_iff, ih2]
    constructor
    · rintro ⟨u, v, rfl, h1, v1, v2, rfl, h2, h3⟩
      exact ⟨u ++ v1, v2, by simp, ⟨u, v1, rfl, h1, h2⟩, h3⟩
    · rintro ⟨u, v, rfl, ⟨u1, u2, rfl, h1, h2⟩, h3⟩
      exact ⟨u1, u2 ++ v, by simp, h1, u2, v, rfl, h2, h3⟩
  | alt a b _ _ => simp [catAssoc]
  | star a _ => simp [catAssoc]

theorem mkCat_iff (a b : Re) (w : List Nat) : ReMatches (mkCat a b) w ↔ ReMatches (.cat a b) w := by
  unfold mkCat
  split
  · simp [ReMatches.cat_iff, ReMatches.empty_iff]
  · simp [ReMatches.cat_iff, ReMatches.eps_iff]
  · exact catAssoc_iff a b w

theorem ofAltList_iff (l : List Re) (w : List Nat) : ReMatches (ofAltList l) w ↔ ∃ r ∈ l, ReMatches r w := by
  induction l with
  | nil => simp [ofAltList, ReMatches.empty_iff]
  | cons r l ih =>
    cases l with
    | nil => simp [ofAltList]
    | cons r2 l => simp only [ofAltList, ReMatches.alt_iff, ih]; simp

theorem mem_insertRe (r x : Re) (l : List Re) : x ∈ insertRe r l ↔ x = r ∨ x ∈ l := by
  induction l with
  | nil => simp [insertRe]
  | cons y l ih =>
    simp only [insertRe]
    split
    · rename_i h; subst h; simp
    · split
      · simp
      · simp only [List.mem_cons, ih]
        constructor
        · rintro (h | h | h); exact Or.inr (Or.inl h); exact Or.inl h; exact Or.inr (Or.inr h)
        · rintro (h | h | h); exact Or.inr (Or.inl h); exact Or.inl h; exact Or.inr (Or.inr h)

theorem mem_foldr_insertRe (l : List Re) (x : Re) : x ∈ l.foldr insertRe [] ↔ x ∈ l := by
  induction l with
  | nil => simp
  | cons r l ih => simp [mem_insertRe, ih]

theorem altList_iff (a : Re) (w : List Nat) : (∃ r ∈ altList a, ReMatches r w) ↔ ReMatches a w := by
  induction a with
  | empty => simp [altList, ReMatches.empty_iff]
  | eps => simp [altList]
  | cls c => simp [altList]
  | cat a b _ _ => simp [altList]
  | alt a b iha ihb =>
    simp only [altList, List.mem_append, ReMatches.alt_iff, ← iha, ← ihb]
    constructor
    · rintro ⟨r, h | h, hm⟩; exact Or.inl ⟨r, h, hm⟩; exact Or.inr ⟨r, h, hm⟩
    · rintro (⟨r, h, hm⟩ | ⟨r, h, hm⟩); exact ⟨r, Or.inl h, hm⟩; exact ⟨r, Or.inr h, hm⟩
  | star a _ => simp [altList]

theorem mkAlt_iff (a b : Re) (w : List Nat) : ReMatches (mkAlt a b) w ↔ ReMatches a w ∨ ReMatches b w := by
  simp only [mkAlt, ofAltList_iff, mem_foldr_insertRe, List.mem_append, ← altList_iff a, ← altList_iff b]
  constructor
  · rintro ⟨r, h | h, hm⟩; exact Or.inl ⟨r, h, hm⟩; exact Or.inr ⟨r, h, hm⟩
  · rintro (⟨r, h, hm⟩ | ⟨r, h, hm⟩); exact ⟨r, Or.inl h, hm⟩; exact ⟨r, Or.inr h, hm⟩

theorem deriv_iff (r : Re) (x : Nat) (w : List Nat) : ReMatches (deriv r x) w ↔ ReMatches r (x :: w) := by
  induction r generalizing w with
  | empty => simp [deriv, ReMatches.empty_iff]
  | eps => simp [deriv, ReMatches.empty_iff, ReMatches.eps_iff]
  | cls c =>
    simp only [deriv, ReMatches.cls_iff]
    split
    · rename_i h
      simp only [ReMatches.eps_iff, List.cons.injEq]
      constructor
      · rintro rfl; exact ⟨x, ⟨rfl, rfl⟩, h⟩
      · rintro ⟨_, ⟨_, hw⟩, _⟩; exact hw
    · rename_i h
      simp only [ReMatches.empty_iff, List.cons.injEq, false_iff]
      rintro ⟨y, ⟨rfl, _⟩, hm⟩; exact h hm
  | cat a b iha ihb =>
    have key : (ReMatches (.cat (deriv a x) b) w ∨ (nullable a = true ∧ ReMatches (deriv b x) w)) ↔ ReMatches (.cat a b) (x :: w) := by
      simp only [ReMatches.cat_iff, iha, ihb, nullable_iff]
      constructor
      · rintro (⟨u, v, rfl, h1, h2⟩ | ⟨h1, h2⟩)
        · exact ⟨x :: u, v, rfl, h1, h2⟩
        · exact ⟨[], x :: w, rfl, h1, h2⟩
      · rintro ⟨u, v, h, h1, h2⟩
        cases u with
        | nil => simp at h; subst h; exact Or.inr ⟨h1, h2⟩
        | cons y u =>
          simp only [List.cons_append, List.cons.injEq] at h
          obtain ⟨rfl, rfl⟩ := h
          exact Or.inl ⟨u, v, rfl, h1, h2⟩
    simp only [deriv]
    split
    · rename_i hn; rw [mkAlt_iff, mkCat_iff, ← key]; simp [hn]
    · rename_i hn; rw [mkCat_iff, ← key]; simp [hn]
  | alt a b iha ihb => simp [deriv, mkAlt_iff, iha, ihb, ReMatches.alt_iff]
  | star a iha =>
    simp only [deriv, mkCat_iff, ReMatches.cat_iff, iha]
    constructor
    · rintro ⟨u, v, rfl, h1, h2⟩
      exact ReMatches.starCons h1 h2
    · intro h
      obtain ⟨u, v, rfl, h1, h2⟩ := ReMatches.star_cons a x w h
      exact ⟨u, v, rfl, h1, h2⟩

/-- The executable matcher (derivatives with normalising constructors) decides the declarative meaning. -/
theorem matchesRe_iff (r : Re) (w : List Nat) : matchesRe r w = true ↔ ReMatches r w := by
  induction w generalizing r with
  | nil => simp [matchesRe, derivs, nullable_iff]
  | cons x w ih =>
    have := ih (deriv r x)
    simp only [matchesRe, derivs, List.foldl_cons] at this ⊢
    rw [this, deriv_iff]

end ParolModel
