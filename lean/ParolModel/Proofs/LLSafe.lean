import ParolModel.Proofs.LLTree
import ParolModel.Model.LLOracle
import ParolModel.Props.C08
/-! Index safety of the LL(k) parser model (C19): under the checked table well-formedness
`tablesInRangeB` no run ever reaches an `internal` outcome — every array access is in range and the
parse-tree stack never underflows, for every input. -/
namespace ParolModel

structure InRange (T : LLTables) : Prop where
  start : T.start < T.dfas.length
  lhs : ∀ pr ∈ T.prods, pr.lhs < T.dfas.length
  rhs : ∀ pr ∈ T.prods, ∀ s ∈ pr.rhsRev, match s with
    | .n a => a < T.dfas.length
    | .t a => a ≠ 0
    | .e _ => False
  acc0 : ∀ d ∈ T.dfas, d.prod0 ≤ -1 ∨ d.trans = []
  prods : ∀ d ∈ T.dfas, ∀ p ∈ dfaProds d, p ≤ -1 ∨ p.toNat < T.prods.length

theorem tablesInRangeB_sound (T : LLTables) (h : tablesInRangeB T = true) : InRange T := by
  simp only [tablesInRangeB, Bool.and_eq_true, List.all_eq_true, decide_eq_true_eq, Bool.or_eq_true,
    List.isEmpty_iff] at h
  obtain ⟨⟨h1, h2⟩, h3⟩ := h
  refine ⟨h1, fun pr hpr => (h2 pr hpr).1, ?_, fun d hd => (h3 d hd).1.2, fun d hd => (h3 d hd).2⟩
  intro pr hpr s hs
  have := (h2 pr hpr).2 s hs
  cases s with
  | t a => simpa using this
  | n a => simpa using this
  | e p => simp at this

/-- Stack discipline: with `n` entries on the parse-tree stack, processing `stack` never underflows:
    terminals and non-terminals each add one entry; an end-of-production marker removes the entries
    of its right-hand side. All indices on the stack are in range. -/
def StackOK (T : LLTables) : List PT → Nat → Prop
  | [], _ => True
  | .t a :: st, n => a ≠ 0 ∧ StackOK T st (n + 1)
  | .n a :: st, n => a < T.dfas.length ∧ StackOK T st (n + 1)
  | .e p :: st, n => ∃ pr, T.prods[p]? = some pr ∧ pr.rhsRev.length ≤ n ∧ StackOK T st (n - pr.rhsRev.length)

theorem StackOK_push {T : LLTables} (hT : InRange T) {p : Nat} {pr : LLProd} (hpr : T.prods[p]? = some pr)
    {st : List PT} {n : Nat} (h : StackOK T st (n + 1)) :
    StackOK T (pr.rhsRev.reverse ++ (.e p :: st)) (n + 1) := by
  have hmem : pr ∈ T.prods := List.mem_of_getElem? hpr
  have key : ∀ (syms : List PT) (m : Nat), (∀ s ∈ syms, match s with
      | .n a => a < T.dfas.length
      | .t a => a ≠ 0
      | .e _ => False) →
      StackOK T (.e p :: st) (m + syms.length) → StackOK T (syms ++ (.e p :: st)) m := by
    intro syms
    induction syms with
    | nil => intro m _ h; simpa using h
    | cons s rest ih =>
      intro m hs h
      have hs0 := hs s List.mem_cons_self
      have hrest := fun x hx => hs x (List.mem_cons_of_mem _ hx)
      have h' : StackOK T (.e p :: st) (m + 1 + rest.length) := by
        have : m + (s :: rest).length = m + 1 + rest.length := by simp; omega
        rw [← this]; exact h
      cases s with
      | t a => exact ⟨hs0, ih (m + 1) hrest h'⟩
      | n a => exact ⟨hs0, ih (m + 1) hrest h'⟩
      | e q => exact absurd hs0 (by simp)
  apply key pr.rhsRev.reverse (n + 1)
  · intro s hs
    exact hT.rhs pr hmem s (by simpa using hs)
  · refine ⟨pr, hpr, by simp, ?_⟩
    simpa using h

theorem eval_not_assertFail (d : LaDfa) (h : d.prod0 ≤ -1 ∨ d.trans = []) (la : List Nat) :
    eval d true la ≠ .assertFail := by
  intro he
  obtain ⟨h1, h2⟩ := eval_assertFail_only_if d la he
  rcases h with h | h
  · omega
  · exact h2 h

theorem finish_not_internal (o : Opts) (s : LLState) (err : Option (Option Nat)) (steps : Nat) :
    (finish o s err steps).res ≠ .internal := by
  unfold finish
  generalize drainSkips o s.input s.tree s.comments = r
  obtain ⟨inp, tr, cm⟩ := r
  simp only
  cases err with
  | some e => simp
  | none => simp only; cases firstSig inp <;> simp

theorem pushProduction_some {T : LLTables} {o : Opts} {s : LLState} {p : Nat} {pr : LLProd}
    (hpr : T.prods[p]? = some pr) : ∃ s' r, pushProduction T o s p = some (s', r) ∧ r ≠ some .internal := by
  unfold pushProduction
  simp only [hpr]
  cases o.maxDepth with
  | none => exact ⟨_, _, rfl, by simp⟩
  | some m =>
    simp only
    split <;> split <;> exact ⟨_, _, rfl, by simp⟩

/-- **No crash (LL loop)**: under the checked table well-formedness the loop never reaches an
    `internal` outcome (index out of range, parse-tree-stack underflow, failed debug assertion). -/
theorem llLoop_no_internal (T : LLTables) (o : Opts) (hT : InRange T) :
    ∀ (fuel : Nat) (s : LLState) (steps : Nat) (out : LLOut), StackOK T s.stack s.ptStack.length →
    llLoop T o fuel s steps = out → out.res ≠ .internal := by
  intro fuel
  induction fuel with
  | zero => intro s steps out _ h; rw [← h]; simp [llLoop, abort]
  | succ fuel ih =>
    intro s steps out hok h
    unfold llLoop at h
    split at h
    · rw [← h]; exact finish_not_internal _ _ _ _
    · split at h
      · rw [← h]; exact finish_not_internal _ _ _ _
      · -- terminal
        rename_i a st hs
        rw [hs] at hok
        obtain ⟨ha, hok'⟩ := hok
        split at h
        · rename_i tok hf
          split at h
          · generalize hd : drainSkips o s.input s.tree s.comments = r at h
            obtain ⟨inp, tr, cm⟩ := r
            simp only at h
            exact ih _ _ out (by simpa using hok') h
          · rw [← h]; exact finish_not_internal _ _ _ _
        · split at h
          · rename_i h0; exact absurd h0 ha
          · rw [← h]; exact finish_not_internal _ _ _ _
      · -- non-terminal
        rename_i a st hs
        rw [hs] at hok
        obtain ⟨ha, hok'⟩ := hok
        -- the automaton exists
        have hd : ∃ d, T.dfas[a]? = some d := ⟨T.dfas[a], List.getElem?_eq_getElem ha⟩
        obtain ⟨d, hd⟩ := hd
        have hdmem : d ∈ T.dfas := List.mem_of_getElem? hd
        have hpred : predict T a s.input = some (eval d true (laTypes s.input d.k)) := by
          simp [predict, hd]
        rw [hpred] at h
        cases hev : eval d true (laTypes s.input d.k) with
        | ok p =>
          simp only [hev] at h
          obtain ⟨hfrom, hgt⟩ := eval_ok_from d true _ p hev
          split at h
          · omega
          · have hpm : p ∈ dfaProds d := by
              rcases hfrom with rfl | ⟨tr, htr, rfl⟩
              · simp [dfaProds]
              · simp only [dfaProds, List.mem_cons, List.mem_map]; exact Or.inr ⟨tr, htr, rfl⟩
            have hlt : p.toNat < T.prods.length := by
              rcases hT.prods d hdmem p hpm with h1 | h1
              · omega
              · exact h1
            have hpr : T.prods[p.toNat]? = some T.prods[p.toNat] := List.getElem?_eq_getElem hlt
            obtain ⟨s', r, hpush, hr⟩ := pushProduction_some (T := T) (o := o) (s := { s with stack := st }) hpr
            rw [hpush] at h
            cases r with
            | none =>
              simp only at h
              obtain ⟨pr, hpr', hst', _, _⟩ := pushProduction_spec hpush
              obtain ⟨hf1, _, _, _⟩ := pushProduction_fields hpr' hpush
              simp only at hst' hf1
              apply ih s' _ out _ h
              rw [hst', hf1]
              simp only [List.length_cons]
              exact StackOK_push hT hpr' hok'
            | some r =>
              simp only at h
              rw [← h]; simp only [abort_res]
              intro he; exact hr (by rw [he])
        | predictError => simp only [hev] at h; rw [← h]; exact finish_not_internal _ _ _ _
        | assertFail => exact absurd hev (eval_not_assertFail d (hT.acc0 d hdmem) _)
      · -- end-of-production marker
        rename_i p st hs
        rw [hs] at hok
        obtain ⟨pr, hpr, hlen, hok'⟩ := hok
        rw [hpr] at h
        simp only at h
        have hnlt : ¬ s.ptStack.length < pr.rhsRev.length := by omega
        rw [if_neg hnlt] at h
        apply ih _ _ out _ h
        simp only [List.length_drop]
        exact hok'

end ParolModel
