import ParolModel.Proofs.LaCompile
import ParolModel.Proofs.LaBuild
/-! Proofs about the `k` field (C07): it is the length of the longest tuple, through `from_k_tuples`,
`unite` (as repaired) and the whole minimisation, without any hypothesis on the tuple sets. -/
namespace ParolModel

theorem addTransition_k (d : LDfa) (s t : Nat) : (addTransition d s t).1.k = d.k := by
  unfold addTransition
  split <;> rfl

theorem addPath_k : ∀ (ts : List Nat) (d : LDfa) (cur : Nat), (addPath d cur ts).1.k = d.k := by
  intro ts
  induction ts with
  | nil => intro d cur; rfl
  | cons t ts ih =>
    intro d cur
    simp only [addPath]
    rw [ih, addTransition_k]

theorem addTuple_k (p : Int) (d : LDfa) (t : Tuple) : (addTuple p d t).k = max d.k t.length := by
  simp [addTuple, addPath_k]

theorem foldl_addTuple_k (p : Int) : ∀ (ts : List Tuple) (d : LDfa),
    d.k ≤ (ts.foldl (addTuple p) d).k ∧ ∀ t ∈ ts, t.length ≤ (ts.foldl (addTuple p) d).k := by
  intro ts
  induction ts with
  | nil => intro d; simp
  | cons t ts ih =>
    intro d
    simp only [List.foldl_cons]
    obtain ⟨h1, h2⟩ := ih (addTuple p d t)
    rw [addTuple_k] at h1
    refine ⟨by omega, ?_⟩
    intro u hu
    rcases List.mem_cons.1 hu with rfl | hu
    · omega
    · exact h2 u hu

theorem fromKTuples_k (k : Nat) (S : List Tuple) (p : Nat) : ∀ t ∈ S, t.length ≤ (fromKTuples k S p).k := by
  intro t ht
  unfold fromKTuples
  exact (foldl_addTuple_k _ _ _).2 t ((mem_sortTuples k t S).2 ht)

theorem uniteEdge_k {other : LDfa} {s s' : UState} {e : Edge} (h : uniteEdge other s e = .ok s') :
    s'.res.k = s.res.k := by
  unfold uniteEdge at h
  split at h
  · injection h with h; subst h; rfl
  · simp only at h
    split at h
    · split at h
      · split at h
        · cases h
        · injection h with h; subst h
          simp [addTransition_k]
      · cases h
    · injection h with h; subst h
      simp [addTransition_k]

theorem foldlM_except_cons {ε α β : Type} (f : β → α → Except ε β) (x : α) (xs : List α) (b : β) :
    (x :: xs).foldlM f b = (f b x) >>= (fun b' => xs.foldlM f b') := by
  simp [List.foldlM_cons]

theorem uniteFold_k {other : LDfa} : ∀ (es : List Edge) {s s' : UState},
    es.foldlM (uniteEdge other) s = .ok s' → s'.res.k = s.res.k := by
  intro es
  induction es with
  | nil =>
    intro s s' h
    simp only [List.foldlM_nil] at h
    injection h with h; subst h; rfl
  | cons e es ih =>
    intro s s' h
    rw [foldlM_except_cons] at h
    cases h1 : uniteEdge other s e with
    | error err => rw [h1] at h; cases h
    | ok s1 =>
      rw [h1] at h
      have : es.foldlM (uniteEdge other) s1 = .ok s' := h
      rw [ih this, uniteEdge_k h1]

theorem uniteLoop_k {other : LDfa} : ∀ (fuel : Nat) {s : UState} {d : LDfa},
    uniteLoop other fuel s = .ok d → d.k = s.res.k := by
  intro fuel
  induction fuel with
  | zero => intro s d h; simp [uniteLoop] at h
  | succ fuel ih =>
    intro s d h
    simp only [uniteLoop] at h
    split at h
    · cases h
    · rename_i s' hp
      have hk : s'.res.k = s.res.k := by
        unfold unitePass at hp
        exact uniteFold_k (s := { s with changed := false }) _ hp
      split at h
      · rw [ih h, hk]
      · injection h with h; subst h; exact hk

theorem unite_k {self other d : LDfa} (h : unite true self other = .ok d) : d.k = max self.k other.k := by
  unfold unite at h
  split at h
  · cases h
  · rename_i d' hl
    injection h with h
    subst h
    simp [uniteLoop_k _ hl]

theorem uniteFold_all_k (k : Nat) : ∀ (rest : List (Nat × List Tuple)) {acc d : LDfa},
    rest.foldlM (fun acc (q : Nat × List Tuple) => unite true acc (fromKTuples k q.2 q.1)) acc = .ok d →
    acc.k ≤ d.k ∧ ∀ q ∈ rest, ∀ t ∈ q.2, t.length ≤ d.k := by
  intro rest
  induction rest with
  | nil =>
    intro acc d h
    simp only [List.foldlM_nil] at h
    injection h with h; subst h; simp
  | cons q rest ih =>
    intro acc d h
    rw [foldlM_except_cons] at h
    cases h1 : unite true acc (fromKTuples k q.2 q.1) with
    | error err => rw [h1] at h; cases h
    | ok a1 =>
      rw [h1] at h
      have hr : rest.foldlM (fun acc (q : Nat × List Tuple) => unite true acc (fromKTuples k q.2 q.1)) a1 = .ok d := h
      obtain ⟨h2, h3⟩ := ih hr
      have hk := unite_k h1
      refine ⟨by omega, ?_⟩
      intro q' hq' t ht
      rcases List.mem_cons.1 hq' with rfl | hq'
      · have := fromKTuples_k k q'.2 q'.1 t ht
        omega
      · exact h3 q' hq' t ht

/-- After the repair of `unite`: the `k` of the united automaton covers every tuple. -/
theorem uniteAll_k {k : Nat} {sets : List (Nat × List Tuple)} {d : LDfa} (h : uniteAll true k sets = some (.ok d)) :
    ∀ q ∈ sets, ∀ t ∈ q.2, t.length ≤ d.k := by
  cases sets with
  | nil => simp [uniteAll] at h
  | cons q rest =>
    obtain ⟨p, ts⟩ := q
    simp only [uniteAll, Option.some.injEq] at h
    obtain ⟨h1, h2⟩ := uniteFold_all_k k rest h
    intro q' hq' t ht
    rcases List.mem_cons.1 hq' with rfl | hq'
    · have := fromKTuples_k k ts p t ht
      omega
    · exact h2 q' hq' t ht

/-! `k` through the minimisation (no hypotheses). -/

theorem combineTwo_k {a a' : Adj} {keep merge : Nat} (h : a.combineTwo keep merge = some a') : a'.k = a.k := by
  obtain ⟨_, lk, lm, pk, _, _, _, _, rfl⟩ := combineTwo_spec h
  simp only [Adj.renameState, Adj.removeState]

theorem combineFold_k (keep : Nat) : ∀ (rest : List Nat) {a a' : Adj},
    rest.foldlM (fun (a : Adj) m => a.combineTwo keep m) a = some a' → a'.k = a.k := by
  intro rest
  induction rest with
  | nil => intro a a' h; simp only [List.foldlM_nil] at h; injection h with h; subst h; rfl
  | cons m ms ih =>
    intro a a' h
    rw [foldlM_option_cons] at h
    cases h1 : a.combineTwo keep m with
    | none => simp [h1] at h
    | some a1 =>
      simp only [h1, Option.bind_some] at h
      rw [ih h, combineTwo_k h1]

theorem combineStates_k {a a' : Adj} {states : List Nat} (h : a.combineStates states = some a') : a'.k = a.k := by
  cases states with
  | nil => simp only [Adj.combineStates] at h; injection h with h; subst h; rfl
  | cons keep rest => exact combineFold_k keep rest h

theorem groupsFold_k {γ : Type} (f : γ → List Nat) : ∀ (gs : List γ) {a a' : Adj},
    gs.foldlM (fun (a : Adj) g => a.combineStates (f g)) a = some a' → a'.k = a.k := by
  intro gs
  induction gs with
  | nil => intro a a' h; simp only [List.foldlM_nil] at h; injection h with h; subst h; rfl
  | cons g gs ih =>
    intro a a' h
    rw [foldlM_option_cons] at h
    cases h1 : a.combineStates (f g) with
    | none => simp [h1] at h
    | some a1 =>
      simp only [h1, Option.bind_some] at h
      rw [ih h, combineStates_k h1]

theorem mergeFinals_k {a a' : Adj} {ch ch' : List Nat} (h : a.mergeFinals ch = some (a', ch')) : a'.k = a.k := by
  unfold Adj.mergeFinals at h
  simp only [Option.map_eq_some_iff, Prod.mk.injEq] at h
  obtain ⟨a1, hfold, rfl, _⟩ := h
  exact groupsFold_k (fun (g : Int × List (Nat × Int)) => g.2.map (·.1)) _ hfold

theorem combineEquiv_k : ∀ (fuel : Nat) {a a' : Adj} {ch ch' : List Nat},
    Adj.combineEquiv fuel a ch = some (a', ch') → a'.k = a.k := by
  intro fuel
  induction fuel with
  | zero => intro a a' ch ch' h; simp [Adj.combineEquiv] at h
  | succ fuel ih =>
    intro a a' ch ch' h
    simp only [Adj.combineEquiv] at h
    split at h
    · cases h
    · injection h with h; injection h with h1 _; subst h1; rfl
    · split at h
      · cases h
      · split at h
        · cases h
        · rename_i a1 h1
          rw [ih h, combineStates_k h1]

theorem renameState_k (a : Adj) (s new : Nat) : (a.renameState s new).k = a.k := rfl

theorem renumber_k : ∀ (fuel : Nat) {a a' : Adj}, Adj.renumber fuel a = some a' → a'.k = a.k := by
  intro fuel
  induction fuel with
  | zero => intro a a' h; simp [Adj.renumber] at h
  | succ fuel ih =>
    intro a a' h
    simp only [Adj.renumber] at h
    split at h
    · injection h with h; subst h; rfl
    · split at h
      · cases h
      · rw [ih h, renameState_k]

theorem minimizeC_k {c c' : LaDfa} {ch : List Nat} (h : minimizeC c ch = some c') : c'.k = c.k := by
  unfold minimizeC at h
  split at h
  · cases h
  · rename_i a hmin
    have hk : a.k = c.k := by
      unfold Adj.minimize at hmin
      split at hmin
      · cases hmin
      · rename_i a1 ch1 h1
        split at hmin
        · cases hmin
        · rename_i a2 ch2 h2
          rw [renumber_k _ hmin, combineEquiv_k _ h2, mergeFinals_k h1]
          rfl
    unfold Adj.asCompiled at h
    split at h
    · split at h
      · injection h with h; subst h; exact hk
      · cases h
    · cases h

end ParolModel
