import ParolModel.Model.Canon
import ParolModel.Proofs.Ebnf
/-! Language preservation of the canonicalisation steps (C09). -/
namespace ParolModel

/-! ## structure of `splitFirstSome` / `locate` -/

theorem splitFirstSome_spec {α β} (g : α → Option β) :
    ∀ (l : List α) (a : List α) (b : β) (c : List α), splitFirstSome g l = some (a, b, c) →
      ∃ x, g x = some b ∧ l = a ++ x :: c ∧ ∀ y ∈ a, g y = none
  | [], a, b, c, h => by simp [splitFirstSome] at h
  | x :: xs, a, b, c, h => by
    simp only [splitFirstSome] at h
    split at h
    · rename_i b' hb
      simp only [Option.some.injEq, Prod.mk.injEq] at h
      obtain ⟨rfl, rfl, rfl⟩ := h
      exact ⟨x, hb, rfl, by simp⟩
    · rename_i hb
      split at h
      · rename_i a' b' c' hrec
        simp only [Option.some.injEq, Prod.mk.injEq] at h
        obtain ⟨rfl, rfl, rfl⟩ := h
        obtain ⟨x', hx', hl, hn⟩ := splitFirstSome_spec g xs a' b' c' hrec
        refine ⟨x', hx', by simp [hl], ?_⟩
        intro y hy
        simp only [List.mem_cons] at hy
        rcases hy with rfl | hy
        · exact hb
        · exact hn y hy
      · cases h

theorem splitFirstSome_none {α β} (g : α → Option β) :
    ∀ (l : List α), splitFirstSome g l = none → ∀ y ∈ l, g y = none
  | [], _, y, hy => by cases hy
  | x :: xs, h, y, hy => by
    simp only [splitFirstSome] at h
    split at h
    · cases h
    · rename_i hb
      split at h
      · cases h
      · rename_i hrec
        simp only [List.mem_cons] at hy
        rcases hy with rfl | hy
        · exact hb
        · exact splitFirstSome_none g xs hrec y hy

/-- the production a `Loc` was found in, with factor `f` at the located place -/
def Loc.prod (L : Loc) (f : Factor) : EProd := L.withAlt (L.x ++ f :: L.y)

theorem locate_spec {sel : Factor → Option Alts} {ps : List EProd} {L : Loc}
    (h : locate sel ps = some L) :
    ∃ f, sel f = some L.inner ∧ ps = L.pre ++ L.prod f :: L.post := by
  unfold locate at h
  simp only at h
  split at h
  · rename_i pre lhs apre x inner y attr apost post hs
    injection h with h
    subst h
    obtain ⟨p, hp, hps, _⟩ := splitFirstSome_spec _ _ _ _ _ hs
    simp only [Option.map_eq_some_iff] at hp
    obtain ⟨⟨apre', ⟨⟨x', inner', y'⟩, attr'⟩, apost'⟩, ha, he⟩ := hp
    simp only [Prod.mk.injEq] at he
    obtain ⟨rfl, rfl, ⟨⟨rfl, rfl, rfl⟩, rfl⟩, rfl⟩ := he
    obtain ⟨a, ha', hal, _⟩ := splitFirstSome_spec _ _ _ _ _ ha
    simp only [Option.map_eq_some_iff] at ha'
    obtain ⟨⟨x'', inner'', y''⟩, hf, he⟩ := ha'
    simp only [Prod.mk.injEq] at he
    obtain ⟨⟨rfl, rfl, rfl⟩, rfl⟩ := he
    obtain ⟨f, hf', hfl, _⟩ := splitFirstSome_spec _ _ _ _ _ hf
    refine ⟨f, hf', ?_⟩
    rw [hps]
    congr 1
    simp only [Loc.prod, Loc.withAlt]
    cases p with
    | mk plhs palts =>
      simp only at hal ⊢
      rw [hal]
      congr 2
      cases a with
      | mk afs aattr =>
        simp only at hfl ⊢
        rw [hfl]
  · cases h

/-! ## names of a split production list -/

theorem variableNames_append (a b : List EProd) :
    variableNames (a ++ b) = variableNames a ++ variableNames b := by
  simp [variableNames]

theorem variableNames_cons (p : EProd) (b : List EProd) :
    variableNames (p :: b) = p.vars ++ variableNames b := by
  simp [variableNames]

theorem lhs_mem_variableNames {ps : List EProd} {p : EProd} (hp : p ∈ ps) :
    p.lhs ∈ variableNames ps :=
  mem_variableNames.2 ⟨p, hp, .inl rfl⟩

theorem altVars_sub_variableNames {ps : List EProd} {p : EProd} {alt : EAlt} (hp : p ∈ ps)
    (ha : alt ∈ p.alts) : ∀ x ∈ altVars alt.fs, x ∈ variableNames ps :=
  fun _ hx => mem_variableNames.2 ⟨p, hp, .inr ⟨alt, ha, hx⟩⟩

/-! ## the two generic step lemmas -/

/-- A step that replaces production `p` by `news` without introducing a name. -/
theorem step_equiv0 (pre post : List EProd) (p : EProd) (news : List EProd)
    (hfwd : ∀ alt ∈ p.alts, ∀ u, YieldE (pre ++ news ++ post) alt.fs u →
      Der (pre ++ news ++ post) p.lhs u)
    (hbwd : ∀ q ∈ news, ∀ alt ∈ q.alts, ∀ u, YieldE (pre ++ p :: post) alt.fs u →
      Der (pre ++ p :: post) q.lhs u)
    (fs : List Factor) (w : List Nat) :
    YieldE (pre ++ p :: post) fs w ↔ YieldE (pre ++ news ++ post) fs w := by
  constructor
  · apply yieldE_sim
    intro q hq alt ha u hu
    simp only [List.mem_append, List.mem_cons] at hq
    rcases hq with hq | rfl | hq
    · exact ⟨q, by simp [hq], rfl, alt, ha, hu⟩
    · exact hfwd alt ha u hu
    · exact ⟨q, by simp [hq], rfl, alt, ha, hu⟩
  · apply yieldE_sim
    intro q hq alt ha u hu
    simp only [List.mem_append] at hq
    rcases hq with (hq | hq) | hq
    · exact ⟨q, by simp [hq], rfl, alt, ha, hu⟩
    · exact hbwd q hq alt ha u hu
    · exact ⟨q, by simp [hq], rfl, alt, ha, hu⟩

/-- A step that replaces production `p` by `news` and introduces the fresh helper `X`, which
    stands for the factor string `R` of the old grammar. -/
theorem step_equivX (X : Name) (R : List Factor) (pre post : List EProd) (p : EProd)
    (news : List EProd)
    (hfresh : X ∉ variableNames (pre ++ p :: post))
    (hfwd : ∀ alt ∈ p.alts, ∀ u, YieldE (pre ++ news ++ post) alt.fs u →
      Der (pre ++ news ++ post) p.lhs u)
    (hbwd1 : ∀ q ∈ news, q.lhs ≠ X → ∀ alt ∈ q.alts, ∀ u,
      YieldE (pre ++ p :: post) (substAlt X R alt.fs) u → Der (pre ++ p :: post) q.lhs u)
    (hbwd2 : ∀ q ∈ news, q.lhs = X → ∀ alt ∈ q.alts, ∀ u,
      YieldE (pre ++ p :: post) (substAlt X R alt.fs) u → YieldE (pre ++ p :: post) R u)
    (fs : List Factor) (w : List Nat) (hfs : X ∉ altVars fs) :
    YieldE (pre ++ p :: post) fs w ↔ YieldE (pre ++ news ++ post) fs w := by
  constructor
  · apply yieldE_sim
    intro q hq alt ha u hu
    simp only [List.mem_append, List.mem_cons] at hq
    rcases hq with hq | rfl | hq
    · exact ⟨q, by simp [hq], rfl, alt, ha, hu⟩
    · exact hfwd alt ha u hu
    · exact ⟨q, by simp [hq], rfl, alt, ha, hu⟩
  · intro h
    have old : ∀ q ∈ pre ++ p :: post, ∀ alt ∈ q.alts, substAlt X R alt.fs = alt.fs := by
      intro q hq alt ha
      apply substAlt_fresh
      intro hx
      exact hfresh (altVars_sub_variableNames hq ha X hx)
    have oldlhs : ∀ q ∈ pre ++ p :: post, q.lhs ≠ X := by
      intro q hq e
      exact hfresh (e ▸ lhs_mem_variableNames hq)
    have := yieldE_translate (G' := pre ++ news ++ post) (G := pre ++ p :: post) X R ?_ ?_ h
    · rwa [substAlt_fresh X R fs hfs] at this
    · intro q hq hne alt ha u hu
      simp only [List.mem_append] at hq
      rcases hq with (hq | hq) | hq
      · have hq' : q ∈ pre ++ p :: post := by simp [hq]
        rw [old q hq' alt ha] at hu
        exact ⟨q, hq', rfl, alt, ha, hu⟩
      · exact hbwd1 q hq hne alt ha u hu
      · have hq' : q ∈ pre ++ p :: post := by simp [hq]
        rw [old q hq' alt ha] at hu
        exact ⟨q, hq', rfl, alt, ha, hu⟩
    · intro q hq he alt ha u hu
      simp only [List.mem_append] at hq
      rcases hq with (hq | hq) | hq
      · exact absurd he (oldlhs q (by simp [hq]))
      · exact hbwd2 q hq he alt ha u hu
      · exact absurd he (oldlhs q (by simp [hq]))

/-! ## what every step guarantees -/

structure StepOK (ps ps' : List EProd) : Prop where
  /-- same derivations from every factor string over the old names -/
  equiv : ∀ fs w, (∀ x ∈ altVars fs, x ∈ variableNames ps) → (YieldE ps fs w ↔ YieldE ps' fs w)
  /-- names are never dropped -/
  names : ∀ x ∈ variableNames ps, x ∈ variableNames ps'
  /-- a left-hand side of the result is an old left-hand side or not an old name at all -/
  lhs : ∀ q ∈ ps', q.lhs ∈ ps.map (·.lhs) ∨ q.lhs ∉ variableNames ps

theorem StepOK.refl (ps : List EProd) : StepOK ps ps :=
  ⟨fun _ _ _ => Iff.rfl, fun _ h => h, fun q hq => .inl (List.mem_map.2 ⟨q, hq, rfl⟩)⟩

theorem StepOK.trans {a b c : List EProd} (h1 : StepOK a b) (h2 : StepOK b c) : StepOK a c := by
  refine ⟨?_, fun x hx => h2.names x (h1.names x hx), ?_⟩
  · intro fs w hfs
    exact (h1.equiv fs w hfs).trans (h2.equiv fs w (fun x hx => h1.names x (hfs x hx)))
  · intro q hq
    rcases h2.lhs q hq with h | h
    · obtain ⟨q', hq', e⟩ := List.mem_map.1 h
      rw [← e]
      exact h1.lhs q' hq'
    · exact .inr (fun hx => h (h1.names _ hx))

theorem not_mem_of_all {x : Name} {fs : List Factor} {V : List Name} (hx : x ∉ V)
    (h : ∀ y ∈ altVars fs, y ∈ V) : x ∉ altVars fs := fun hm => hx (h x hm)

/-! ## `separate_alternatives` -/

theorem sepStep_spec {ps ps' : List EProd} (h : sepStep ps = .changed ps') :
    ∃ pre p post, ps = pre ++ p :: post ∧ p.alts.length > 1 ∧
      ps' = pre ++ p.alts.map (fun a => ⟨p.lhs, [a]⟩) ++ post := by
  unfold sepStep at h
  split at h
  · rename_i pre p post hs
    injection h with h
    obtain ⟨x, hx, hl, _⟩ := splitFirstSome_spec _ _ _ _ _ hs
    split at hx
    · rename_i hlen
      injection hx with hx
      subst hx
      exact ⟨pre, x, post, hl, hlen, h.symm⟩
    · cases hx
  · cases h

theorem variableNames_sep (p : EProd) :
    ∀ x, x ∈ variableNames (p.alts.map (fun a => (⟨p.lhs, [a]⟩ : EProd))) → x ∈ p.vars := by
  intro x hx
  obtain ⟨q, hq, h⟩ := mem_variableNames.1 hx
  obtain ⟨a, ha, rfl⟩ := List.mem_map.1 hq
  simp only [EProd.vars, List.mem_cons, mem_altsVars, List.mem_map]
  rcases h with h | ⟨alt, halt, hx⟩
  · exact .inl h
  · simp only [List.mem_singleton] at halt
    subst halt
    exact .inr ⟨_, ⟨alt, ha, rfl⟩, hx⟩

theorem sepStep_ok {ps ps' : List EProd} (h : sepStep ps = .changed ps') : StepOK ps ps' := by
  obtain ⟨pre, p, post, rfl, hlen, rfl⟩ := sepStep_spec h
  refine ⟨fun fs w _ => ?_, ?_, ?_⟩
  · apply step_equiv0
    · intro alt ha u hu
      exact ⟨⟨p.lhs, [alt]⟩,
        List.mem_append.2 (.inl (List.mem_append.2 (.inr (List.mem_map.2 ⟨alt, ha, rfl⟩)))),
        rfl, alt, by simp, hu⟩
    · intro q hq alt ha u hu
      obtain ⟨a, ha', rfl⟩ := List.mem_map.1 hq
      simp only [List.mem_singleton] at ha
      subst ha
      exact ⟨p, by simp, rfl, alt, ha', hu⟩
  · intro x hx
    simp only [variableNames_append, variableNames_cons, List.mem_append] at hx ⊢
    rcases hx with hx | hx | hx
    · exact .inl (.inl hx)
    · refine .inl (.inr ?_)
      simp only [EProd.vars, List.mem_cons, mem_altsVars, List.mem_map] at hx
      apply mem_variableNames.2
      rcases hx with rfl | ⟨_, ⟨alt, ha, rfl⟩, hx⟩
      · obtain ⟨a0, ha0⟩ : ∃ a0, a0 ∈ p.alts := by
          cases hp : p.alts with
          | nil => simp [hp] at hlen
          | cons a _ => exact ⟨a, by simp⟩
        exact ⟨⟨p.lhs, [a0]⟩, List.mem_map.2 ⟨a0, ha0, rfl⟩, .inl rfl⟩
      · exact ⟨⟨p.lhs, [alt]⟩, List.mem_map.2 ⟨alt, ha, rfl⟩, .inr ⟨alt, by simp, hx⟩⟩
    · exact .inr hx
  · intro q hq
    simp only [List.mem_append] at hq
    refine .inl ?_
    simp only [List.map_append, List.map_cons, List.mem_append, List.mem_cons, List.mem_map]
    rcases hq with (hq | hq) | hq
    · exact .inl ⟨q, hq, rfl⟩
    · obtain ⟨a, _, rfl⟩ := List.mem_map.1 hq
      exact .inr (.inl rfl)
    · exact .inr (.inr ⟨q, hq, rfl⟩)

/-! ## `generate_name` -/

theorem genNameLoop_not_mem (excl : List Name) (pre : Name) :
    ∀ (fuel num : Nat) (X : Name), genNameLoop excl pre fuel num = some X → X ∉ excl
  | 0, _, _, h => by simp [genNameLoop] at h
  | f+1, num, X, h => by
    simp only [genNameLoop] at h
    split at h
    · exact genNameLoop_not_mem excl pre f (num + 1) X h
    · rename_i hn
      injection h with h
      subst h
      exact hn

theorem generateName_not_mem {excl : List Name} {pref X : Name}
    (h : generateName excl pref = some X) : X ∉ excl := by
  unfold generateName at h
  split at h
  · simp only at h
    split at h
    · exact genNameLoop_not_mem _ _ _ _ _ h
    · exact genNameLoop_not_mem _ _ _ _ _ h
  · rename_i hn
    injection h with h
    subst h
    exact hn

/-! ## helpers for located steps -/

theorem Loc.prod_alts (L : Loc) (f : Factor) :
    (L.prod f).alts = L.apre ++ ⟨L.x ++ f :: L.y, L.attr⟩ :: L.apost := rfl

theorem Loc.prod_lhs (L : Loc) (f : Factor) : (L.prod f).lhs = L.lhs := rfl
theorem Loc.withAlt_lhs (L : Loc) (fs : List Factor) : (L.withAlt fs).lhs = L.lhs := rfl
theorem Loc.withAlt_alts (L : Loc) (fs : List Factor) :
    (L.withAlt fs).alts = L.apre ++ ⟨fs, L.attr⟩ :: L.apost := rfl

theorem located_fwd {L : Loc} {f : Factor} {fs' : List Factor} {G' : List EProd}
    (hp1 : L.withAlt fs' ∈ G')
    (hch : ∀ u, YieldE G' (L.x ++ f :: L.y) u → Der G' L.lhs u) :
    ∀ alt ∈ (L.prod f).alts, ∀ u, YieldE G' alt.fs u → Der G' (L.prod f).lhs u := by
  intro alt ha u hu
  rw [Loc.prod_alts] at ha
  simp only [List.mem_append, List.mem_cons] at ha
  rcases ha with ha | rfl | ha
  · exact ⟨_, hp1, rfl, alt, by simp [Loc.withAlt_alts, ha], hu⟩
  · exact hch u hu
  · exact ⟨_, hp1, rfl, alt, by simp [Loc.withAlt_alts, ha], hu⟩

theorem located_bwd {X : Name} {R : List Factor} {L : Loc} {f : Factor} {fs' : List Factor}
    {G : List EProd} (hp : L.prod f ∈ G) (hfresh : X ∉ variableNames G)
    (hch : ∀ u, YieldE G (substAlt X R fs') u → YieldE G (L.x ++ f :: L.y) u) :
    ∀ alt ∈ (L.withAlt fs').alts, ∀ u, YieldE G (substAlt X R alt.fs) u → Der G L.lhs u := by
  intro alt ha u hu
  rw [Loc.withAlt_alts] at ha
  simp only [List.mem_append, List.mem_cons] at ha
  have keep : ∀ alt, alt ∈ (L.prod f).alts → YieldE G (substAlt X R alt.fs) u → Der G L.lhs u := by
    intro alt ha hu
    rw [substAlt_fresh X R alt.fs (fun hx => hfresh (altVars_sub_variableNames hp ha X hx))] at hu
    exact ⟨_, hp, rfl, alt, ha, hu⟩
  rcases ha with ha | rfl | ha
  · exact keep alt (by simp [Loc.prod_alts, ha]) hu
  · exact ⟨_, hp, rfl, ⟨L.x ++ f :: L.y, L.attr⟩, by simp [Loc.prod_alts], hch u hu⟩
  · exact keep alt (by simp [Loc.prod_alts, ha]) hu

theorem located_bwd0 {L : Loc} {f : Factor} {fs' : List Factor}
    {G : List EProd} (hp : L.prod f ∈ G)
    (hch : ∀ u, YieldE G fs' u → YieldE G (L.x ++ f :: L.y) u) :
    ∀ alt ∈ (L.withAlt fs').alts, ∀ u, YieldE G alt.fs u → Der G L.lhs u := by
  intro alt ha u hu
  rw [Loc.withAlt_alts] at ha
  simp only [List.mem_append, List.mem_cons] at ha
  rcases ha with ha | rfl | ha
  · exact ⟨_, hp, rfl, alt, by simp [Loc.prod_alts, ha], hu⟩
  · exact ⟨_, hp, rfl, ⟨L.x ++ f :: L.y, L.attr⟩, by simp [Loc.prod_alts], hch u hu⟩
  · exact ⟨_, hp, rfl, alt, by simp [Loc.prod_alts, ha], hu⟩

/-- names of the located production -/
theorem Loc.prod_vars (L : Loc) (f : Factor) (x : Name) :
    x ∈ (L.prod f).vars ↔ x = L.lhs ∨ x ∈ altsVars (L.apre.map (·.fs)) ∨ x ∈ altVars L.x ∨
      x ∈ f.vars ∨ x ∈ altVars L.y ∨ x ∈ altsVars (L.apost.map (·.fs)) := by
  simp [EProd.vars, Loc.prod, Loc.withAlt, altsVars_append, altsVars, altVars_append, altVars]

theorem Loc.withAlt_vars (L : Loc) (fs : List Factor) (x : Name) :
    x ∈ (L.withAlt fs).vars ↔ x = L.lhs ∨ x ∈ altsVars (L.apre.map (·.fs)) ∨ x ∈ altVars fs ∨
      x ∈ altsVars (L.apost.map (·.fs)) := by
  simp [EProd.vars, Loc.withAlt, altsVars_append, altsVars]

/-- freshness facts for a name not in `variableNames (pre ++ L.prod f :: post)` -/
theorem fresh_parts {X : Name} {L : Loc} {f : Factor} {pre post : List EProd}
    (h : X ∉ variableNames (pre ++ L.prod f :: post)) :
    X ≠ L.lhs ∧ X ∉ altVars L.x ∧ X ∉ f.vars ∧ X ∉ altVars L.y := by
  simp only [variableNames_append, variableNames_cons, List.mem_append, Loc.prod_vars, not_or] at h
  exact ⟨h.2.1.1, h.2.1.2.2.1, h.2.1.2.2.2.1, h.2.1.2.2.2.2.1⟩

theorem mem_map_lhs_mid {pre post : List EProd} {p : EProd} :
    p.lhs ∈ (pre ++ p :: post).map (·.lhs) := by simp

theorem variableNames_nil : variableNames [] = [] := rfl

theorem names_mono_mid (pre post : List EProd) (p : EProd) (news : List EProd)
    (h : ∀ z ∈ p.vars, z ∈ variableNames news) :
    ∀ z ∈ variableNames (pre ++ p :: post), z ∈ variableNames (pre ++ news ++ post) := by
  intro z hz
  simp only [variableNames_append, variableNames_cons, List.mem_append] at hz ⊢
  rcases hz with hz | hz | hz
  · exact .inl (.inl hz)
  · exact .inl (.inr (h z hz))
  · exact .inr hz

theorem lhs_mid (pre post : List EProd) (p : EProd) (news : List EProd) (V : List Name)
    (h : ∀ q ∈ news, q.lhs = p.lhs ∨ q.lhs ∉ V) :
    ∀ q ∈ pre ++ news ++ post, q.lhs ∈ (pre ++ p :: post).map (·.lhs) ∨ q.lhs ∉ V := by
  intro q hq
  simp only [List.mem_append] at hq
  rcases hq with (hq | hq) | hq
  · exact .inl (List.mem_map.2 ⟨q, by simp [hq], rfl⟩)
  · rcases h q hq with h | h
    · exact .inl (by simp [h])
    · exact .inr h
  · exact .inl (List.mem_map.2 ⟨q, by simp [hq], rfl⟩)

/-- `eliminate_single_grp`, case 1 (DESIGN.md B.6): a group with a single alternative is inlined. -/
theorem inline_single_group {G : List EProd} (x g y : List Factor) (w : List Nat) :
    YieldE G (x ++ .group [g] :: y) w ↔ YieldE G (x ++ g ++ y) w := by
  constructor
  · intro h
    obtain ⟨u, v, rfl, hx, hgy⟩ := YieldE.split h
    obtain ⟨u2, v2, rfl, hg, hy⟩ := YieldE.split_cons hgy
    obtain ⟨alt, ha, hg'⟩ := yieldE_group_inv hg
    have : alt = g := by simpa using ha
    subst this
    rw [List.append_assoc]
    exact YieldE.append hx (YieldE.append hg' hy)
  · intro h
    rw [List.append_assoc] at h
    obtain ⟨u, v, rfl, hx, hgy⟩ := YieldE.split h
    obtain ⟨u2, v2, rfl, hg, hy⟩ := YieldE.split hgy
    exact YieldE.append hx (.group [g] g (by simp) hg hy)

theorem groupInner_eq {f : Factor} {as : Alts} (h : f.groupInner = some as) : f = .group as := by
  cases f <;> simp [Factor.groupInner] at h
  subst h; rfl
theorem repInner_eq {f : Factor} {as : Alts} (h : f.repInner = some as) : f = .rep as := by
  cases f <;> simp [Factor.repInner] at h
  subst h; rfl
theorem optInner_eq {f : Factor} {as : Alts} (h : f.optInner = some as) : f = .opt as := by
  cases f <;> simp [Factor.optInner] at h
  subst h; rfl

theorem mem_mid {α} {pre post : List α} {p : α} : p ∈ pre ++ p :: post := by simp

/-! ## `eliminate_groups` -/

theorem groupStep_ok {ps ps' : List EProd} (h : groupStep ps = .changed ps') : StepOK ps ps' := by
  unfold groupStep at h
  split at h
  · cases h
  · rename_i L hL
    obtain ⟨f, hf, rfl⟩ := locate_spec hL
    split at h
    · -- case 1: single alternative, inlined
      rename_i single hin
      rw [hin] at hf
      have hfg := groupInner_eq hf
      subst hfg
      injection h with h
      subst h
      refine ⟨fun fs w _ => ?_, ?_, ?_⟩
      · apply step_equiv0
        · apply located_fwd (fs' := L.x ++ single ++ L.y) (by simp)
          intro u hu
          exact ⟨_, (by simp : L.withAlt (L.x ++ single ++ L.y) ∈ _), rfl,
            ⟨L.x ++ single ++ L.y, L.attr⟩, by simp [Loc.withAlt_alts],
            (inline_single_group _ _ _ _).1 hu⟩
        · intro q hq
          simp only [List.mem_singleton] at hq
          subst hq
          apply located_bwd0 mem_mid
          intro u hu
          exact (inline_single_group _ _ _ _).2 hu
      · apply names_mono_mid
        intro z hz
        simp only [variableNames_cons, variableNames_nil, List.append_nil, Loc.prod_vars,
          Loc.withAlt_vars, Factor.vars, altsVars, altVars_append, List.mem_append] at hz ⊢
        grind
      · apply lhs_mid
        intro q hq
        simp only [List.mem_singleton] at hq
        subst hq
        exact .inl rfl
    · -- case 2: new production for the group
      rename_i hmulti
      have hfg := groupInner_eq hf
      subst hfg
      split at h
      · cases h
      · rename_i X hX
        injection h with h
        subst h
        have hfresh := generateName_not_mem hX
        obtain ⟨hXl, hXx, hXf, hXy⟩ := fresh_parts hfresh
        have hXin : X ∉ altsVars L.inner := by simpa [Factor.vars] using hXf
        refine ⟨fun fs w hfs => ?_, ?_, ?_⟩
        · apply step_equivX X [.group L.inner] _ _ _ _ hfresh
          · apply located_fwd (fs' := L.x ++ .n X .none :: L.y) (by simp)
            intro u hu
            obtain ⟨u1, u2, rfl, h1, h2⟩ := YieldE.split hu
            obtain ⟨u3, u4, rfl, h3, h4⟩ := YieldE.split_cons h2
            obtain ⟨alt, ha, h3'⟩ := yieldE_group_inv h3
            refine ⟨_, (by simp : L.withAlt (L.x ++ .n X .none :: L.y) ∈ _), rfl,
              ⟨L.x ++ .n X .none :: L.y, L.attr⟩, by simp [Loc.withAlt_alts], ?_⟩
            refine YieldE.append h1 (YieldE.cons (Der.yield ?_ _) h4)
            exact ⟨⟨X, L.inner.map (fun a => ⟨a, .none⟩)⟩, by simp, rfl, ⟨alt, .none⟩,
              List.mem_map.2 ⟨alt, ha, rfl⟩, h3'⟩
          · intro q hq hne
            simp only [List.mem_cons, List.not_mem_nil, or_false] at hq
            rcases hq with rfl | rfl
            · apply located_bwd mem_mid hfresh
              intro u hu
              simpa [substAlt_append, substAlt, Factor.subst, substAlt_fresh X _ _ hXx,
                substAlt_fresh X _ _ hXy] using hu
            · exact absurd rfl hne
          · intro q hq he
            simp only [List.mem_cons, List.not_mem_nil, or_false] at hq
            rcases hq with rfl | rfl
            · exact absurd he (Ne.symm hXl)
            · intro alt ha u hu
              obtain ⟨a, ha', rfl⟩ := List.mem_map.1 ha
              have hxa : X ∉ altVars a := fun hx => hXin (mem_altsVars.2 ⟨a, ha', hx⟩)
              rw [substAlt_fresh X _ _ hxa] at hu
              exact yieldE_group_intro ha' hu
          · exact not_mem_of_all hfresh hfs
        · apply names_mono_mid
          intro z hz
          simp only [variableNames_cons, variableNames_nil, List.append_nil, Loc.prod_vars,
            Loc.withAlt_vars, List.mem_append] at hz ⊢
          simp only [Factor.vars, altVars_append, altVars, List.mem_append, EProd.vars,
            List.mem_cons, List.map_map, Function.comp_def, List.map_id', List.not_mem_nil,
            or_false] at hz ⊢
          grind
        · apply lhs_mid
          intro q hq
          simp only [List.mem_cons, List.not_mem_nil, or_false] at hq
          rcases hq with rfl | rfl
          · exact .inl rfl
          · exact .inr hfresh

/-! ## `eliminate_repetitions` -/

/-- right-recursive helper (`R' → a R' | ε`, LL(k)) covers the repetition -/
theorem rep_to_nt_ll {G : List EProd} {X : Name} {inner : Alts} {rest : List Factor}
    (hnil : Der G X [])
    (hstep : ∀ alt ∈ inner, ∀ u v, YieldE G alt u → Der G X v → Der G X (u ++ v))
    {w : List Nat} (h : YieldE G (.rep inner :: rest) w) :
    ∃ a b, w = a ++ b ∧ Der G X a ∧ YieldE G rest b := by
  refine yieldE_rep_ind (fun w => ∃ a b, w = a ++ b ∧ Der G X a ∧ YieldE G rest b) ?_ ?_ h
  · intro v hv; exact ⟨[], v, rfl, hnil, hv⟩
  · rintro alt u v ha hu ⟨a, b, rfl, hda, hb⟩
    exact ⟨u ++ a, b, by simp, hstep alt ha u a hu hda, hb⟩

/-- left-recursive helper (`R' → R' a | ε`, LALR(1)) covers the repetition -/
theorem rep_to_nt_lr {G : List EProd} {X : Name} {inner : Alts} {rest : List Factor}
    (hnil : Der G X [])
    (hstep : ∀ alt ∈ inner, ∀ u v, Der G X u → YieldE G alt v → Der G X (u ++ v))
    {w : List Nat} (h : YieldE G (.rep inner :: rest) w) :
    ∃ a b, w = a ++ b ∧ Der G X a ∧ YieldE G rest b := by
  have := yieldE_rep_ind
    (fun w => ∀ u0, Der G X u0 → ∃ a b, w = a ++ b ∧ Der G X (u0 ++ a) ∧ YieldE G rest b) ?_ ?_ h
  · simpa using this [] hnil
  · intro v hv u0 hu0; exact ⟨[], v, rfl, by simpa using hu0, hv⟩
  · intro alt u v ha hu ih u0 hu0
    obtain ⟨a, b, rfl, hda, hb⟩ := ih (u0 ++ u) (hstep alt ha u0 u hu0 hu)
    exact ⟨u ++ a, b, by simp, by simpa using hda, hb⟩

theorem repStep_ok_core (ty : GType) (L : Loc) (X : Name) (body : List Factor)
    (hbody : (match L.inner with
        | [single] => (match ty with | .ll => single ++ [Factor.n X .none] | .lr => .n X .none :: single)
        | _ => (match ty with | .ll => [.group L.inner, .n X .none] | .lr => [.n X .none, .group L.inner])) = body)
    (hfresh : X ∉ variableNames (L.pre ++ L.prod (.rep L.inner) :: L.post)) :
    StepOK (L.pre ++ L.prod (.rep L.inner) :: L.post)
      (L.pre ++ [L.withAlt (L.x ++ .n X .repAnchor :: L.y), ⟨X, [⟨body, .addToColl⟩]⟩,
        ⟨X, [⟨[], .collStart⟩]⟩] ++ L.post) := by
      obtain ⟨hXl, hXx, hXf, hXy⟩ := fresh_parts hfresh
      have hXin : X ∉ altsVars L.inner := by simpa [Factor.vars] using hXf
      have hXalt : ∀ a ∈ L.inner, X ∉ altVars a := fun a ha hx => hXin (mem_altsVars.2 ⟨a, ha, hx⟩)
      -- forward: the helper derives what the repetition derives
      have fwd : ∀ G : List EProd, (⟨X, [⟨body, .addToColl⟩]⟩ : EProd) ∈ G →
          (⟨X, [⟨[], .collStart⟩]⟩ : EProd) ∈ G → ∀ (rest : List Factor) (w : List Nat),
          YieldE G (.rep L.inner :: rest) w → ∃ a b, w = a ++ b ∧ Der G X a ∧ YieldE G rest b := by
        intro G h2 h2a rest w hw
        have hnil : Der G X [] := ⟨_, h2a, rfl, ⟨[], .collStart⟩, by simp, .nil⟩
        have mk : ∀ u, YieldE G body u → Der G X u :=
          fun u hu => ⟨_, h2, rfl, ⟨body, .addToColl⟩, by simp, hu⟩
        cases ty with
        | ll =>
          apply rep_to_nt_ll hnil _ hw
          intro alt ha u v hu hv
          apply mk
          split at hbody
          · rename_i single hin
            simp only at hbody
            subst hbody
            rw [hin] at ha
            simp only [List.mem_singleton] at ha
            subst ha
            exact YieldE.append hu (hv.yield _)
          · simp only at hbody
            subst hbody
            exact YieldE.cons (yieldE_group_intro ha hu) (hv.yield _)
        | lr =>
          apply rep_to_nt_lr hnil _ hw
          intro alt ha u v hu hv
          apply mk
          split at hbody
          · rename_i single hin
            simp only at hbody
            subst hbody
            rw [hin] at ha
            simp only [List.mem_singleton] at ha
            subst ha
            exact YieldE.cons (hu.yield _) hv
          · simp only at hbody
            subst hbody
            exact YieldE.cons (hu.yield _) (yieldE_group_intro ha hv)
      -- backward: the translated body stays inside the repetition
      have bwd : ∀ G : List EProd, ∀ u, YieldE G (substAlt X [.rep L.inner] body) u →
          YieldE G [.rep L.inner] u := by
        intro G u hu
        cases ty with
        | ll =>
          split at hbody
          · rename_i single hin
            simp only at hbody
            subst hbody
            have hs : X ∉ altVars single := hXalt single (by simp [hin])
            simp only [substAlt_append, substAlt_fresh X _ _ hs, substAlt, Factor.subst, if_true,
              List.append_nil] at hu
            obtain ⟨u1, u2, rfl, h1, h2⟩ := YieldE.split hu
            exact yieldE_rep_step (by simp [hin]) h1 h2
          · simp only at hbody
            subst hbody
            simp only [substAlt, Factor.subst, if_true, List.append_nil, List.singleton_append,
              substAlts_fresh X _ _ hXin] at hu
            obtain ⟨u1, u2, rfl, h1, h2⟩ := YieldE.split_cons hu
            obtain ⟨alt, ha, h1'⟩ := yieldE_group_inv h1
            exact yieldE_rep_step ha h1' h2
        | lr =>
          split at hbody
          · rename_i single hin
            simp only at hbody
            subst hbody
            have hs : X ∉ altVars single := hXalt single (by simp [hin])
            simp only [substAlt, Factor.subst, if_true, substAlt_fresh X _ _ hs,
              List.singleton_append] at hu
            obtain ⟨u1, u2, rfl, h1, h2⟩ := YieldE.split_cons hu
            exact yieldE_rep_snoc (by simp [hin]) h1 h2
          · simp only at hbody
            subst hbody
            simp only [substAlt, Factor.subst, if_true, List.append_nil, List.singleton_append,
              substAlts_fresh X _ _ hXin] at hu
            obtain ⟨u1, u2, rfl, h1, h2⟩ := YieldE.split_cons hu
            obtain ⟨alt, ha, h2'⟩ := yieldE_group_inv h2
            exact yieldE_rep_snoc ha h1 h2'
      have innerVars : ∀ z ∈ altsVars L.inner, z ∈ altVars body := by
        intro z hz
        cases ty <;> split at hbody <;> simp only at hbody <;> subst hbody <;>
          simp_all [altVars_append, altVars, Factor.vars, altsVars]
      refine ⟨fun fs w hfs => ?_, ?_, ?_⟩
      · apply step_equivX X [.rep L.inner] _ _ _ _ hfresh
        · apply located_fwd (fs' := L.x ++ .n X .repAnchor :: L.y) (by simp)
          intro u hu
          obtain ⟨u1, u2, rfl, h1, h2⟩ := YieldE.split hu
          obtain ⟨a, b, rfl, hda, hb⟩ := fwd _ (by simp) (by simp) _ _ h2
          exact ⟨_, (by simp : L.withAlt (L.x ++ .n X .repAnchor :: L.y) ∈ _), rfl,
            ⟨L.x ++ .n X .repAnchor :: L.y, L.attr⟩, by simp [Loc.withAlt_alts],
            YieldE.append h1 (YieldE.cons (hda.yield _) hb)⟩
        · intro q hq hne
          simp only [List.mem_cons, List.not_mem_nil, or_false] at hq
          rcases hq with rfl | rfl | rfl
          · apply located_bwd mem_mid hfresh
            intro u hu
            simpa [substAlt_append, substAlt, Factor.subst, substAlt_fresh X _ _ hXx,
              substAlt_fresh X _ _ hXy] using hu
          · exact absurd rfl hne
          · exact absurd rfl hne
        · intro q hq he
          simp only [List.mem_cons, List.not_mem_nil, or_false] at hq
          rcases hq with rfl | rfl | rfl
          · exact absurd he (Ne.symm hXl)
          · intro alt ha u hu
            simp only [List.mem_singleton] at ha
            subst ha
            exact bwd _ u hu
          · intro alt ha u hu
            simp only [List.mem_singleton] at ha
            subst ha
            simp only [substAlt] at hu
            have := yieldE_nil_inv hu
            subst this
            exact yieldE_rep_nil
        · exact not_mem_of_all hfresh hfs
      · apply names_mono_mid
        intro z hz
        simp only [variableNames_cons, variableNames_nil, List.append_nil, Loc.prod_vars,
          Loc.withAlt_vars, List.mem_append] at hz ⊢
        simp only [Factor.vars, altVars_append, altVars, List.mem_append, EProd.vars,
          List.mem_cons, List.map_cons, List.map_nil, altsVars, List.not_mem_nil,
          or_false, List.append_nil] at hz ⊢
        have := innerVars z
        grind
      · apply lhs_mid
        intro q hq
        simp only [List.mem_cons, List.not_mem_nil, or_false] at hq
        rcases hq with rfl | rfl | rfl
        · exact .inl rfl
        · exact .inr hfresh
        · exact .inr hfresh

theorem repStep_ok {ty : GType} {ps ps' : List EProd} (h : repStep ty ps = .changed ps') :
    StepOK ps ps' := by
  unfold repStep at h
  split at h
  · cases h
  · rename_i L hL
    obtain ⟨f, hf, rfl⟩ := locate_spec hL
    have hfg := repInner_eq hf
    subst hfg
    split at h
    · cases h
    · rename_i X hX
      simp only at h
      injection h with h
      subst h
      exact repStep_ok_core ty L X _ rfl (generateName_not_mem hX)

/-! ## `eliminate_options` (unreachable behind `extract_options`; correct when the located
alternation is the first one of its production, which `separate_alternatives` guarantees) -/

theorem removeAt_mid {α} (x : List α) (f : α) (y : List α) :
    removeAt? x.length (x ++ f :: y) = some (x ++ y) := by
  induction x with
  | nil => simp [removeAt?]
  | cons a x ih => simp [removeAt?, ih]

theorem yieldE_append3 {G : List EProd} {a b c : List Factor} {u v w : List Nat}
    (h1 : YieldE G a u) (h2 : YieldE G b v) (h3 : YieldE G c w) :
    YieldE G (a ++ b ++ c) (u ++ (v ++ w)) := by
  have := YieldE.append (YieldE.append h1 h2) h3
  simpa using this

theorem yieldE_split3 {G : List EProd} {a b c : List Factor} {w : List Nat}
    (h : YieldE G (a ++ b ++ c) w) :
    ∃ u v x, w = u ++ (v ++ x) ∧ YieldE G a u ∧ YieldE G b v ∧ YieldE G c x := by
  obtain ⟨uv, x, rfl, h12, h3⟩ := YieldE.split h
  obtain ⟨u, v, rfl, h1, h2⟩ := YieldE.split h12
  exact ⟨u, v, x, by simp, h1, h2, h3⟩

theorem optStep_ok_case1 (L : Loc) (single : List Factor) :
    StepOK (L.pre ++ L.prod (.opt [single]) :: L.post)
      (L.pre ++ [L.withAlt (L.x ++ single ++ L.y), L.withAlt (L.x ++ L.y)] ++ L.post) := by
  refine ⟨fun fs w _ => ?_, ?_, ?_⟩
  · apply step_equiv0
    · apply located_fwd (fs' := L.x ++ single ++ L.y) (by simp)
      intro u hu
      obtain ⟨u1, u2, rfl, h1, h2⟩ := YieldE.split hu
      obtain ⟨u3, u4, rfl, h3, h4⟩ := YieldE.split_cons h2
      rcases yieldE_opt_inv h3 with rfl | ⟨alt, ha, h3'⟩
      · exact ⟨_, (by simp : L.withAlt (L.x ++ L.y) ∈ _), rfl, ⟨L.x ++ L.y, L.attr⟩,
          by simp [Loc.withAlt_alts], by simpa using YieldE.append h1 h4⟩
      · simp only [List.mem_singleton] at ha
        subst ha
        exact ⟨_, (by simp : L.withAlt (L.x ++ alt ++ L.y) ∈ _), rfl, ⟨L.x ++ alt ++ L.y, L.attr⟩,
          by simp [Loc.withAlt_alts], yieldE_append3 h1 h3' h4⟩
    · intro q hq
      simp only [List.mem_cons, List.not_mem_nil, or_false] at hq
      rcases hq with rfl | rfl
      · apply located_bwd0 mem_mid
        intro u hu
        obtain ⟨u1, u3, u4, rfl, h1, h3, h4⟩ := yieldE_split3 hu
        exact YieldE.append h1 (.optSome _ single (by simp) h3 h4)
      · apply located_bwd0 mem_mid
        intro u hu
        obtain ⟨u1, u2, rfl, h1, h2⟩ := YieldE.split hu
        exact YieldE.append h1 (.optNone _ h2)
  · apply names_mono_mid
    intro z hz
    simp only [variableNames_cons, variableNames_nil, List.append_nil, Loc.prod_vars,
      Loc.withAlt_vars, Factor.vars, altsVars, altVars_append, List.mem_append] at hz ⊢
    grind
  · apply lhs_mid
    intro q hq
    simp only [List.mem_cons, List.not_mem_nil, or_false] at hq
    rcases hq with rfl | rfl <;> exact .inl rfl

theorem optStep_ok_case2 (L : Loc) (X : Name)
    (hfresh : X ∉ variableNames (L.pre ++ L.prod (.opt L.inner) :: L.post)) :
    StepOK (L.pre ++ L.prod (.opt L.inner) :: L.post)
      (L.pre ++ [L.withAlt (L.x ++ .n X .none :: L.y), L.withAlt (L.x ++ L.y),
        ⟨X, L.inner.map (fun a => ⟨a, .none⟩)⟩] ++ L.post) := by
  obtain ⟨hXl, hXx, hXf, hXy⟩ := fresh_parts hfresh
  have hXin : X ∉ altsVars L.inner := by simpa [Factor.vars] using hXf
  refine ⟨fun fs w hfs => ?_, ?_, ?_⟩
  · apply step_equivX X [.group L.inner] _ _ _ _ hfresh
    · apply located_fwd (fs' := L.x ++ .n X .none :: L.y) (by simp)
      intro u hu
      obtain ⟨u1, u2, rfl, h1, h2⟩ := YieldE.split hu
      obtain ⟨u3, u4, rfl, h3, h4⟩ := YieldE.split_cons h2
      rcases yieldE_opt_inv h3 with rfl | ⟨alt, ha, h3'⟩
      · exact ⟨_, (by simp : L.withAlt (L.x ++ L.y) ∈ _), rfl, ⟨L.x ++ L.y, L.attr⟩,
          by simp [Loc.withAlt_alts], by simpa using YieldE.append h1 h4⟩
      · refine ⟨_, (by simp : L.withAlt (L.x ++ .n X .none :: L.y) ∈ _), rfl,
          ⟨L.x ++ .n X .none :: L.y, L.attr⟩, by simp [Loc.withAlt_alts], ?_⟩
        refine YieldE.append h1 (YieldE.cons (Der.yield ?_ _) h4)
        exact ⟨⟨X, L.inner.map (fun a => ⟨a, .none⟩)⟩, by simp, rfl, ⟨alt, .none⟩,
          List.mem_map.2 ⟨alt, ha, rfl⟩, h3'⟩
    · intro q hq hne
      simp only [List.mem_cons, List.not_mem_nil, or_false] at hq
      rcases hq with rfl | rfl | rfl
      · apply located_bwd mem_mid hfresh
        intro u hu
        simp only [substAlt_append, substAlt, Factor.subst, if_true, substAlt_fresh X _ _ hXx,
          substAlt_fresh X _ _ hXy, List.singleton_append] at hu
        obtain ⟨u1, u2, rfl, h1, h2⟩ := YieldE.split hu
        obtain ⟨u3, u4, rfl, h3, h4⟩ := YieldE.split_cons h2
        obtain ⟨alt, ha, h3'⟩ := yieldE_group_inv h3
        exact YieldE.append h1 (.optSome _ alt ha h3' h4)
      · apply located_bwd mem_mid hfresh
        intro u hu
        simp only [substAlt_append, substAlt_fresh X _ _ hXx, substAlt_fresh X _ _ hXy] at hu
        obtain ⟨u1, u2, rfl, h1, h2⟩ := YieldE.split hu
        exact YieldE.append h1 (.optNone _ h2)
      · exact absurd rfl hne
    · intro q hq he
      simp only [List.mem_cons, List.not_mem_nil, or_false] at hq
      rcases hq with rfl | rfl | rfl
      · exact absurd he (Ne.symm hXl)
      · exact absurd he (Ne.symm hXl)
      · intro alt ha u hu
        obtain ⟨a, ha', rfl⟩ := List.mem_map.1 ha
        have hxa : X ∉ altVars a := fun hx => hXin (mem_altsVars.2 ⟨a, ha', hx⟩)
        rw [substAlt_fresh X _ _ hxa] at hu
        exact yieldE_group_intro ha' hu
    · exact not_mem_of_all hfresh hfs
  · apply names_mono_mid
    intro z hz
    simp only [variableNames_cons, variableNames_nil, List.append_nil, Loc.prod_vars,
      Loc.withAlt_vars, List.mem_append] at hz ⊢
    simp only [Factor.vars, altVars_append, altVars, List.mem_append, EProd.vars,
      List.mem_cons, List.map_map, Function.comp_def, List.map_id', List.not_mem_nil,
      or_false] at hz ⊢
    grind
  · apply lhs_mid
    intro q hq
    simp only [List.mem_cons, List.not_mem_nil, or_false] at hq
    rcases hq with rfl | rfl | rfl
    · exact .inl rfl
    · exact .inl rfl
    · exact .inr hfresh

/-- all productions have at most one alternation (the state after `separate_alternatives`) -/
def SingleAlts (ps : List EProd) : Prop := ∀ p ∈ ps, p.alts.length ≤ 1

theorem optStep_ok {ps ps' : List EProd} (hs : SingleAlts ps) (h : optStep ps = .changed ps') :
    StepOK ps ps' := by
  unfold optStep at h
  split at h
  · cases h
  · rename_i L hL
    obtain ⟨f, hf, rfl⟩ := locate_spec hL
    split at h
    · rename_i single hin
      rw [hin] at hf
      have hfg := optInner_eq hf
      subst hfg
      injection h with h
      subst h
      exact optStep_ok_case1 L single
    · have hfg := optInner_eq hf
      subst hfg
      split at h
      · cases h
      · rename_i X hX
        have hapre : L.apre = [] := by
          have := hs _ (mem_mid (pre := L.pre) (post := L.post) (p := L.prod (.opt L.inner)))
          simp only [Loc.prod_alts, List.length_append, List.length_cons] at this
          exact List.eq_nil_of_length_eq_zero (by omega)
        simp only [Loc.withAlt, hapre, List.nil_append, removeAt_mid, Option.map_some] at h
        injection h with h
        subst h
        have := optStep_ok_case2 L X (generateName_not_mem hX)
        simpa only [Loc.withAlt, hapre, List.nil_append] using this

/-! ## `extract_options` -/

/-- name bookkeeping of an extraction: `vOld` are the names before, `vNew` after -/
def ExNames (X : Name) (inner : Alts) (vOld vNew : List Name) : Prop :=
  (∀ z ∈ altsVars inner, z ∈ vOld) ∧ (∀ z ∈ vNew, z = X ∨ z ∈ vOld) ∧
    (∀ z ∈ vOld, z ∈ vNew ∨ z ∈ altsVars inner) ∧ X ∈ vNew

mutual
theorem exFactor_spec (X : Name) : ∀ (f f' : Factor) (inner : Alts),
    exFactor X f = some (f', inner) → X ∉ f.vars →
      f'.subst X [.opt inner] = [f] ∧ ExNames X inner f.vars f'.vars
  | .t _, _, _, h, _ => by simp [exFactor] at h
  | .n _ _, _, _, h, _ => by simp [exFactor] at h
  | .opt as, f', inner, h, _ => by
    simp only [exFactor, Option.some.injEq, Prod.mk.injEq] at h
    obtain ⟨rfl, rfl⟩ := h
    refine ⟨by simp [Factor.subst], ?_⟩
    simp only [ExNames, Factor.vars, List.mem_singleton]
    exact ⟨fun z h => h, fun z h => .inl h, fun z h => .inr h, trivial⟩
  | .group as, f', inner, h, hx => by
    simp only [exFactor] at h
    split at h
    · rename_i as' inner' hrec
      simp only [Option.some.injEq, Prod.mk.injEq] at h
      obtain ⟨rfl, rfl⟩ := h
      obtain ⟨h1, h2⟩ := exAlts_spec X as as' inner' hrec (by simpa [Factor.vars] using hx)
      exact ⟨by simp [Factor.subst, h1], by simpa [Factor.vars] using h2⟩
    · cases h
  | .rep as, f', inner, h, hx => by
    simp only [exFactor] at h
    split at h
    · rename_i as' inner' hrec
      simp only [Option.some.injEq, Prod.mk.injEq] at h
      obtain ⟨rfl, rfl⟩ := h
      obtain ⟨h1, h2⟩ := exAlts_spec X as as' inner' hrec (by simpa [Factor.vars] using hx)
      exact ⟨by simp [Factor.subst, h1], by simpa [Factor.vars] using h2⟩
    · cases h
theorem exAlt_spec (X : Name) : ∀ (fs fs' : List Factor) (inner : Alts),
    exAlt X fs = some (fs', inner) → X ∉ altVars fs →
      substAlt X [.opt inner] fs' = fs ∧ ExNames X inner (altVars fs) (altVars fs')
  | [], _, _, h, _ => by simp [exAlt] at h
  | f :: fs, fs', inner, h, hx => by
    simp only [altVars, List.mem_append, not_or] at hx
    simp only [exAlt] at h
    split at h
    · rename_i f' inner' hrec
      simp only [Option.some.injEq, Prod.mk.injEq] at h
      obtain ⟨rfl, rfl⟩ := h
      obtain ⟨h1, h2, h3, h4, h5⟩ := exFactor_spec X f f' inner' hrec hx.1
      refine ⟨by simp [substAlt, h1, substAlt_fresh X _ fs hx.2], ?_⟩
      simp only [ExNames, altVars, List.mem_append]
      refine ⟨fun z hz => .inl (h2 z hz), ?_, ?_, .inl h5⟩
      · rintro z (hz | hz)
        · rcases h3 z hz with h | h
          · exact .inl h
          · exact .inr (.inl h)
        · exact .inr (.inr hz)
      · rintro z (hz | hz)
        · rcases h4 z hz with h | h
          · exact .inl (.inl h)
          · exact .inr h
        · exact .inl (.inr hz)
    · split at h
      · rename_i hnone fs'' inner' hrec
        simp only [Option.some.injEq, Prod.mk.injEq] at h
        obtain ⟨rfl, rfl⟩ := h
        obtain ⟨h1, h2, h3, h4, h5⟩ := exAlt_spec X fs fs'' inner' hrec hx.2
        refine ⟨by simp [substAlt, h1, Factor.subst_fresh X _ f hx.1], ?_⟩
        simp only [ExNames, altVars, List.mem_append]
        refine ⟨fun z hz => .inr (h2 z hz), ?_, ?_, .inr h5⟩
        · rintro z (hz | hz)
          · exact .inr (.inl hz)
          · rcases h3 z hz with h | h
            · exact .inl h
            · exact .inr (.inr h)
        · rintro z (hz | hz)
          · exact .inl (.inl hz)
          · rcases h4 z hz with h | h
            · exact .inl (.inr h)
            · exact .inr h
      · cases h
theorem exAlts_spec (X : Name) : ∀ (as as' : Alts) (inner : Alts),
    exAlts X as = some (as', inner) → X ∉ altsVars as →
      substAlts X [.opt inner] as' = as ∧ ExNames X inner (altsVars as) (altsVars as')
  | [], _, _, h, _ => by simp [exAlts] at h
  | a :: as, as', inner, h, hx => by
    simp only [altsVars, List.mem_append, not_or] at hx
    simp only [exAlts] at h
    split at h
    · rename_i a' inner' hrec
      simp only [Option.some.injEq, Prod.mk.injEq] at h
      obtain ⟨rfl, rfl⟩ := h
      obtain ⟨h1, h2, h3, h4, h5⟩ := exAlt_spec X a a' inner' hrec hx.1
      refine ⟨by simp [substAlts, h1, substAlts_fresh X _ as hx.2], ?_⟩
      simp only [ExNames, altsVars, List.mem_append]
      refine ⟨fun z hz => .inl (h2 z hz), ?_, ?_, .inl h5⟩
      · rintro z (hz | hz)
        · rcases h3 z hz with h | h
          · exact .inl h
          · exact .inr (.inl h)
        · exact .inr (.inr hz)
      · rintro z (hz | hz)
        · rcases h4 z hz with h | h
          · exact .inl (.inl h)
          · exact .inr h
        · exact .inl (.inr hz)
    · split at h
      · rename_i hnone as'' inner' hrec
        simp only [Option.some.injEq, Prod.mk.injEq] at h
        obtain ⟨rfl, rfl⟩ := h
        obtain ⟨h1, h2, h3, h4, h5⟩ := exAlts_spec X as as'' inner' hrec hx.2
        refine ⟨by simp [substAlts, h1, substAlt_fresh X _ a hx.1], ?_⟩
        simp only [ExNames, altsVars, List.mem_append]
        refine ⟨fun z hz => .inr (h2 z hz), ?_, ?_, .inr h5⟩
        · rintro z (hz | hz)
          · exact .inr (.inl hz)
          · rcases h3 z hz with h | h
            · exact .inl h
            · exact .inr (.inr h)
        · rintro z (hz | hz)
          · exact .inl (.inl hz)
          · rcases h4 z hz with h | h
            · exact .inl (.inr h)
            · exact .inr h
      · cases h
end

theorem exEAlts_spec (X : Name) : ∀ (alts alts' : List EAlt) (inner : Alts),
    exEAlts X alts = some (alts', inner) →
      ∃ apre a apost fs', alts = apre ++ a :: apost ∧ alts' = apre ++ ⟨fs', a.attr⟩ :: apost ∧
        exAlt X a.fs = some (fs', inner)
  | [], _, _, h => by simp [exEAlts] at h
  | a :: as, alts', inner, h => by
    simp only [exEAlts] at h
    split at h
    · rename_i fs' inner' hrec
      simp only [Option.some.injEq, Prod.mk.injEq] at h
      obtain ⟨rfl, rfl⟩ := h
      exact ⟨[], a, as, fs', rfl, rfl, hrec⟩
    · split at h
      · rename_i hnone as' inner' hrec
        simp only [Option.some.injEq, Prod.mk.injEq] at h
        obtain ⟨rfl, rfl⟩ := h
        obtain ⟨apre, a0, apost, fs', e1, e2, e3⟩ := exEAlts_spec X as as' inner' hrec
        exact ⟨a :: apre, a0, apost, fs', by simp [e1], by simp [e2], e3⟩
      · cases h

theorem extractInProds_spec (excl : List Name) : ∀ (ps ps' : List EProd),
    extractInProds excl ps = .changed ps' →
      ∃ pre p post X alts' inner, ps = pre ++ p :: post ∧
        generateName excl (optPreferred p.lhs) = some X ∧
        exEAlts X p.alts = some (alts', inner) ∧
        ps' = pre ++ [⟨p.lhs, alts'⟩, ⟨X, [⟨[.group inner], .optSome⟩]⟩,
          ⟨X, [⟨[], .optNone⟩]⟩] ++ post
  | [], _, h => by simp [extractInProds] at h
  | p :: ps, ps', h => by
    simp only [extractInProds] at h
    split at h
    · cases h
    · rename_i X hX
      split at h
      · rename_i alts' inner hex
        injection h with h
        subst h
        exact ⟨[], p, ps, X, alts', inner, rfl, hX, hex, rfl⟩
      · split at h
        · rename_i ps'' hrec
          injection h with h
          subst h
          obtain ⟨pre, p0, post, X0, alts', inner, e1, e2, e3, e4⟩ :=
            extractInProds_spec excl ps ps'' hrec
          exact ⟨p :: pre, p0, post, X0, alts', inner, by simp [e1], e2, e3, by simp [e4]⟩
        · rename_i r hne
          cases r <;> simp_all

theorem extractStep_ok {ps ps' : List EProd} (h : extractStep ps = .changed ps') :
    StepOK ps ps' := by
  unfold extractStep at h
  obtain ⟨pre, p, post, X, alts', inner, rfl, hX, hex, rfl⟩ := extractInProds_spec _ _ _ h
  obtain ⟨apre, a, apost, fs', hp, rfl, hexa⟩ := exEAlts_spec _ _ _ _ hex
  have hfresh := generateName_not_mem hX
  obtain ⟨plhs, palts⟩ := p
  simp only at hp hX
  subst hp
  have hmem : (⟨plhs, apre ++ a :: apost⟩ : EProd) ∈ pre ++ ⟨plhs, apre ++ a :: apost⟩ :: post :=
    mem_mid
  have hXa : X ∉ altVars a.fs := fun hx =>
    hfresh (altVars_sub_variableNames hmem (alt := a) (by simp) X hx)
  have hXl : X ≠ plhs := fun e => hfresh (e ▸ lhs_mem_variableNames hmem)
  obtain ⟨hsub, hn1, hn2, hn3, hn4⟩ := exAlt_spec X a.fs fs' inner hexa hXa
  have hXin : X ∉ altsVars inner := fun hx => hXa (hn1 X hx)
  refine ⟨fun fs w hfs => ?_, ?_, ?_⟩
  · apply step_equivX X [.opt inner] _ _ _ _ hfresh
    · -- old alternatives are derivable in the new grammar
      intro alt ha u hu
      have hp1 : (⟨plhs, apre ++ ⟨fs', a.attr⟩ :: apost⟩ : EProd) ∈
          pre ++ [⟨plhs, apre ++ ⟨fs', a.attr⟩ :: apost⟩, ⟨X, [⟨[.group inner], .optSome⟩]⟩,
            ⟨X, [⟨[], .optNone⟩]⟩] ++ post := by simp
      simp only [List.mem_append, List.mem_cons] at ha
      rcases ha with ha | rfl | ha
      · exact ⟨_, hp1, rfl, alt, by simp [ha], hu⟩
      · refine ⟨_, hp1, rfl, ⟨fs', alt.attr⟩, by simp, ?_⟩
        apply substAlt_unsubst X [.opt inner] _ fs' u (by rw [hsub]; exact hu)
        intro w hw
        rcases yieldE_opt_inv hw with rfl | ⟨alt', ha', hw'⟩
        · exact ⟨⟨X, [⟨[], .optNone⟩]⟩, by simp, rfl, ⟨[], .optNone⟩, by simp, .nil⟩
        · exact ⟨⟨X, [⟨[.group inner], .optSome⟩]⟩, by simp, rfl, ⟨[.group inner], .optSome⟩,
            by simp, yieldE_group_intro ha' hw'⟩
      · exact ⟨_, hp1, rfl, alt, by simp [ha], hu⟩
    · intro q hq hne
      simp only [List.mem_cons, List.not_mem_nil, or_false] at hq
      rcases hq with rfl | rfl | rfl
      · intro alt ha u hu
        simp only [List.mem_append, List.mem_cons] at ha
        have keep : ∀ alt : EAlt, alt ∈ apre ++ a :: apost →
            YieldE (pre ++ ⟨plhs, apre ++ a :: apost⟩ :: post) (substAlt X [.opt inner] alt.fs) u →
            Der (pre ++ ⟨plhs, apre ++ a :: apost⟩ :: post) plhs u := by
          intro alt ha hu
          rw [substAlt_fresh X _ alt.fs
            (fun hx => hfresh (altVars_sub_variableNames hmem ha X hx))] at hu
          exact ⟨_, hmem, rfl, alt, ha, hu⟩
        rcases ha with ha | rfl | ha
        · exact keep alt (by simp [ha]) hu
        · simp only at hu
          rw [hsub] at hu
          exact ⟨_, hmem, rfl, a, by simp, hu⟩
        · exact keep alt (by simp [ha]) hu
      · exact absurd rfl hne
      · exact absurd rfl hne
    · intro q hq he
      simp only [List.mem_cons, List.not_mem_nil, or_false] at hq
      rcases hq with rfl | rfl | rfl
      · exact absurd he (Ne.symm hXl)
      · intro alt ha u hu
        simp only [List.mem_singleton] at ha
        subst ha
        simp only [substAlt, Factor.subst, List.append_nil, substAlts_fresh X _ _ hXin] at hu
        obtain ⟨alt', ha', hu'⟩ := yieldE_group_inv hu
        exact yieldE_opt_some ha' hu'
      · intro alt ha u hu
        simp only [List.mem_singleton] at ha
        subst ha
        simp only [substAlt] at hu
        have := yieldE_nil_inv hu
        subst this
        exact yieldE_opt_none
    · exact not_mem_of_all hfresh hfs
  · apply names_mono_mid
    intro z hz
    simp only [variableNames_cons, variableNames_nil, List.append_nil, EProd.vars, List.mem_cons,
      List.mem_append, List.map_append, List.map_cons, altsVars_append, altsVars, altVars,
      Factor.vars, List.map_nil, List.not_mem_nil, or_false] at hz ⊢
    have := hn3 z
    grind
  · apply lhs_mid
    intro q hq
    simp only [List.mem_cons, List.not_mem_nil, or_false] at hq
    rcases hq with rfl | rfl | rfl
    · exact .inl rfl
    · exact .inr hfresh
    · exact .inr hfresh

/-! ## no optional is left after `extract_options`, and none is created later -/

mutual
def Factor.hasOpt : Factor → Bool
  | .t _ => false
  | .n _ _ => false
  | .group as => altsHasOpt as
  | .opt _ => true
  | .rep as => altsHasOpt as
def altsHasOpt : List (List Factor) → Bool
  | [] => false
  | a :: as => altHasOpt a || altsHasOpt as
def altHasOpt : List Factor → Bool
  | [] => false
  | f :: fs => f.hasOpt || altHasOpt fs
end

theorem altHasOpt_append (a b : List Factor) :
    altHasOpt (a ++ b) = (altHasOpt a || altHasOpt b) := by
  induction a with
  | nil => simp [altHasOpt]
  | cons f a ih => simp [altHasOpt, ih, Bool.or_assoc]

theorem altsHasOpt_append (a b : Alts) :
    altsHasOpt (a ++ b) = (altsHasOpt a || altsHasOpt b) := by
  induction a with
  | nil => simp [altsHasOpt]
  | cons f a ih => simp [altsHasOpt, ih, Bool.or_assoc]

theorem altsHasOpt_false {as : Alts} : altsHasOpt as = false ↔ ∀ a ∈ as, altHasOpt a = false := by
  induction as with
  | nil => simp [altsHasOpt]
  | cons a as ih => simp [altsHasOpt, ih]

def NoOpt (G : List EProd) : Prop := ∀ p ∈ G, ∀ a ∈ p.alts, altHasOpt a.fs = false

mutual
theorem exFactor_none (X : Name) : ∀ f : Factor, exFactor X f = none → f.hasOpt = false
  | .t _, _ => rfl
  | .n _ _, _ => rfl
  | .opt _, h => by simp [exFactor] at h
  | .group as, h => by
    simp only [exFactor] at h
    split at h
    · cases h
    · rename_i hn
      simpa [Factor.hasOpt] using exAlts_none X as hn
  | .rep as, h => by
    simp only [exFactor] at h
    split at h
    · cases h
    · rename_i hn
      simpa [Factor.hasOpt] using exAlts_none X as hn
theorem exAlt_none (X : Name) : ∀ fs : List Factor, exAlt X fs = none → altHasOpt fs = false
  | [], _ => rfl
  | f :: fs, h => by
    simp only [exAlt] at h
    split at h
    · cases h
    · rename_i hn
      split at h
      · cases h
      · rename_i hn2
        simp [altHasOpt, exFactor_none X f hn, exAlt_none X fs hn2]
theorem exAlts_none (X : Name) : ∀ as : Alts, exAlts X as = none → altsHasOpt as = false
  | [], _ => rfl
  | a :: as, h => by
    simp only [exAlts] at h
    split at h
    · cases h
    · rename_i hn
      split at h
      · cases h
      · rename_i hn2
        simp [altsHasOpt, exAlt_none X a hn, exAlts_none X as hn2]
end

theorem exEAlts_none (X : Name) : ∀ alts : List EAlt, exEAlts X alts = none →
    ∀ a ∈ alts, altHasOpt a.fs = false
  | [], _, a, ha => by cases ha
  | a0 :: as, h, a, ha => by
    simp only [exEAlts] at h
    split at h
    · cases h
    · rename_i hn
      split at h
      · cases h
      · rename_i hn2
        simp only [List.mem_cons] at ha
        rcases ha with rfl | ha
        · exact exAlt_none X _ hn
        · exact exEAlts_none X as hn2 a ha

theorem extractInProds_unchanged (excl : List Name) : ∀ ps : List EProd,
    extractInProds excl ps = .unchanged → NoOpt ps
  | [], _ => by intro p hp; cases hp
  | p :: ps, h => by
    simp only [extractInProds] at h
    split at h
    · cases h
    · rename_i X hX
      split at h
      · cases h
      · rename_i hn
        split at h
        · cases h
        · rename_i r hne
          have hrec : extractInProds excl ps = .unchanged := by rw [h]
          intro q hq
          simp only [List.mem_cons] at hq
          rcases hq with rfl | hq
          · exact exEAlts_none X _ hn
          · exact extractInProds_unchanged excl ps hrec q hq

theorem splitFirstSome_eq_none {α β} (g : α → Option β) :
    ∀ l : List α, (∀ y ∈ l, g y = none) → splitFirstSome g l = none
  | [], _ => rfl
  | x :: xs, h => by
    simp only [splitFirstSome]
    rw [h x (by simp), splitFirstSome_eq_none g xs (fun y hy => h y (by simp [hy]))]

theorem altHasOpt_top {fs : List Factor} (h : altHasOpt fs = false) :
    ∀ f ∈ fs, f.optInner = none := by
  induction fs with
  | nil => intro f hf; cases hf
  | cons g fs ih =>
    simp only [altHasOpt, Bool.or_eq_false_iff] at h
    intro f hf
    simp only [List.mem_cons] at hf
    rcases hf with rfl | hf
    · cases f <;> simp_all [Factor.hasOpt, Factor.optInner]
    · exact ih h.2 f hf

theorem optStep_noOpt {ps : List EProd} (h : NoOpt ps) : optStep ps = .unchanged := by
  unfold optStep
  have : locate Factor.optInner ps = none := by
    unfold locate
    simp only
    rw [splitFirstSome_eq_none]
    intro p hp
    simp only [Option.map_eq_none_iff]
    apply splitFirstSome_eq_none
    intro a ha
    simp only [Option.map_eq_none_iff]
    apply splitFirstSome_eq_none
    exact altHasOpt_top (h p hp a ha)
  rw [this]

theorem noOpt_mid {pre post : List EProd} {p : EProd} {news : List EProd}
    (h : NoOpt (pre ++ p :: post))
    (hn : (∀ a ∈ p.alts, altHasOpt a.fs = false) → ∀ q ∈ news, ∀ a ∈ q.alts, altHasOpt a.fs = false) :
    NoOpt (pre ++ news ++ post) := by
  intro q hq
  simp only [List.mem_append] at hq
  rcases hq with (hq | hq) | hq
  · exact h q (by simp [hq])
  · exact hn (h p mem_mid) q hq
  · exact h q (by simp [hq])

theorem Loc.prod_noOpt {L : Loc} {f : Factor} (h : ∀ a ∈ (L.prod f).alts, altHasOpt a.fs = false) :
    (∀ a ∈ L.apre, altHasOpt a.fs = false) ∧ altHasOpt L.x = false ∧ f.hasOpt = false ∧
      altHasOpt L.y = false ∧ (∀ a ∈ L.apost, altHasOpt a.fs = false) := by
  rw [Loc.prod_alts] at h
  have hm := h ⟨L.x ++ f :: L.y, L.attr⟩ (by simp)
  simp only [altHasOpt_append, altHasOpt, Bool.or_eq_false_iff] at hm
  exact ⟨fun a ha => h a (by simp [ha]), hm.1, hm.2.1, hm.2.2, fun a ha => h a (by simp [ha])⟩

theorem Loc.withAlt_noOpt {L : Loc} {fs : List Factor}
    (h1 : ∀ a ∈ L.apre, altHasOpt a.fs = false) (h2 : altHasOpt fs = false)
    (h3 : ∀ a ∈ L.apost, altHasOpt a.fs = false) :
    ∀ a ∈ (L.withAlt fs).alts, altHasOpt a.fs = false := by
  intro a ha
  rw [Loc.withAlt_alts] at ha
  simp only [List.mem_append, List.mem_cons] at ha
  rcases ha with ha | rfl | ha
  · exact h1 a ha
  · exact h2
  · exact h3 a ha

theorem sepStep_noOpt {ps ps' : List EProd} (h : sepStep ps = .changed ps') (hn : NoOpt ps) :
    NoOpt ps' := by
  obtain ⟨pre, p, post, rfl, _, rfl⟩ := sepStep_spec h
  apply noOpt_mid hn
  intro hp q hq a ha
  obtain ⟨a0, ha0, rfl⟩ := List.mem_map.1 hq
  simp only [List.mem_singleton] at ha
  subst ha
  exact hp a ha0

theorem groupStep_noOpt {ps ps' : List EProd} (h : groupStep ps = .changed ps') (hn : NoOpt ps) :
    NoOpt ps' := by
  unfold groupStep at h
  split at h
  · cases h
  · rename_i L hL
    obtain ⟨f, hf, rfl⟩ := locate_spec hL
    have hfg := groupInner_eq hf
    subst hfg
    split at h
    · rename_i single hin
      injection h with h
      subst h
      apply noOpt_mid hn
      intro hp q hq
      simp only [List.mem_singleton] at hq
      subst hq
      obtain ⟨h1, h2, h3, h4, h5⟩ := Loc.prod_noOpt hp
      apply Loc.withAlt_noOpt h1 _ h5
      simp only [Factor.hasOpt, hin, altsHasOpt, Bool.or_false] at h3
      simp [altHasOpt_append, h2, h3, h4]
    · split at h
      · cases h
      · rename_i X hX
        injection h with h
        subst h
        apply noOpt_mid hn
        intro hp q hq
        obtain ⟨h1, h2, h3, h4, h5⟩ := Loc.prod_noOpt hp
        simp only [List.mem_cons, List.not_mem_nil, or_false] at hq
        rcases hq with rfl | rfl
        · apply Loc.withAlt_noOpt h1 _ h5
          simp [altHasOpt_append, altHasOpt, Factor.hasOpt, h2, h4]
        · intro a ha
          obtain ⟨a0, ha0, rfl⟩ := List.mem_map.1 ha
          exact altsHasOpt_false.1 (by simpa [Factor.hasOpt] using h3) a0 ha0

theorem repStep_noOpt {ty : GType} {ps ps' : List EProd} (h : repStep ty ps = .changed ps')
    (hn : NoOpt ps) : NoOpt ps' := by
  unfold repStep at h
  split at h
  · cases h
  · rename_i L hL
    obtain ⟨f, hf, rfl⟩ := locate_spec hL
    have hfg := repInner_eq hf
    subst hfg
    split at h
    · cases h
    · rename_i X hX
      simp only at h
      injection h with h
      subst h
      apply noOpt_mid hn
      intro hp q hq
      obtain ⟨h1, h2, h3, h4, h5⟩ := Loc.prod_noOpt hp
      have h3' : altsHasOpt L.inner = false := by simpa [Factor.hasOpt] using h3
      simp only [List.mem_cons, List.not_mem_nil, or_false] at hq
      rcases hq with rfl | rfl | rfl
      · apply Loc.withAlt_noOpt h1 _ h5
        simp [altHasOpt_append, altHasOpt, Factor.hasOpt, h2, h4]
      · intro a ha
        simp only [List.mem_singleton] at ha
        subst ha
        simp only
        cases ty <;> split <;>
          simp_all [altHasOpt_append, altHasOpt, Factor.hasOpt, altsHasOpt]
      · intro a ha
        simp only [List.mem_singleton] at ha
        subst ha
        rfl

/-! ## the loops -/

theorem iterStep_ok (step : List EProd → StepRes) (Inv : List EProd → Prop)
    (hstep : ∀ a b, Inv a → step a = .changed b → StepOK a b ∧ Inv b) :
    ∀ (fuel : Nat) (ps : List EProd) (m : Bool) (ps' : List EProd) (m' : Bool), Inv ps →
      iterStep step fuel ps m = .ok (ps', m') →
      StepOK ps ps' ∧ Inv ps' ∧ step ps' = .unchanged
  | 0, _, _, _, _, _, h => by simp [iterStep] at h
  | f+1, ps, m, ps', m', hi, h => by
    simp only [iterStep] at h
    split at h
    · rename_i hu
      simp only [CRes.ok.injEq, Prod.mk.injEq] at h
      obtain ⟨rfl, rfl⟩ := h
      exact ⟨StepOK.refl _, hi, hu⟩
    · rename_i ps1 hc
      obtain ⟨h1, hi1⟩ := hstep ps ps1 hi hc
      obtain ⟨h2, hi2, hu⟩ := iterStep_ok step Inv hstep f ps1 true ps' m' hi1 h
      exact ⟨h1.trans h2, hi2, hu⟩
    · cases h
    · cases h

theorem CRes.bind_ok {α β} {r : CRes α} {f : α → CRes β} {b : β} (h : r.bind f = .ok b) :
    ∃ a, r = .ok a ∧ f a = .ok b := by
  cases r with
  | ok a => exact ⟨a, rfl, h⟩
  | fuel => cases h
  | panic => cases h

theorem pass_ok {ty : GType} {fuel : Nat} {ps ps' : List EProd} {m : Bool}
    (hn : NoOpt ps) (h : pass ty fuel ps = .ok (ps', m)) : StepOK ps ps' ∧ NoOpt ps' := by
  unfold pass at h
  obtain ⟨⟨ps1, m1⟩, h1, h⟩ := CRes.bind_ok h
  obtain ⟨⟨ps2, m2⟩, h2, h⟩ := CRes.bind_ok h
  obtain ⟨⟨ps3, m3⟩, h3, h⟩ := CRes.bind_ok h
  simp only at h
  obtain ⟨s1, n1, _⟩ := iterStep_ok sepStep NoOpt
    (fun a b ha hc => ⟨sepStep_ok hc, sepStep_noOpt hc ha⟩) _ _ _ _ _ hn h1
  obtain ⟨s2, n2, _⟩ := iterStep_ok (repStep ty) NoOpt
    (fun a b ha hc => ⟨repStep_ok hc, repStep_noOpt hc ha⟩) _ _ _ _ _ n1 h2
  obtain ⟨s3, n3, _⟩ := iterStep_ok optStep NoOpt
    (fun a b ha hc => by rw [optStep_noOpt ha] at hc; cases hc) _ _ _ _ _ n2 h3
  obtain ⟨s4, n4, _⟩ := iterStep_ok groupStep NoOpt
    (fun a b ha hc => ⟨groupStep_ok hc, groupStep_noOpt hc ha⟩) _ _ _ _ _ n3 h
  exact ⟨(s1.trans s2).trans (s3.trans s4), n4⟩

theorem passLoop_ok {ty : GType} {fuel : Nat} : ∀ (n : Nat) (ps ps' : List EProd), NoOpt ps →
    passLoop ty fuel n ps = .ok ps' → StepOK ps ps'
  | 0, _, _, _, h => by simp [passLoop] at h
  | n+1, ps, ps', hn, h => by
    simp only [passLoop] at h
    split at h
    · rename_i ps1 hp
      obtain ⟨s1, n1⟩ := pass_ok hn hp
      exact s1.trans (passLoop_ok n ps1 ps' n1 h)
    · rename_i ps1 hp
      injection h with h
      subst h
      exact (pass_ok hn hp).1
    · cases h
    · cases h

/-! ## `finalize` -/

theorem toSymN_toFactor : ∀ (fs : List Factor) (rhs : List SymN),
    fs.mapM Factor.toSymN = some rhs → rhs.map SymN.toFactor = fs
  | [], rhs, h => by
    simp at h
    subst h; rfl
  | f :: fs, rhs, h => by
    simp only [List.mapM_cons, Option.bind_eq_bind, Option.bind_eq_some_iff] at h
    obtain ⟨s, hs, rest, hr, e⟩ := h
    simp only [Option.pure_def, Option.some.injEq] at e
    subst e
    have := toSymN_toFactor fs rest hr
    cases f <;> simp [Factor.toSymN] at hs <;> subst hs <;> simp [SymN.toFactor, this]

theorem finalizeProd_toEProd {p : EProd} {r : RuleN} (h : finalizeProd p = some r) :
    r.toEProd = p := by
  unfold finalizeProd at h
  split at h
  · rename_i a ha
    simp only [Option.map_eq_some_iff] at h
    obtain ⟨rhs, hr, rfl⟩ := h
    cases p with
    | mk lhs alts =>
      simp only at ha
      subst ha
      simp [RuleN.toEProd, toSymN_toFactor _ _ hr]
  · cases h

theorem finalize_toEProd : ∀ (ps : List EProd) (rs : List RuleN),
    finalize ps = some rs → rs.map RuleN.toEProd = ps
  | [], rs, h => by
    simp [finalize] at h
    subst h; rfl
  | p :: ps, rs, h => by
    simp only [finalize, List.mapM_cons, Option.bind_eq_bind, Option.bind_eq_some_iff] at h
    obtain ⟨r, hr, rest, hrest, e⟩ := h
    simp only [Option.pure_def, Option.some.injEq] at e
    subst e
    simp [finalizeProd_toEProd hr, finalize_toEProd ps rest hrest]

/-- The model's `transform_productions` result is, as an EBNF production list, reached from the
    input by language-preserving steps. -/
theorem canon_ok {ty : GType} {fuel : Nat} {ps : List EProd} {rs : List RuleN}
    (h : canon ty fuel ps = .ok rs) : StepOK ps (rs.map RuleN.toEProd) := by
  unfold canon at h
  split at h
  · cases h
  · cases h
  · rename_i ps0 m0 h0
    obtain ⟨s0, _, hu⟩ := iterStep_ok extractStep (fun _ => True)
      (fun a b _ hc => ⟨extractStep_ok hc, trivial⟩) _ _ _ _ _ trivial h0
    have n0 : NoOpt ps0 := extractInProds_unchanged _ _ hu
    split at h
    · cases h
    · cases h
    · rename_i ps1 h1
      split at h
      · rename_i rs' hf
        injection h with h
        subst h
        rw [finalize_toEProd _ _ hf]
        exact s0.trans (passLoop_ok _ _ _ n0 h1)
      · cases h

end ParolModel
