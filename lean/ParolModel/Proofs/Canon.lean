import ParolModel.Model.Canon
import ParolModel.Proofs.Ebnf
/-! Language preservation of the canonicalisation steps (C09). -/
namespace ParolModel

/-! ## structure of `splitFirstSome` / `locate` -/

theorem splitFirstSome_spec {α β} (g : α → Option β) :
    ∀ (l : List α) (a : List α) (b : β) (c : List α), splitFirstSome g l = some (a, b, c) →
      ∃ x, g x = some b ∧ l = a ++ x :: c ∧ ∀ y ∈ a, g y = none
  | [], a, b, c, h => by simp [splitFirstSome] at h
  | x :: xs, a, b, c, h => by
    simp only [splitFirstSome] at h
    split at h
    · rename_i b' hb
      simp only [Option.some.injEq, Prod.mk.injEq] at h
      obtain ⟨rfl, rfl, rfl⟩ := h
      exact ⟨x, hb, rfl, by simp⟩
    · rename_i hb
      split at h
      · rename_i a' b' c' hrec
        simp only [Option.some.injEq, Prod.mk.injEq] at h
        obtain ⟨rfl, rfl, rfl⟩ := h
        obtain ⟨x', hx', hl, hn⟩ := splitFirstSome_spec g xs a' b' c' hrec
        refine ⟨x', hx', by simp [hl], ?_⟩
        intro y hy
        simp only [List.mem_cons] at hy
        rcases hy with rfl | hy
        · exact hb
        · exact hn y hy
      · cases h

theorem splitFirstSome_none {α β} (g : α → Option β) :
    ∀ (l : List α), splitFirstSome g l = none → ∀ y ∈ l, g y = none
  | [], _, y, hy => by cases hy
  | x :: xs, h, y, hy => by
    simp only [splitFirstSome] at h
    split at h
    · cases h
    · rename_i hb
      split at h
      · cases h
      · rename_i hrec
        simp only [List.mem_cons] at hy
        rcases hy with rfl | hy
        · exact hb
        · exact splitFirstSome_none g xs hrec y hy

/-- the production a `Loc` was found in, with factor `f` at the located place -/
def Loc.prod (L : Loc) (f : Factor) : EProd := L.withAlt (L.x ++ f :: L.y)

theorem locate_spec {sel : Factor → Option Alts} {ps : List EProd} {L : Loc}
    (h : locate sel ps = some L) :
    ∃ f, sel f = some L.inner ∧ ps = L.pre ++ L.prod f :: L.post := by
  unfold locate at h
  simp only at h
  split at h
  · rename_i pre lhs apre x inner y attr apost post hs
    injection h with h
    subst h
    obtain ⟨p, hp, hps, _⟩ := splitFirstSome_spec _ _ _ _ _ hs
    simp only [Option.map_eq_some_iff] at hp
    obtain ⟨⟨apre', ⟨⟨x', inner', y'⟩, attr'⟩, apost'⟩, ha, he⟩ := hp
    simp only [Prod.mk.injEq] at he
    obtain ⟨rfl, rfl, ⟨⟨rfl, rfl, rfl⟩, rfl⟩, rfl⟩ := he
    obtain ⟨a, ha', hal, _⟩ := splitFirstSome_spec _ _ _ _ _ ha
    simp only [Option.map_eq_some_iff] at ha'
    obtain ⟨⟨x'', inner'', y''⟩, hf, he⟩ := ha'
    simp only [Prod.mk.injEq] at he
    obtain ⟨⟨rfl, rfl, rfl⟩, rfl⟩ := he
    obtain ⟨f, hf', hfl, _⟩ := splitFirstSome_spec _ _ _ _ _ hf
    refine ⟨f, hf', ?_⟩
    rw [hps]
    congr 1
    simp only [Loc.prod, Loc.withAlt]
    cases p with
    | mk plhs palts =>
      simp only at hal ⊢
      rw [hal]
      congr 2
      cases a with
      | mk afs aattr =>
        simp only at hfl ⊢
        rw [hfl]
  · cases h

/-! ## names of a split production list -/

theorem variableNames_append (a b : List EProd) :
    variableNames (a ++ b) = variableNames a ++ variableNames b := by
  simp [variableNames]

theorem variableNames_cons (p : EProd) (b : List EProd) :
    variableNames (p :: b) = p.vars ++ variableNames b := by
  simp [variableNames]

theorem lhs_mem_variableNames {ps : List EProd} {p : EProd} (hp : p ∈ ps) :
    p.lhs ∈ variableNames ps :=
  mem_variableNames.2 ⟨p, hp, .inl rfl⟩

theorem altVars_sub_variableNames {ps : List EProd} {p : EProd} {alt : EAlt} (hp : p ∈ ps)
    (ha : alt ∈ p.alts) : ∀ x ∈ altVars alt.fs, x ∈ variableNames ps :=
  fun _ hx => mem_variableNames.2 ⟨p, hp, .inr ⟨alt, ha, hx⟩⟩

/-! ## the two generic step lemmas -/

/-- A step that replaces production `p` by `news` without introducing a name. -/
theorem step_equiv0 (pre post : List EProd) (p : EProd) (news : List EProd)
    (hfwd : ∀ alt ∈ p.alts, ∀ u, YieldE (pre ++ news ++ post) alt.fs u →
      Der (pre ++ news ++ post) p.lhs u)
    (hbwd : ∀ q ∈ news, ∀ alt ∈ q.alts, ∀ u, YieldE (pre ++ p :: post) alt.fs u →
      Der (pre ++ p :: post) q.lhs u)
    (fs : List Factor) (w : List Nat) :
    YieldE (pre ++ p :: post) fs w ↔ YieldE (pre ++ news ++ post) fs w := by
  constructor
  · apply yieldE_sim
    intro q hq alt ha u hu
    simp only [List.mem_append, List.mem_cons] at hq
    rcases hq with hq | rfl | hq
    · exact ⟨q, by simp [hq], rfl, alt, ha, hu⟩
    · exact hfwd alt ha u hu
    · exact ⟨q, by simp [hq], rfl, alt, ha, hu⟩
  · apply yieldE_sim
    intro q hq alt ha u hu
    simp only [List.mem_append] at hq
    rcases hq with (hq | hq) | hq
    · exact ⟨q, by simp [hq], rfl, alt, ha, hu⟩
    · exact hbwd q hq alt ha u hu
    · exact ⟨q, by simp [hq], rfl, alt, ha, hu⟩

/-- A step that replaces production `p` by `news` and introduces the fresh helper `X`, which
    stands for the factor string `R` of the old grammar. -/
theorem step_equivX (X : Name) (R : List Factor) (pre post : List EProd) (p : EProd)
    (news : List EProd)
    (hfresh : X ∉ variableNames (pre ++ p :: post))
    (hfwd : ∀ alt ∈ p.alts, ∀ u, YieldE (pre ++ news ++ post) alt.fs u →
      Der (pre ++ news ++ post) p.lhs u)
    (hbwd1 : ∀ q ∈ news, q.lhs ≠ X → ∀ alt ∈ q.alts, ∀ u,
      YieldE (pre ++ p :: post) (substAlt X R alt.fs) u → Der (pre ++ p :: post) q.lhs u)
    (hbwd2 : ∀ q ∈ news, q.lhs = X → ∀ alt ∈ q.alts, ∀ u,
      YieldE (pre ++ p :: post) (substAlt X R alt.fs) u → YieldE (pre ++ p :: post) R u)
    (fs : List Factor) (w : List Nat) (hfs : X ∉ altVars fs) :
    YieldE (pre ++ p :: post) fs w ↔ YieldE (pre ++ news ++ post) fs w := by
  constructor
  · apply yieldE_sim
    intro q hq alt ha u hu
    simp only [List.mem_append, List.mem_cons] at hq
    rcases hq with hq | rfl | hq
    · exact ⟨q, by simp [hq], rfl, alt, ha, hu⟩
    · exact hfwd alt ha u hu
    · exact ⟨q, by simp [hq], rfl, alt, ha, hu⟩
  · intro h
    have old : ∀ q ∈ pre ++ p :: post, ∀ alt ∈ q.alts, substAlt X R alt.fs = alt.fs := by
      intro q hq alt ha
      apply substAlt_fresh
      intro hx
      exact hfresh (altVars_sub_variableNames hq ha X hx)
    have oldlhs : ∀ q ∈ pre ++ p :: post, q.lhs ≠ X := by
      intro q hq e
      exact hfresh (e ▸ lhs_mem_variableNames hq)
    have := yieldE_translate (G' := pre ++ news ++ post) (G := pre ++ p :: post) X R ?_ ?_ h
    · rwa [substAlt_fresh X R fs hfs] at this
    · intro q hq hne alt ha u hu
      simp only [List.mem_append] at hq
      rcases hq with (hq | hq) | hq
      · have hq' : q ∈ pre ++ p :: post := by simp [hq]
        rw [old q hq' alt ha] at hu
        exact ⟨q, hq', rfl, alt, ha, hu⟩
      · exact hbwd1 q hq hne alt ha u hu
      · have hq' : q ∈ pre ++ p :: post := by simp [hq]
        rw [old q hq' alt ha] at hu
        exact ⟨q, hq', rfl, alt, ha, hu⟩
    · intro q hq he alt ha u hu
      simp only [List.mem_append] at hq
      rcases hq with (hq | hq) | hq
      · exact absurd he (oldlhs q (by simp [hq]))
      · exact hbwd2 q hq he alt ha u hu
      · exact absurd he (oldlhs q (by simp [hq]))

end ParolModel
