import ParolModel.Proofs.LRCert
/-! The executable verification `lcCheck` (Model/LRCert.lean) establishes the Prop-level certificate
`LcCert` (Proofs/LRCert.lean): bit-mask inclusion, the semantic content of closed nullable / FIRST
tables, and the per-entry conditions. -/
namespace ParolModel

theorem lcSub_testBit {m1 m2 a : Nat} (h : lcSub m1 m2 = true) (ha : m1.testBit a = true) :
    m2.testBit a = true := by
  simp only [lcSub, beq_iff_eq] at h
  rw [← h, Nat.testBit_or, ha]; rfl

/-- Nullability of a symbol string does not depend on the FIRST table. -/
theorem lcFirstSeq_snd (null : Nat) (f1 f2 : List Nat) (ss : List Sym) :
    (lcFirstSeq null f1 ss).2 = (lcFirstSeq null f2 ss).2 := by
  induction ss with
  | nil => rfl
  | cons X ss ih =>
    cases X with
    | t x => rfl
    | n b =>
      simp only [lcFirstSeq]
      split <;> simp [ih]

/-- Closed nullable / FIRST tables over-approximate the real ones. -/
theorem lc_first_sound {G : Grammar} {null : Nat} {first : List Nat}
    (hn : lcNullOkB G.prods null = true) (hf : lcFirstOkB G.prods null first = true)
    {ss : List Sym} {u : List Nat} (hy : Yield G ss u) :
    (u = [] → (lcFirstSeq null first ss).2 = true) ∧
    (∀ x u', u = x :: u' → (lcFirstSeq null first ss).1.testBit x = true) := by
  induction hy with
  | nil => exact ⟨fun _ => rfl, fun x u' h => by cases h⟩
  | term a _ _ =>
    refine ⟨fun h => (by cases h), fun x u' h => ?_⟩
    injection h with h1 _
    subst h1
    simp [lcFirstSeq]
  | @nonterm r ss u1 u2 hr _ _ ih1 ih2 =>
    simp only [lcNullOkB, List.all_eq_true, Bool.or_eq_true, Bool.not_eq_true'] at hn
    simp only [lcFirstOkB, List.all_eq_true] at hf
    have hnr := hn r hr
    have hfr := hf r hr
    constructor
    · intro hnil
      obtain ⟨h1, h2⟩ := List.append_eq_nil_iff.1 hnil
      have hrn : (lcFirstSeq null first r.rhs).2 = true := ih1.1 h1
      rw [lcFirstSeq_snd null first []] at hrn
      have hb : null.testBit r.lhs = true := by
        rcases hnr with h | h
        · rw [h] at hrn; cases hrn
        · exact h
      simp only [lcFirstSeq, hb, if_true]
      exact ih2.1 h2
    · intro x u' hx
      cases u1 with
      | nil =>
        have hrn : (lcFirstSeq null first r.rhs).2 = true := ih1.1 rfl
        rw [lcFirstSeq_snd null first []] at hrn
        have hb : null.testBit r.lhs = true := by
          rcases hnr with h | h
          · rw [h] at hrn; cases hrn
          · exact h
        simp only [lcFirstSeq, hb, if_true, Nat.testBit_or]
        rw [ih2.2 x u' (by simpa using hx)]; simp
      | cons y u1' =>
        have hxy : y = x := by
          simp only [List.cons_append, List.cons.injEq] at hx
          exact hx.1
        subst hxy
        have h1 := ih1.2 y u1' rfl
        have h2 := lcSub_testBit hfr h1
        simp only [lcFirstSeq]
        split
        · simp only [Nat.testBit_or, h2]; rfl
        · exact h2

theorem lc_firstLA_sound {G : Grammar} {null : Nat} {first : List Nat}
    (hn : lcNullOkB G.prods null = true) (hf : lcFirstOkB G.prods null first = true)
    {ss : List Sym} {u : List Nat} (hy : Yield G ss u) {la a : Nat} (ha : la.testBit a = true) :
    (lcFirstLA null first ss la).testBit (u.head?.getD a) = true := by
  obtain ⟨h1, h2⟩ := lc_first_sound hn hf hy
  unfold lcFirstLA
  cases u with
  | nil =>
    rw [if_pos (h1 rfl)]
    simp [Nat.testBit_or, ha]
  | cons x u' =>
    have := h2 x u' rfl
    split
    · simp [Nat.testBit_or, this]
    · simpa using this

/-- Membership in the certificate: an actual entry of the state's list with the bit set. -/
theorem lcMem_entry {I : List LcSet} {q p d a : Nat} (h : lcMem I q p d a = true) :
    ∃ (s : LcSet) (m : Nat), I[q]? = some s ∧ (p, d, m) ∈ s ∧ m.testBit a = true := by
  unfold lcMem lcLaOf at h
  cases hs : I[q]? with
  | none =>
    simp [List.getD, hs] at h
  | some s =>
    have hget : I.getD q [] = s := by simp [List.getD, hs]
    rw [hget] at h
    cases hfind : s.find? (fun e => e.1 == p && e.2.1 == d) with
    | none => simp [hfind] at h
    | some e =>
      simp only [hfind] at h
      have hmem := List.mem_of_find?_eq_some hfind
      have hp := List.find?_some hfind
      simp only [Bool.and_eq_true, beq_iff_eq] at hp
      obtain ⟨e1, e2, e3⟩ := e
      simp only at hp h
      obtain ⟨rfl, rfl⟩ := hp
      exact ⟨s, e3, rfl, hmem, h⟩

theorem lcMem_of_sub {I : List LcSet} {q p d a m : Nat} (hs : lcSub m (lcLaOf (I.getD q []) p d) = true)
    (ha : m.testBit a = true) : lcMem I q p d a = true :=
  lcSub_testBit hs ha

theorem lc_testBit_lt {m tb a : Nat} (h : m >>> tb = 0) (ha : m.testBit a = true) : a < tb := by
  apply Classical.byContradiction
  intro hlt
  have hle : tb ≤ a := by omega
  have := Nat.testBit_shiftRight (i := tb) (j := a - tb) m
  rw [h, Nat.zero_testBit, show tb + (a - tb) = a by omega, ha] at this
  cases this

theorem lc_rows_ok {T : LRTables} {gprods : List Rule} {null : Nat} {first : List Nat} {I : List LcSet}
    (h : lcStatesOkB T gprods null first I = true) {q : Nat} {s : LcSet} (hs : I[q]? = some s) :
    ∃ row, T.rows[q]? = some row ∧
      ∀ e ∈ s, lcEntryOk T gprods null first (lcTermBound gprods) I row s e = true := by
  simp only [lcStatesOkB, List.all_eq_true] at h
  have hmem : (s, q) ∈ I.zipIdx := by rw [List.mem_zipIdx_iff_getElem?]; exact hs
  have := h (s, q) hmem
  simp only at this
  cases hrow : T.rows[q]? with
  | none => simp [hrow] at this
  | some row =>
    simp only [hrow, List.all_eq_true] at this
    exact ⟨row, rfl, this⟩

/-- **A verified certificate is a certificate.** -/
theorem lcCert_of_check {T : LRTables} {gprods : List Rule} {null : Nat} {first : List Nat}
    {I : List LcSet} (h : lcCheck T gprods null first I = true) :
    LcCert T gprods (fun q p d a => lcMem I q p d a = true) := by
  simp only [lcCheck, Bool.and_eq_true] at h
  obtain ⟨⟨⟨⟨⟨halign, hiso⟩, hnull⟩, hfirst⟩, hinit⟩, hstates⟩ := h
  have hgetD : ∀ {q : Nat} {s : LcSet}, I[q]? = some s → I.getD q [] = s := by
    intro q s hs; simp [List.getD, hs]
  constructor
  · -- align
    intro p r hgp
    simp only [lcAlignB, Bool.and_eq_true, beq_iff_eq] at halign
    obtain ⟨hlen, hall⟩ := halign
    have hlt : p < T.prods.length := by
      rw [← hlen]; exact (List.getElem?_eq_some_iff.1 hgp).1
    refine ⟨T.prods[p], List.getElem?_eq_getElem hlt, ?_⟩
    have := zip_all_get hall hgp (List.getElem?_eq_getElem hlt)
    simp only [beq_iff_eq] at this
    exact this.symm
  · -- isolated
    intro r hr hmem
    simp only [lcIsolatedB, List.all_eq_true] at hiso
    have := hiso r hr
    simp [hmem] at this
  · -- init
    intro p r hgp hlhs
    simp only [lcInitB, List.all_eq_true] at hinit
    have hmem : (r, p) ∈ gprods.zipIdx := by rw [List.mem_zipIdx_iff_getElem?]; exact hgp
    have := hinit (r, p) hmem
    simpa [hlhs] using this
  · -- complete
    intro q p a r hM hgp
    obtain ⟨s, m, hs, hmem, hbit⟩ := lcMem_entry hM
    obtain ⟨row, hrow, hall⟩ := lc_rows_ok hstates hs
    have he := hall _ hmem
    simp only [lcEntryOk, hgp, beq_self_eq_true, if_true, Bool.and_eq_true, beq_iff_eq,
      List.all_eq_true, List.mem_range, Bool.or_eq_true, Bool.not_eq_true'] at he
    obtain ⟨hbound, hacts⟩ := he
    have hlt := lc_testBit_lt hbound hbit
    have hok := (hacts a hlt).resolve_left (by rw [hbit]; exact Bool.noConfusion)
    refine ⟨row, hrow, ?_⟩
    unfold lcCompleteOk at hok
    by_cases hcond : r.lhs = T.start ∧ a = 0
    · rw [if_pos hcond]
      have hc' : (r.lhs == T.start && a == 0) = true := by simp [hcond.1, hcond.2]
      rw [if_pos hc'] at hok
      simp only [Bool.and_eq_true, beq_iff_eq] at hok
      obtain ⟨hacc, hp0⟩ := hok
      refine ⟨hacc, ?_⟩
      cases hfi : T.prods.findIdx? (·.lhs == T.start) with
      | none => simp [hfi] at hp0
      | some p0 =>
        simp only [hfi, beq_iff_eq] at hp0
        exact ⟨p0, rfl, hp0⟩
    · rw [if_neg hcond]
      have hc' : ¬ (r.lhs == T.start && a == 0) = true := by
        simp only [Bool.and_eq_true, beq_iff_eq]; exact hcond
      rw [if_neg hc'] at hok
      cases hfa : findAct row a with
      | none => simp [hfa] at hok
      | some act =>
        cases act with
        | shift _ => simp [hfa] at hok
        | accept => simp [hfa] at hok
        | reduce A p' =>
          simp only [hfa, Bool.and_eq_true, beq_iff_eq] at hok
          obtain ⟨rfl, hgp'⟩ := hok
          exact ⟨p', rfl, hgp'⟩
  · -- term
    intro q p d a r x hM hgp hget
    obtain ⟨s, m, hs, hmem, hbit⟩ := lcMem_entry hM
    obtain ⟨row, hrow, hall⟩ := lc_rows_ok hstates hs
    have he := hall _ hmem
    have hd : d < r.rhs.length := (List.getElem?_eq_some_iff.1 hget).1
    have hne : ¬ (d == r.rhs.length) = true := by simp only [beq_iff_eq]; omega
    simp only [lcEntryOk, hgp, hne, hget] at he
    cases hfa : findAct row x with
    | none => simp [hfa] at he
    | some act =>
      cases act with
      | reduce _ _ => simp [hfa] at he
      | accept => simp [hfa] at he
      | shift q' =>
        simp only [hfa] at he
        exact ⟨row, q', hrow, hfa, lcMem_of_sub he hbit⟩
  · -- nonterm
    intro q p d a r b hM hgp hget
    obtain ⟨s, m, hs, hmem, hbit⟩ := lcMem_entry hM
    obtain ⟨row, hrow, hall⟩ := lc_rows_ok hstates hs
    have he := hall _ hmem
    have hd : d < r.rhs.length := (List.getElem?_eq_some_iff.1 hget).1
    have hne : ¬ (d == r.rhs.length) = true := by simp only [beq_iff_eq]; omega
    simp only [lcEntryOk, hgp, hne, hget] at he
    cases hfg : findGoto row b with
    | none => simp [hfg] at he
    | some g =>
      simp only [hfg] at he
      have he' : (lcSub m (lcLaOf (I.getD g []) p (d + 1)) &&
          gprods.zipIdx.all fun rp => rp.1.lhs != b ||
            lcSub (lcFirstLA null first (r.rhs.drop (d + 1)) m) (lcLaOf s rp.2 0)) = true := he
      simp only [Bool.and_eq_true, List.all_eq_true, Bool.or_eq_true, bne_iff_ne, ne_eq] at he'
      obtain ⟨hsub, hclos⟩ := he'
      refine ⟨row, g, hrow, hfg, lcMem_of_sub hsub hbit, ?_⟩
      intro p' r' u hgp' hlhs hy
      have hmem' : (r', p') ∈ gprods.zipIdx := by rw [List.mem_zipIdx_iff_getElem?]; exact hgp'
      have hc := (hclos (r', p') hmem').resolve_left (by simp [hlhs])
      have hbit' := lc_firstLA_sound (G := gOfLR T gprods) hnull hfirst hy hbit
      have := lcSub_testBit hc hbit'
      unfold lcMem
      rw [hgetD hs]
      exact this

-- ---------------------------------------------------------------------------------------------
-- a finished run is not changed by more fuel

theorem lrCore_stable (T : LRTables) (md : Option Nat) : ∀ (fuel : Nat) (c : LRCore) (steps : Nat),
    (lrCore T md fuel c steps).res ≠ .fuel →
    ∀ extra, lrCore T md (fuel + extra) c steps = lrCore T md fuel c steps := by
  intro fuel
  induction fuel with
  | zero => intro c steps h; exact absurd rfl h
  | succ fuel ih =>
    intro c steps h extra
    have e : fuel + 1 + extra = (fuel + extra) + 1 := by omega
    rw [e, lrCore, lrCore]
    rw [lrCore] at h
    cases hst : coreStep T md c with
    | next c' => rw [hst] at h; exact ih c' _ h extra
    | stop c' r => rfl
    | fin c' => rfl

theorem lrRun_res_stable (T : LRTables) (o : Opts) (toks : List MTok) {f1 f2 : Nat}
    (h1 : (lrRun T o f1 toks).res ≠ .fuel) (h2 : (lrRun T o f2 toks).res ≠ .fuel) :
    (lrRun T o f1 toks).res = (lrRun T o f2 toks).res := by
  have e : ∀ f, (lrRun T o f toks).res = (lrCoreRun T o.maxDepth f toks).res := by
    intro f; rw [← lrRun_core]; rfl
  rw [e] at h1 h2 ⊢
  rw [e]
  unfold lrCoreRun at *
  rcases Nat.le_total f1 f2 with hle | hle
  · obtain ⟨k, rfl⟩ := Nat.exists_eq_add_of_le hle
    rw [lrCore_stable T _ f1 _ 0 h1 k]
  · obtain ⟨k, rfl⟩ := Nat.exists_eq_add_of_le hle
    rw [lrCore_stable T _ f2 _ 0 h2 k]

end ParolModel
