import ParolModel.Proofs.LLSim
import ParolModel.Proofs.KFollow
import ParolModel.Props.C08
/-! Completeness of the LL(k) parser model (C01, second half).

* `SD_llLoop` — the inverse of `llLoop_SD`: every big-step derivation `SD` is realised by the
  executable loop, with fuel `n + 1` (`n` the number of loop iterations recorded in `SD`) and exactly
  the outputs the derivation lists.
* `DS_SD` — the inverse of `SD_decompose`: a declarative parse `DS` of a marker-free symbol string
  followed by an `SD` run of the rest of the stack is an `SD` run of the whole stack.
* `DS_of_yield` — the classical completeness argument: if the lookahead automata predict exactly
  (`TablesExact`), every derivation `Yield` of the remaining input from the stack symbols, in a
  right context that is reachable from the start symbol (`KS.FollowCtx`), is traversed by the parser.
* `YieldN` — derivations with their number of production applications; `llRun_complete_sized`:
  fuel `|w| + 2·m` suffices, the run makes `|w| + 2·m − 1` loop iterations and `m` actions.
* `tablesExact_of_sets` / `tablesExactB_sound` — two ways to establish `TablesExact`: from
  "the automaton accepts exactly the strong-LL(k) lookahead strings of each production" (C07's
  conclusion about C05's sets, with C08's theorems about `eval`), and from a verified executable
  check against the reference FIRST_k / FOLLOW_k computation.
* `setsExactB_sound` — the set-level premise `SetsExact` is itself decidable on concrete tables
  (enumeration of the automaton's accepted strings against the reference sets). -/
namespace ParolModel
open KS

/-! ## symbols and marker-free stacks -/

def symPT : Sym → PT
  | .t a => .t a
  | .n a => .n a

theorem stackSyms_map_symPT (ss : List Sym) : stackSyms (ss.map symPT) = ss := by
  induction ss with
  | nil => rfl
  | cons s ss ih => cases s <;> simp [symPT, ih]

theorem map_symPT_stackSyms {st : List PT} (h : ∀ x ∈ st, PT.isE x = false) :
    (stackSyms st).map symPT = st := by
  induction st with
  | nil => rfl
  | cons x st ih =>
    have ih' := ih (fun y hy => h y (List.mem_cons_of_mem _ hy))
    cases x with
    | t a => simp [symPT, ih']
    | n a => simp [symPT, ih']
    | e p => have := h (.e p) List.mem_cons_self; simp [PT.isE] at this

theorem laTypes_eq (inp : List MTok) (k : Nat) :
    laTypes inp k = (sigTypes inp ++ List.replicate k 0).take k := rfl

/-! ## the hypothesis: exact prediction -/

/-- **Exact lookahead automata.** Right-hand sides contain no end-of-production markers, and for
    every production `p : A → α` the automaton of `A` predicts `p` on the (EOI-padded) `k`-lookahead
    of every string `u·v` with `α ⇒* u` and `v` derived from a right context `γ` of `A`
    (`start ⇒* x A γ'`, `γ` the not yet expanded part; `KS.FollowCtx`), `k` being that automaton's
    own lookahead depth. This is strong-LL(k) prediction by FIRST_k(α) ⊙_k FOLLOW_k(A). -/
structure TablesExact (T : LLTables) : Prop where
  noMarker : ∀ pr ∈ T.prods, ∀ x ∈ pr.rhsRev, PT.isE x = false
  predicts : ∀ (p : Nat) (pr : LLProd), T.prods[p]? = some pr →
    ∃ d, T.dfas[pr.lhs]? = some d ∧
      ∀ (u : List Nat) (γ : List Sym) (v : List Nat),
        Yield (gOf T) (ruleOf pr).rhs u → FollowCtx (gOf T) pr.lhs γ → Yield (gOf T) γ v →
        eval d true ((u ++ v ++ List.replicate d.k 0).take d.k) = .ok (p : Int)

theorem mem_gOf_prods {T : LLTables} {p : Rule} (hp : p ∈ (gOf T).prods) :
    ∃ (i : Nat) (pr : LLProd), T.prods[i]? = some pr ∧ ruleOf pr = p := by
  simp only [gOf, List.mem_map] at hp
  obtain ⟨pr, hpr, rfl⟩ := hp
  obtain ⟨i, hi⟩ := List.getElem?_of_mem hpr
  exact ⟨i, pr, hi, rfl⟩

theorem predict_of_exact {T : LLTables} (hE : TablesExact T) {i : Nat} {pr : LLProd}
    (hpr : T.prods[i]? = some pr) {inp : List MTok} {u v : List Nat} {γ : List Sym}
    (hu : Yield (gOf T) (ruleOf pr).rhs u) (hc : FollowCtx (gOf T) pr.lhs γ)
    (hv : Yield (gOf T) γ v) (hin : sigTypes inp = u ++ v) :
    predict T pr.lhs inp = some (.ok (Int.ofNat i)) := by
  obtain ⟨d, hd, hex⟩ := hE.predicts i pr hpr
  have := hex u γ v hu hc hv
  simp only [predict, hd, laTypes_eq, hin]
  rw [this]; rfl

/-! ## sized derivations -/

/-- `Yield` with the number of production applications (the size of the derivation tree). -/
inductive YieldN (G : Grammar) : Nat → List Sym → List Nat → Prop
  | nil : YieldN G 0 [] []
  | term (a : Nat) {m ss w} : YieldN G m ss w → YieldN G m (.t a :: ss) (a :: w)
  | nonterm (p : Rule) {m1 m2 ss u v} : p ∈ G.prods → YieldN G m1 p.rhs u → YieldN G m2 ss v →
      YieldN G (m1 + m2 + 1) (.n p.lhs :: ss) (u ++ v)

theorem YieldN.yield {G : Grammar} {m ss w} (h : YieldN G m ss w) : Yield G ss w := by
  induction h with
  | nil => exact .nil
  | term a _ ih => exact .term a ih
  | nonterm p hp _ _ ih1 ih2 => exact .nonterm p hp ih1 ih2

theorem Yield.sized {G : Grammar} {ss w} (h : Yield G ss w) : ∃ m, YieldN G m ss w := by
  induction h with
  | nil => exact ⟨0, .nil⟩
  | term a _ ih => obtain ⟨m, hm⟩ := ih; exact ⟨m, .term a hm⟩
  | nonterm p hp _ _ ih1 ih2 =>
    obtain ⟨m1, h1⟩ := ih1; obtain ⟨m2, h2⟩ := ih2
    exact ⟨m1 + m2 + 1, .nonterm p hp h1 h2⟩

theorem yieldN_nt_inv {G : Grammar} {m x : Nat} {w : List Nat} (h : YieldN G m [.n x] w) :
    ∃ p m1, p ∈ G.prods ∧ p.lhs = x ∧ YieldN G m1 p.rhs w ∧ m = m1 + 1 := by
  generalize hs : [Sym.n x] = ss at h
  cases h with
  | nil => cases hs
  | term a _ => cases hs
  | @nonterm p m1 m2 ss u v hp hr htl =>
    injection hs with h1 h2
    subst h2
    injection h1 with h1
    generalize hnil : ([] : List Sym) = e at htl
    cases htl with
    | nil => exact ⟨p, m1, hp, h1.symm, by simpa using hr, rfl⟩
    | term a _ => cases hnil
    | nonterm q _ _ _ => cases hnil

/-! ## from a derivation to the declarative parse -/

theorem sigTypes_cons_inv : ∀ (inp : List MTok) (a : Nat) (w : List Nat), sigTypes inp = a :: w →
    ∃ tok rest', afterSkips inp = tok :: rest' ∧ tok.skip = false ∧ tok.ty = a ∧ sigTypes rest' = w := by
  intro inp
  induction inp with
  | nil => intro a w h; simp [sigTypes, sigToks] at h
  | cons t rest ih =>
    intro a w h
    by_cases hs : t.skip = true
    · have h1 : afterSkips (t :: rest) = afterSkips rest := by simp [afterSkips, List.dropWhile, hs]
      rw [h1]
      apply ih
      simpa [sigTypes, sigToks_cons_skip hs] using h
    · have hs' : t.skip = false := by simpa using hs
      have h1 : afterSkips (t :: rest) = t :: rest := by simp [afterSkips, List.dropWhile, hs']
      simp only [sigTypes, sigToks_cons_sig hs', List.map_cons, List.cons.injEq] at h
      exact ⟨t, rest, h1, hs', h.1, h.2⟩

/-- **Completeness, declarative form.** With exact automata, every derivation (with `m` production
    applications) of a prefix `w` of the remaining input from a symbol string `ss`, whose right
    context `γ` derives the rest `v` and is reachable (every non-terminal occurrence in `ss` has
    `FollowCtx`), is parsed by the model, with `m` semantic actions. -/
theorem DS_of_yield (T : LLTables) (hE : TablesExact T) {m : Nat} {ss : List Sym} {w : List Nat}
    (h : YieldN (gOf T) m ss w) :
    ∀ (γ : List Sym) (v : List Nat) (inp : List MTok),
      (∀ α B β, ss = α ++ Sym.n B :: β → FollowCtx (gOf T) B (β ++ γ)) →
      Yield (gOf T) γ v → sigTypes inp = w ++ v →
      ∃ mid acts tr cm items, DS T (ss.map symPT) inp mid acts tr cm items ∧ sigTypes mid = v ∧
        acts.length = m := by
  induction h with
  | nil =>
    intro γ v inp _ _ hin
    exact ⟨inp, [], [], [], [], .nil, by simpa using hin, rfl⟩
  | @term a m ss w _ ih =>
    intro γ v inp hctx hv hin
    obtain ⟨tok, rest', hrest, hskip, hty, hsig⟩ := sigTypes_cons_inv inp a (w ++ v) (by simpa using hin)
    obtain ⟨mid, acts, tr, cm, items, hds, hmid, hlen⟩ := ih γ v rest'
      (fun α B β hss => hctx (.t a :: α) B β (by simp [hss])) hv hsig
    exact ⟨mid, _, _, _, _, DS.tok tok hrest hskip hty hds, hmid, hlen⟩
  | @nonterm p m1 m2 ss u v' hp hr hs ih1 ih2 =>
    intro γ v inp hctx hv hin
    obtain ⟨i, pr, hpr, rfl⟩ := mem_gOf_prods hp
    have hA : FollowCtx (gOf T) pr.lhs (ss ++ γ) := hctx [] pr.lhs ss rfl
    have hrest : Yield (gOf T) (ss ++ γ) (v' ++ v) := Yield.append hs.yield hv
    have hin' : sigTypes inp = u ++ (v' ++ v) := by rw [hin, List.append_assoc]
    have hpred := predict_of_exact hE hpr hr.yield hA hrest hin'
    obtain ⟨mid1, acts1, tr1, cm1, items1, hds1, hmid1, hlen1⟩ := ih1 (ss ++ γ) (v' ++ v) inp
      (fun α B β hss => by
        have := FollowCtx.step (ruleOf pr) hp α β (ss ++ γ) B hss hA
        simpa [List.append_assoc] using this) hrest hin'
    obtain ⟨mid2, acts2, tr2, cm2, items2, hds2, hmid2, hlen2⟩ := ih2 γ v mid1
      (fun α B β hss => hctx (.n pr.lhs :: α) B β (by simp [ruleOf, hss])) hv hmid1
    have hrhs : (ruleOf pr).rhs.map symPT = pr.rhsRev.reverse := by
      simp only [ruleOf]
      apply map_symPT_stackSyms
      intro x hx
      exact hE.noMarker pr (List.mem_of_getElem? hpr) x (by simpa using hx)
    rw [hrhs] at hds1
    exact ⟨mid2, _, _, _, _, DS.nt i pr hpred hpr hds1 hds2, hmid2, by simp [hlen1, hlen2]; omega⟩

/-! ## from the declarative parse to the big-step run -/

theorem sigToks_of_afterSkips {inp rest' : List MTok} {tok : MTok} (h : afterSkips inp = tok :: rest')
    (hs : tok.skip = false) : sigToks inp = tok :: sigToks rest' := by
  rw [← sigToks_afterSkips, h, sigToks_cons_sig hs]

/-- Inverse of `SD_decompose`: a declarative parse of `syms` followed by a run of `rest` is a run
    of `syms ++ rest`; it adds one loop iteration per consumed token and two per semantic action. -/
theorem DS_SD (T : LLTables) {syms : List PT} {inp mid : List MTok} {acts1 tr1 cm1 items}
    (h : DS T syms inp mid acts1 tr1 cm1 items) :
    ∀ (rest : List PT) (pt : List PTItem) (n2 : Nat) (r : List MTok) acts2 tr2 cm2 ptOut,
      SD T n2 rest mid (items.reverse ++ pt) r acts2 tr2 cm2 ptOut →
      ∃ n, n + (sigToks mid).length = n2 + (sigToks inp).length + 2 * acts1.length ∧
        SD T n (syms ++ rest) inp pt r (acts1 ++ acts2) (tr1 ++ tr2) (cm1 ++ cm2) ptOut := by
  induction h with
  | nil =>
    intro rest pt n2 r acts2 tr2 cm2 ptOut hsd
    exact ⟨n2, by simp, by simpa using hsd⟩
  | @tok a ss inp rest' r0 acts tr cm items tok hrest hskip hty _ ih =>
    intro rest pt n2 r acts2 tr2 cm2 ptOut hsd
    obtain ⟨n, hn, hsd'⟩ := ih rest (.tok tok.id tok.ty :: pt) n2 r acts2 tr2 cm2 ptOut
      (by simpa using hsd)
    refine ⟨n + 1, by rw [sigToks_of_afterSkips hrest hskip]; simp; omega, ?_⟩
    have := SD.tok tok hrest hskip hty hsd'
    simpa [List.append_assoc] using this
  | @nt a ss inp mid1 r0 acts1 acts2' tr1 tr2' cm1 cm2' items1 items2 p pr hp hpr hds1 _ ih1 ih2 =>
    intro rest pt n2 r acts2 tr2 cm2 ptOut hsd
    obtain ⟨n, hn, hsd2⟩ := ih2 rest (.nt pr.lhs :: pt) n2 r acts2 tr2 cm2 ptOut (by simpa using hsd)
    have hl : items1.length = pr.rhsRev.length := by rw [DS_items_length hds1]; simp
    have htake : ((items1.reverse ++ PTItem.nt pr.lhs :: pt).take pr.rhsRev.length).reverse = items1 := by
      rw [← hl, ← List.length_reverse, List.take_left]; simp
    have hdrop : (items1.reverse ++ PTItem.nt pr.lhs :: pt).drop pr.rhsRev.length = PTItem.nt pr.lhs :: pt := by
      rw [← hl, ← List.length_reverse, List.drop_left]
    have hsdE := SD.e (pt := items1.reverse ++ PTItem.nt pr.lhs :: pt) p pr hpr
      (by simp [hl]) (by rw [hdrop]; exact hsd2)
    rw [htake] at hsdE
    obtain ⟨n', hn', hsd1⟩ := ih1 (.e p :: (ss ++ rest)) (.nt pr.lhs :: pt) (n + 1) r _ _ _ ptOut hsdE
    refine ⟨n' + 1, by simp; omega, ?_⟩
    have := SD.nt p pr hp hpr hsd1
    simpa [List.append_assoc] using this

/-! ## from the big-step run to the executable loop -/

/-- The bottom of the parser stack is not the end-of-input terminal (then `input_accepted` cannot
    fire on a non-empty stack). Weaker than `PT.t 0 ∉ stack`; always true inside `llRun`, whose
    stack bottom is the end-of-production marker of the start production. -/
def BottomOK (st : List PT) : Prop := st.getLast? ≠ some (.t 0)

theorem BottomOK_of_not_mem {st : List PT} (h : PT.t 0 ∉ st) : BottomOK st := by
  intro hl; exact h (List.mem_of_getLast? hl)

theorem BottomOK_tail {x : PT} {st : List PT} (h : BottomOK (x :: st)) : BottomOK st := by
  cases st with
  | nil => simp [BottomOK]
  | cons y st => simpa [BottomOK, List.getLast?_cons_cons] using h

theorem BottomOK_push {x : PT} {st : List PT} (l : List PT) (p : Nat) (h : BottomOK (x :: st)) :
    BottomOK (l ++ .e p :: st) := by
  unfold BottomOK at *
  cases st with
  | nil => simp [List.getLast?_append]
  | cons y st => simpa [List.getLast?_append, List.getLast?_cons_cons] using h

theorem inputAccepted_false {st : List PT} (hne : st ≠ []) (h : BottomOK st) : inputAccepted st = false := by
  cases hacc : inputAccepted st with
  | false => rfl
  | true =>
    rcases (inputAccepted_iff st).1 hacc with h0 | h0
    · exact absurd h0 hne
    · subst h0; simp [BottomOK] at h

theorem firstSig_of_afterSkips {inp rest' : List MTok} {tok : MTok} (h : afterSkips inp = tok :: rest')
    (hs : tok.skip = false) : firstSig inp = some tok := by
  unfold firstSig
  rw [← sigToks_afterSkips, h, sigToks_cons_sig hs]; rfl

/-- The record a successful run of the loop returns, in terms of what its `SD` derivation lists. -/
def okOut (o : Opts) (s : LLState) (steps n : Nat) (r : List MTok) (acts : List (Nat × List PTItem))
    (tr : List TreeEv) (cm : List Nat) : LLOut :=
  ⟨.ok, s.actions.reverse ++ acts,
   s.tree.reverse ++ (if o.trim then [] else tr ++ (leadSkips r).map tokEv) ++ [TreeEv.close],
   s.comments.reverse ++ cm ++ commentIds (leadSkips r), steps + n⟩

/-- **Inverse of `llLoop_SD`**: an `SD` derivation with `n` steps whose remaining input holds no
    significant token is what the executable loop computes with any fuel above `n` (no depth limit),
    and the outputs are the accumulated ones followed by what the derivation emits. -/
theorem SD_llLoop (T : LLTables) (o : Opts) (ho : o.maxDepth = none)
    {n st inp pt r acts tr cm ptOut} (h : SD T n st inp pt r acts tr cm ptOut)
    (hr : firstSig (afterSkips r) = none) :
    ∀ (s : LLState) (steps fuel : Nat), s.stack = st → s.input = inp → s.ptStack = pt →
      BottomOK st → n < fuel → llLoop T o fuel s steps = okOut o s steps n r acts tr cm := by
  induction h with
  | @done inp pt =>
    intro s steps fuel hst hin hpt _ hf
    obtain ⟨fuel, rfl⟩ : ∃ f, fuel = f + 1 := ⟨fuel - 1, by omega⟩
    rw [llLoop, hst]
    simp only [inputAccepted, if_true]
    unfold finish
    rw [drainSkips_eq, hin]
    simp only [hr, okOut]
    cases o.trim <;> simp
  | @tok n a st inp pt rest' r acts tr cm ptOut tok hrest hskip hty _ ih =>
    intro s steps fuel hst hin hpt hb hf
    subst hty
    obtain ⟨fuel, rfl⟩ : ∃ f, fuel = f + 1 := ⟨fuel - 1, by omega⟩
    have hacc := inputAccepted_false (by simp) hb
    have hfs : firstSig inp = some tok := firstSig_of_afterSkips hrest hskip
    rw [llLoop, hst]
    simp only [hacc, Bool.false_eq_true, if_false, hin, hfs, if_true, drainSkips_eq, hrest,
      List.drop_one, List.tail_cons]
    refine (ih hr _ (steps + 1) fuel ?_ ?_ ?_ (BottomOK_tail hb) (by omega)).trans ?_
    · rfl
    · rfl
    · simp [hpt]
    · unfold okOut
      congr 1
      all_goals first | omega | (cases o.trim <;> simp [tokEv])
  | @nt n a st inp pt r acts tr cm ptOut p pr hp hpr _ ih =>
    intro s steps fuel hst hin hpt hb hf
    obtain ⟨fuel, rfl⟩ : ∃ f, fuel = f + 1 := ⟨fuel - 1, by omega⟩
    have hacc := inputAccepted_false (by simp) hb
    rw [llLoop, hst]
    have hnn : ¬ (Int.ofNat p < 0) := by simp
    have htn : (Int.ofNat p).toNat = p := rfl
    simp only [hacc, Bool.false_eq_true, if_false, hin, hp, hnn, htn, pushProduction, hpr, ho]
    refine (ih hr _ (steps + 1) fuel ?_ ?_ ?_ (BottomOK_push _ p hb) (by omega)).trans ?_
    · rfl
    · rfl
    · simp [hpt]
    · unfold okOut
      congr 1
      all_goals first | omega | (cases o.trim <;> simp)
  | @e n st inp pt r acts tr cm ptOut p pr hpr hlen _ ih =>
    intro s steps fuel hst hin hpt hb hf
    obtain ⟨fuel, rfl⟩ : ∃ f, fuel = f + 1 := ⟨fuel - 1, by omega⟩
    have hacc := inputAccepted_false (by simp) hb
    have hnl : ¬ (s.ptStack.length < pr.rhsRev.length) := by rw [hpt]; omega
    rw [llLoop, hst]
    simp only [hacc, Bool.false_eq_true, if_false, hpr, hnl]
    refine (ih hr _ (steps + 1) fuel ?_ ?_ ?_ (BottomOK_tail hb) (by omega)).trans ?_
    · rfl
    · exact hin
    · simp [hpt]
    · unfold okOut
      congr 1
      all_goals first | omega | (cases o.trim <;> simp [hpt])

/-! ## the whole run -/

theorem rhs_map_symPT {T : LLTables} (hE : TablesExact T) {i : Nat} {pr : LLProd}
    (hpr : T.prods[i]? = some pr) : (ruleOf pr).rhs.map symPT = pr.rhsRev.reverse := by
  simp only [ruleOf]
  apply map_symPT_stackSyms
  intro x hx
  exact hE.noMarker pr (List.mem_of_getElem? hpr) x (by simpa using hx)

theorem firstSig_afterSkips_none {mid : List MTok} (h : sigTypes mid = []) :
    firstSig (afterSkips mid) = none := by
  have : sigToks mid = [] := by simpa [sigTypes] using h
  simp [firstSig, sigToks_afterSkips, this]

/-- **Completeness of the run, explicit fuel**: a sentence with a derivation of `m` production
    applications is accepted with every fuel `≥ |w| + 2·m`; the loop makes `|w| + 2·m − 1` iterations
    (one per token, two per production, the first prediction happens before the loop) and emits
    `m` semantic actions. -/
theorem llRun_complete_sized (T : LLTables) (hE : TablesExact T) (o : Opts) (ho : o.maxDepth = none)
    (toks : List MTok) (m : Nat) (hw : YieldN (gOf T) m [.n T.start] (sigTypes toks)) (fuel : Nat)
    (hf : (sigTypes toks).length + 2 * m ≤ fuel) :
    (llRun T o fuel toks).res = .ok ∧ (llRun T o fuel toks).steps + 1 = (sigTypes toks).length + 2 * m ∧
      (llRun T o fuel toks).actions.length = m := by
  obtain ⟨p, m1, hp, hl, hr, rfl⟩ := yieldN_nt_inv hw
  obtain ⟨i, pr, hpr, rfl⟩ := mem_gOf_prods hp
  have hl' : pr.lhs = T.start := hl
  have hstart : FollowCtx (gOf T) pr.lhs [] := by
    rw [hl']; exact FollowCtx.start (G := gOf T)
  have hpred := predict_of_exact hE hpr (inp := toks) hr.yield hstart .nil (by simp)
  rw [hl'] at hpred
  obtain ⟨mid, acts, tr, cm, items, hds, hmid, hacts⟩ := DS_of_yield T hE hr [] [] toks
    (fun α B β hss => FollowCtx.step (ruleOf pr) hp α β [] B hss hstart) .nil (by simp)
  rw [rhs_map_symPT hE hpr] at hds
  have hlen : items.length = pr.rhsRev.length := by rw [DS_items_length hds]; simp
  have hsdE := SD.e (T := T) (pt := items.reverse ++ [PTItem.nt pr.lhs]) i pr hpr (by simp [hlen])
    (SD.done (inp := mid))
  obtain ⟨n, hn, hsd⟩ := DS_SD T hds [.e i] [.nt pr.lhs] 1 mid _ _ _ _ hsdE
  have hmid0 : sigToks mid = [] := by simpa [sigTypes] using hmid
  have hn' : n = (sigTypes toks).length + 2 * m1 + 1 := by
    simp only [hmid0, List.length_nil, Nat.add_zero] at hn
    simp only [sigTypes, List.length_map]
    omega
  have hb : BottomOK (pr.rhsRev.reverse ++ [PT.e i]) := by simp [BottomOK, List.getLast?_append]
  have hnn : ¬ (Int.ofNat i < 0) := by simp
  have htn : (Int.ofNat i).toNat = i := rfl
  unfold llRun
  simp only [hpred, hnn, htn, pushProduction, hpr, ho, if_false]
  rw [SD_llLoop T o ho hsd (firstSig_afterSkips_none hmid) _ 0 fuel rfl rfl rfl hb (by omega)]
  refine ⟨rfl, ?_, ?_⟩
  · simp only [okOut]; omega
  · simp [okOut, hacts]

/-- **Completeness of the run**, with fuel monotonicity: for a sentence there is a bound `n` such
    that every fuel above `n` gives `ok`. -/
theorem llRun_complete (T : LLTables) (hE : TablesExact T) (o : Opts) (ho : o.maxDepth = none)
    (toks : List MTok) (hw : Lang (gOf T) (sigTypes toks)) :
    ∃ n, ∀ fuel, n < fuel → (llRun T o fuel toks).res = .ok := by
  obtain ⟨m, hm⟩ := Yield.sized hw
  exact ⟨(sigTypes toks).length + 2 * m, fun fuel hf =>
    (llRun_complete_sized T hE o ho toks m hm fuel (by omega)).1⟩

/-! ## establishing `TablesExact` (1): from the lookahead sets -/

theorem noEoi_gOf {T : LLTables} (h : ∀ pr ∈ T.prods, PT.t 0 ∉ pr.rhsRev) : NoEoi (gOf T) := by
  intro p hp hm
  simp only [gOf, List.mem_map] at hp
  obtain ⟨pr, hpr, rfl⟩ := hp
  apply h pr hpr
  simp only [ruleOf, stackSyms, List.mem_filterMap] at hm
  obtain ⟨s, hs, hsym⟩ := hm
  cases s <;> simp [ptSym] at hsym
  subst hsym
  simpa using hs

/-- `eval` reads at most `k` tokens. -/
theorem eval_take (d : LaDfa) (stop : Bool) (la : List Nat) : eval d stop (la.take d.k) = eval d stop la := by
  unfold eval
  rw [List.take_take, Nat.min_self]

/-- padding a k-tuple `(w·EOI)/k` with EOI gives the EOI-padded k-lookahead of `w` -/
theorem pad_tuple (w : List Nat) : ∀ (k j : Nat), k ≤ j →
    ((w ++ [0]).take k ++ List.replicate j 0).take k = (w ++ List.replicate j 0).take k := by
  induction w with
  | nil =>
    intro k j hkj
    cases k with
    | zero => simp
    | succ k =>
      cases j with
      | zero => omega
      | succ j =>
        simp only [List.nil_append, List.take_succ_cons, List.take_nil, List.cons_append]
        rw [List.take_replicate, List.take_replicate, Nat.min_eq_left (by omega),
          Nat.min_eq_left (by omega), List.replicate_succ]
  | cons a w ih =>
    intro k j hkj
    cases k with
    | zero => simp
    | succ k => simp only [List.cons_append, List.take_succ_cons]; rw [ih k j (by omega)]

/-- the k-tuple is a prefix (of length ≤ k) of the padded lookahead -/
theorem tuple_is_prefix (w : List Nat) (k : Nat) :
    ∃ n, n ≤ k ∧ ((w ++ List.replicate k 0).take k).take n = (w ++ [0]).take k := by
  refine ⟨((w ++ [0]).take k).length, by simp [List.length_take]; omega, ?_⟩
  rw [← pad_tuple w k k (Nat.le_refl _), List.take_take]
  rw [Nat.min_eq_left (by simp [List.length_take]; omega)]
  rw [List.take_left]

/-- in a k-tuple `(w·EOI)/k` with `w` free of EOI, EOI can only be the last token -/
theorem tuple_zero_last {w : List Nat} (h0 : 0 ∉ w) {k : Nat} {a b : List Nat}
    (h : (w ++ [0]).take k = a ++ 0 :: b) : b = [] := by
  have hp : (w ++ [0]).take k <+: w ++ [0] := List.take_prefix _ _
  obtain ⟨c, hc⟩ := hp
  rw [h] at hc
  have hc' : a ++ (0 :: (b ++ c)) = w ++ [0] := by simpa [List.append_assoc] using hc
  rcases List.append_eq_append_iff.1 hc' with ⟨a', h1, h2⟩ | ⟨c', h1, h2⟩
  · -- w = a ++ a', 0 :: (b ++ c) = a' ++ [0]
    cases a' with
    | nil =>
      simp only [List.nil_append, List.cons.injEq, true_and] at h2
      have : b ++ c = [] := h2
      exact (List.append_eq_nil_iff.1 this).1
    | cons x a'' =>
      simp only [List.cons_append, List.cons.injEq] at h2
      exfalso; apply h0; rw [h1, ← h2.1]; simp
  · -- a = w ++ c', [0] = c' ++ 0 :: (b ++ c)
    cases c' with
    | nil =>
      simp only [List.nil_append, List.cons.injEq, true_and] at h2
      have : b ++ c = [] := h2.symm
      exact (List.append_eq_nil_iff.1 this).1
    | cons x c'' =>
      simp only [List.cons_append, List.cons.injEq] at h2
      have := h2.2
      cases c'' <;> simp at this

/-- two k-tuples one of which is a prefix of the other are equal (k-tuples are prefix-free) -/
theorem tuple_prefix_eq {w w' : List Nat} (h0 : 0 ∉ w) {k : Nat}
    (hp : (w' ++ [0]).take k <+: (w ++ [0]).take k) : (w' ++ [0]).take k = (w ++ [0]).take k := by
  obtain ⟨z, hz⟩ := hp
  by_cases hk : w'.length + 1 ≤ k
  · have hx : (w' ++ [0]).take k = w' ++ [0] := List.take_of_length_le (by simp; omega)
    rw [hx] at hz ⊢
    have : z = [] := tuple_zero_last h0 (a := w') (b := z) (by rw [← hz]; simp)
    rw [← hz, this]; simp
  · have hl1 : ((w' ++ [0]).take k).length = k := by simp [List.length_take]; omega
    have hl2 : ((w ++ [0]).take k).length ≤ k := by simp [List.length_take]; omega
    have hl := congrArg List.length hz
    simp only [List.length_append] at hl
    have : z = [] := List.eq_nil_of_length_eq_zero (by omega)
    rw [← hz, this]; simp

/-- shape of the strong-LL(k) lookahead strings of C05: k-prefixes of `w·EOI`, `w` free of EOI -/
theorem LA_shape {G : Grammar} (hno : NoEoi G) {k A : Nat} {α : List Sym} (hα : Sym.t 0 ∉ α)
    {t : List Nat} (h : LA G k A α t) : ∃ w, 0 ∉ w ∧ t = (w ++ [0]).take k := by
  obtain ⟨u, f, hu, hf, rfl⟩ := h
  obtain ⟨γ, v, hc, hv, rfl⟩ := followK_iff_ctx.1 hf
  refine ⟨u ++ v, ?_, ?_⟩
  · simp only [List.mem_append, not_or]
    exact ⟨yield_no_eoi hno hu hα, yield_no_eoi hno hv (followCtx_no_eoi hno hc)⟩
  · rw [take_append_take_right, List.append_assoc]

theorem LA_of_ctx {G : Grammar} {k A : Nat} {α γ : List Sym} {u v : List Nat}
    (hu : Yield G α u) (hc : FollowCtx G A γ) (hv : Yield G γ v) :
    LA G k A α ((u ++ v ++ [0]).take k) :=
  ⟨u, (v ++ [0]).take k, hu, followK_iff_ctx.2 ⟨γ, v, hc, hv, rfl⟩, by
    rw [take_append_take_right, List.append_assoc]⟩

/-- The automaton `d` of non-terminal `A`, read as a deterministic automaton (`runRef`, C08),
    reaches a state predicting `q` on `t` exactly when `q` is (the number of) a production of `A`
    and `t` is one of its strong-LL(k) lookahead strings `FIRST_k(rhs) ⊙_k FOLLOW_k(A)` (`KS.LA`,
    C05), `k = d.k`; the transition list is sorted (C07's `compiled_accepts_iff_tuple` delivers
    exactly this shape). Since `runRef` is a function this includes pairwise disjointness. -/
def AutomatonExact (T : LLTables) (A : Nat) (d : LaDfa) : Prop :=
  sortedTrans d.trans = true ∧
  ∀ (t : List Nat) (q : Int), runRef d 0 d.prod0 t = some q ↔
    ∃ (j : Nat) (pq : LLProd), q = (j : Int) ∧ T.prods[j]? = some pq ∧ pq.lhs = A ∧
      LA (gOf T) d.k A (ruleOf pq).rhs t

/-- Set-level premise: well-formed right-hand sides, and every non-terminal that has a production
    has an automaton accepting exactly its productions' lookahead sets. -/
structure SetsExact (T : LLTables) : Prop where
  noMarker : ∀ pr ∈ T.prods, ∀ x ∈ pr.rhsRev, PT.isE x = false
  noEoi : ∀ pr ∈ T.prods, PT.t 0 ∉ pr.rhsRev
  auto : ∀ pr ∈ T.prods, ∃ d, T.dfas[pr.lhs]? = some d ∧ AutomatonExact T pr.lhs d

/-- **From the lookahead sets to exact prediction**: if every automaton accepts exactly the
    strong-LL(k) lookahead strings of the productions of its non-terminal, the runtime `eval`
    predicts exactly (uses C08: `eval_sound`, `eval_error_only_if_no_prefix`,
    `eval_assertFail_only_if`). -/
theorem tablesExact_of_sets (T : LLTables) (h : SetsExact T) : TablesExact T := by
  have hno : NoEoi (gOf T) := noEoi_gOf h.noEoi
  refine ⟨h.noMarker, ?_⟩
  intro p pr hpr
  have hmem : pr ∈ T.prods := List.mem_of_getElem? hpr
  obtain ⟨d, hd, hsorted, hacc⟩ := h.auto pr hmem
  refine ⟨d, hd, ?_⟩
  intro u γ v hu hc hv
  have hrule : ∀ pq ∈ T.prods, Sym.t 0 ∉ (ruleOf pq).rhs := fun pq hpq =>
    hno (ruleOf pq) (by simp only [gOf, List.mem_map]; exact ⟨pq, hpq, rfl⟩)
  have h0 : 0 ∉ u ++ v := by
    simp only [List.mem_append, not_or]
    exact ⟨yield_no_eoi hno hu (hrule pr hmem), yield_no_eoi hno hv (followCtx_no_eoi hno hc)⟩
  -- the lookahead string of `p` that the input starts with
  have hLA : LA (gOf T) d.k pr.lhs (ruleOf pr).rhs ((u ++ v ++ [0]).take d.k) := LA_of_ctx hu hc hv
  have hrun : runRef d 0 d.prod0 ((u ++ v ++ [0]).take d.k) = some (p : Int) :=
    (hacc _ _).2 ⟨p, pr, rfl, hpr, rfl, hLA⟩
  obtain ⟨n, hn, hpre⟩ := tuple_is_prefix (u ++ v) d.k
  generalize hla : (u ++ v ++ List.replicate d.k 0).take d.k = la at hpre
  cases hev : eval d true la with
  | ok q =>
    obtain ⟨m, hm, hrm⟩ := eval_sound d hsorted la q hev
    obtain ⟨j, pq, hq, hpq, _, hLAq⟩ := (hacc _ _).1 hrm
    obtain ⟨w', _, hw'⟩ := LA_shape hno (hrule pq (List.mem_of_getElem? hpq)) hLAq
    -- both accepted strings are prefixes of `la`, hence comparable, hence equal
    have heq : la.take m = la.take n := by
      rcases Nat.le_total m n with hmn | hnm
      · have hp : la.take m <+: la.take n := by
          rw [show la.take m = (la.take n).take m by rw [List.take_take, Nat.min_eq_left hmn]]
          exact List.take_prefix _ _
        rw [hw', hpre] at hp
        rw [hw', hpre]; exact tuple_prefix_eq h0 hp
      · have hp : la.take n <+: la.take m := by
          rw [show la.take n = (la.take m).take n by rw [List.take_take, Nat.min_eq_left hnm]]
          exact List.take_prefix _ _
        rw [hw', hpre] at hp
        rw [hw', hpre]; exact (tuple_prefix_eq (w := w') (by assumption) hp).symm
    rw [heq, hpre, hrun] at hrm
    injection hrm with hrm
    rw [hrm]
  | predictError =>
    have := eval_error_only_if_no_prefix d hsorted la hev n hn
    rw [hpre, hrun] at this; cases this
  | assertFail =>
    exfalso
    obtain ⟨hp0, _⟩ := eval_assertFail_only_if d la hev
    -- state 0 accepting: the ε-tuple is a lookahead string, so k = 0 and `eval` answers at once
    have hr0 : runRef d 0 d.prod0 [] = some d.prod0 := by simp [runRef, hp0]
    obtain ⟨j, pq, _, hpq, _, hLAq⟩ := (hacc _ _).1 hr0
    obtain ⟨w', _, hw'⟩ := LA_shape hno (hrule pq (List.mem_of_getElem? hpq)) hLAq
    have hk : d.k = 0 := by
      have := congrArg List.length hw'
      simp [List.length_take] at this
      omega
    unfold eval at hev
    simp only [hk, List.take_zero, evalLoop] at hev
    simp only [evalInit, hp0, if_true] at hev
    cases hev

/-! ## establishing `TablesExact` (2): a verified executable check -/

/-- reference strong-LL(k) lookahead set of the alternative `α` of `A`:
    FIRST_k(α) ⊙_k FOLLOW_k(A) by the verified Kleene iterations of `Model/KSets.lean` -/
def laRef (G : Grammar) (k fuel : Nat) (A : Nat) (α : List Sym) : Option TSet :=
  match firstK_lfp G k fuel, followK_lfp G k fuel with
  | some fe, some fo => some (kcatSetRef k (firstSeqRef k (envGet fe) α) (envGet fo A))
  | _, _ => none

/-- Executable form of `TablesExact`: no markers in right-hand sides, and for every production
    `p` of `A` the runtime `eval` of `A`'s automaton answers `p` on every (EOI-padded) reference
    lookahead string of `p`. -/
def tablesExactB (T : LLTables) (fuel : Nat) : Bool :=
  (T.prods.all fun pr => pr.rhsRev.all fun x => !PT.isE x) &&
  (T.prods.zipIdx.all fun (pr, p) =>
    match T.dfas[pr.lhs]? with
    | none => false
    | some d =>
      match laRef (gOf T) d.k fuel pr.lhs (ruleOf pr).rhs with
      | none => false
      | some S => S.all fun t => eval d true (t ++ List.replicate d.k 0) == .ok (p : Int))

theorem mem_laRef {G : Grammar} {k fuel A : Nat} {α γ : List Sym} {S : TSet} {u v : List Nat}
    (h : laRef G k fuel A α = some S) (hu : Yield G α u) (hc : FollowCtx G A γ) (hv : Yield G γ v) :
    (u ++ v ++ [0]).take k ∈ S := by
  unfold laRef at h
  split at h
  · rename_i fe fo hfe hfo
    injection h with h; subst h
    obtain ⟨_, hfirst⟩ := firstK_lfp_correct hfe
    have hfollow := followK_lfp_correct hfo
    rw [mem_kcatSetRef]
    refine ⟨u.take k, (hfirst α _).2 ⟨u, hu, rfl⟩, (v ++ [0]).take k, (hfollow A _).2 ⟨γ, v, hc, hv, rfl⟩, ?_⟩
    rw [take_take_append, List.append_assoc]
  · cases h

theorem tablesExactB_sound (T : LLTables) (fuel : Nat) (h : tablesExactB T fuel = true) : TablesExact T := by
  simp only [tablesExactB, Bool.and_eq_true, List.all_eq_true, Bool.not_eq_true'] at h
  obtain ⟨h1, h2⟩ := h
  refine ⟨fun pr hpr x hx => h1 pr hpr x hx, ?_⟩
  intro p pr hpr
  have hmem : (pr, p) ∈ T.prods.zipIdx := by
    rw [List.mem_zipIdx_iff_getElem?]; simpa using hpr
  have := h2 (pr, p) hmem
  simp only at this
  split at this
  · cases this
  · rename_i d hd
    refine ⟨d, hd, ?_⟩
    intro u γ v hu hc hv
    split at this
    · cases this
    · rename_i S hS
      have ht := mem_laRef hS hu hc hv
      have := (List.all_eq_true.1 this) _ ht
      rw [beq_iff_eq] at this
      rw [← eval_take] at this
      rw [pad_tuple (u ++ v) d.k d.k (Nat.le_refl _), eval_take] at this
      rw [eval_take]
      exact this

/-! ## establishing `SetsExact`: a verified executable check

The accepted language of an automaton without long paths is enumerated (`laAccepted`, `laDeep`) and
compared, in both directions, with the reference lookahead sets. -/

theorem LA_iff_laRef {G : Grammar} {k fuel A : Nat} {α : List Sym} {S : TSet}
    (h : laRef G k fuel A α = some S) (t : List Nat) : LA G k A α t ↔ t ∈ S := by
  constructor
  · rintro ⟨u, f, hu, hf, rfl⟩
    obtain ⟨γ, v, hc, hv, rfl⟩ := followK_iff_ctx.1 hf
    have := mem_laRef h hu hc hv
    rwa [List.append_assoc, ← take_append_take_right] at this
  · intro ht
    unfold laRef at h
    split at h
    · rename_i fe fo hfe hfo
      injection h with h; subst h
      obtain ⟨_, hfirst⟩ := firstK_lfp_correct hfe
      have hfollow := followK_lfp_correct hfo
      obtain ⟨x, hx, y, hy, rfl⟩ := mem_kcatSetRef.1 ht
      obtain ⟨u, hu, rfl⟩ := (hfirst α x).1 hx
      exact ⟨u, y, hu, followK_iff_ctx.2 ((hfollow A y).1 hy), take_append_take_left k u y⟩
    · cases h

/-- transitions leaving state `st` -/
def laOuts (d : LaDfa) (st : Nat) : List Trans := d.trans.filter (fun tr => tr.src = st)

/-- all (string, production) pairs accepted from state `st` (annotation `p`) along paths of
    length ≤ fuel -/
def laAccepted (d : LaDfa) : Nat → Nat → Int → List (List Nat × Int)
  | 0, _, p => if p > -1 then [([], p)] else []
  | f + 1, st, p =>
    (if p > -1 then [([], p)] else []) ++
    (laOuts d st).flatMap fun tr => (laAccepted d f tr.dst tr.prod).map fun wq => (tr.term :: wq.1, wq.2)

/-- is there a path of more than `fuel` transitions from `st`? -/
def laDeep (d : LaDfa) : Nat → Nat → Bool
  | 0, st => !(laOuts d st).isEmpty
  | f + 1, st => (laOuts d st).any fun tr => laDeep d f tr.dst

theorem stepRef_mem_outs {d : LaDfa} {st a : Nat} {tr : Trans} (h : stepRef d st a = some tr) :
    tr ∈ laOuts d st ∧ tr.term = a := by
  unfold stepRef at h
  have hm := List.mem_of_find?_eq_some h
  have hp := List.find?_some h
  simp only [decide_eq_true_eq] at hp
  exact ⟨by simp [laOuts, hm, hp.1], hp.2⟩

theorem runRef_mem_accepted (d : LaDfa) : ∀ (f st : Nat) (p : Int) (w : List Nat) (q : Int),
    laDeep d f st = false → runRef d st p w = some q → (w, q) ∈ laAccepted d f st p := by
  intro f
  induction f with
  | zero =>
    intro st p w q hd hr
    cases w with
    | nil =>
      simp only [runRef] at hr
      split at hr
      · injection hr with hr; subst hr; simp [laAccepted, *]
      · cases hr
    | cons a rest =>
      simp only [runRef] at hr
      split at hr
      · rename_i tr htr
        have := (stepRef_mem_outs htr).1
        simp only [laDeep, Bool.not_eq_false', List.isEmpty_iff] at hd
        rw [hd] at this; cases this
      · cases hr
  | succ f ih =>
    intro st p w q hd hr
    cases w with
    | nil =>
      simp only [runRef] at hr
      split at hr
      · injection hr with hr; subst hr; simp [laAccepted, *]
      · cases hr
    | cons a rest =>
      simp only [runRef] at hr
      split at hr
      · rename_i tr htr
        obtain ⟨hm, ht⟩ := stepRef_mem_outs htr
        simp only [laDeep, List.any_eq_false] at hd
        have hd' : laDeep d f tr.dst = false := by simpa using hd tr hm
        have := ih tr.dst tr.prod rest q hd' hr
        simp only [laAccepted, List.mem_append, List.mem_flatMap, List.mem_map]
        right
        exact ⟨tr, hm, (rest, q), this, by simp [ht]⟩
      · cases hr

/-- the reference lookahead sets of the productions of `A`, with their production numbers -/
def laSetsRef (T : LLTables) (fuel A k : Nat) : List (Nat × Option TSet) :=
  (T.prods.zipIdx.filter fun x => x.1.lhs = A).map fun x => (x.2, laRef (gOf T) k fuel A (ruleOf x.1).rhs)

/-- Executable form of `AutomatonExact`. `depth` bounds the length of the automaton's paths. -/
def autoExactB (T : LLTables) (fuel depth A : Nat) (d : LaDfa) : Bool :=
  sortedTrans d.trans && !laDeep d depth 0 &&
  ((laSetsRef T fuel A d.k).all fun jS =>
    match jS.2 with
    | none => false
    | some S => S.all fun t => runRef d 0 d.prod0 t == some (jS.1 : Int)) &&
  ((laAccepted d depth 0 d.prod0).all fun wq =>
    (laSetsRef T fuel A d.k).any fun jS =>
      match jS.2 with
      | none => false
      | some S => wq.2 == (jS.1 : Int) && S.contains wq.1)

theorem mem_laSetsRef {T : LLTables} {fuel A k : Nat} {j : Nat} {oS : Option TSet} :
    (j, oS) ∈ laSetsRef T fuel A k ↔
      ∃ pq, T.prods[j]? = some pq ∧ pq.lhs = A ∧ oS = laRef (gOf T) k fuel A (ruleOf pq).rhs := by
  simp only [laSetsRef, List.mem_map, List.mem_filter, decide_eq_true_eq, Prod.exists, Prod.mk.injEq,
    List.mem_zipIdx_iff_getElem?]
  constructor
  · rintro ⟨pq, i, ⟨hi, hl⟩, rfl, rfl⟩
    exact ⟨pq, by simpa using hi, hl, rfl⟩
  · rintro ⟨pq, hpq, hl, rfl⟩
    exact ⟨pq, j, ⟨by simpa using hpq, hl⟩, rfl, rfl⟩

theorem autoExactB_sound {T : LLTables} {fuel depth A : Nat} {d : LaDfa}
    (h : autoExactB T fuel depth A d = true) : AutomatonExact T A d := by
  simp only [autoExactB, Bool.and_eq_true, Bool.not_eq_true', List.all_eq_true, List.any_eq_true] at h
  obtain ⟨⟨⟨hs, hdeep⟩, hsets⟩, hacc⟩ := h
  refine ⟨hs, fun t q => ⟨fun hr => ?_, ?_⟩⟩
  · have hm := runRef_mem_accepted d depth 0 d.prod0 t q hdeep hr
    obtain ⟨⟨j, oS⟩, hjS, hx⟩ := hacc (t, q) hm
    obtain ⟨pq, hpq, hl, rfl⟩ := mem_laSetsRef.1 hjS
    simp only at hx
    split at hx
    · cases hx
    · rename_i S hS
      simp only [Bool.and_eq_true, beq_iff_eq, List.contains_eq_mem, decide_eq_true_eq] at hx
      exact ⟨j, pq, hx.1, hpq, hl, (LA_iff_laRef hS t).2 hx.2⟩
  · rintro ⟨j, pq, rfl, hpq, hl, hLA⟩
    have hjS := (mem_laSetsRef (T := T) (fuel := fuel) (A := A) (k := d.k) (j := j)).2 ⟨pq, hpq, hl, rfl⟩
    have := hsets _ hjS
    simp only at this
    split at this
    · cases this
    · rename_i S hS
      have := (List.all_eq_true.1 this) t ((LA_iff_laRef hS t).1 hLA)
      simpa using this

/-- Executable form of `SetsExact`. -/
def setsExactB (T : LLTables) (fuel depth : Nat) : Bool :=
  (T.prods.all fun pr => pr.rhsRev.all fun x => !PT.isE x) &&
  (T.prods.all fun pr => !(pr.rhsRev.contains (PT.t 0))) &&
  (T.prods.all fun pr =>
    match T.dfas[pr.lhs]? with
    | none => false
    | some d => autoExactB T fuel depth pr.lhs d)

theorem setsExactB_sound (T : LLTables) (fuel depth : Nat) (h : setsExactB T fuel depth = true) :
    SetsExact T := by
  simp only [setsExactB, Bool.and_eq_true, List.all_eq_true, Bool.not_eq_true',
    List.contains_eq_mem, decide_eq_false_iff_not] at h
  obtain ⟨⟨h1, h2⟩, h3⟩ := h
  refine ⟨fun pr hpr x hx => h1 pr hpr x hx, fun pr hpr => h2 pr hpr, ?_⟩
  intro pr hpr
  have := h3 pr hpr
  split at this
  · cases this
  · rename_i d hd
    exact ⟨d, hd, autoExactB_sound this⟩

end ParolModel
