import ParolModel.Proofs.LLSim
import ParolModel.Proofs.KFollow
import ParolModel.Props.C08
/-! Completeness of the LL(k) parser model (C01, second half).

* `SD_llLoop` — the inverse of `llLoop_SD`: every big-step derivation `SD` is realised by the
  executable loop, with fuel `n + 1` (`n` the number of loop iterations recorded in `SD`) and exactly
  the outputs the derivation lists.
* `DS_SD` — the inverse of `SD_decompose`: a declarative parse `DS` of a marker-free symbol string
  followed by an `SD` run of the rest of the stack is an `SD` run of the whole stack.
* `DS_of_yield` — the classical completeness argument: if the lookahead automata predict exactly
  (`TablesExact`), every derivation `Yield` of the remaining input from the stack symbols, in a
  right context that is reachable from the start symbol (`KS.FollowCtx`), is traversed by the parser.
* `tablesExact_of_sets` / `tablesExactB_sound` — two ways to establish `TablesExact`: from
  "the automaton accepts exactly the strong-LL(k) lookahead strings of each production" (C07's
  conclusion about C05's sets, with C08's theorems about `eval`), and from a verified executable
  check against the reference FIRST_k / FOLLOW_k computation. -/
namespace ParolModel
open KS

/-! ## symbols and marker-free stacks -/

def symPT : Sym → PT
  | .t a => .t a
  | .n a => .n a

theorem stackSyms_map_symPT (ss : List Sym) : stackSyms (ss.map symPT) = ss := by
  induction ss with
  | nil => rfl
  | cons s ss ih => cases s <;> simp [symPT, ih]

theorem map_symPT_stackSyms {st : List PT} (h : ∀ x ∈ st, PT.isE x = false) :
    (stackSyms st).map symPT = st := by
  induction st with
  | nil => rfl
  | cons x st ih =>
    have ih' := ih (fun y hy => h y (List.mem_cons_of_mem _ hy))
    cases x with
    | t a => simp [symPT, ih']
    | n a => simp [symPT, ih']
    | e p => have := h (.e p) List.mem_cons_self; simp [PT.isE] at this

theorem laTypes_eq (inp : List MTok) (k : Nat) :
    laTypes inp k = (sigTypes inp ++ List.replicate k 0).take k := rfl

/-! ## the hypothesis: exact prediction -/

/-- **Exact lookahead automata.** Right-hand sides contain no end-of-production markers, and for
    every production `p : A → α` the automaton of `A` predicts `p` on the (EOI-padded) `k`-lookahead
    of every string `u·v` with `α ⇒* u` and `v` derived from a right context `γ` of `A`
    (`start ⇒* x A γ'`, `γ` the not yet expanded part; `KS.FollowCtx`), `k` being that automaton's
    own lookahead depth. This is strong-LL(k) prediction by FIRST_k(α) ⊙_k FOLLOW_k(A). -/
structure TablesExact (T : LLTables) : Prop where
  noMarker : ∀ pr ∈ T.prods, ∀ x ∈ pr.rhsRev, PT.isE x = false
  predicts : ∀ (p : Nat) (pr : LLProd), T.prods[p]? = some pr →
    ∃ d, T.dfas[pr.lhs]? = some d ∧
      ∀ (u : List Nat) (γ : List Sym) (v : List Nat),
        Yield (gOf T) (ruleOf pr).rhs u → FollowCtx (gOf T) pr.lhs γ → Yield (gOf T) γ v →
        eval d true ((u ++ v ++ List.replicate d.k 0).take d.k) = .ok (p : Int)

theorem mem_gOf_prods {T : LLTables} {p : Rule} (hp : p ∈ (gOf T).prods) :
    ∃ (i : Nat) (pr : LLProd), T.prods[i]? = some pr ∧ ruleOf pr = p := by
  simp only [gOf, List.mem_map] at hp
  obtain ⟨pr, hpr, rfl⟩ := hp
  obtain ⟨i, hi⟩ := List.getElem?_of_mem hpr
  exact ⟨i, pr, hi, rfl⟩

theorem predict_of_exact {T : LLTables} (hE : TablesExact T) {i : Nat} {pr : LLProd}
    (hpr : T.prods[i]? = some pr) {inp : List MTok} {u v : List Nat} {γ : List Sym}
    (hu : Yield (gOf T) (ruleOf pr).rhs u) (hc : FollowCtx (gOf T) pr.lhs γ)
    (hv : Yield (gOf T) γ v) (hin : sigTypes inp = u ++ v) :
    predict T pr.lhs inp = some (.ok (Int.ofNat i)) := by
  obtain ⟨d, hd, hex⟩ := hE.predicts i pr hpr
  have := hex u γ v hu hc hv
  simp only [predict, hd, laTypes_eq, hin]
  rw [this]; rfl

/-! ## from a derivation to the declarative parse -/

theorem sigTypes_cons_inv : ∀ (inp : List MTok) (a : Nat) (w : List Nat), sigTypes inp = a :: w →
    ∃ tok rest', afterSkips inp = tok :: rest' ∧ tok.skip = false ∧ tok.ty = a ∧ sigTypes rest' = w := by
  intro inp
  induction inp with
  | nil => intro a w h; simp [sigTypes, sigToks] at h
  | cons t rest ih =>
    intro a w h
    by_cases hs : t.skip = true
    · have h1 : afterSkips (t :: rest) = afterSkips rest := by simp [afterSkips, List.dropWhile, hs]
      rw [h1]
      apply ih
      simpa [sigTypes, sigToks_cons_skip hs] using h
    · have hs' : t.skip = false := by simpa using hs
      have h1 : afterSkips (t :: rest) = t :: rest := by simp [afterSkips, List.dropWhile, hs']
      simp only [sigTypes, sigToks_cons_sig hs', List.map_cons, List.cons.injEq] at h
      exact ⟨t, rest, h1, hs', h.1, h.2⟩

/-- **Completeness, declarative form.** With exact automata, every derivation of a prefix `w` of the
    remaining input from a symbol string `ss`, whose right context `γ` derives the rest `v` and is
    reachable (every non-terminal occurrence in `ss` has `FollowCtx`), is parsed by the model. -/
theorem DS_of_yield (T : LLTables) (hE : TablesExact T) {ss : List Sym} {w : List Nat}
    (h : Yield (gOf T) ss w) :
    ∀ (γ : List Sym) (v : List Nat) (inp : List MTok),
      (∀ α B β, ss = α ++ Sym.n B :: β → FollowCtx (gOf T) B (β ++ γ)) →
      Yield (gOf T) γ v → sigTypes inp = w ++ v →
      ∃ mid acts tr cm items, DS T (ss.map symPT) inp mid acts tr cm items ∧ sigTypes mid = v := by
  induction h with
  | nil =>
    intro γ v inp _ _ hin
    exact ⟨inp, [], [], [], [], .nil, by simpa using hin⟩
  | @term a ss w _ ih =>
    intro γ v inp hctx hv hin
    obtain ⟨tok, rest', hrest, hskip, hty, hsig⟩ := sigTypes_cons_inv inp a (w ++ v) (by simpa using hin)
    obtain ⟨mid, acts, tr, cm, items, hds, hmid⟩ := ih γ v rest'
      (fun α B β hss => hctx (.t a :: α) B β (by simp [hss])) hv hsig
    exact ⟨mid, _, _, _, _, DS.tok tok hrest hskip hty hds, hmid⟩
  | @nonterm p ss u v' hp hr hs ih1 ih2 =>
    intro γ v inp hctx hv hin
    obtain ⟨i, pr, hpr, rfl⟩ := mem_gOf_prods hp
    have hA : FollowCtx (gOf T) pr.lhs (ss ++ γ) := hctx [] pr.lhs ss rfl
    have hrest : Yield (gOf T) (ss ++ γ) (v' ++ v) := Yield.append hs hv
    have hin' : sigTypes inp = u ++ (v' ++ v) := by rw [hin, List.append_assoc]
    have hpred := predict_of_exact hE hpr hr hA hrest hin'
    obtain ⟨mid1, acts1, tr1, cm1, items1, hds1, hmid1⟩ := ih1 (ss ++ γ) (v' ++ v) inp
      (fun α B β hss => by
        have := FollowCtx.step (ruleOf pr) hp α β (ss ++ γ) B hss hA
        simpa [List.append_assoc] using this) hrest hin'
    obtain ⟨mid2, acts2, tr2, cm2, items2, hds2, hmid2⟩ := ih2 γ v mid1
      (fun α B β hss => hctx (.n pr.lhs :: α) B β (by simp [ruleOf, hss])) hv hmid1
    have hrhs : (ruleOf pr).rhs.map symPT = pr.rhsRev.reverse := by
      simp only [ruleOf]
      apply map_symPT_stackSyms
      intro x hx
      exact hE.noMarker pr (List.mem_of_getElem? hpr) x (by simpa using hx)
    rw [hrhs] at hds1
    exact ⟨mid2, _, _, _, _, DS.nt i pr hpred hpr hds1 hds2, hmid2⟩

/-! ## from the declarative parse to the big-step run -/

/-- Inverse of `SD_decompose`: a declarative parse of `syms` followed by a run of `rest` is a run
    of `syms ++ rest`. -/
theorem DS_SD (T : LLTables) {syms : List PT} {inp mid : List MTok} {acts1 tr1 cm1 items}
    (h : DS T syms inp mid acts1 tr1 cm1 items) :
    ∀ (rest : List PT) (pt : List PTItem) (n2 : Nat) (r : List MTok) acts2 tr2 cm2 ptOut,
      SD T n2 rest mid (items.reverse ++ pt) r acts2 tr2 cm2 ptOut →
      ∃ n, n2 ≤ n ∧ SD T n (syms ++ rest) inp pt r (acts1 ++ acts2) (tr1 ++ tr2) (cm1 ++ cm2) ptOut := by
  induction h with
  | nil =>
    intro rest pt n2 r acts2 tr2 cm2 ptOut hsd
    exact ⟨n2, Nat.le_refl _, by simpa using hsd⟩
  | @tok a ss inp rest' r0 acts tr cm items tok hrest hskip hty _ ih =>
    intro rest pt n2 r acts2 tr2 cm2 ptOut hsd
    obtain ⟨n, hle, hsd'⟩ := ih rest (.tok tok.id tok.ty :: pt) n2 r acts2 tr2 cm2 ptOut
      (by simpa using hsd)
    refine ⟨n + 1, by omega, ?_⟩
    have := SD.tok tok hrest hskip hty hsd'
    simpa [List.append_assoc] using this
  | @nt a ss inp mid1 r0 acts1 acts2' tr1 tr2' cm1 cm2' items1 items2 p pr hp hpr hds1 _ ih1 ih2 =>
    intro rest pt n2 r acts2 tr2 cm2 ptOut hsd
    obtain ⟨n, hle, hsd2⟩ := ih2 rest (.nt pr.lhs :: pt) n2 r acts2 tr2 cm2 ptOut (by simpa using hsd)
    have hl : items1.length = pr.rhsRev.length := by rw [DS_items_length hds1]; simp
    have htake : ((items1.reverse ++ PTItem.nt pr.lhs :: pt).take pr.rhsRev.length).reverse = items1 := by
      rw [← hl, ← List.length_reverse, List.take_left]; simp
    have hdrop : (items1.reverse ++ PTItem.nt pr.lhs :: pt).drop pr.rhsRev.length = PTItem.nt pr.lhs :: pt := by
      rw [← hl, ← List.length_reverse, List.drop_left]
    have hsdE := SD.e (pt := items1.reverse ++ PTItem.nt pr.lhs :: pt) p pr hpr
      (by simp [hl]) (by rw [hdrop]; exact hsd2)
    rw [htake] at hsdE
    obtain ⟨n', hle', hsd1⟩ := ih1 (.e p :: (ss ++ rest)) (.nt pr.lhs :: pt) (n + 1) r _ _ _ ptOut hsdE
    refine ⟨n' + 1, by omega, ?_⟩
    have := SD.nt p pr hp hpr hsd1
    simpa [List.append_assoc] using this

/-! ## from the big-step run to the executable loop -/

/-- The bottom of the parser stack is not the end-of-input terminal (then `input_accepted` cannot
    fire on a non-empty stack). Weaker than `PT.t 0 ∉ stack`; always true inside `llRun`, whose
    stack bottom is the end-of-production marker of the start production. -/
def BottomOK (st : List PT) : Prop := st.getLast? ≠ some (.t 0)

theorem BottomOK_of_not_mem {st : List PT} (h : PT.t 0 ∉ st) : BottomOK st := by
  intro hl; exact h (List.mem_of_getLast? hl)

theorem BottomOK_tail {x : PT} {st : List PT} (h : BottomOK (x :: st)) : BottomOK st := by
  cases st with
  | nil => simp [BottomOK]
  | cons y st => simpa [BottomOK, List.getLast?_cons_cons] using h

theorem BottomOK_push {x : PT} {st : List PT} (l : List PT) (p : Nat) (h : BottomOK (x :: st)) :
    BottomOK (l ++ .e p :: st) := by
  unfold BottomOK at *
  cases st with
  | nil => simp [List.getLast?_append]
  | cons y st => simpa [List.getLast?_append, List.getLast?_cons_cons] using h

theorem inputAccepted_false {st : List PT} (hne : st ≠ []) (h : BottomOK st) : inputAccepted st = false := by
  cases hacc : inputAccepted st with
  | false => rfl
  | true =>
    rcases (inputAccepted_iff st).1 hacc with h0 | h0
    · exact absurd h0 hne
    · subst h0; simp [BottomOK] at h

theorem firstSig_of_afterSkips {inp rest' : List MTok} {tok : MTok} (h : afterSkips inp = tok :: rest')
    (hs : tok.skip = false) : firstSig inp = some tok := by
  unfold firstSig
  rw [← sigToks_afterSkips, h, sigToks_cons_sig hs]; rfl

/-- The record a successful run of the loop returns, in terms of what its `SD` derivation lists. -/
def okOut (o : Opts) (s : LLState) (steps n : Nat) (r : List MTok) (acts : List (Nat × List PTItem))
    (tr : List TreeEv) (cm : List Nat) : LLOut :=
  ⟨.ok, s.actions.reverse ++ acts,
   s.tree.reverse ++ (if o.trim then [] else tr ++ (leadSkips r).map tokEv) ++ [TreeEv.close],
   s.comments.reverse ++ cm ++ commentIds (leadSkips r), steps + n⟩

/-- **Inverse of `llLoop_SD`**: an `SD` derivation with `n` steps whose remaining input holds no
    significant token is what the executable loop computes with any fuel above `n` (no depth limit),
    and the outputs are the accumulated ones followed by what the derivation emits. -/
theorem SD_llLoop (T : LLTables) (o : Opts) (ho : o.maxDepth = none)
    {n st inp pt r acts tr cm ptOut} (h : SD T n st inp pt r acts tr cm ptOut)
    (hr : firstSig (afterSkips r) = none) :
    ∀ (s : LLState) (steps fuel : Nat), s.stack = st → s.input = inp → s.ptStack = pt →
      BottomOK st → n < fuel → llLoop T o fuel s steps = okOut o s steps n r acts tr cm := by
  induction h with
  | @done inp pt =>
    intro s steps fuel hst hin hpt _ hf
    obtain ⟨fuel, rfl⟩ : ∃ f, fuel = f + 1 := ⟨fuel - 1, by omega⟩
    rw [llLoop, hst]
    simp only [inputAccepted, if_true]
    unfold finish
    rw [drainSkips_eq, hin]
    simp only [hr, okOut]
    cases o.trim <;> simp
  | @tok n a st inp pt rest' r acts tr cm ptOut tok hrest hskip hty _ ih =>
    intro s steps fuel hst hin hpt hb hf
    subst hty
    obtain ⟨fuel, rfl⟩ : ∃ f, fuel = f + 1 := ⟨fuel - 1, by omega⟩
    have hacc := inputAccepted_false (by simp) hb
    have hfs : firstSig inp = some tok := firstSig_of_afterSkips hrest hskip
    rw [llLoop, hst]
    simp only [hacc, Bool.false_eq_true, if_false, hin, hfs, if_true, drainSkips_eq, hrest,
      List.drop_one, List.tail_cons]
    refine (ih hr _ (steps + 1) fuel ?_ ?_ ?_ (BottomOK_tail hb) (by omega)).trans ?_
    · rfl
    · rfl
    · simp [hpt]
    · unfold okOut
      congr 1
      all_goals first | omega | (cases o.trim <;> simp [tokEv])
  | @nt n a st inp pt r acts tr cm ptOut p pr hp hpr _ ih =>
    intro s steps fuel hst hin hpt hb hf
    obtain ⟨fuel, rfl⟩ : ∃ f, fuel = f + 1 := ⟨fuel - 1, by omega⟩
    have hacc := inputAccepted_false (by simp) hb
    rw [llLoop, hst]
    have hnn : ¬ (Int.ofNat p < 0) := by simp
    have htn : (Int.ofNat p).toNat = p := rfl
    simp only [hacc, Bool.false_eq_true, if_false, hin, hp, hnn, htn, pushProduction, hpr, ho]
    refine (ih hr _ (steps + 1) fuel ?_ ?_ ?_ (BottomOK_push _ p hb) (by omega)).trans ?_
    · rfl
    · rfl
    · simp [hpt]
    · unfold okOut
      congr 1
      all_goals first | omega | (cases o.trim <;> simp)
  | @e n st inp pt r acts tr cm ptOut p pr hpr hlen _ ih =>
    intro s steps fuel hst hin hpt hb hf
    obtain ⟨fuel, rfl⟩ : ∃ f, fuel = f + 1 := ⟨fuel - 1, by omega⟩
    have hacc := inputAccepted_false (by simp) hb
    have hnl : ¬ (s.ptStack.length < pr.rhsRev.length) := by rw [hpt]; omega
    rw [llLoop, hst]
    simp only [hacc, Bool.false_eq_true, if_false, hpr, hnl]
    refine (ih hr _ (steps + 1) fuel ?_ ?_ ?_ (BottomOK_tail hb) (by omega)).trans ?_
    · rfl
    · exact hin
    · simp [hpt]
    · unfold okOut
      congr 1
      all_goals first | omega | (cases o.trim <;> simp [hpt])

end ParolModel
