import ParolModel.Proofs.LLTreeCheck
import ParolModel.Props.C02
/-! The ghost prediction trace of the LL parser model (C02b).

`llLoopG` / `llRunG` (Model/LLTreeCheck.lean) are `llLoop` / `llRun` with one ghost accumulator that
records every production number handed to `push_production`, in call order.

* `llLoopG_erase`, `llRunG_erase`: erasing the ghost gives `llLoop` / `llRun` back — the instrumented run
  IS the model's run.
* `SDP`: the big-step relation `SD` (Proofs/LLTree.lean) with the prediction list as one more index;
  `llLoopG_SDP`: every successful instrumented run is such a derivation and its ghost is that list;
  `SDP_decompose`: splitting off the declarative parse `DSP` of a marker-free stack prefix.
* `llRunG_tree`: a successful run has a derivation tree whose post-order actions are the recorded
  actions, whose event rendering is the recorded tree and whose PRE-ORDER production list is the ghost
  prediction trace. -/
namespace ParolModel

theorem llLoopG_erase (T : LLTables) (o : Opts) : ∀ (fuel : Nat) (s : LLState) (steps : Nat) (g : List Nat),
    (llLoopG T o fuel s steps g).out = llLoop T o fuel s steps := by
  intro fuel
  induction fuel with
  | zero => intro s steps g; rfl
  | succ fuel ih =>
    intro s steps g
    unfold llLoopG llLoop
    cases hacc : inputAccepted s.stack with
    | true => simp
    | false =>
      simp only [Bool.false_eq_true, if_false]
      cases hst : s.stack with
      | nil => rfl
      | cons x st =>
        cases x with
        | t a =>
          simp only []
          cases hf : firstSig s.input with
          | none => simp only []; split <;> rfl
          | some tok =>
            simp only []
            split
            · exact ih _ _ _
            · rfl
        | n a =>
          simp only []
          cases hp : predict T a s.input with
          | none => rfl
          | some er =>
            cases er with
            | ok p =>
              simp only []
              split
              · rfl
              · split
                · rename_i heq; simp only [heq]; exact ih _ _ _
                · rename_i heq; simp only [heq]
                · rename_i heq; simp only [heq]
            | predictError => rfl
            | assertFail => rfl
        | e p =>
          simp only []
          cases hpr : T.prods[p]? with
          | none => rfl
          | some pr =>
            simp only []
            split
            · rfl
            · exact ih _ _ _

/-- **Erasure**: the instrumented run is the model's run plus the ghost. -/
theorem llRunG_erase (T : LLTables) (o : Opts) (fuel : Nat) (toks : List MTok) :
    (llRunG T o fuel toks).out = llRun T o fuel toks := by
  unfold llRunG llRun
  simp only
  cases hp : predict T T.start toks with
  | none => rfl
  | some er =>
    cases er with
    | ok p =>
      simp only []
      split
      · rfl
      · split
        · rename_i heq; simp only [heq]; exact llLoopG_erase T o fuel _ _ _
        · rename_i heq; simp only [heq]
        · rename_i heq; simp only [heq]
    | predictError => rfl
    | assertFail => rfl

/-- `SD` with the list of predicted productions, in step order. -/
inductive SDP (T : LLTables) : Nat → List PT → List MTok → List PTItem →
    List MTok → List (Nat × List PTItem) → List TreeEv → List Nat → List PTItem → List Nat → Prop
  | done {inp pt} : SDP T 0 [] inp pt inp [] [] [] pt []
  | tok {n a st inp pt rest' r acts tr cm ptOut ps} (tok : MTok) :
      afterSkips inp = tok :: rest' → tok.skip = false → tok.ty = a →
      SDP T n st rest' (.tok tok.id tok.ty :: pt) r acts tr cm ptOut ps →
      SDP T (n + 1) (.t a :: st) inp pt r acts
        ((leadSkips inp).map tokEv ++ tokEv tok :: tr) (commentIds (leadSkips inp) ++ cm) ptOut ps
  | nt {n a st inp pt r acts tr cm ptOut ps} (p : Nat) (pr : LLProd) :
      predict T a inp = some (.ok (Int.ofNat p)) → T.prods[p]? = some pr →
      SDP T n (pr.rhsRev.reverse ++ .e p :: st) inp (.nt pr.lhs :: pt) r acts tr cm ptOut ps →
      SDP T (n + 1) (.n a :: st) inp pt r acts (.open_ (some pr.lhs) :: tr) cm ptOut (p :: ps)
  | e {n st inp pt r acts tr cm ptOut ps} (p : Nat) (pr : LLProd) :
      T.prods[p]? = some pr → pr.rhsRev.length ≤ pt.length →
      SDP T n st inp (pt.drop pr.rhsRev.length) r acts tr cm ptOut ps →
      SDP T (n + 1) (.e p :: st) inp pt r ((p, (pt.take pr.rhsRev.length).reverse) :: acts)
        (.close :: tr) cm ptOut ps

/-- Every successful instrumented run of the loop is an `SDP` derivation; its outputs are the
    accumulated ones followed by what the derivation emits (as in `llLoop_SD`), and its ghost is the
    accumulated ghost followed by the derivation's prediction list. -/
theorem llLoopG_SDP (T : LLTables) (o : Opts) (hne : ∀ pr ∈ T.prods, PT.t 0 ∉ pr.rhsRev) :
    ∀ (fuel : Nat) (s : LLState) (steps : Nat) (g : List Nat) (out : LLOutG), PT.t 0 ∉ s.stack →
    llLoopG T o fuel s steps g = out → out.out.res = .ok →
    ∃ n r acts tr cm ptOut ps, SDP T n s.stack s.input s.ptStack r acts tr cm ptOut ps ∧
      firstSig (afterSkips r) = none ∧
      out.out.actions = s.actions.reverse ++ acts ∧
      out.out.tree =
        s.tree.reverse ++ (if o.trim then [] else tr ++ (leadSkips r).map tokEv) ++ [TreeEv.close] ∧
      out.out.comments = s.comments.reverse ++ cm ++ commentIds (leadSkips r) ∧
      out.preds = g.reverse ++ ps := by
  intro fuel
  induction fuel with
  | zero => intro s steps g out _ h hok; rw [← h] at hok; simp [llLoopG, abort] at hok
  | succ fuel ih =>
    intro s steps g out hno h hok
    unfold llLoopG at h
    split at h
    · rename_i hacc
      have hst : s.stack = [] := by
        rcases (inputAccepted_iff _).1 hacc with h0 | h0
        · exact h0
        · rw [h0] at hno; simp at hno
      rw [← h] at hok
      obtain ⟨hf, heq⟩ := finish_ok_out o s steps hok
      rw [heq] at h
      refine ⟨0, s.input, [], [], [], s.ptStack, [], by rw [hst]; exact .done, hf, ?_, ?_, ?_, ?_⟩
      · rw [← h]; simp
      · rw [← h]; cases o.trim <;> simp
      · rw [← h]; simp
      · rw [← h]; simp
    · rename_i hacc
      split at h
      · rename_i hs
        exact absurd ((inputAccepted_iff _).2 (Or.inl hs)) hacc
      · -- terminal
        rename_i a st hs
        split at h
        · rename_i tok hf
          split at h
          · rename_i hty
            obtain ⟨rest', hrest, hskip⟩ := afterSkips_firstSig hf
            rw [drainSkips_eq] at h
            simp only [hrest, List.drop_one, List.tail_cons] at h
            have hno' : PT.t 0 ∉ st := by rw [hs] at hno; exact fun hm => hno (List.mem_cons_of_mem _ hm)
            obtain ⟨n, r, acts, tr, cm, ptOut, ps, hsd, hf', ha, ht, hc, hg⟩ := ih _ _ _ out hno' h hok
            simp only at hsd ha ht hc
            refine ⟨n + 1, r, acts, _, _, ptOut, ps, by rw [hs]; exact SDP.tok tok hrest hskip hty hsd, hf',
              ?_, ?_, ?_, hg⟩
            · rw [ha]
            · rw [ht]; cases o.trim <;> simp [tokEv]
            · rw [hc]; simp
          · rw [← h] at hok; exact absurd hok (finish_err_res _ _ _ _)
        · split at h
          · rw [← h] at hok; simp [abort_res] at hok
          · rw [← h] at hok; exact absurd hok (finish_err_res _ _ _ _)
      · -- non-terminal
        rename_i a st hs
        split at h
        · rename_i p hp
          split at h
          · rw [← h] at hok; simp [abort_res] at hok
          · rename_i hpos
            split at h
            · rename_i s' hpush
              obtain ⟨pr, hpr, hst', hin', _⟩ := pushProduction_spec hpush
              obtain ⟨hf1, hf2, hf3, hf4⟩ := pushProduction_fields hpr hpush
              simp only at hst' hin' hf1 hf2 hf3 hf4
              have hno' : PT.t 0 ∉ s'.stack := by
                rw [hst']
                intro hm
                rcases List.mem_append.1 hm with hm | hm
                · exact hne pr (List.mem_of_getElem? hpr) (by simpa using hm)
                · rcases List.mem_cons.1 hm with hm | hm
                  · cases hm
                  · rw [hs] at hno; exact hno (List.mem_cons_of_mem _ hm)
              obtain ⟨n, r, acts, tr, cm, ptOut, ps, hsd, hf', ha, ht, hc, hg⟩ := ih s' _ _ out hno' h hok
              rw [hst', hin', hf1] at hsd
              have hpn : p = Int.ofNat p.toNat := by
                have : (p.toNat : Int) = p := Int.toNat_of_nonneg (by omega)
                exact this.symm
              refine ⟨n + 1, r, acts, _, cm, ptOut, p.toNat :: ps,
                by rw [hs]; exact SDP.nt p.toNat pr (by rw [← hpn]; exact hp) hpr hsd, hf', ?_, ?_, ?_, ?_⟩
              · rw [ha, hf2]
              · rw [ht, hf4]; cases o.trim <;> simp
              · rw [hc, hf3]
              · rw [hg]; simp
            · rename_i s' r hpush
              obtain ⟨_, _, _, _, hr⟩ := pushProduction_spec hpush
              rw [← h] at hok; simp only [abort_res] at hok
              exact absurd (by rw [hok]) hr
            · rw [← h] at hok; simp [abort_res] at hok
        · rw [← h] at hok; exact absurd hok (finish_err_res _ _ _ _)
        · rw [← h] at hok; simp [abort_res] at hok
      · -- end-of-production marker
        rename_i p st hs
        split at h
        · rw [← h] at hok; simp [abort_res] at hok
        · rename_i pr hpr
          simp only [] at h
          by_cases hlen : s.ptStack.length < pr.rhsRev.length
          · rw [if_pos hlen] at h
            rw [← h] at hok; simp [abort_res] at hok
          · rw [if_neg hlen] at h
            have hno' : PT.t 0 ∉ st := by rw [hs] at hno; exact fun hm => hno (List.mem_cons_of_mem _ hm)
            obtain ⟨n, r, acts, tr, cm, ptOut, ps, hsd, hf', ha, ht, hc, hg⟩ := ih _ _ _ out hno' h hok
            simp only at hsd ha ht hc
            refine ⟨n + 1, r, _, _, cm, ptOut, ps, by rw [hs]; exact SDP.e p pr hpr (by omega) hsd, hf',
              ?_, ?_, ?_, hg⟩
            · rw [ha]; simp
            · rw [ht]; cases o.trim <;> simp
            · rw [hc]

theorem DSP_items_length {T : LLTables} {syms inp r acts tr cm items ps}
    (h : DSP T syms inp r acts tr cm items ps) : items.length = syms.length :=
  DS_items_length h.toDS

/-- Splitting an `SDP` derivation of `syms ++ rest` (with `syms` free of end-of-production markers)
    into the declarative parse of `syms` and the `SDP` derivation of `rest`; the prediction list
    splits accordingly. -/
theorem SDP_decompose (T : LLTables)
    (hwf : ∀ pr ∈ T.prods, ∀ x ∈ pr.rhsRev, PT.isE x = false) :
    ∀ (n : Nat) (syms rest : List PT) (inp : List MTok) (pt : List PTItem) (r : List MTok)
      (acts : List (Nat × List PTItem)) (tr : List TreeEv) (cm : List Nat) (ptOut : List PTItem)
      (ps : List Nat),
    (∀ x ∈ syms, PT.isE x = false) →
    SDP T n (syms ++ rest) inp pt r acts tr cm ptOut ps →
    ∃ n2 mid acts1 acts2 tr1 tr2 cm1 cm2 items ps1 ps2, n2 ≤ n ∧
      DSP T syms inp mid acts1 tr1 cm1 items ps1 ∧
      SDP T n2 rest mid (items.reverse ++ pt) r acts2 tr2 cm2 ptOut ps2 ∧
      acts = acts1 ++ acts2 ∧ tr = tr1 ++ tr2 ∧ cm = cm1 ++ cm2 ∧ ps = ps1 ++ ps2 := by
  intro n
  induction n using Nat.strongRecOn with
  | _ n ih =>
    intro syms rest inp pt r acts tr cm ptOut ps hsyms hsd
    cases syms with
    | nil =>
      exact ⟨n, inp, [], acts, [], tr, [], cm, [], [], ps, Nat.le_refl _, .nil, by simpa using hsd,
        rfl, rfl, rfl, rfl⟩
    | cons x ss =>
      have hss : ∀ y ∈ ss, PT.isE y = false := fun y hy => hsyms y (List.mem_cons_of_mem _ hy)
      generalize hstk : (x :: ss) ++ rest = stk at hsd
      cases hsd with
      | done => cases hstk
      | @tok n' a st _ _ rest' _ _ tr' cm' _ _ tok hrest hskip hty hsd' =>
        simp only [List.cons_append, List.cons.injEq] at hstk
        obtain ⟨hx, hst⟩ := hstk
        subst hx; subst hst
        obtain ⟨n2, mid, acts1, acts2, tr1, tr2, cm1, cm2, items, ps1, ps2, hle, hds, hsd2, ha, ht, hc, hp⟩ :=
          ih n' (Nat.lt_succ_self _) ss rest rest' _ r acts tr' cm' ptOut ps hss hsd'
        refine ⟨n2, mid, acts1, acts2, _, tr2, _, cm2, _, ps1, ps2, by omega,
          DSP.tok tok hrest hskip hty hds, ?_, ha, ?_, ?_, hp⟩
        · simpa using hsd2
        · rw [ht]; simp
        · rw [hc]; simp
      | @nt n' a st _ _ _ _ tr' _ _ ps' p pr hp hpr hsd' =>
        simp only [List.cons_append, List.cons.injEq] at hstk
        obtain ⟨hx, hst⟩ := hstk
        subst hx; subst hst
        have hrhs : ∀ y ∈ pr.rhsRev.reverse, PT.isE y = false := by
          intro y hy
          exact hwf pr (List.mem_of_getElem? hpr) y (by simpa using hy)
        obtain ⟨n2, mid1, acts1, actsR, tr1, trR, cm1, cmR, items1, ps1, psR, hle1, hds1, hsdR, ha1, ht1, hc1, hp1⟩ :=
          ih n' (Nat.lt_succ_self _) pr.rhsRev.reverse (.e p :: (ss ++ rest)) inp _ r acts tr' cm ptOut ps' hrhs hsd'
        -- invert the end-of-production step
        generalize hstk2 : PT.e p :: (ss ++ rest) = stk2 at hsdR
        cases hsdR with
        | done => cases hstk2
        | tok _ _ _ _ _ => cases hstk2
        | nt _ _ _ _ _ => cases hstk2
        | @e n3 st3 _ _ _ actsE trE _ _ _ p' pr' hpr' hlen hsd3 =>
          simp only [List.cons.injEq, PT.e.injEq] at hstk2
          obtain ⟨hp', hst3⟩ := hstk2
          subst hp'; subst hst3
          have hprr : pr' = pr := by rw [hpr] at hpr'; injection hpr' with h; exact h.symm
          subst hprr
          have hl : items1.length = pr'.rhsRev.length := by
            rw [DSP_items_length hds1]; simp
          have htake : ((items1.reverse ++ PTItem.nt pr'.lhs :: pt).take pr'.rhsRev.length).reverse = items1 := by
            rw [← hl, ← List.length_reverse, List.take_left]; simp
          have hdrop : (items1.reverse ++ PTItem.nt pr'.lhs :: pt).drop pr'.rhsRev.length = PTItem.nt pr'.lhs :: pt := by
            rw [← hl, ← List.length_reverse, List.drop_left]
          rw [hdrop] at hsd3
          rw [htake] at ha1
          obtain ⟨n4, mid2, acts2a, acts2b, tr2a, tr2b, cm2a, cm2b, items2, ps2a, ps2b, hle2, hds2, hsd4, ha2, ht2, hc2, hp2⟩ :=
            ih n3 (by omega) ss rest mid1 _ r actsE trE cmR ptOut psR hss hsd3
          refine ⟨n4, mid2, acts1 ++ (p, items1) :: acts2a, acts2b, _, tr2b, cm1 ++ cm2a, cm2b, _,
            p :: ps1 ++ ps2a, ps2b, by omega, DSP.nt p pr' hp hpr hds1 hds2, ?_, ?_, ?_, ?_, ?_⟩
          · simpa using hsd4
          · rw [ha1, ha2]; simp
          · rw [ht1, ht2]; simp
          · rw [hc1, hc2]; simp
          · rw [hp1, hp2]; simp
      | e p pr hpr hlen hsd' =>
        simp only [List.cons_append, List.cons.injEq] at hstk
        obtain ⟨hx, _⟩ := hstk
        subst hx
        have := hsyms (.e p) List.mem_cons_self
        simp [PT.isE] at this

/-- **The run builds a tree, reports its post-order and predicts its pre-order.** A successful
    instrumented run has a derivation tree `d = node p start kids` of `gOf T` (with the skipped tokens
    attached as non-counting leaves) and trailing skipped tokens `post` such that: the leaves of `d`
    followed by `post` are the input; the recorded actions are the post-order action list of `d`; the
    recorded tree (untrimmed) is `root( d, post )`; and the ghost prediction trace is the pre-order
    production list of `d`. -/
theorem llRunG_tree (T : LLTables) (o : Opts) (fuel : Nat) (toks : List MTok)
    (hT : TablesSound T) (hwf : ∀ pr ∈ T.prods, ∀ x ∈ pr.rhsRev, PT.isE x = false)
    (h : (llRunG T o fuel toks).out.res = .ok) :
    ∃ (p : Nat) (kids : List DTree) (post : List MTok),
      (DTree.node p T.start kids).wf (gOf T).prods = true ∧
      (∀ t ∈ post, t.skip = true) ∧
      (DTree.node p T.start kids).leaves ++ post = toks ∧
      (llRunG T o fuel toks).out.actions = (DTree.node p T.start kids).postActs ∧
      (llRunG T o fuel toks).out.tree =
        (if o.trim then [TreeEv.open_ none, .close]
         else .open_ none :: (DTree.node p T.start kids).events ++ post.map tokEvOf ++ [.close]) ∧
      (llRunG T o fuel toks).preds = (DTree.node p T.start kids).preProds := by
  generalize hout : llRunG T o fuel toks = out at h ⊢
  unfold llRunG at hout
  simp only at hout
  split at hout
  · rename_i p hp
    split at hout
    · rw [← hout] at h; simp [abort_res] at h
    · rename_i hpos
      split at hout
      · rename_i s hpush
        obtain ⟨pr, hpr, hst, hin, _⟩ := pushProduction_spec hpush
        obtain ⟨hf1, hf2, hf3, hf4⟩ := pushProduction_fields hpr hpush
        simp only at hst hin hf1 hf2 hf3 hf4
        have hno : PT.t 0 ∉ s.stack := by
          rw [hst]
          intro hm
          rcases List.mem_append.1 hm with hm | hm
          · exact hT.no_eoi pr (List.mem_of_getElem? hpr) (by simpa using hm)
          · simp at hm
        obtain ⟨n, r, acts, tr, cm, ptOut, ps, hsd, hf', ha, ht, hc, hg⟩ :=
          llLoopG_SDP T o hT.no_eoi fuel s 0 _ out hno hout h
        rw [hst, hin, hf1] at hsd
        have hrhs : ∀ y ∈ pr.rhsRev.reverse, PT.isE y = false := by
          intro y hy
          exact hwf pr (List.mem_of_getElem? hpr) y (by simpa using hy)
        obtain ⟨n2, mid, acts1, acts2, tr1, tr2, cm1, cm2, items, ps1, ps2, _, hds, hsd2, ha2, ht2, hc2, hp2⟩ :=
          SDP_decompose T hwf n pr.rhsRev.reverse [.e p.toNat] toks _ r acts tr cm ptOut ps hrhs hsd
        -- invert the final end-of-production step and `done`
        generalize hstk : [PT.e p.toNat] = stk at hsd2
        cases hsd2 with
        | done => cases hstk
        | tok _ _ _ _ _ => cases hstk
        | nt _ _ _ _ _ => cases hstk
        | @e n3 st3 _ _ _ actsE trE _ _ _ p' pr' hpr' hlen hsd3 =>
          simp only [List.cons.injEq, PT.e.injEq] at hstk
          obtain ⟨hp', hst3⟩ := hstk
          subst hp'; subst hst3
          have hprr : pr' = pr := by rw [hpr] at hpr'; injection hpr' with h; exact h.symm
          subst hprr
          generalize hnil : ([] : List PT) = stk0 at hsd3
          cases hsd3 with
          | tok _ _ _ _ _ => cases hnil
          | nt _ _ _ _ _ => cases hnil
          | e _ _ _ _ _ => cases hnil
          | done =>
            have hl : items.length = pr'.rhsRev.length := by rw [DSP_items_length hds]; simp
            have htake : ((items.reverse ++ [PTItem.nt pr'.lhs]).take pr'.rhsRev.length).reverse = items := by
              rw [← hl, ← List.length_reverse, List.take_left]; simp
            rw [htake] at ha2
            obtain ⟨hr1, hr2⟩ := onlySkips_of_noSig hf'
            have hlhs : pr'.lhs = T.start := by
              unfold predict at hp
              cases hd : T.dfas[T.start]? with
              | none => simp [hd] at hp
              | some d =>
                simp only [hd, Option.some.injEq] at hp
                obtain ⟨hfrom, hgt⟩ := eval_ok_from d true _ p hp
                exact hT.lhs_ok T.start d hd p hfrom hgt pr' hpr
            obtain ⟨ks, hev, hac, hit, hsy, hlv, hkwf, hpre⟩ := DSP_forest T hT hds
            refine ⟨p.toNat, ks, r, ?_, hr2, ?_, ?_, ?_, ?_⟩
            · rw [DTree.wf_node]
              refine ⟨hkwf, ?_⟩
              rw [ProdApp.ok_iff]
              refine ⟨ruleOf pr', by simp [gOf, List.getElem?_map, hpr], hlhs, ?_⟩
              simp only [ProdApp.syms, hsy, ruleOf]
            · rw [DTree.leaves_node]; exact hlv
            · rw [ha, hf2, ha2]
              simp [DTree.postActs, DTree.nodes_node, hac, ProdApp.action, hit]
            · rw [ht, hf4, ht2, ← hr1]
              cases o.trim <;> simp [DTree.events_node, hev, hlhs, tokEv_eq_tokEvOf]
            · rw [hg, hp2]
              simp [DTree.preProds, DTree.preNodes_node, hpre]
      · rename_i s r hpush
        obtain ⟨_, _, _, _, hr⟩ := pushProduction_spec hpush
        rw [← hout] at h
        simp only [abort_res] at h
        exact absurd (by rw [h]) hr
      · rw [← hout] at h; simp [abort_res] at h
  · rw [← hout] at h; simp [abort_res] at h
  · rw [← hout] at h; simp [abort_res] at h

end ParolModel
