import ParolModel.Proofs.TerminalsBits
/-! # L7 refinement basics: well-formedness, the bridge from the model's `Nat` shift amounts to the
`BitVec 8` offsets of `Proofs/TerminalsBits.lean`, and the characterisation of `abs`.
Only the three standard axioms are used *in this file's own steps*; the imported bit-level lemmas
carry their `bv_decide` axioms. -/
namespace ParolModel
namespace Tm

/-- **Well-formedness**: 1 ≤ bits ≤ 12, len ≤ 10, and the payload above `len·bits` is zero. -/
structure WF (t : BitVec 128) : Prop where
  bits_pos : 1 ≤ (bits t).toNat
  bits_le : (bits t).toNat ≤ 12
  len_le : len t ≤ 10
  zero : (t &&& PAYLOAD) >>> (len t * (bits t).toNat) = 0#128

/-- bit offset of field `i` as a `u8` -/
def off (t : BitVec 128) (i : Nat) : BitVec 8 := BitVec.ofNat 8 (i * (bits t).toNat)

theorem mul_succ_le {i j b : Nat} (h : i < j) : i * b + b ≤ j * b := by
  have := Nat.mul_le_mul_right b (Nat.succ_le_of_lt h)
  rwa [Nat.succ_mul] at this

theorem mul_le_120 {t : BitVec 128} (h : WF t) {i : Nat} (hi : i ≤ 10) : i * (bits t).toNat ≤ 120 := by
  have := Nat.mul_le_mul hi h.bits_le
  omega

theorem off_toNat {t : BitVec 128} (h : WF t) {i : Nat} (hi : i ≤ 10) : (off t i).toNat = i * (bits t).toNat := by
  have := mul_le_120 h hi
  simp only [off, BitVec.toNat_ofNat]
  omega

theorem off_congr {t u : BitVec 128} (h : bits t = bits u) (i : Nat) : off t i = off u i := by
  simp only [off, h]

theorem off_zero (t : BitVec 128) : off t 0 = 0 := by simp [off]

theorem off_succ (t : BitVec 128) (i : Nat) : off t (i + 1) = off t i + bits t := by
  apply BitVec.eq_of_toNat_eq
  simp only [off, BitVec.toNat_ofNat, BitVec.toNat_add, Nat.succ_mul]
  omega

theorem off_add (t : BitVec 128) (i j : Nat) : off t (i + j) = off t i + off t j := by
  apply BitVec.eq_of_toNat_eq
  simp only [off, BitVec.toNat_ofNat, BitVec.toNat_add, Nat.add_mul]
  omega

theorem bits_le12 {t : BitVec 128} (h : WF t) : bits t ≤ 12 := by
  have := h.bits_le; bv_omega
theorem bits_ge1 {t : BitVec 128} (h : WF t) : 1 ≤ bits t := by
  have := h.bits_pos; bv_omega

theorem off_le_108 {t : BitVec 128} (h : WF t) {i : Nat} (hi : i < 10) : off t i ≤ 108 := by
  have h1 := off_toNat h (Nat.le_of_lt hi)
  have h2 : i * (bits t).toNat ≤ 9 * 12 := Nat.mul_le_mul (by omega) h.bits_le
  bv_omega
theorem off_le_120 {t : BitVec 128} (h : WF t) {i : Nat} (hi : i ≤ 10) : off t i ≤ 120 := by
  have h1 := off_toNat h hi
  have h2 := mul_le_120 h hi
  bv_omega
theorem off_add_bits_le {t : BitVec 128} (h : WF t) {i j : Nat} (hij : i < j) (hj : j ≤ 10) : off t i + bits t ≤ off t j := by
  have h1 := off_toNat h (show i ≤ 10 by omega)
  have h2 := off_toNat h hj
  have h3 := mul_le_120 h hj
  have h4 := mul_succ_le (b := (bits t).toNat) hij
  bv_omega
theorem off_add_bits_le_120 {t : BitVec 128} (h : WF t) {i : Nat} (hi : i < 10) : off t i + bits t ≤ 120 := by
  have h1 := off_add_bits_le h (show i < i + 1 by omega) (show i + 1 ≤ 10 by omega)
  have h2 := off_le_120 h (show i + 1 ≤ 10 by omega)
  bv_omega

/-! ## shifts by `Nat` amounts are shifts by `u8` amounts -/

theorem shr_nat (x : BitVec 128) (n : Nat) (h : n < 256) : x >>> n = x >>> BitVec.ofNat 8 n := by
  rw [BitVec.ushiftRight_eq' x (BitVec.ofNat 8 n), BitVec.toNat_ofNat, Nat.mod_eq_of_lt h]
theorem shl_nat (x : BitVec 128) (n : Nat) (h : n < 256) : x <<< n = x <<< BitVec.ofNat 8 n := by
  rw [BitVec.shiftLeft_eq' (x := x) (y := BitVec.ofNat 8 n), BitVec.toNat_ofNat, Nat.mod_eq_of_lt h]

theorem mask_eq (t : BitVec 128) : mask t = maskS (bits t) := rfl

theorem rawGet_eq {t : BitVec 128} (h : WF t) {i : Nat} (hi : i ≤ 10) : rawGet t i = eltS t (bits t) (off t i) := by
  have := mul_le_120 h hi
  simp only [rawGet, eltS, off, mask_eq]
  rw [shr_nat _ _ (by omega)]

theorem wf_zeroAbove {t : BitVec 128} (h : WF t) : zeroAbove t (off t (len t)) := by
  have := mul_le_120 h h.len_le
  simp only [zeroAbove, off]
  rw [← shr_nat _ _ (by omega)]
  exact h.zero

theorem wf_of_zeroAbove {t : BitVec 128} (h1 : 1 ≤ (bits t).toNat) (h2 : (bits t).toNat ≤ 12) (h3 : len t ≤ 10)
    (hz : zeroAbove t (off t (len t))) : WF t := by
  refine ⟨h1, h2, h3, ?_⟩
  have : len t * (bits t).toNat ≤ 120 := by have := Nat.mul_le_mul h3 h2; omega
  simp only [zeroAbove, off] at hz
  rw [← shr_nat _ _ (by omega)] at hz
  exact hz

theorem zeroAbove_congr {t u : BitVec 128} (h : t &&& PAYLOAD = u &&& PAYLOAD) (s : BitVec 8) :
    zeroAbove t s ↔ zeroAbove u s := by
  simp only [zeroAbove, h]

theorem eltS_congr {t u : BitVec 128} (h : t &&& PAYLOAD = u &&& PAYLOAD) (b s : BitVec 8) (hb : b ≤ 12) (hs : s ≤ 108)
    (hsb : s + b ≤ 120) : eltS t b s = eltS u b s := by
  rw [eltS_payload t b s hb hs hsb, eltS_payload u b s hb hs hsb, h]

/-! ## decidable well-formedness -/

theorem MAX_K_eq : MAX_K = 10 := rfl
theorem MAX_BITS_eq : MAX_BITS = 12 := by decide

theorem wfb_iff (t : BitVec 128) : wfb t = true ↔ WF t := by
  unfold wfb
  rw [MAX_BITS_eq, MAX_K_eq]
  simp only [Bool.and_eq_true, decide_eq_true_eq, beq_iff_eq]
  constructor
  · rintro ⟨⟨⟨h1, h2⟩, h3⟩, h4⟩; exact ⟨h1, by omega, by omega, h4⟩
  · intro h; exact ⟨⟨⟨h.bits_pos, by have := h.bits_le; omega⟩, by have := h.len_le; omega⟩, h.zero⟩

/-! ## `abs` -/

/-- the symbol at position `i` -/
def symAt (t : BitVec 128) (i : Nat) : TSym := symOfRaw (mask t) (rawGet t i)

theorem abs_def (t : BitVec 128) : abs t = (List.range (len t)).map (symAt t) := rfl

@[simp] theorem abs_length (t : BitVec 128) : (abs t).length = len t := by simp [abs]

theorem abs_getElem (t : BitVec 128) (i : Nat) (h : i < (abs t).length) : (abs t)[i] = symAt t i := by
  simp [abs, symAt]

theorem abs_getElem? (t : BitVec 128) (i : Nat) : (abs t)[i]? = if i < len t then some (symAt t i) else none := by
  by_cases h : i < len t
  · rw [List.getElem?_eq_getElem (by simpa using h), abs_getElem]; simp [h]
  · rw [List.getElem?_eq_none (by simpa using h)]; simp [h]

/-- two ways to establish what a word denotes -/
theorem abs_eq_of (t : BitVec 128) (l : List TSym) (hlen : len t = l.length)
    (h : ∀ i (hi : i < l.length), symAt t i = l[i]) : abs t = l := by
  apply List.ext_getElem (by simp [hlen])
  intro i h1 h2
  rw [abs_getElem]; exact h i h2

theorem symAt_eq {t : BitVec 128} (h : WF t) {i : Nat} (hi : i ≤ 10) :
    symAt t i = symOfRaw (maskS (bits t)) (eltS t (bits t) (off t i)) := by
  simp only [symAt, rawGet_eq h hi, mask_eq]

/-- the symbol at `i` only depends on the width and the field -/
theorem symAt_congr {t u : BitVec 128} (ht : WF t) (hu : WF u) {i j : Nat} (hi : i ≤ 10) (hj : j ≤ 10)
    (hb : bits t = bits u) (he : eltS t (bits t) (off t i) = eltS u (bits u) (off u j)) : symAt t i = symAt u j := by
  rw [symAt_eq ht hi, symAt_eq hu hj, he, hb]

theorem symOfRaw_inj (m v w : BitVec 128) (h : symOfRaw m v = symOfRaw m w) : v = w := by
  unfold symOfRaw at h
  by_cases hv : v = m <;> by_cases hw : w = m <;> simp [hv, hw] at h
  · rw [hv, hw]
  · exact BitVec.eq_of_toNat_eq h

theorem len_eq_zero_iff (t : BitVec 128) : len t = 0 ↔ nextIndex t = 0 := by
  simp only [len]; constructor
  · intro h; exact BitVec.eq_of_toNat_eq (by simpa using h)
  · intro h; simp [h]

theorem isEmpty_iff (t : BitVec 128) : isEmpty t = true ↔ len t = 0 := by
  simp [isEmpty, len_eq_zero_iff]

theorem len_le_15 (t : BitVec 128) : len t ≤ 15 := by
  have := nextIndex_le t
  simp only [len]; bv_omega

end Tm
end ParolModel
