import ParolModel.Proofs.LaCompile
import ParolModel.Proofs.LaBuild
/-! Proofs (C07), part 3a: the edge list of a `LookaheadDFA` stays strictly sorted; a trie whose
annotation is prefix-free and in which every state is a prefix of an annotated word compiles to an
automaton satisfying `CompiledOk` (the hypotheses of the minimisation theorems). -/
namespace ParolModel

def edgeLtP (a b : Edge) : Prop := a.src < b.src ∨ (a.src = b.src ∧ a.term < b.term)

/-- `BTreeMap` order of the transitions. -/
def ES (l : List Edge) : Prop := l.Pairwise edgeLtP

theorem edgeLtP_trans {a b c : Edge} (h1 : edgeLtP a b) (h2 : edgeLtP b c) : edgeLtP a c := by
  unfold edgeLtP at *; omega

theorem lkp_none_iff {l : List Edge} {s t : Nat} : lkp l s t = none ↔ ∀ x ∈ l, ¬ (x.src = s ∧ x.term = t) := by
  unfold lkp
  rw [Option.map_eq_none_iff, List.find?_eq_none]
  simp

theorem ES.insert {l : List Edge} (h : ES l) {e : Edge} (hn : lkp l e.src e.term = none) : ES (insertEdge e l) := by
  have hne := lkp_none_iff.1 hn
  clear hn
  induction l with
  | nil => simp [ES, insertEdge]
  | cons x xs ih =>
    unfold ES at h ih ⊢
    simp only [List.pairwise_cons] at h
    simp only [insertEdge]
    split
    · rename_i hlt
      have hex : edgeLtP e x := by
        simp only [edgeLt, Bool.or_eq_true, decide_eq_true_eq, Bool.and_eq_true, beq_iff_eq] at hlt
        exact hlt
      refine List.Pairwise.cons ?_ (List.pairwise_cons.2 h)
      intro y hy
      rcases List.mem_cons.1 hy with rfl | hy
      · exact hex
      · exact edgeLtP_trans hex (h.1 y hy)
    · rename_i hlt
      have hxe : edgeLtP x e := by
        have := hne x List.mem_cons_self
        simp only [edgeLt, Bool.or_eq_true, decide_eq_true_eq, Bool.and_eq_true, beq_iff_eq] at hlt
        unfold edgeLtP
        omega
      refine List.Pairwise.cons ?_ (ih h.2 (fun y hy => hne y (List.mem_cons_of_mem _ hy)))
      intro y hy
      rcases (mem_insertEdge e y xs).1 hy with rfl | hy
      · exact hxe
      · exact h.1 y hy

theorem ES.addTransition {d : LDfa} (h : ES d.trans) (s t : Nat) : ES (addTransition d s t).1.trans := by
  cases hl : lkp d.trans s t with
  | some dst => rw [addTransition_some hl]; exact h
  | none => rw [addTransition_none hl]; exact h.insert (e := ⟨s, t, d.prods.length⟩) hl

theorem ES.addPath : ∀ (ts : List Nat) {d : LDfa}, ES d.trans → ∀ cur, ES (addPath d cur ts).1.trans := by
  intro ts
  induction ts with
  | nil => intro d h cur; exact h
  | cons t ts ih =>
    intro d h cur
    simp only [ParolModel.addPath]
    exact ih (h.addTransition cur t) _

theorem ES.addTuple {d : LDfa} (h : ES d.trans) (p : Int) (t : Tuple) : ES (addTuple p d t).trans := by
  simp only [ParolModel.addTuple]
  exact ES.addPath t h 0

theorem ES.foldl_addTuple (p : Int) : ∀ (ts : List Tuple) {d : LDfa}, ES d.trans → ES (ts.foldl (ParolModel.addTuple p) d).trans := by
  intro ts
  induction ts with
  | nil => intro d h; exact h
  | cons t ts ih => intro d h; exact ih (h.addTuple p t)

theorem ES.fromKTuples (k : Nat) (S : List Tuple) (p : Nat) : ES (fromKTuples k S p).trans := by
  unfold ParolModel.fromKTuples
  exact ES.foldl_addTuple _ _ (by simp [ES, LDfa.init])

theorem sorted_compileRaw {d : LDfa} (h : ES d.trans) : sortedTrans (compileRaw d).trans = true := by
  rw [sortedTrans_iff_pairwise]
  simp only [compileRaw, List.pairwise_map]
  exact h.imp (fun hlt => hlt)

/-- Changing the annotation of one state. -/
theorem setProd_inv {d : LDfa} {label : Nat → List Nat} {M : List Nat → Int} (h : TrieInv d label M)
    {r : Nat} (hr : r < d.prods.length) (v : Int) (k' : Nat) :
    TrieInv { d with prods := d.prods.set r v, k := k' } label (fun w => if w = label r then v else M w) := by
  have hrun : ∀ (w : List Nat) (s : Nat), runL { d with prods := d.prods.set r v, k := k' } s w = runL d s w := by
    intro w
    induction w with
    | nil => intro s; rfl
    | cons a as ih =>
      intro s
      simp only [runL]
      cases lkp d.trans s a with
      | none => rfl
      | some s' => exact ih s'
  refine ⟨by simpa using h.pos, h.label0, ?_, ?_, ?_, ?_⟩
  · intro e he
    simpa using h.edge e he
  · intro s hs
    rw [hrun]
    exact h.reach s (by simpa using hs)
  · intro s hs
    have hs' : s < d.prods.length := by simpa using hs
    simp only
    by_cases hsr : s = r
    · subst hsr
      simp [hs']
    · have hne : label s ≠ label r := fun he => hsr (h.label_inj hs' hr he)
      rw [List.getElem?_set_ne (Ne.symm hsr)]
      simp only [hne, if_false]
      exact h.prods s hs'
  · intro w hw
    by_cases hwt : w = label r
    · exact ⟨r, by simpa using hr, hwt.symm⟩
    · simp only [hwt, if_false] at hw
      obtain ⟨s, hs, he⟩ := h.supp w hw
      exact ⟨s, by simpa using hs, he⟩

theorem TrieInv.congr_M {d : LDfa} {label : Nat → List Nat} {M M' : List Nat → Int} (h : TrieInv d label M)
    (he : ∀ w, M' w = M w) : TrieInv d label M' := by
  have : M' = M := funext he
  rw [this]; exact h

theorem TrieInv.set_k {d : LDfa} {label : Nat → List Nat} {M : List Nat → Int} (h : TrieInv d label M) (k' : Nat) :
    TrieInv { d with k := k' } label M := by
  have hrun : ∀ (w : List Nat) (s : Nat), runL { d with k := k' } s w = runL d s w := by
    intro w
    induction w with
    | nil => intro s; rfl
    | cons a as ih =>
      intro s
      simp only [runL]
      cases lkp d.trans s a with
      | none => rfl
      | some s' => exact ih s'
  exact ⟨h.pos, h.label0, h.edge, fun s hs => by rw [hrun]; exact h.reach s hs, h.prods, h.supp⟩

theorem annot_ne {d : LDfa} {label : Nat → List Nat} {M : List Nat → Int} (h : TrieInv d label M)
    {s : Nat} (hs : s < d.prods.length) (hne : annot d.prods s ≠ -1) : M (label s) ≠ -1 := by
  unfold annot at hne
  rw [h.prods s hs] at hne
  simp only at hne
  intro he
  rw [he] at hne
  simp at hne

/-- A live, prefix-free trie compiles to an automaton on which minimisation is correct. -/
theorem compiledOk_of_trie {d : LDfa} {label : Nat → List Nat} {M : List Nat → Int} (h : TrieInv d label M)
    (hes : ES d.trans)
    (hlive : ∀ s, s < d.prods.length → ∃ u, M (label s ++ u) ≠ -1)
    (hpf : ∀ w u, M w ≠ -1 → M (w ++ u) ≠ -1 → u = []) : CompiledOk (compileRaw d) := by
  have hmem : ∀ t ∈ (compileRaw d).trans, ∃ e ∈ d.trans, t = ⟨e.src, e.term, e.dst, annot d.prods e.dst⟩ := by
    intro t ht
    simp only [compileRaw, List.mem_map] at ht
    obtain ⟨e, he, rfl⟩ := ht
    exact ⟨e, he, rfl⟩
  -- no edge leaves an annotated state
  have hleaf : ∀ s, s < d.prods.length → M (label s) ≠ -1 → ∀ e ∈ d.trans, e.src ≠ s := by
    intro s hs hm e he hsrc
    obtain ⟨_, h2, h3⟩ := h.edge e he
    obtain ⟨v, hv⟩ := hlive e.dst h2
    rw [h3, hsrc, List.append_assoc] at hv
    have := hpf (label s) ([e.term] ++ v) hm hv
    simp at this
  refine ⟨sorted_compileRaw hes, ?_, ?_, ?_, ?_⟩
  · intro t1 h1 t2 h2 hd
    obtain ⟨e1, _, rfl⟩ := hmem t1 h1
    obtain ⟨e2, _, rfl⟩ := hmem t2 h2
    simp only at hd ⊢
    rw [hd]
  · intro t ht
    obtain ⟨e, he, rfl⟩ := hmem t ht
    simp only
    intro h0
    obtain ⟨_, _, h3⟩ := h.edge e he
    rw [h0, h.label0] at h3
    simp at h3
  · intro t ht hp u hu
    obtain ⟨e, he, rfl⟩ := hmem t ht
    obtain ⟨e', he', rfl⟩ := hmem u hu
    simp only at hp ⊢
    obtain ⟨_, h2, _⟩ := h.edge e he
    exact hleaf e.dst h2 (annot_ne h h2 hp) e' he'
  · intro hp u hu
    obtain ⟨e', he', rfl⟩ := hmem u hu
    simp only
    rw [compileRaw_prod0] at hp
    exact hleaf 0 h.pos (annot_ne h h.pos hp) e' he'

end ParolModel
