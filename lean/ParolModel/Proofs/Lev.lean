import ParolModel.Model.Lev
/-! Proofs about the Levenshtein model (C31). -/
namespace ParolModel

theorem dist_nil_nil : dist [] [] = 0 := by simp [dist, cell]
theorem dist_nil_cons (y ys) : dist [] (y :: ys) = ys.length + 1 := by simp [dist, cell]
theorem dist_cons_nil (x xs) : dist (x :: xs) [] = xs.length + 1 := by simp [dist, cell]
theorem dist_nil_left (ys) : dist [] ys = ys.length := by cases ys <;> simp [dist, cell]
theorem dist_nil_right (xs) : dist xs [] = xs.length := by cases xs <;> simp [dist, cell]

theorem dist_cons_cons (x xs y ys) :
    dist (x :: xs) (y :: ys) =
      if x = y then dist xs ys
      else min (min (dist xs (y :: ys) + 1) (dist (x :: xs) ys + 1)) (dist xs ys + 1) := by
  unfold dist
  rw [cell]
  split
  · rfl
  · simp only
    split <;> split <;> simp only [] <;> omega

/-- Valid scripts on reversed data, in backtracking order. -/
inductive ScriptR : List Op → List Nat → List Nat → Prop
  | nil : ScriptR [] [] []
  | keep {s xs ys} (x) : ScriptR s xs ys → ScriptR (.keep :: s) (x :: xs) (x :: ys)
  | replace {s xs ys} (x y) : ScriptR s xs ys → ScriptR (.replace :: s) (x :: xs) (y :: ys)
  | insert {s xs ys} (y) : ScriptR s xs ys → ScriptR (.insert :: s) xs (y :: ys)
  | delete {s xs ys} (x) : ScriptR s xs ys → ScriptR (.delete :: s) (x :: xs) ys

theorem cell_op_keep_iff (x xs y ys) : (cell (x :: xs) (y :: ys)).2 = .keep ↔ x = y := by
  rw [cell]
  split
  · simp_all
  · rename_i h
    simp only [h, iff_false]
    split <;> split <;> simp

theorem back_valid : ∀ xs ys, ScriptR (back xs ys) xs ys := by
  intro xs ys
  induction xs, ys using back.induct with
  | case1 => rw [back]; exact .nil
  | case2 y ys ih => rw [back]; exact .insert y ih
  | case3 x xs ih => rw [back]; exact .delete x ih
  | case4 x xs y ys h ih =>
    rw [back]; simp only [h]
    have := (cell_op_keep_iff x xs y ys).1 h
    subst this
    exact .keep x ih
  | case5 x xs y ys h ih => rw [back]; simp only [h]; exact .replace x y ih
  | case6 x xs y ys h ih => rw [back]; simp only [h]; exact .insert y ih
  | case7 x xs y ys h ih => rw [back]; simp only [h]; exact .delete x ih

@[simp] theorem cost_nil : cost [] = 0 := rfl
@[simp] theorem cost_keep (s) : cost (.keep :: s) = cost s := by simp [cost]
@[simp] theorem cost_insert (s) : cost (.insert :: s) = cost s + 1 := by simp [cost]
@[simp] theorem cost_delete (s) : cost (.delete :: s) = cost s + 1 := by simp [cost]
@[simp] theorem cost_replace (s) : cost (.replace :: s) = cost s + 1 := by simp [cost]

/-- Which op the cell stores when heads differ, and what value. -/
theorem cell_ne (x xs y ys) (h : x ≠ y) :
    let del := dist xs (y :: ys) + 1
    let ins := dist (x :: xs) ys + 1
    let rep := dist xs ys + 1
    ((cell (x :: xs) (y :: ys)).2 = .delete ∧ dist (x :: xs) (y :: ys) = del ∧ del ≤ ins ∧ del ≤ rep) ∨
    ((cell (x :: xs) (y :: ys)).2 = .insert ∧ dist (x :: xs) (y :: ys) = ins ∧ ins < del ∧ ins ≤ rep) ∨
    ((cell (x :: xs) (y :: ys)).2 = .replace ∧ dist (x :: xs) (y :: ys) = rep ∧ rep < del ∧ rep < ins) := by
  simp only [dist]
  rw [cell]
  simp only [h, if_false]
  split <;> split <;> simp_all <;> omega

theorem back_cost : ∀ xs ys, cost (back xs ys) = dist xs ys := by
  intro xs ys
  induction xs, ys using back.induct with
  | case1 => simp [back, dist_nil_nil]
  | case2 y ys ih => rw [back]; simp [ih, dist_nil_left]
  | case3 x xs ih => rw [back]; simp [ih, dist_nil_right]
  | case4 x xs y ys h ih =>
    rw [back]; simp only [h]
    have := (cell_op_keep_iff x xs y ys).1 h
    subst this
    simp [ih, dist_cons_cons]
  | case5 x xs y ys h ih =>
    rw [back]; simp only [h]
    have hne : x ≠ y := fun e => by have := (cell_op_keep_iff x xs y ys).2 e; simp_all
    rcases cell_ne x xs y ys hne with ⟨h1, _⟩ | ⟨h1, _⟩ | ⟨_, h2, _⟩ <;> simp_all
  | case6 x xs y ys h ih =>
    rw [back]; simp only [h]
    have hne : x ≠ y := fun e => by have := (cell_op_keep_iff x xs y ys).2 e; simp_all
    rcases cell_ne x xs y ys hne with ⟨h1, _⟩ | ⟨_, h2, _⟩ | ⟨h1, _⟩ <;> simp_all
  | case7 x xs y ys h ih =>
    rw [back]; simp only [h]
    have hne : x ≠ y := fun e => by have := (cell_op_keep_iff x xs y ys).2 e; simp_all
    rcases cell_ne x xs y ys hne with ⟨_, h2, _⟩ | ⟨h1, _⟩ | ⟨h1, _⟩ <;> simp_all

/-- Lipschitz bounds of the DP table, proved together by strong induction on |xs|+|ys|. -/
theorem dist_lipschitz : ∀ n xs ys, xs.length + ys.length = n →
    (∀ y, dist xs (y :: ys) ≤ dist xs ys + 1) ∧ (∀ x, dist (x :: xs) ys ≤ dist xs ys + 1) ∧
    (∀ x, dist xs ys ≤ dist (x :: xs) ys + 1) ∧ (∀ y, dist xs ys ≤ dist xs (y :: ys) + 1) := by
  intro n
  induction n using Nat.strongRecOn with
  | _ n ih =>
    intro xs ys hn
    refine ⟨?A, ?B, ?E, ?F⟩
    case A =>
      intro y
      cases xs with
      | nil => simp [dist_nil_left]
      | cons x xs' =>
        rw [dist_cons_cons]
        split
        · have := (ih (xs'.length + ys.length) (by simp at hn; omega) xs' ys rfl).2.2.1 x
          exact this
        · omega
    case B =>
      intro x
      cases ys with
      | nil => simp [dist_nil_right]
      | cons y ys' =>
        rw [dist_cons_cons]
        split
        · have := (ih (xs.length + ys'.length) (by simp at hn; omega) xs ys' rfl).2.2.2 y
          exact this
        · omega
    case E =>
      intro x
      cases ys with
      | nil => simp [dist_nil_right]; omega
      | cons y ys' =>
        have hA := (ih (xs.length + ys'.length) (by simp at hn; omega) xs ys' rfl).1 y
        have hE := (ih (xs.length + ys'.length) (by simp at hn; omega) xs ys' rfl).2.2.1 x
        rw [dist_cons_cons x xs y ys']
        split <;> omega
    case F =>
      intro y
      cases xs with
      | nil => simp [dist_nil_left]; omega
      | cons x xs' =>
        have hB := (ih (xs'.length + ys.length) (by simp at hn; omega) xs' ys rfl).2.1 x
        have hF := (ih (xs'.length + ys.length) (by simp at hn; omega) xs' ys rfl).2.2.2 y
        rw [dist_cons_cons x xs' y ys]
        split <;> omega

theorem dist_le_cost {s xs ys} (h : ScriptR s xs ys) : dist xs ys ≤ cost s := by
  induction h with
  | nil => simp [dist_nil_nil]
  | keep x _ ih => simpa [dist_cons_cons] using ih
  | @replace s xs ys x y _ ih =>
    have hA := (dist_lipschitz _ xs ys rfl).1 y
    have hB := (dist_lipschitz _ xs ys rfl).2.1 x
    have hE := (dist_lipschitz _ xs (y :: ys) rfl).2.2.1 x
    simp only [cost_replace]
    rw [dist_cons_cons]
    split
    · omega
    · omega
  | @insert s xs ys y _ ih =>
    have := (dist_lipschitz _ xs ys rfl).1 y
    simp only [cost_insert]; omega
  | @delete s xs ys x _ ih =>
    have := (dist_lipschitz _ xs ys rfl).2.1 x
    simp only [cost_delete]; omega

/-- The three facts C31 asks for, on reversed data: the backtracked script is valid, its cost is the
    reported distance, and no valid script is cheaper. -/
theorem lev_core (xs ys : List Nat) :
    ScriptR (back xs ys) xs ys ∧ cost (back xs ys) = dist xs ys ∧
    ∀ s, ScriptR s xs ys → dist xs ys ≤ cost s :=
  ⟨back_valid xs ys, back_cost xs ys, fun _ h => dist_le_cost h⟩

end ParolModel
