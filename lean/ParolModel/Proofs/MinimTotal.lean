import ParolModel.Proofs.LaOrder3
import ParolModel.Proofs.LaTotal
import ParolModel.Proofs.PanicFree
import ParolModel.Proofs.PipelineMain
import ParolModel.Model.PanicSites2
/-! Proofs (C26b): `CompiledDFA::minimize` is TOTAL on automata whose accepting states are leaves.

The model of `crates/parol/src/analysis/compiled_la_dfa.rs` (`Model/LaBuild.lean`: `adjOfCompiled`,
`Adj.combineTwo`, `Adj.combineStates`, `Adj.mergeFinals`, `Adj.equivGroups`, `Adj.combineEquiv`,
`Adj.renumber`, `Adj.asCompiled`, `minimizeC`) answers `none` wherever the Rust code would panic
(`debug_assert`s of `combine_two_states`, the `unwrap`s of `combine_equivalent_states` and
`as_compiled_dfa`, `panic!("No free state number found!")`) and where the model's own fuel runs out.
C07 (`Proofs/LaMin*.lean`, `LaCompile.lean`) proves what a SUCCESSFUL run computes, under the
well-formedness invariant `AdjWF`. This file proves that under the same invariant no `none` branch is
ever taken — for every hash-map iteration order `ch` — and that the model's fuel always suffices. -/
namespace ParolModel.MT
open ParolModel
set_option linter.unusedSimpArgs false

/-! ### lengths of association lists -/

section bm
variable {β : Type}

theorem length_insertSorted (k : Nat) (v : β) : ∀ m : List (Nat × β), (bmInsertSorted k v m).length = m.length + 1
  | [] => rfl
  | x :: xs => by
    simp only [bmInsertSorted]
    split
    · rfl
    · simp [length_insertSorted k v xs]

theorem remove_absent {m : List (Nat × β)} {k : Nat} (h : bmGet m k = none) : bmRemove m k = m := by
  apply bmRemove_id
  intro y hy he
  induction m with
  | nil => cases hy
  | cons x xs ih =>
    rw [bmGet_cons] at h
    by_cases hx : x.1 = k
    · simp [hx] at h
    · simp only [hx, if_false] at h
      rcases List.mem_cons.1 hy with rfl | hy
      · exact hx he
      · exact ih h hy

theorem length_remove_present : ∀ {m : List (Nat × β)} {k : Nat} {v : β}, KS m → bmGet m k = some v →
    (bmRemove m k).length + 1 = m.length
  | [], k, v, _, h => by simp [bmGet_nil] at h
  | x :: xs, k, v, hks, h => by
    obtain ⟨hks', hlt⟩ := hks.cons_inv
    rw [bmGet_cons] at h
    by_cases hx : x.1 = k
    · have hnone : bmGet xs k = none := bmGet_none_of_lt (fun y hy => hx ▸ hlt y hy)
      have : bmRemove (x :: xs) k = bmRemove xs k := by
        simp [bmRemove, List.filter_cons, hx]
      rw [this, remove_absent hnone]
      rfl
    · simp only [hx, if_false] at h
      have : bmRemove (x :: xs) k = x :: bmRemove xs k := by
        simp [bmRemove, List.filter_cons, hx]
      rw [this]
      simp only [List.length_cons]
      have := length_remove_present hks' h
      omega

theorem length_insert_absent {m : List (Nat × β)} {k : Nat} (v : β) (h : bmGet m k = none) :
    (bmInsert m k v).length = m.length + 1 := by
  unfold bmInsert
  rw [remove_absent h, length_insertSorted]

/-- Two `BTreeMap`s with the same key set have the same number of entries. -/
theorem length_eq_of_keys {γ : Type} {m : List (Nat × β)} {m' : List (Nat × γ)} (h : KS m) (h' : KS m')
    (hk : ∀ s, (bmGet m s).isSome ↔ (bmGet m' s).isSome) : m.length = m'.length := by
  have hmem : ∀ (δ : Type) (l : List (Nat × δ)), KS l → ∀ s, s ∈ l.map Prod.fst ↔ (bmGet l s).isSome := by
    intro δ l hl s
    constructor
    · intro hs
      obtain ⟨y, hy, rfl⟩ := List.mem_map.1 hs
      rw [bmGet_of_mem hl (k := y.1) (v := y.2) (by cases y; exact hy)]
      rfl
    · intro hs
      obtain ⟨v, hv⟩ := Option.isSome_iff_exists.1 hs
      exact List.mem_map.2 ⟨(s, v), bmGet_some_mem hv, rfl⟩
  have hp : (m.map Prod.fst).Perm (m'.map Prod.fst) := by
    rw [List.perm_ext_iff_of_nodup h.nodup h'.nodup]
    intro s
    rw [hmem β m h s, hmem γ m' h' s, hk s]
  simpa using hp.length_eq

end bm

/-! ### `combine_two_states`, `combine_states` -/

/-- `combine_two_states` passes its three debug assertions when the two states are different, both
    present in both maps, and carry the same production number. -/
theorem combineTwo_some {a : Adj} {keep merge : Nat} {lk lm : Nbrs} {p : Int} (hne : keep ≠ merge)
    (h1 : bmGet a.list keep = some lk) (h2 : bmGet a.list merge = some lm)
    (h3 : bmGet a.prods keep = some p) (h4 : bmGet a.prods merge = some p) :
    ∃ a', a.combineTwo keep merge = some a' := by
  unfold Adj.combineTwo
  simp [hne, h1, h2, h3, h4]

theorem combineTwo_length {a a' : Adj} {keep merge : Nat} (hwf : AdjWF a) (h : a.combineTwo keep merge = some a')
    (hsame : ∀ lm lk, bmGet a.list merge = some lm → bmGet a.list keep = some lk → lm = lk) :
    a'.list.length + 1 = a.list.length := by
  obtain ⟨hne, ⟨l, pk, e1, e2, e3, e4⟩, rfl⟩ := combineTwo_eq h hsame
  simp only [List.length_map, e1, Option.getD_some]
  rw [bmInsert_self a.list keep l hwf.ksl e1]
  exact length_remove_present hwf.ksl e2

theorem combineFold_total (keep : Nat) (p : Int) : ∀ (rest : List Nat) {a : Adj}, AdjWF a →
    (bmGet a.list keep).isSome → bmGet a.prods keep = some p →
    (∀ m ∈ rest, (bmGet a.list m).isSome ∧ bmGet a.prods m = some p) →
    (∀ m ∈ rest, ∀ lm lk, bmGet a.list m = some lm → bmGet a.list keep = some lk → lm = lk) →
    (∀ m ∈ rest, m ≠ 0 ∧ m ≠ keep) → rest.Nodup →
    ∃ a', rest.foldlM (fun (a : Adj) m => a.combineTwo keep m) a = some a' ∧
      a'.list.length + rest.length = a.list.length ∧
      ∀ s, bmGet a'.prods s = if s ∈ rest then none else bmGet a.prods s := by
  intro rest
  induction rest with
  | nil =>
    intro a _ _ _ _ _ _ _
    exact ⟨a, rfl, rfl, fun s => by simp⟩
  | cons m ms ih =>
    intro a hwf hk hpk hpres hsame hne hnd
    obtain ⟨lk, hlk⟩ := Option.isSome_iff_exists.1 hk
    obtain ⟨hm1, hm2⟩ := hpres m List.mem_cons_self
    obtain ⟨lm, hlm⟩ := Option.isSome_iff_exists.1 hm1
    obtain ⟨hm0, hmk⟩ := hne m List.mem_cons_self
    obtain ⟨a1, h1⟩ := combineTwo_some (Ne.symm hmk) hlk hlm hpk hm2
    have hs1 := hsame m List.mem_cons_self
    have hwf1 := combineTwo_wf hwf h1 hs1 hm0
    have hl := combineTwo_get_list h1 hs1
    have hp := combineTwo_get_prods h1 hs1
    have hlen1 := combineTwo_length hwf h1 hs1
    obtain ⟨hmms, hnd'⟩ := List.nodup_cons.1 hnd
    have hk1 : (bmGet a1.list keep).isSome := by
      rw [hl]; simp [Ne.symm hmk, hlk]
    have hpk1 : bmGet a1.prods keep = some p := by
      rw [hp]; simp [Ne.symm hmk, hpk]
    have hpres1 : ∀ m' ∈ ms, (bmGet a1.list m').isSome ∧ bmGet a1.prods m' = some p := by
      intro m' hm'
      have hne' : m' ≠ m := fun e => hmms (e ▸ hm')
      obtain ⟨q1, q2⟩ := hpres m' (List.mem_cons_of_mem _ hm')
      rw [hl, hp]
      simp only [hne', if_false, Option.isSome_map]
      exact ⟨q1, q2⟩
    have hsame1 : ∀ m' ∈ ms, ∀ lm lk, bmGet a1.list m' = some lm → bmGet a1.list keep = some lk → lm = lk := by
      intro m' hm' lm' lk' e1 e2
      have hne' : m' ≠ m := fun e => hmms (e ▸ hm')
      rw [hl] at e1 e2
      simp only [hne', Ne.symm hmk, if_false] at e1 e2
      cases g1 : bmGet a.list m' with
      | none => simp [g1] at e1
      | some lm0 =>
        cases g2 : bmGet a.list keep with
        | none => simp [g2] at e2
        | some lk0 =>
          simp only [g1, g2, Option.map_some, Option.some.injEq] at e1 e2
          have := hsame m' (List.mem_cons_of_mem _ hm') lm0 lk0 g1 g2
          subst this
          rw [← e1, ← e2]
    obtain ⟨a', hf, hlen, hpr⟩ := ih hwf1 hk1 hpk1 hpres1 hsame1
      (fun m' hm' => hne m' (List.mem_cons_of_mem _ hm')) hnd'
    refine ⟨a', ?_, ?_, ?_⟩
    · rw [foldlM_option_cons, h1]
      exact hf
    · simp only [List.length_cons]
      omega
    · intro s
      rw [hpr s, hp s]
      by_cases hs : s = m
      · simp [hs]
      · by_cases hs' : s ∈ ms
        · simp [hs']
        · simp [hs, hs']

/-- `combine_states` on a group of present states with one production number and equal neighbour
    lists never trips an assertion; every member but the first disappears. -/
theorem combineStates_total {a : Adj} {states : List Nat} (p : Int) (hwf : AdjWF a)
    (hpres : ∀ m ∈ states, (bmGet a.list m).isSome ∧ bmGet a.prods m = some p)
    (hsame : ∀ m ∈ states, ∀ m' ∈ states, ∀ lm lk, bmGet a.list m = some lm → bmGet a.list m' = some lk → lm = lk)
    (hsorted : states.Pairwise (· < ·)) :
    ∃ a', a.combineStates states = some a' ∧ MinStep a a' ∧
      a'.list.length + (states.length - 1) = a.list.length ∧
      ∀ s, bmGet a'.prods s = if s ∈ states.tail then none else bmGet a.prods s := by
  cases states with
  | nil => exact ⟨a, rfl, MinStep.refl hwf, rfl, fun s => by simp⟩
  | cons keep rest =>
    obtain ⟨hlt, hrest⟩ := List.pairwise_cons.1 hsorted
    obtain ⟨hk1, hk2⟩ := hpres keep List.mem_cons_self
    obtain ⟨a', hf, hlen, hpr⟩ := combineFold_total keep p rest hwf hk1 hk2
      (fun m hm => hpres m (List.mem_cons_of_mem _ hm))
      (fun m hm lm lk e1 e2 => hsame m (List.mem_cons_of_mem _ hm) keep List.mem_cons_self lm lk e1 e2)
      (fun m hm => by have := hlt m hm; constructor <;> omega)
      (hrest.imp (fun h => Nat.ne_of_lt h))
    have hcs : a.combineStates (keep :: rest) = some a' := hf
    refine ⟨a', hcs, combineStates_step hwf hcs hsame hsorted, by simpa using hlen, ?_⟩
    intro s
    rw [hpr s]
    simp only [List.tail_cons]
    by_cases hs : s ∈ rest <;> simp [hs]

/-! ### first phase of `minimize`: the accepting states of each production -/

theorem groupsFold_total {a0 : Adj} (hwf0 : AdjWF a0) : ∀ (gs : List (Int × List (Nat × Int))) {a : Adj}, MinStep a0 a →
    (gs.map Prod.fst).Nodup →
    (∀ g ∈ gs, g.2.Sublist a0.prods ∧ (∀ x ∈ g.2, x.2 = g.1) ∧ ∀ x ∈ g.2, x.2 ≠ -1) →
    (∀ g ∈ gs, ∀ x ∈ g.2, bmGet a.prods x.1 = some x.2) →
    ∃ a', gs.foldlM (fun (a : Adj) (g : Int × List (Nat × Int)) => a.combineStates (g.2.map (·.1))) a = some a' ∧
      MinStep a0 a' := by
  intro gs
  induction gs with
  | nil => intro a st _ _ _; exact ⟨a, rfl, st⟩
  | cons g gs ih =>
    intro a st hnd hg hpres
    obtain ⟨hsub, hkey, hfin⟩ := hg g List.mem_cons_self
    have hpg := hpres g List.mem_cons_self
    have hleaf : ∀ m ∈ g.2.map (·.1), ∀ lm, bmGet a.list m = some lm → lm = [] := by
      intro m hm lm e
      obtain ⟨x, hx, rfl⟩ := List.mem_map.1 hm
      have := st.wf.leaves x.1 x.2 (hpg x hx) (hfin x hx)
      rw [e] at this
      injection this
    have hks : KS g.2 := hwf0.ksp.sublist hsub
    obtain ⟨a1, h1, st1, _, hpr⟩ := combineStates_total (states := g.2.map (·.1)) g.1 st.wf
      (by
        intro m hm
        obtain ⟨x, hx, rfl⟩ := List.mem_map.1 hm
        have hp := hpg x hx
        exact ⟨(st.wf.keys x.1).2 (by simp [hp]), by rw [hp, hkey x hx]⟩)
      (by
        intro m hm m' hm' lm lk e1 e2
        rw [hleaf m hm lm e1, hleaf m' hm' lk e2])
      (by simpa [KS] using hks)
    obtain ⟨hgn, hnd'⟩ := List.nodup_cons.1 hnd
    have hpres1 : ∀ g' ∈ gs, ∀ y ∈ g'.2, bmGet a1.prods y.1 = some y.2 := by
      intro g' hg' y hy
      rw [hpr y.1]
      have hnot : y.1 ∉ (g.2.map (·.1)).tail := by
        intro hin
        obtain ⟨x, hx, hxy⟩ := List.mem_map.1 (List.mem_of_mem_tail hin)
        obtain ⟨hsub', hkey', _⟩ := hg g' (List.mem_cons_of_mem _ hg')
        have ex : bmGet a0.prods x.1 = some x.2 := bmGet_of_mem hwf0.ksp (by cases x; exact hsub.subset hx)
        have ey : bmGet a0.prods y.1 = some y.2 := bmGet_of_mem hwf0.ksp (by cases y; exact hsub'.subset hy)
        rw [← hxy, ex] at ey
        injection ey with ey
        apply hgn
        rw [← hkey x hx, ey, hkey' y hy]
        exact List.mem_map_of_mem hg'
      simp only [hnot, if_false]
      exact hpres g' (List.mem_cons_of_mem _ hg') y hy
    obtain ⟨a', hf, st'⟩ := ih (st.trans st1) hnd'
      (fun g' hg' => hg g' (List.mem_cons_of_mem _ hg')) hpres1
    refine ⟨a', ?_, st'⟩
    rw [foldlM_option_cons, h1]
    exact hf

/-- The first loop of `minimize` (one `combine_states` per production, in any hash-map order). -/
theorem mergeFinals_total {a : Adj} (ch : List Nat) (hwf : AdjWF a) :
    ∃ a' ch', a.mergeFinals ch = some (a', ch') ∧ MinStep a a' := by
  unfold Adj.mergeFinals
  simp only
  have hperm := permute_perm (groupBy (fun x : Nat × Int => x.2) (a.prods.filter (fun x => x.2 != -1))).length ch
    (groupBy (fun x : Nat × Int => x.2) (a.prods.filter (fun x => x.2 != -1))) rfl
  have hnd0 : ((groupBy (fun x : Nat × Int => x.2) (a.prods.filter (fun x => x.2 != -1))).map Prod.fst).Nodup :=
    (groupBy_complete (fun x : Nat × Int => x.2) (a.prods.filter (fun x => x.2 != -1)) [] (by simp)).1
  obtain ⟨a', hf, st⟩ := groupsFold_total hwf _ (MinStep.refl hwf)
    ((hperm.map Prod.fst).nodup_iff.2 hnd0)
    (by
      intro g hg
      obtain ⟨hsub, hkey⟩ := groupBy_mem (fun x : Nat × Int => x.2) _ (hperm.mem_iff.1 hg)
      refine ⟨hsub.trans List.filter_sublist, hkey, ?_⟩
      intro x hx
      have := (List.mem_filter.1 (hsub.subset hx)).2
      simpa using this)
    (by
      intro g hg x hx
      obtain ⟨hsub, _⟩ := groupBy_mem (fun x : Nat × Int => x.2) _ (hperm.mem_iff.1 hg)
      exact bmGet_of_mem hwf.ksp (by cases x; exact (hsub.trans List.filter_sublist).subset hx))
  exact ⟨a', _, by rw [hf]; rfl, st⟩

/-! ### second phase: `combine_equivalent_states` -/

/-- `self.productions.get(s).unwrap()` in `combine_equivalent_states`: every state of the list has a
    production entry. -/
theorem equivGroups_total {a : Adj} (hwf : AdjWF a) :
    a.equivGroups = some ((groupBy (fun x : Nat × Nbrs => x.2)
      (a.list.filter (fun x => bmGet a.prods x.1 == some (-1)))).filter (fun g => g.2.length > 1)) := by
  unfold Adj.equivGroups
  have : a.list.all (fun x => (bmGet a.prods x.1).isSome) = true := by
    rw [List.all_eq_true]
    intro x hx
    have : bmGet a.list x.1 = some x.2 := bmGet_of_mem hwf.ksl (by cases x; exact hx)
    exact (hwf.keys x.1).1 (by simp [this])
  simp [this]

theorem pick_lt (ch : List Nat) {n : Nat} (hn : 0 < n) : (pick ch n).1 < n := by
  unfold pick
  cases ch with
  | nil => simpa using hn
  | cons c cs => exact Nat.mod_lt _ hn

theorem combineEquiv_total : ∀ (fuel : Nat) {a : Adj} (ch : List Nat), AdjWF a → a.list.length < fuel →
    ∃ a' ch', Adj.combineEquiv fuel a ch = some (a', ch') ∧ MinStep a a' := by
  intro fuel
  induction fuel with
  | zero => intro a ch _ h; omega
  | succ fuel ih =>
    intro a ch hwf hlen
    simp only [Adj.combineEquiv, equivGroups_total hwf]
    cases hgs : (groupBy (fun x : Nat × Nbrs => x.2)
        (a.list.filter (fun x => bmGet a.prods x.1 == some (-1)))).filter (fun g => g.2.length > 1) with
    | nil => exact ⟨a, ch, rfl, MinStep.refl hwf⟩
    | cons g gs =>
      simp only
      have hidx := pick_lt ch (n := (g :: gs).length) (by simp)
      have hsome : (g :: gs)[(pick ch (g :: gs).length).1]? = some ((g :: gs)[(pick ch (g :: gs).length).1]'hidx) :=
        List.getElem?_eq_getElem hidx
      generalize hgrp : (g :: gs)[(pick ch (g :: gs).length).1]'hidx = grp at hsome
      have hmem : grp ∈ g :: gs := List.mem_of_getElem? hsome
      rw [hsome]
      simp only
      rw [← hgs] at hmem
      obtain ⟨hcand, hbig⟩ := List.mem_filter.1 hmem
      obtain ⟨hsub, hkey⟩ := groupBy_mem (fun x : Nat × Nbrs => x.2) _ hcand
      have hsub2 : grp.2.Sublist a.list := hsub.trans List.filter_sublist
      have hlist : ∀ x ∈ grp.2, bmGet a.list x.1 = some x.2 := fun x hx =>
        bmGet_of_mem hwf.ksl (by cases x; exact hsub2.subset hx)
      obtain ⟨a1, h1, st1, hl1, _⟩ := combineStates_total (states := grp.2.map (·.1)) (-1) hwf
        (by
          intro m hm
          obtain ⟨x, hx, rfl⟩ := List.mem_map.1 hm
          refine ⟨by simp [hlist x hx], ?_⟩
          have := (List.mem_filter.1 (hsub.subset hx)).2
          simpa using this)
        (by
          intro m hm m' hm' lm lk e1 e2
          obtain ⟨x, hx, rfl⟩ := List.mem_map.1 hm
          obtain ⟨y, hy, rfl⟩ := List.mem_map.1 hm'
          rw [hlist x hx] at e1; rw [hlist y hy] at e2
          injection e1 with e1; injection e2 with e2
          rw [← e1, ← e2, hkey x hx, hkey y hy])
        (by
          have : KS grp.2 := hwf.ksl.sublist hsub2
          simpa [KS] using this)
      rw [h1]
      simp only
      have hb : grp.2.length > 1 := by simpa using hbig
      have hlt : a1.list.length < fuel := by
        simp only [List.length_map] at hl1
        omega
      obtain ⟨a', ch', hf, st'⟩ := ih (pick ch (g :: gs).length).2 st1.wf hlt
      exact ⟨a', ch', hf, st1.trans st'⟩

/-! ### `renumber_states` -/

/-- Where `find_map(|(i, (p, _))| if *p != i …)` finds its first mismatch: the keys before it are
    `i, i+1, …, j-1`, the number `j` itself is free, and the mismatching key is larger. -/
theorem firstMismatch_gap : ∀ (l : List (Nat × Int)) (i s : Nat), firstMismatch i l = some s → KS l →
    (∀ x ∈ l, i ≤ x.1) →
    ∃ j, i ≤ j ∧ j < i + l.length ∧ (∀ t, i ≤ t → t < j → (bmGet l t).isSome) ∧ bmGet l j = none ∧ j < s := by
  intro l
  induction l with
  | nil => intro i s h; simp [firstMismatch] at h
  | cons x xs ih =>
    intro i s h hks hle
    obtain ⟨hks', hlt⟩ := hks.cons_inv
    simp only [firstMismatch] at h
    split at h
    · rename_i hne
      injection h with h
      subst h
      have hx := hle x List.mem_cons_self
      refine ⟨i, Nat.le_refl _, by simp, fun t h1 h2 => by omega, ?_, by omega⟩
      apply bmGet_none_of_lt
      intro y hy
      rcases List.mem_cons.1 hy with rfl | hy
      · omega
      · have := hlt y hy; omega
    · rename_i heq
      have heq' : x.1 = i := by
        by_cases h' : x.1 = i
        · exact h'
        · exact absurd h' heq
      obtain ⟨j, h1, h2, h3, h4, h5⟩ := ih (i + 1) s h hks' (fun y hy => by have := hlt y hy; omega)
      refine ⟨j, by omega, by simp only [List.length_cons]; omega, ?_, ?_, h5⟩
      · intro t ht1 ht2
        rw [bmGet_cons]
        by_cases hti : x.1 = t
        · simp [hti]
        · simp only [hti, if_false]
          exact h3 t (by omega) ht2
      · rw [bmGet_cons]
        have : ¬ x.1 = j := by omega
        simp only [this, if_false]
        exact h4

theorem find_range'_spec (p : Nat → Bool) : ∀ (n a x : Nat), (List.range' a n).find? p = some x →
    a ≤ x ∧ x < a + n ∧ p x = true ∧ ∀ y, a ≤ y → y < x → p y = false := by
  intro n
  induction n with
  | zero => intro a x h; simp at h
  | succ n ih =>
    intro a x h
    rw [List.range'_succ, List.find?_cons] at h
    cases hp : p a with
    | true =>
      simp only [hp] at h
      injection h with h
      subst h
      exact ⟨Nat.le_refl _, by omega, hp, fun y h1 h2 => by omega⟩
    | false =>
      simp only [hp] at h
      obtain ⟨h1, h2, h3, h4⟩ := ih (a + 1) x h
      refine ⟨by omega, by omega, h3, ?_⟩
      intro y hy1 hy2
      by_cases hya : y = a
      · subst hya; exact hp
      · exact h4 y (by omega) hy2

/-- `find_first_free_state_number` does not reach `panic!("No free state number found!")` when the
    keys have a gap below the number of states, and it returns exactly that gap. -/
theorem firstFree_of_gap {prods : List (Nat × Int)} {j : Nat} (hj1 : 1 ≤ j) (hj2 : j < prods.length)
    (hpre : ∀ t, t < j → (bmGet prods t).isSome) (hfree : bmGet prods j = none) : firstFree prods = some j := by
  unfold firstFree
  cases hf : (List.range' 1 (prods.length - 1)).find? (fun i => (bmGet prods i).isNone) with
  | none =>
    rw [List.find?_eq_none] at hf
    have := hf j (by rw [List.mem_range']; exact ⟨j - 1, by omega, by omega⟩)
    simp [hfree] at this
  | some x =>
    obtain ⟨h1, h2, h3, h4⟩ := find_range'_spec _ _ _ _ hf
    rcases Nat.lt_trichotomy x j with hlt | heq | hgt
    · have := hpre x hlt
      simp only [Option.isNone_iff_eq_none] at h3
      rw [h3] at this; cases this
    · rw [heq]
    · have := h4 j hj1 hgt
      simp [hfree] at this

theorem renameState_prods_length {a : Adj} {s new : Nat} {e : Nbrs} {p : Int} (hwf : AdjWF a)
    (h1 : bmGet a.list s = some e) (h2 : bmGet a.prods s = some p) (hnew : bmGet a.prods new = none) :
    (a.renameState s new).prods.length = a.prods.length := by
  rw [renameState_present h1 h2]
  simp only
  rw [length_insert_absent p (by rw [bmGet_remove]; split <;> simp [hnew])]
  exact length_remove_present hwf.ksp h2

theorem renumber_total : ∀ (fuel : Nat) {a : Adj} (j : Nat), AdjWF a → (∀ t, t < j → (bmGet a.prods t).isSome) →
    a.prods.length - j < fuel → ∃ a', Adj.renumber fuel a = some a' ∧ MinStep' a a' := by
  intro fuel
  induction fuel with
  | zero => intro a j _ _ h; omega
  | succ fuel ih =>
    intro a j hwf hpre hlen
    simp only [Adj.renumber]
    cases hm : firstMismatch 0 a.prods with
    | none => exact ⟨a, rfl, MinStep'.refl hwf⟩
    | some s =>
      simp only
      obtain ⟨j', _, hj2, hpre', hfree, hjs⟩ := firstMismatch_gap a.prods 0 s hm hwf.ksp (fun _ _ => Nat.zero_le _)
      have hj1 : 1 ≤ j' := by
        rcases Nat.eq_zero_or_pos j' with h0 | h0
        · subst h0
          have := (hwf.keys 0).1 hwf.zero
          rw [hfree] at this; cases this
        · exact h0
      have hjj : j ≤ j' := by
        rcases Nat.lt_or_ge j' j with h | h
        · have := hpre j' h
          rw [hfree] at this; cases this
        · exact h
      rw [firstFree_of_gap hj1 (by omega) (fun t ht => hpre' t (Nat.zero_le _) ht) hfree]
      simp only
      obtain ⟨⟨p, hp⟩, hs0⟩ := firstMismatch_spec a.prods 0 s hm hwf.ksp (fun _ _ => Nat.zero_le _)
      have h2 : bmGet a.prods s = some p := bmGet_of_mem hwf.ksp hp
      obtain ⟨e, h1⟩ := Option.isSome_iff_exists.1 ((hwf.keys s).2 (by simp [h2]))
      have st1 : MinStep' a (a.renameState s j') := by
        refine ⟨renameState_wf hwf h1 h2 hfree (by omega), ?_, ?_⟩
        · intro w q
          exact (renameState_sim hwf h1 h2 hfree).accA (by simp [hmap]; omega) hwf.zero w q
        · rw [renameState_present h1 h2]
      have hlen' := renameState_prods_length hwf h1 h2 hfree
      obtain ⟨a', hf, st'⟩ := ih (a := a.renameState s j') (j' + 1) st1.wf
        (by
          intro t ht
          rw [renameState_get_prods h1 h2]
          by_cases htj : t = j'
          · simp [htj]
          · have hts : t ≠ s := by omega
            simp only [htj, hts, if_false]
            exact hpre' t (Nat.zero_le _) (by omega))
        (by omega)
      exact ⟨a', hf, st1.trans st'⟩

/-! ### `as_compiled_dfa` -/

/-- The two `unwrap`s of `as_compiled_dfa`: every neighbour and state 0 have a production entry. -/
theorem asCompiled_total {a : Adj} (hwf : AdjWF a) : ∃ c, a.asCompiled = some c := by
  unfold Adj.asCompiled
  have hall : a.rawTrans.all (fun y => (bmGet a.prods y.2.1).isSome) = true := by
    rw [List.all_eq_true]
    intro y hy
    obtain ⟨x, hx, n, hn, rfl⟩ := (mem_rawTrans a y).1 hy
    have hg : bmGet a.list x.1 = some x.2 := bmGet_of_mem hwf.ksl (by cases x; exact hx)
    exact (hwf.keys n.1).1 (hwf.closed x.1 x.2 hg n hn)
  obtain ⟨p0, hp0⟩ := Option.isSome_iff_exists.1 ((hwf.keys 0).1 hwf.zero)
  simp only [hall, if_true, hp0]
  exact ⟨_, rfl⟩

/-- `debug_assert_eq!(self.productions.len(), self.list.len())` of `AdjacencyList::len`. -/
theorem adj_len_eq {a : Adj} (hwf : AdjWF a) : a.prods.length = a.list.length :=
  (length_eq_of_keys hwf.ksl hwf.ksp hwf.keys).symm

/-! ### `AdjacencyList::minimize`, `CompiledDFA::minimize` -/

theorem minimize_total {a : Adj} (ch : List Nat) (hwf : AdjWF a) :
    ∃ a', a.minimize ch = some a' ∧ MinStep' a a' := by
  unfold Adj.minimize
  obtain ⟨a1, ch1, h1, st1⟩ := mergeFinals_total ch hwf
  rw [h1]
  simp only
  obtain ⟨a2, ch2, h2, st2⟩ := combineEquiv_total (a1.list.length + 1) ch1 st1.wf (Nat.lt_succ_self _)
  rw [h2]
  simp only
  obtain ⟨a3, h3, st3⟩ := renumber_total (a2.list.length + 1) 0 st2.wf (fun t ht => by omega)
    (by rw [adj_len_eq st2.wf]; omega)
  exact ⟨a3, h3, (st1.trans st2).weaken.trans st3⟩

end ParolModel.MT

namespace ParolModel

/-- **`CompiledDFA::minimize` is total** on automata whose accepting states are leaves
    (`CompiledOk`), for every hash-map iteration order `ch`: no `debug_assert` of
    `combine_two_states` fails, no `unwrap` of `combine_equivalent_states` / `as_compiled_dfa` hits
    `None`, `find_first_free_state_number` does not panic, and the model's fuel suffices. -/
theorem minimizeC_total {c : LaDfa} (hc : CompiledOk c) (ch : List Nat) : ∃ c', minimizeC c ch = some c' := by
  unfold minimizeC
  obtain ⟨a, ha, st⟩ := MT.minimize_total ch (adjOfCompiled_wf hc)
  rw [ha]
  exact MT.asCompiled_total st.wf

end ParolModel

/-! ### the fuel of `unite` always suffices

`LookaheadDFA::unite` repeats its pass over `other`'s transitions `while changed`. The model gives
the loop `other.trans.length + 2` rounds of fuel. Every round that reports a change has mapped the
target state of some transition of `other` that was unmapped before, and mapped states stay
mapped; so at most `other.trans.length` rounds report a change. This holds for ALL automata (no
hypothesis), hence `.error .fuel` is not an outcome of `unite` / `uniteAll` at all. -/
namespace ParolModel.MT
open ParolModel

/-- number of transitions of `other` whose target state is not mapped yet -/
def unmapped (other : LDfa) (m : List (Nat × Nat)) : Nat :=
  (other.trans.filter (fun e => (mapGet m e.dst).isNone)).length

theorem uniteEdge_ne_fuel {other : LDfa} {s : UState} {e : Edge} : uniteEdge other s e ≠ .error .fuel := by
  unfold uniteEdge
  split
  · intro h; cases h
  · simp only
    split
    · split
      · split <;> (intro h; cases h)
      · intro h; cases h
    · intro h; cases h

theorem uniteEdge_mono {other : LDfa} {s s' : UState} {e : Edge} (h : uniteEdge other s e = .ok s') :
    (∀ x, (mapGet s.map x).isSome → (mapGet s'.map x).isSome) ∧
    (s'.changed = true → s.changed = true ∨ ((mapGet s.map e.dst).isNone ∧ (mapGet s'.map e.dst).isSome)) := by
  unfold uniteEdge at h
  split at h
  · injection h with h; subst h
    exact ⟨fun _ hx => hx, fun hc => Or.inl hc⟩
  · simp only at h
    have hmono : ∀ (v : Nat) x, (mapGet s.map x).isSome → (mapGet (mapSet s.map e.dst v) x).isSome := by
      intro v x hx
      rw [mapGet_mapSet]
      split
      · rfl
      · exact hx
    split at h
    · rename_i hnone
      split at h
      · split at h
        · cases h
        · injection h with h; subst h
          refine ⟨hmono _, fun _ => Or.inr ⟨hnone, ?_⟩⟩
          simp [mapGet_mapSet]
      · cases h
    · injection h with h; subst h
      exact ⟨hmono _, fun hc => Or.inl hc⟩

theorem uniteFold_mono {other : LDfa} : ∀ (es : List Edge) {s s' : UState}, es.foldlM (uniteEdge other) s = .ok s' →
    (∀ x, (mapGet s.map x).isSome → (mapGet s'.map x).isSome) ∧
    (s'.changed = true → s.changed = true ∨
      ∃ e ∈ es, (mapGet s.map e.dst).isNone ∧ (mapGet s'.map e.dst).isSome) := by
  intro es
  induction es with
  | nil =>
    intro s s' h
    simp only [List.foldlM_nil] at h
    injection h with h; subst h
    exact ⟨fun _ hx => hx, fun hc => Or.inl hc⟩
  | cons e es ih =>
    intro s s' h
    rw [foldlM_except_cons] at h
    cases h1 : uniteEdge other s e with
    | error err => rw [h1] at h; cases h
    | ok s1 =>
      rw [h1] at h
      have hr : es.foldlM (uniteEdge other) s1 = .ok s' := h
      obtain ⟨m1, c1⟩ := uniteEdge_mono h1
      obtain ⟨m2, c2⟩ := ih hr
      refine ⟨fun x hx => m2 x (m1 x hx), ?_⟩
      intro hc
      rcases c2 hc with hc1 | ⟨e', he', hn, hs⟩
      · rcases c1 hc1 with hc0 | ⟨hn, hs⟩
        · exact Or.inl hc0
        · exact Or.inr ⟨e, List.mem_cons_self, hn, m2 _ hs⟩
      · refine Or.inr ⟨e', List.mem_cons_of_mem _ he', ?_, hs⟩
        cases hg : mapGet s.map e'.dst with
        | none => rfl
        | some v =>
          have := m1 e'.dst (by simp [hg])
          cases hg1 : mapGet s1.map e'.dst with
          | none => rw [hg1] at this; cases this
          | some v1 => rw [hg1] at hn; cases hn

theorem uniteFold_ne_fuel {other : LDfa} : ∀ (es : List Edge) (s : UState), es.foldlM (uniteEdge other) s ≠ .error .fuel := by
  intro es
  induction es with
  | nil => intro s h; cases h
  | cons e es ih =>
    intro s h
    rw [foldlM_except_cons] at h
    cases h1 : uniteEdge other s e with
    | error err =>
      rw [h1] at h
      have : (Except.error err : Except Err UState) = .error .fuel := h
      injection this with this
      subst this
      exact uniteEdge_ne_fuel h1
    | ok s1 =>
      rw [h1] at h
      exact ih s1 h

theorem uniteLoop_ne_fuel {other : LDfa} : ∀ (fuel : Nat) (s : UState), unmapped other s.map < fuel →
    uniteLoop other fuel s ≠ .error .fuel := by
  intro fuel
  induction fuel with
  | zero => intro s h; omega
  | succ fuel ih =>
    intro s hlt
    simp only [uniteLoop]
    cases hp : unitePass other s with
    | error e =>
      simp only
      intro h
      injection h with h
      subst h
      exact uniteFold_ne_fuel _ _ hp
    | ok s' =>
      simp only
      split
      · rename_i hc
        apply ih
        have hp' : other.trans.foldlM (uniteEdge other) { s with changed := false } = .ok s' := hp
        obtain ⟨hm, hch⟩ := uniteFold_mono _ hp'
        rcases hch hc with h0 | ⟨e, he, hn, hs⟩
        · cases h0
        · have : unmapped other s'.map < unmapped other s.map := by
            unfold unmapped
            refine Panic.filter_length_lt _ _ ?_ e hn ?_ other.trans he
            · intro x hx
              cases hg : mapGet s.map x.dst with
              | none => rfl
              | some v =>
                have := hm x.dst (by simp [hg])
                cases hg' : mapGet s'.map x.dst with
                | none => rw [hg'] at this; cases this
                | some v' => rw [hg'] at hx; cases hx
            · cases hg' : mapGet s'.map e.dst with
              | none => rw [hg'] at hs; cases hs
              | some v' => rfl
          omega
      · intro h; cases h

/-- `unite` never runs out of the model's fuel. -/
theorem unite_ne_fuel (fixK : Bool) (self other : LDfa) : unite fixK self other ≠ .error .fuel := by
  unfold unite
  have hlt : unmapped other [(0, 0)] < other.trans.length + 2 := by
    unfold unmapped
    have := List.length_filter_le (fun e : Edge => (mapGet [(0, 0)] e.dst).isNone) other.trans
    omega
  have := uniteLoop_ne_fuel (other := other) (other.trans.length + 2) ⟨self, [(0, 0)], false⟩ hlt
  split
  · rename_i e he
    intro h
    injection h with h
    subst h
    exact this he
  · intro h; cases h

theorem uniteAllFold_ne_fuel (fixK : Bool) (k : Nat) : ∀ (rest : List (Nat × List Tuple)) (acc : LDfa),
    rest.foldlM (fun acc (q : Nat × List Tuple) => unite fixK acc (fromKTuples k q.2 q.1)) acc ≠ .error .fuel := by
  intro rest
  induction rest with
  | nil => intro acc h; cases h
  | cons q rest ih =>
    intro acc h
    rw [foldlM_except_cons] at h
    cases h1 : unite fixK acc (fromKTuples k q.2 q.1) with
    | error err =>
      rw [h1] at h
      have : (Except.error err : Except Err LDfa) = .error .fuel := h
      injection this with this
      subst this
      exact unite_ne_fuel _ _ _ h1
    | ok a1 =>
      rw [h1] at h
      exact ih a1 h

end ParolModel.MT

namespace ParolModel

/-- The uniting loop of `calculate_lookahead_dfas` never exhausts the model's fuel — for ALL tuple
    sets. (`fuel` is an outcome of the model only; this shows it is not an outcome at all.) -/
theorem uniteAll_ne_fuel (fixK : Bool) (k : Nat) (sets : List (Nat × List Tuple)) :
    uniteAll fixK k sets ≠ some (.error .fuel) := by
  cases sets with
  | nil => intro h; cases h
  | cons q rest =>
    obtain ⟨p, ts⟩ := q
    simp only [uniteAll]
    intro h
    injection h with h
    exact MT.uniteAllFold_ne_fuel fixK k rest _ h

/-- **trie → unite is total** on non-empty, pairwise disjoint, prefix-free tuple sets: an automaton,
    never a conflict, a panic path or exhausted fuel. -/
theorem uniteAll_total (k : Nat) {sets : List (Nat × List Tuple)} (ok : SetsOk sets) (hne : sets ≠ []) :
    ∃ d, uniteAll true k sets = some (.ok d) := by
  rcases uniteAll_ok_or_fuel k ok hne with h | h
  · exact h
  · exact absurd h (uniteAll_ne_fuel true k sets)

/-- **trie → unite → compile → minimise is total**: for non-empty, pairwise disjoint, prefix-free
    tuple sets and every hash-map iteration order `ch` the whole chain of
    `calculate_lookahead_dfas` / `CompiledDFA::from_lookahead_dfa` for one non-terminal returns a
    compiled automaton. -/
theorem compile_total (k : Nat) {sets : List (Nat × List Tuple)} (ok : SetsOk sets) (hne : sets ≠ [])
    (ch : List Nat) : ∃ d c, uniteAll true k sets = some (.ok d) ∧ compileDfa d ch = some c := by
  obtain ⟨d, hd⟩ := uniteAll_total k ok hne
  obtain ⟨c, hc⟩ := minimizeC_total ((built_all ok hd).compiledOk ok) ch
  exact ⟨d, c, hd, hc⟩

end ParolModel

/-! ### the generator model `genTables` has no panic outcome -/
namespace ParolModel
open KS

theorem compiledOk_no_trans (p0 : Int) (k : Nat) : CompiledOk ⟨p0, [], k⟩ := by
  refine ⟨rfl, ?_, ?_, ?_, ?_⟩
  · intro t1 h; cases h
  · intro t h; cases h
  · intro t h; cases h
  · intro _ u h; cases h

/-- What `calculate_k_tuples` hands to the uniting loop for non-terminal `A` of a grammar of the
    class, at the `k` that `decidable` answered: for one alternative (`k = 0`) a single set of
    ε-tuples (no `unite` call happens), otherwise (`k ≥ 1`) non-empty, pairwise disjoint,
    prefix-free sets. -/
theorem sets_of_decided {G : Grammar} {fuel K A k : Nat} {sets : List (Nat × TSet)} (hno : NoEoi G)
    (hprod : KS.Productive G) (hreach : KS.Reachable G) (hnlr : NoLeftRec G)
    (hdec : decidableM G fuel A K = .ok k) (hsets : laSets G fuel A k = some sets) :
    (k = 0 ∧ ∃ p S, sets = [(p, S)] ∧ ∀ t ∈ S, t = []) ∨ (1 ≤ k ∧ SetsOk sets ∧ sets ≠ []) := by
  obtain ⟨i0, p0, hp0, hl0⟩ := decidableM_ok_prod hdec
  rcases decidableM_ok_inv hdec with ⟨rfl, pi, hpi⟩ | ⟨hk, sets', hsets', hdis⟩
  · obtain ⟨hkeys, hnil⟩ := laSets_zero_nil hno hsets
    rw [hpi] at hkeys
    match sets, hkeys, hnil with
    | [(a, S)], _, hnil => exact Or.inl ⟨rfl, a, S, rfl, hnil (a, S) (by simp)⟩
  · rw [hsets] at hsets'
    injection hsets' with hsets'
    subst hsets'
    obtain ⟨hc1, hc2⟩ := laSets_some_comp hsets
    have hspecAt := setsAreSpecAt_of_class hno hprod hreach hnlr hk hc1 hc2
    have hne : ∃ f, FollowK G k A f := by
      obtain ⟨f, hf⟩ := followKc_inh hreach (List.mem_of_getElem? hp0) k
      exact ⟨f, hl0 ▸ followK_iff_ctx.2 hf⟩
    have hspec := laSets_spec hk hno hspecAt hne hsets
    have ok := setsOk_of_laSpec hno hprod hreach hspec hdis
    have hnil : sets ≠ [] := by
      obtain ⟨S, hS, _⟩ := hspec.of_prod hp0 hl0
      intro e; rw [e] at hS; cases hS
    exact Or.inr ⟨hk, ok, hnil⟩

/-- In both cases the whole chain trie → unite → compile → minimise returns an automaton. -/
theorem chain_total_of_decided {k : Nat} {sets : List (Nat × List Tuple)} (ch : List Nat)
    (h : (k = 0 ∧ ∃ p S, sets = [(p, S)] ∧ ∀ t ∈ S, t = []) ∨ (1 ≤ k ∧ SetsOk sets ∧ sets ≠ [])) :
    ∃ d c, uniteAll true k sets = some (.ok d) ∧ compileDfa d ch = some c := by
  rcases h with ⟨rfl, a, S, rfl, hS⟩ | ⟨_, ok, hnil⟩
  · refine ⟨fromKTuples 0 S a, ?_⟩
    have hd : uniteAll true 0 [(a, S)] = some (.ok (fromKTuples 0 S a)) := by
      simp only [uniteAll, List.foldlM_nil]
      rfl
    have hraw : compileRaw (fromKTuples 0 S a) = ⟨annot [(a : Int)] 0, [], 0⟩ := by
      rw [fromKTuples_all_nil 0 S a hS]
      rfl
    obtain ⟨c, hc⟩ := minimizeC_total (hraw ▸ compiledOk_no_trans _ _) ch
    exact ⟨c, hd, hc⟩
  · exact compile_total k ok hnil ch

/-- For a grammar of the class, once `decidable` has answered `Ok(k)` for `A` and the FIRST/FOLLOW
    fixpoints at `k` have been computed, the rest of the chain for `A` — tries, `unite`,
    conversion, minimisation — returns a compiled automaton. -/
theorem genAuto_total {G : Grammar} {fuel K A k : Nat} {sets : List (Nat × TSet)} (hno : NoEoi G)
    (hprod : KS.Productive G) (hreach : KS.Reachable G) (hnlr : NoLeftRec G)
    (hdec : decidableM G fuel A K = .ok k) (hsets : laSets G fuel A k = some sets) :
    ∃ c, genAuto G fuel K A = .ok c := by
  obtain ⟨d, c, hd, hc⟩ := chain_total_of_decided [] (sets_of_decided hno hprod hreach hnlr hdec hsets)
  exact ⟨c, by simp only [genAuto, hdec, hsets, hd, hc]⟩

/-- The outcomes of the model of one non-terminal's automaton for a grammar of the class: an
    automaton, `MaxKExceeded`, "not part of the grammar", or the MODEL's fixpoint fuel — never
    `panic`, never `conflict`. -/
theorem genAuto_outcomes {G : Grammar} (fuel K A : Nat) (hno : NoEoi G)
    (hprod : KS.Productive G) (hreach : KS.Reachable G) (hnlr : NoLeftRec G) :
    (∃ c, genAuto G fuel K A = .ok c) ∨ genAuto G fuel K A = .error .maxK ∨
      genAuto G fuel K A = .error .notPart ∨ genAuto G fuel K A = .error .fuel := by
  cases hdec : decidableM G fuel A K with
  | ok k =>
    cases hsets : laSets G fuel A k with
    | none => exact Or.inr (Or.inr (Or.inr (by simp only [genAuto, hdec, hsets])))
    | some sets => exact Or.inl (genAuto_total hno hprod hreach hnlr hdec hsets)
  | errMaxK => exact Or.inr (Or.inl (by simp only [genAuto, hdec, GenErr.ofDec]))
  | errNotPart => exact Or.inr (Or.inr (Or.inl (by simp only [genAuto, hdec, GenErr.ofDec])))
  | fuel => exact Or.inr (Or.inr (Or.inr (by simp only [genAuto, hdec, GenErr.ofDec])))

theorem genAuto_ne_panic {G : Grammar} (fuel K A : Nat) (hno : NoEoi G)
    (hprod : KS.Productive G) (hreach : KS.Reachable G) (hnlr : NoLeftRec G) :
    genAuto G fuel K A ≠ .error .panic := by
  rcases genAuto_outcomes fuel K A hno hprod hreach hnlr with ⟨c, h⟩ | h | h | h <;>
    (rw [h]; intro e; cases e)

/-- `calculate_k_tuples` fails only with an error of `decidable` (or the model's fuel). -/
theorem calcTuplesLoop_err {G : Grammar} {fuel K : Nat} : ∀ (l : List Nat) (acc : List (Nat × TSet)) {A : Nat} {e : DecRes},
    calcTuplesLoop G fuel K l acc = .err A e → ∀ k, e ≠ .ok k := by
  intro l
  induction l with
  | nil => intro acc A e h; cases h
  | cons B rest ih =>
    intro acc A e h k
    simp only [calcTuplesLoop] at h
    split at h
    · split at h
      · exact ih _ h k
      · injection h with _ h; subst h; intro e'; cases e'
    · rename_i e0 hne
      injection h with _ h
      subst h
      exact hne k

end ParolModel

/-! ### the cache slots of `FirstCache` / `FollowCache` (guarded models of `Model/PanicSites2.lean`) -/
namespace ParolModel.Panic
open ParolModel KS

theorem firstCodeG_eq (G : Grammar) (fuel : Nat) : ∀ k, k ≤ maxKConst → firstCodeG G fuel k = some (firstCode G fuel k)
  | 0, _ => by simp [firstCodeG, firstCode, slotOk]
  | k+1, h => by
    have ih := firstCodeG_eq G fuel k (by omega)
    simp [firstCodeG, firstCode, slotOk, h, ih]

theorem followCodeG_eq (G : Grammar) (fuel : Nat) : ∀ k, k ≤ maxKConst → followCodeG G fuel k = some (followCode G fuel k)
  | 0, h => by simp [followCodeG, followCode, slotOk, firstCodeG_eq G fuel 0 h]
  | k+1, h => by
    have ih := followCodeG_eq G fuel k (by omega)
    simp [followCodeG, followCode, slotOk, h, ih, firstCodeG_eq G fuel (k+1) h]

theorem laSetsG_eq (G : Grammar) (fuel A : Nat) {k : Nat} (h : k ≤ maxKConst) :
    laSetsG G fuel A k = some (laSets G fuel A k) := by
  simp [laSetsG, laSets, firstCodeG_eq G fuel k h, followCodeG_eq G fuel k h]

theorem decLoopG_eq (G : Grammar) (fuel A : Nat) : ∀ (n cur : Nat), cur + n ≤ maxKConst + 1 →
    decLoopG G fuel A n cur = some (decLoop G fuel A n cur) := by
  intro n
  induction n with
  | zero => intro cur _; rfl
  | succ n ih =>
    intro cur h
    simp only [decLoopG, decLoop, laSetsG_eq G fuel A (show cur ≤ maxKConst by omega)]
    cases laSets G fuel A cur with
    | none => rfl
    | some sets =>
      simp only
      split
      · rfl
      · exact ih (cur + 1) (by omega)

theorem decidableG_eq (G : Grammar) (fuel A : Nat) {maxK : Nat} (h : maxK ≤ maxKConst) :
    decidableG G fuel A maxK = some (decidableM G fuel A maxK) := by
  unfold decidableG decidableM
  generalize prodIdxs G A = l
  match l with
  | [] => rfl
  | [_] => rfl
  | _ :: _ :: _ => exact decLoopG_eq G fuel A maxK 1 (by omega)

theorem decLoop_ok_lt {G : Grammar} {fuel A : Nat} : ∀ (n cur k : Nat), decLoop G fuel A n cur = .ok k → k < cur + n := by
  intro n
  induction n with
  | zero => intro cur k h; cases h
  | succ n ih =>
    intro cur k h
    simp only [decLoop] at h
    split at h
    · cases h
    · split at h
      · injection h with h; omega
      · have := ih (cur + 1) k h; omega

/-- `decidable` never answers a `k` above the limit it was given. -/
theorem decidableM_ok_le {G : Grammar} {fuel A maxK k : Nat} (h : decidableM G fuel A maxK = .ok k) : k ≤ maxK := by
  unfold decidableM at h
  split at h
  · cases h
  · injection h with h; omega
  · have := decLoop_ok_lt maxK 1 k h; omega

theorem calcTuplesLoopG_eq (G : Grammar) (fuel : Nat) {maxK : Nat} (h : maxK ≤ maxKConst) :
    ∀ (l : List Nat) (acc : List (Nat × TSet)),
      calcTuplesLoopG G fuel maxK l acc = some (calcTuplesLoop G fuel maxK l acc) := by
  intro l
  induction l with
  | nil => intro acc; rfl
  | cons A rest ih =>
    intro acc
    simp only [calcTuplesLoopG, calcTuplesLoop, decidableG_eq G fuel A h]
    cases hd : decidableM G fuel A maxK with
    | ok k =>
      simp only [laSetsG_eq G fuel A (show k ≤ maxKConst from Nat.le_trans (decidableM_ok_le hd) h)]
      cases laSets G fuel A k with
      | none => rfl
      | some sets => exact ih _
    | errMaxK => rfl
    | errNotPart => rfl
    | fuel => rfl

theorem laSets_keys {G : Grammar} {fuel A k : Nat} {sets : List (Nat × TSet)} (h : laSets G fuel A k = some sets) :
    sets.map (·.1) = prodIdxs G A := by
  unfold laSets at h
  cases hfv : firstCode G fuel k with
  | none => simp [hfv] at h
  | some fv =>
    cases hfw : followCode G fuel k with
    | none => simp [hfv, hfw] at h
    | some fw =>
      simp only [hfv, hfw, Option.bind_some, Option.map_some, Option.some.injEq] at h
      subst h
      simp [Function.comp_def]

theorem calcTuplesLoop_keys {G : Grammar} {fuel K : Nat} : ∀ (l : List Nat) (acc m : List (Nat × TSet)),
    calcTuplesLoop G fuel K l acc = .ok m → (∀ q ∈ acc, ∃ p, G.prods[q.1]? = some p) →
    ∀ q ∈ m, ∃ p, G.prods[q.1]? = some p := by
  intro l
  induction l with
  | nil =>
    intro acc m h hacc
    simp only [calcTuplesLoop] at h
    injection h with h
    subst h
    exact hacc
  | cons A rest ih =>
    intro acc m h hacc
    simp only [calcTuplesLoop] at h
    split at h
    · split at h
      · rename_i k _ sets hs
        apply ih _ m h
        intro q hq
        rcases List.mem_append.1 hq with hq | hq
        · exact hacc q hq
        · have : q.1 ∈ prodIdxs G A := by
            rw [← laSets_keys hs]
            exact List.mem_map_of_mem hq
          obtain ⟨p, hp, _⟩ := mem_prodIdxs.1 this
          exact ⟨p, hp⟩
      · cases h
    · cases h

/-! ### `compile_production_equation` with the deprecated symbol variants -/

/-- a part of the equation: one non-terminal, or a non-empty run of terminals -/
def PartOk (part : List RSym) : Prop := (∃ B, part = [.n B]) ∨ (part ≠ [] ∧ ∀ s ∈ part, s.isT = true)

theorem partsStep_ok {acc acc' : List (List RSym)} {s : RSym} (h : partsStep acc s = some acc')
    (hacc : ∀ part ∈ acc, PartOk part) : ∀ part ∈ acc', PartOk part := by
  unfold partsStep at h
  have hpush : ∀ (x : RSym), PartOk [x] → ∀ part ∈ acc ++ [[x]], PartOk part := by
    intro x hx part hp
    rcases List.mem_append.1 hp with hp | hp
    · exact hacc part hp
    · simp only [List.mem_singleton] at hp
      subst hp; exact hx
  split at h
  · rename_i B
    injection h with h; subst h
    exact hpush _ (Or.inl ⟨B, rfl⟩)
  · rename_i a
    have hta : PartOk [RSym.t a] := Or.inr ⟨by simp, by simp [RSym.isT]⟩
    split at h
    · injection h with h; subst h
      exact hpush _ hta
    · rename_i last hlast
      split at h
      · rename_i hT
        injection h with h; subst h
        intro part hp
        rcases List.mem_append.1 hp with hp | hp
        · exact hacc part ((List.dropLast_sublist _).subset hp)
        · simp only [List.mem_singleton] at hp
          subst hp
          have hl : PartOk last := hacc last (List.mem_of_getLast? hlast)
          refine Or.inr ⟨by simp, ?_⟩
          intro x hx
          rcases List.mem_append.1 hx with hx | hx
          · rcases hl with ⟨B, rfl⟩ | ⟨_, hall⟩
            · simp [RSym.isT] at hT
            · exact hall x hx
          · simp only [List.mem_singleton] at hx
            subst hx; rfl
      · injection h with h; subst h
        exact hpush _ hta
  · cases h

theorem partsFold_ok : ∀ (rhs : List RSym) {acc acc' : List (List RSym)}, rhs.foldlM partsStep acc = some acc' →
    (∀ part ∈ acc, PartOk part) → ∀ part ∈ acc', PartOk part := by
  intro rhs
  induction rhs with
  | nil =>
    intro acc acc' h hacc
    simp only [List.foldlM_nil] at h
    injection h with h; subst h; exact hacc
  | cons s rest ih =>
    intro acc acc' h hacc
    rw [foldlM_option_cons] at h
    cases h1 : partsStep acc s with
    | none => simp [h1] at h
    | some a1 =>
      simp only [h1, Option.bind_some] at h
      exact ih h (partsStep_ok h1 hacc)

theorem equationOk_of_partOk {parts : List (List RSym)} (h : ∀ part ∈ parts, PartOk part) : equationOk parts = true := by
  unfold equationOk
  rw [List.all_eq_true]
  intro part hp
  rcases h part hp with ⟨B, rfl⟩ | ⟨hne, hall⟩
  · rfl
  · cases part with
    | nil => exact absurd rfl hne
    | cons x xs =>
      have hx := hall x List.mem_cons_self
      cases x with
      | t a =>
        simp only [List.head?_cons]
        rw [List.all_eq_true]
        intro y hy
        have := hall y hy
        cases y <;> simp_all [RSym.isT, createOk]
      | n B => simp [RSym.isT] at hx
      | other => simp [RSym.isT] at hx

theorem partsFold_none_iff : ∀ (rhs : List RSym) (acc : List (List RSym)),
    rhs.foldlM partsStep acc = none ↔ RSym.other ∈ rhs := by
  intro rhs
  induction rhs with
  | nil => intro acc; simp
  | cons s rest ih =>
    intro acc
    rw [foldlM_option_cons]
    cases s with
    | other => simp [partsStep]
    | n B =>
      simp only [partsStep, Option.bind_some, ih, List.mem_cons, reduceCtorEq, false_or]
    | t a =>
      have : ∃ a1, partsStep acc (.t a) = some a1 := by
        unfold partsStep
        simp only
        split
        · exact ⟨_, rfl⟩
        · split <;> exact ⟨_, rfl⟩
      obtain ⟨a1, h1⟩ := this
      simp only [h1, Option.bind_some, ih, List.mem_cons, reduceCtorEq, false_or]

/-! ### the refined fold computes the parts of `KS.compileParts` -/

def embedPart : KPart → List RSym
  | .ts run => run.map RSym.t
  | .nt A => [.n A]

/-- the last part, if it ends with a terminal -/
def endsT (acc : List (List RSym)) : Option (List RSym) :=
  match acc.getLast? with
  | some last => if (last.getLast?.map RSym.isT) == some true then some last else none
  | none => none

def joinParts (acc : List (List RSym)) (ps : List KPart) : List (List RSym) :=
  match endsT acc, ps with
  | some last, .ts run :: ps' => acc.dropLast ++ [last ++ run.map RSym.t] ++ ps'.map embedPart
  | _, _ => acc ++ ps.map embedPart

theorem partsStep_t (acc : List (List RSym)) (a : Nat) :
    partsStep acc (.t a) = some (match endsT acc with
      | some last => acc.dropLast ++ [last ++ [.t a]]
      | none => acc ++ [[.t a]]) := by
  unfold partsStep endsT
  cases acc.getLast? with
  | none => rfl
  | some last =>
    simp only
    split <;> rfl

theorem endsT_push_n (acc : List (List RSym)) (A : Nat) : endsT (acc ++ [[.n A]]) = none := by
  simp [endsT, RSym.isT]

theorem endsT_push_t (acc : List (List RSym)) (a : Nat) : endsT (acc ++ [[.t a]]) = some [.t a] := by
  simp [endsT, RSym.isT]

theorem endsT_extend (acc : List (List RSym)) (last : List RSym) (a : Nat) :
    endsT (acc ++ [last ++ [.t a]]) = some (last ++ [.t a]) := by
  simp [endsT, RSym.isT]

theorem partsFold_compileParts : ∀ (ss : List Sym) (acc : List (List RSym)),
    (ss.map embedSym).foldlM partsStep acc = some (joinParts acc (compileParts ss)) := by
  intro ss
  induction ss with
  | nil =>
    intro acc
    simp only [List.map_nil, List.foldlM_nil, compileParts, joinParts]
    cases endsT acc <;> simp
  | cons s ss ih =>
    intro acc
    rw [List.map_cons, foldlM_option_cons]
    cases s with
    | n A =>
      have hstep : partsStep acc (embedSym (.n A)) = some (acc ++ [[.n A]]) := rfl
      rw [hstep, Option.bind_some, ih]
      simp only [compileParts, joinParts, endsT_push_n]
      cases endsT acc <;> simp [embedPart]
    | t a =>
      have hstep : partsStep acc (embedSym (.t a)) = _ := partsStep_t acc a
      rw [hstep, Option.bind_some, ih]
      simp only [compileParts]
      cases hacc : endsT acc with
      | none =>
        simp only [joinParts, endsT_push_t, hacc]
        cases compileParts ss with
        | nil => simp [embedPart]
        | cons p ps =>
          cases p with
          | ts run => simp [embedPart]
          | nt A => simp [embedPart]
      | some last =>
        simp only [joinParts, endsT_extend, hacc]
        cases compileParts ss with
        | nil => simp [embedPart]
        | cons p ps =>
          cases p with
          | ts run => simp [embedPart]
          | nt A => simp [embedPart]


/-- On the framework's symbols the refined model of the grouping fold yields exactly the parts of
    `KS.compileParts` (the function the FIRST/FOLLOW models and their differential ties use). -/
theorem partsOf_embed (ss : List Sym) : partsOf (ss.map embedSym) = some ((compileParts ss).map embedPart) := by
  have := partsFold_compileParts ss []
  simpa [partsOf, joinParts, endsT] using this

end ParolModel.Panic
