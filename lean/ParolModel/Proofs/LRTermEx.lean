import ParolModel.Proofs.LRTermSumm
/-! The two real tables used as counterexamples in Props/C19e.lean (finding F24) and the loops the
parser model runs into on them. -/
namespace ParolModel

theorem lrRun_res_core (T : LRTables) (o : Opts) (fuel : Nat) (toks : List MTok) :
    (lrRun T o fuel toks).res = (lrCoreRun T o.maxDepth fuel toks).res := by
  rw [← lrRun_core]; rfl

/-- The table parol (lalry) builds for `%grammar_type 'LALR(1)'  N0: N1 | "a"; N1: N1 | "a" | "a";`
    with its conflicts resolved (parol augments the grammar: `N0` below is the new start symbol, `N1`
    and `N2` are the user's `N0` and `N1`; productions in `f24G`). State 0 shifts `"a"` (terminal 5)
    into state 1, which reduces `N2: "a"`; `goto(0, N2) = 3`, and state 3 reduces the unit production
    `N2: N2` on end of input — back into state 3. -/
def f24T : LRTables :=
  ⟨0, [⟨0, 1, false⟩, ⟨2, 1, false⟩, ⟨1, 1, false⟩, ⟨2, 1, false⟩, ⟨2, 1, false⟩, ⟨1, 1, false⟩],
   [⟨[(5, .shift 1)], [(1, 2), (2, 3)]⟩,
    ⟨[(0, .reduce 2 3)], []⟩,
    ⟨[(0, .accept)], []⟩,
    ⟨[(0, .reduce 2 1)], []⟩]⟩

/-- Its productions: `N0: N1; N2: N2; N1: N2; N2: "a"; N2: "a"; N1: "a";`. -/
def f24G : List Rule :=
  [⟨0, [.n 1]⟩, ⟨2, [.n 2]⟩, ⟨1, [.n 2]⟩, ⟨2, [.t 5]⟩, ⟨2, [.t 5]⟩, ⟨1, [.t 5]⟩]

/-- The input `a`. -/
def f24Toks : List MTok := [⟨5, false, false, 0⟩]

/-- After the shift and the first reduction the parser is in state 3 on top of state 0 with one
    `N2` node and no input left; every further step reduces `N2: N2` and comes back. -/
theorem f24_loop (md : Option Nat) (hmd : md = none) : ∀ (fuel : Nat) (acts : List (Nat × List PTItem)) (cm : List Nat)
    (steps : Nat), (lrCore f24T md fuel ⟨[3, 0], [], [.nt 2], acts, cm⟩ steps).res = .fuel := by
  subst hmd
  intro fuel
  induction fuel with
  | zero => intros; rfl
  | succ fuel ih =>
    intro acts cm steps
    rw [lrCore]
    have : coreStep f24T none ⟨[3, 0], [], [.nt 2], acts, cm⟩ =
        .next ⟨[3, 0], [], [.nt 2], (1, [.nt 2]) :: acts, cm⟩ := rfl
    rw [this]
    exact ih _ _ _

/-- The table parol (lalry) builds for the NON-cyclic grammar `%grammar_type 'LALR(1)'  N0: N1;
    N1: | N1 N0 "a";` (hidden left recursion: `N1 ⇒ N1 N0 "a" ⇒ N1 N1 "a"` with the first `N1`
    nullable; productions in `hlrG`, `N2` is the user's `N1`), conflicts resolved in favour of the
    reduction: in state 2 (after `N2`) on lookahead `"a"` the parser reduces `N2: ε` and
    `goto(2, N2) = 2` — the stack grows forever. Found by the thorough generator (seed 7) of C03;
    the real parser does not return on the input `a` either. -/
def hlrT : LRTables :=
  ⟨0, [⟨0, 1, false⟩, ⟨2, 0, false⟩, ⟨2, 3, false⟩, ⟨1, 1, false⟩],
   [⟨[(0, .reduce 2 1), (5, .reduce 2 1)], [(1, 1), (2, 2)]⟩,
    ⟨[(0, .accept)], []⟩,
    ⟨[(0, .reduce 1 3), (5, .reduce 2 1)], [(1, 3), (2, 2)]⟩,
    ⟨[(5, .shift 4)], []⟩,
    ⟨[(0, .reduce 2 2), (5, .reduce 2 2)], []⟩]⟩

/-- Its productions: `N0: N1; N2: ; N2: N2 N1 "a"; N1: N2;`. -/
def hlrG : List Rule := [⟨0, [.n 1]⟩, ⟨2, []⟩, ⟨2, [.n 2, .n 1, .t 5]⟩, ⟨1, [.n 2]⟩]

theorem hlr_loop : ∀ (fuel : Nat) (rest : List Nat) (items : List PTItem) (acts : List (Nat × List PTItem))
    (cm : List Nat) (steps : Nat),
    (lrCore hlrT none fuel ⟨2 :: rest, f24Toks, items, acts, cm⟩ steps).res = .fuel := by
  intro fuel
  induction fuel with
  | zero => intros; rfl
  | succ fuel ih =>
    intro rest items acts cm steps
    rw [lrCore]
    have : coreStep hlrT none ⟨2 :: rest, f24Toks, items, acts, cm⟩ =
        .next ⟨2 :: 2 :: rest, f24Toks, .nt 2 :: items, (1, []) :: acts, cm⟩ := rfl
    rw [this]
    exact ih _ _ _ _ _

end ParolModel
