import ParolModel.Model.Fixpoints
import ParolModel.Spec.Analysis
/-! Generic lemmas about the insertion-ordered set representation, sweeps and the sweep loop of
`Model/Fixpoints.lean`. Core Lean only (no Mathlib needed). -/
namespace ParolModel

/-! ## Generic set machinery -/
section Generic
variable {α β : Type} [DecidableEq α]

theorem mem_ins {a b : α} {S : List α} : b ∈ ins a S ↔ b = a ∨ b ∈ S := by
  unfold ins
  by_cases h : a ∈ S
  · simp only [h, if_true]
    constructor
    · exact Or.inr
    · rintro (rfl | h') <;> assumption
  · simp only [h, if_false, List.mem_append, List.mem_singleton]
    exact Or.comm

theorem length_ins (a : α) (S : List α) :
    (ins a S).length = if a ∈ S then S.length else S.length + 1 := by
  unfold ins; split <;> simp

theorem ins_of_mem {a : α} {S : List α} (h : a ∈ S) : ins a S = S := by
  simp [ins, h]

theorem nodup_ins {a : α} {S : List α} (h : S.Nodup) : (ins a S).Nodup := by
  unfold ins
  split
  · exact h
  · rename_i hn
    rw [List.nodup_append]
    refine ⟨h, by simp, ?_⟩
    intro x hx y hy
    simp only [List.mem_singleton] at hy
    subst hy
    intro e; subst e; exact hn hx

theorem mem_insAll {as S : List α} {b : α} : b ∈ insAll as S ↔ b ∈ as ∨ b ∈ S := by
  induction as generalizing S with
  | nil => simp [insAll]
  | cons a as ih =>
    simp only [insAll, ih, mem_ins, List.mem_cons]
    constructor
    · rintro (h | h | h)
      · exact Or.inl (Or.inr h)
      · exact Or.inl (Or.inl h)
      · exact Or.inr h
    · rintro ((h | h) | h)
      · exact Or.inr (Or.inl h)
      · exact Or.inl h
      · exact Or.inr (Or.inr h)

theorem length_le_insAll (as S : List α) : S.length ≤ (insAll as S).length := by
  induction as generalizing S with
  | nil => simp [insAll]
  | cons a as ih =>
    simp only [insAll]
    have := ih (ins a S)
    rw [length_ins] at this
    split at this <;> omega

theorem insAll_fix {as S : List α} (h : (insAll as S).length ≤ S.length) :
    insAll as S = S ∧ ∀ a ∈ as, a ∈ S := by
  induction as generalizing S with
  | nil => simp [insAll]
  | cons a as ih =>
    simp only [insAll] at h ⊢
    have h1 := length_le_insAll as (ins a S)
    have h2 := length_ins a S
    by_cases ha : a ∈ S
    · rw [ins_of_mem ha] at h ⊢
      obtain ⟨e, hm⟩ := ih h
      refine ⟨e, ?_⟩
      intro x hx
      rcases List.mem_cons.mp hx with rfl | hx
      · exact ha
      · exact hm x hx
    · simp only [ha, if_false] at h2
      omega

theorem nodup_insAll {as S : List α} (h : S.Nodup) : (insAll as S).Nodup := by
  induction as generalizing S with
  | nil => simpa [insAll]
  | cons a as ih => exact ih (nodup_ins h)

theorem insAll_of_subset {as S : List α} (h : ∀ a ∈ as, a ∈ S) : insAll as S = S := by
  induction as generalizing S with
  | nil => rfl
  | cons a as ih =>
    simp only [insAll]
    rw [ins_of_mem (h a (List.mem_cons_self))]
    exact ih (fun x hx => h x (List.mem_cons_of_mem _ hx))

theorem length_le_sweepG (cand : β → List α → List α) (xs : List β) (S : List α) :
    S.length ≤ (sweepG cand xs S).length := by
  induction xs generalizing S with
  | nil => simp [sweepG]
  | cons x xs ih =>
    simp only [sweepG]
    exact Nat.le_trans (length_le_insAll _ _) (ih _)

theorem subset_sweepG (cand : β → List α → List α) (xs : List β) (S : List α) :
    ∀ a ∈ S, a ∈ sweepG cand xs S := by
  induction xs generalizing S with
  | nil => simp [sweepG]
  | cons x xs ih =>
    intro a ha
    simp only [sweepG]
    exact ih _ a (mem_insAll.mpr (Or.inr ha))

/-- A sweep that does not make the set longer leaves it unchanged, and the set is closed under
    every item's candidates. -/
theorem sweepG_fix {cand : β → List α → List α} {xs : List β} {S : List α}
    (h : (sweepG cand xs S).length ≤ S.length) :
    sweepG cand xs S = S ∧ ∀ x ∈ xs, ∀ a ∈ cand x S, a ∈ S := by
  induction xs generalizing S with
  | nil => simp [sweepG]
  | cons x xs ih =>
    simp only [sweepG] at h ⊢
    have h1 := length_le_sweepG cand xs (insAll (cand x S) S)
    have h2 := length_le_insAll (cand x S) S
    obtain ⟨e1, m1⟩ := insAll_fix (as := cand x S) (S := S) (by omega)
    rw [e1] at h ⊢
    obtain ⟨e2, m2⟩ := ih h
    refine ⟨e2, ?_⟩
    intro y hy
    rcases List.mem_cons.mp hy with rfl | hy
    · exact m1
    · exact m2 y hy

/-- Invariance: a property of all elements survives a sweep if every item's candidates have it. -/
theorem sweepG_inv {cand : β → List α → List α} (P : α → Prop) {xs : List β} {S : List α}
    (hS : ∀ a ∈ S, P a)
    (hc : ∀ x ∈ xs, ∀ S', (∀ a ∈ S', P a) → ∀ a ∈ cand x S', P a) :
    ∀ a ∈ sweepG cand xs S, P a := by
  induction xs generalizing S with
  | nil => simpa [sweepG] using hS
  | cons x xs ih =>
    simp only [sweepG]
    apply ih
    · intro a ha
      rcases mem_insAll.mp ha with h | h
      · exact hc x (List.mem_cons_self) S hS a h
      · exact hS a h
    · intro y hy
      exact hc y (List.mem_cons_of_mem _ hy)

theorem nodup_sweepG {cand : β → List α → List α} {xs : List β} {S : List α} (h : S.Nodup) :
    (sweepG cand xs S).Nodup := by
  induction xs generalizing S with
  | nil => simpa [sweepG]
  | cons x xs ih => exact ih (nodup_insAll h)

omit [DecidableEq α] in
/-- Result of the loop: the last sweep started from a set `S₀` that satisfies the invariant and was
    not made longer. -/
theorem iterG_some {sweep : List α → List α} (Inv : List α → Prop)
    (hpres : ∀ S, Inv S → Inv (sweep S)) {fuel : Nat} {S R : List α} (hS : Inv S)
    (h : iterG sweep fuel S = some R) :
    ∃ S₀, Inv S₀ ∧ R = sweep S₀ ∧ (sweep S₀).length ≤ S₀.length := by
  induction fuel generalizing S with
  | zero => simp [iterG] at h
  | succ f ih =>
    simp only [iterG] at h
    split at h
    · exact ih (hpres S hS) h
    · rename_i hlt
      injection h with h
      exact ⟨S, hS, h.symm, by omega⟩

/-- Pigeonhole: a duplicate-free list all of whose elements lie in `U` is not longer than `U`. -/
theorem length_le_of_nodup_subset {S U : List α} (hn : S.Nodup) (hs : ∀ a ∈ S, a ∈ U) :
    S.length ≤ U.length := by
  induction S generalizing U with
  | nil => simp
  | cons a S ih =>
    have ha : a ∈ U := hs a (List.mem_cons_self)
    rw [List.nodup_cons] at hn
    have : S.length ≤ (U.erase a).length := by
      apply ih hn.2
      intro b hb
      have hne : b ≠ a := by intro e; subst e; exact hn.1 hb
      exact (List.mem_erase_of_ne hne).mpr (hs b (List.mem_cons_of_mem _ hb))
    rw [List.length_erase_of_mem ha] at this
    have hpos : 0 < U.length := List.length_pos_of_mem ha
    simp only [List.length_cons]
    omega

omit [DecidableEq α] in
/-- Termination of the loop within `bound - |S| + 1` sweeps if the invariant bounds the length. -/
theorem iterG_isSome {sweep : List α → List α} (Inv : List α → Prop) (bound : Nat)
    (hpres : ∀ S, Inv S → Inv (sweep S)) (hb : ∀ S, Inv S → S.length ≤ bound)
    {fuel : Nat} {S : List α} (hS : Inv S) (hf : bound + 1 ≤ fuel + S.length) :
    (iterG sweep fuel S).isSome := by
  induction fuel generalizing S with
  | zero =>
    have := hb S hS
    omega
  | succ f ih =>
    simp only [iterG]
    split
    · rename_i hlt
      exact ih (hpres S hS) (by omega)
    · rfl

end Generic

end ParolModel
