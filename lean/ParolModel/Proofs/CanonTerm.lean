import ParolModel.Proofs.Canon
import ParolModel.Proofs.GenName
/-! Termination of EBNF canonicalisation (C09): a weighted count of the group / optional /
repetition nodes (all nesting levels) plus the number of productions with several alternations
strictly decreases with every rewriting step, so none of the `while` loops of
`transform_productions` can run out of a fuel that exceeds this measure. -/
namespace ParolModel

/-! ## weighted node counts -/

mutual
/-- number of bracket nodes of a factor, all nesting levels: a group weighs `g`, an optional `o`,
    a repetition `r` -/
def Factor.cw (g o r : Nat) : Factor → Nat
  | .t _ => 0
  | .n _ _ => 0
  | .group as => g + altsCw g o r as
  | .opt as => o + altsCw g o r as
  | .rep as => r + altsCw g o r as
def altsCw (g o r : Nat) : List (List Factor) → Nat
  | [] => 0
  | a :: as => altCw g o r a + altsCw g o r as
def altCw (g o r : Nat) : List Factor → Nat
  | [] => 0
  | f :: fs => f.cw g o r + altCw g o r fs
end

def ealtsCw (g o r : Nat) : List EAlt → Nat
  | [] => 0
  | a :: as => altCw g o r a.fs + ealtsCw g o r as

def prodsCw (g o r : Nat) : List EProd → Nat
  | [] => 0
  | p :: ps => ealtsCw g o r p.alts + prodsCw g o r ps

/-- number of productions with more than one alternation -/
def multiCount : List EProd → Nat
  | [] => 0
  | p :: ps => (if 1 < p.alts.length then 1 else 0) + multiCount ps

/-- **the termination measure of canonicalisation**: repetitions weigh 3, groups and optionals 2
    (an eliminated repetition or an extracted optional may leave a group behind, an eliminated
    group may leave a production with several alternations behind), such productions 1 -/
def canonMeasure (ps : List EProd) : Nat := prodsCw 2 2 3 ps + multiCount ps

/-- number of optionals, all nesting levels -/
def optCount (ps : List EProd) : Nat := prodsCw 0 1 0 ps

theorem altCw_append (g o r : Nat) (a b : List Factor) :
    altCw g o r (a ++ b) = altCw g o r a + altCw g o r b := by
  induction a with
  | nil => simp [altCw]
  | cons f a ih => simp [altCw, ih]; omega

theorem ealtsCw_append (g o r : Nat) (a b : List EAlt) :
    ealtsCw g o r (a ++ b) = ealtsCw g o r a + ealtsCw g o r b := by
  induction a with
  | nil => simp [ealtsCw]
  | cons f a ih => simp [ealtsCw, ih]; omega

theorem prodsCw_append (g o r : Nat) (a b : List EProd) :
    prodsCw g o r (a ++ b) = prodsCw g o r a + prodsCw g o r b := by
  induction a with
  | nil => simp [prodsCw]
  | cons f a ih => simp [prodsCw, ih]; omega

theorem multiCount_append (a b : List EProd) :
    multiCount (a ++ b) = multiCount a + multiCount b := by
  induction a with
  | nil => simp [multiCount]
  | cons f a ih => simp [multiCount, ih]; omega

theorem ealtsCw_map_none (g o r : Nat) (inner : Alts) :
    ealtsCw g o r (inner.map (fun a => (⟨a, .none⟩ : EAlt))) = altsCw g o r inner := by
  induction inner with
  | nil => rfl
  | cons a as ih => simp [ealtsCw, altsCw, ih]

theorem prodsCw_sep (g o r : Nat) (lhs : Name) (alts : List EAlt) :
    prodsCw g o r (alts.map (fun a => (⟨lhs, [a]⟩ : EProd))) = ealtsCw g o r alts := by
  induction alts with
  | nil => rfl
  | cons a as ih => simp [prodsCw, ealtsCw, ih]

theorem multiCount_sep (lhs : Name) (alts : List EAlt) :
    multiCount (alts.map (fun a => (⟨lhs, [a]⟩ : EProd))) = 0 := by
  induction alts with
  | nil => rfl
  | cons a as ih => simp [multiCount, ih]

theorem prodsCw_withAlt (g o r : Nat) (L : Loc) (fs : List Factor) :
    prodsCw g o r [L.withAlt fs] =
      ealtsCw g o r L.apre + altCw g o r fs + ealtsCw g o r L.apost := by
  simp [prodsCw, Loc.withAlt, ealtsCw_append, ealtsCw]; omega

theorem multiCount_withAlt (L : Loc) (fs fs' : List Factor) :
    multiCount [L.withAlt fs] = multiCount [L.withAlt fs'] := by
  simp [multiCount, Loc.withAlt]

mutual
theorem Factor.cw_mono {g o r g' o' r' : Nat} (hg : g ≤ g') (ho : o ≤ o') (hr : r ≤ r') :
    ∀ f : Factor, f.cw g o r ≤ f.cw g' o' r'
  | .t _ => Nat.le_refl _
  | .n _ _ => Nat.le_refl _
  | .group as => by
    have := altsCw_mono hg ho hr as
    simp only [Factor.cw]; omega
  | .opt as => by
    have := altsCw_mono hg ho hr as
    simp only [Factor.cw]; omega
  | .rep as => by
    have := altsCw_mono hg ho hr as
    simp only [Factor.cw]; omega
theorem altsCw_mono {g o r g' o' r' : Nat} (hg : g ≤ g') (ho : o ≤ o') (hr : r ≤ r') :
    ∀ as : List (List Factor), altsCw g o r as ≤ altsCw g' o' r' as
  | [] => Nat.le_refl _
  | a :: as => by
    have := altCw_mono hg ho hr a
    have := altsCw_mono hg ho hr as
    simp only [altsCw]; omega
theorem altCw_mono {g o r g' o' r' : Nat} (hg : g ≤ g') (ho : o ≤ o') (hr : r ≤ r') :
    ∀ fs : List Factor, altCw g o r fs ≤ altCw g' o' r' fs
  | [] => Nat.le_refl _
  | f :: fs => by
    have := Factor.cw_mono hg ho hr f
    have := altCw_mono hg ho hr fs
    simp only [altCw]; omega
end

theorem prodsCw_mono {g o r g' o' r' : Nat} (hg : g ≤ g') (ho : o ≤ o') (hr : r ≤ r')
    (ps : List EProd) : prodsCw g o r ps ≤ prodsCw g' o' r' ps := by
  induction ps with
  | nil => exact Nat.le_refl _
  | cons p ps ih =>
    have : ∀ l : List EAlt, ealtsCw g o r l ≤ ealtsCw g' o' r' l := by
      intro l
      induction l with
      | nil => exact Nat.le_refl _
      | cons a l ihl =>
        have := altCw_mono hg ho hr a.fs
        simp only [ealtsCw]; omega
    have := this p.alts
    simp only [prodsCw]; omega

theorem optCount_le_canonMeasure (ps : List EProd) : optCount ps ≤ canonMeasure ps := by
  have := prodsCw_mono (Nat.zero_le 2) (by omega : 1 ≤ 2) (Nat.zero_le 3) ps
  unfold optCount canonMeasure
  omega

/-! ## what each step does to the counts -/

theorem sepStep_measure (g o r : Nat) {ps ps' : List EProd} (h : sepStep ps = .changed ps') :
    prodsCw g o r ps' = prodsCw g o r ps ∧ multiCount ps' + 1 = multiCount ps := by
  obtain ⟨pre, p, post, rfl, hlen, rfl⟩ := sepStep_spec h
  have hlen' : 1 < p.alts.length := hlen
  simp only [prodsCw_append, multiCount_append, prodsCw_sep, multiCount_sep, prodsCw, multiCount,
    if_pos hlen']
  omega

theorem repStep_measure (g o r : Nat) {ty : GType} {ps ps' : List EProd}
    (h : repStep ty ps = .changed ps') :
    prodsCw g o r ps' + r ≤ prodsCw g o r ps + g ∧ multiCount ps' = multiCount ps := by
  unfold repStep at h
  split at h
  · cases h
  · rename_i L hL
    obtain ⟨f, hf, rfl⟩ := locate_spec hL
    have hfg := repInner_eq hf
    subst hfg
    split at h
    · cases h
    · rename_i X hX
      simp only at h
      injection h with h
      subst h
      have e1 : ∀ (a b c : EProd) (l : List EProd), [a, b, c] ++ l = [a] ++ ([b] ++ ([c] ++ l)) :=
        fun _ _ _ _ => rfl
      have e2 : ∀ (a : EProd) (l : List EProd), a :: l = [a] ++ l := fun _ _ => rfl
      constructor
      · rw [List.append_assoc, e1, e2 (L.prod _)]
        simp only [prodsCw_append, Loc.prod, prodsCw_withAlt, altCw_append, altCw, Factor.cw]
        cases ty <;> split <;>
          simp [*, prodsCw, ealtsCw, altCw_append, altCw, Factor.cw, altsCw] <;> omega
      · rw [List.append_assoc, e1, e2 (L.prod _)]
        simp only [multiCount_append, Loc.prod]
        rw [multiCount_withAlt L _ (L.x ++ Factor.rep L.inner :: L.y)]
        simp [multiCount]

theorem groupStep_measure (g o r : Nat) {ps ps' : List EProd}
    (h : groupStep ps = .changed ps') :
    prodsCw g o r ps' + g = prodsCw g o r ps ∧ multiCount ps' ≤ multiCount ps + 1 := by
  unfold groupStep at h
  split at h
  · cases h
  · rename_i L hL
    obtain ⟨f, hf, rfl⟩ := locate_spec hL
    have hfg := groupInner_eq hf
    subst hfg
    have e2 : ∀ (a : EProd) (l : List EProd), a :: l = [a] ++ l := fun _ _ => rfl
    split at h
    · rename_i single hin
      injection h with h
      subst h
      constructor
      · rw [List.append_assoc, e2 (L.prod _)]
        simp only [prodsCw_append, Loc.prod, prodsCw_withAlt, altCw_append, altCw, Factor.cw, hin,
          altsCw]
        omega
      · rw [List.append_assoc, e2 (L.prod _)]
        simp only [multiCount_append, Loc.prod]
        rw [multiCount_withAlt L _ (L.x ++ Factor.group L.inner :: L.y)]
        omega
    · split at h
      · cases h
      · rename_i X hX
        injection h with h
        subst h
        have e1 : ∀ (a b : EProd) (l : List EProd), [a, b] ++ l = [a] ++ ([b] ++ l) :=
          fun _ _ _ => rfl
        constructor
        · rw [List.append_assoc, e1, e2 (L.prod _)]
          simp only [prodsCw_append, Loc.prod, prodsCw_withAlt, altCw_append, altCw, Factor.cw]
          simp only [prodsCw, ealtsCw_map_none]
          omega
        · rw [List.append_assoc, e1, e2 (L.prod _)]
          simp only [multiCount_append, Loc.prod]
          rw [multiCount_withAlt L _ (L.x ++ Factor.group L.inner :: L.y)]
          simp only [multiCount]
          (repeat' split) <;> omega

/-! ### `extract_options` -/

mutual
theorem exFactor_cw (g o r : Nat) (X : Name) : ∀ (f f' : Factor) (inner : Alts),
    exFactor X f = some (f', inner) → f.cw g o r = f'.cw g o r + o + altsCw g o r inner
  | .t _, _, _, h => by simp [exFactor] at h
  | .n _ _, _, _, h => by simp [exFactor] at h
  | .opt as, f', inner, h => by
    simp only [exFactor, Option.some.injEq, Prod.mk.injEq] at h
    obtain ⟨rfl, rfl⟩ := h
    simp [Factor.cw]
  | .group as, f', inner, h => by
    simp only [exFactor] at h
    split at h
    · rename_i as' inner' hex
      simp only [Option.some.injEq, Prod.mk.injEq] at h
      obtain ⟨rfl, rfl⟩ := h
      have := exAlts_cw g o r X as as' inner' hex
      simp only [Factor.cw]; omega
    · cases h
  | .rep as, f', inner, h => by
    simp only [exFactor] at h
    split at h
    · rename_i as' inner' hex
      simp only [Option.some.injEq, Prod.mk.injEq] at h
      obtain ⟨rfl, rfl⟩ := h
      have := exAlts_cw g o r X as as' inner' hex
      simp only [Factor.cw]; omega
    · cases h
theorem exAlt_cw (g o r : Nat) (X : Name) : ∀ (fs fs' : List Factor) (inner : Alts),
    exAlt X fs = some (fs', inner) → altCw g o r fs = altCw g o r fs' + o + altsCw g o r inner
  | [], _, _, h => by simp [exAlt] at h
  | f :: fs, fs', inner, h => by
    simp only [exAlt] at h
    split at h
    · rename_i f1 inner1 hex
      simp only [Option.some.injEq, Prod.mk.injEq] at h
      obtain ⟨rfl, rfl⟩ := h
      have := exFactor_cw g o r X f f1 inner1 hex
      simp only [altCw]; omega
    · split at h
      · rename_i fs1 inner1 hex
        simp only [Option.some.injEq, Prod.mk.injEq] at h
        obtain ⟨rfl, rfl⟩ := h
        have := exAlt_cw g o r X fs fs1 inner1 hex
        simp only [altCw]; omega
      · cases h
theorem exAlts_cw (g o r : Nat) (X : Name) : ∀ (as as' : Alts) (inner : Alts),
    exAlts X as = some (as', inner) → altsCw g o r as = altsCw g o r as' + o + altsCw g o r inner
  | [], _, _, h => by simp [exAlts] at h
  | a :: as, as', inner, h => by
    simp only [exAlts] at h
    split at h
    · rename_i a1 inner1 hex
      simp only [Option.some.injEq, Prod.mk.injEq] at h
      obtain ⟨rfl, rfl⟩ := h
      have := exAlt_cw g o r X a a1 inner1 hex
      simp only [altsCw]; omega
    · split at h
      · rename_i as1 inner1 hex
        simp only [Option.some.injEq, Prod.mk.injEq] at h
        obtain ⟨rfl, rfl⟩ := h
        have := exAlts_cw g o r X as as1 inner1 hex
        simp only [altsCw]; omega
      · cases h
end

theorem exEAlts_cw (g o r : Nat) (X : Name) : ∀ (alts alts' : List EAlt) (inner : Alts),
    exEAlts X alts = some (alts', inner) →
      ealtsCw g o r alts = ealtsCw g o r alts' + o + altsCw g o r inner ∧
        alts'.length = alts.length
  | [], _, _, h => by simp [exEAlts] at h
  | a :: as, alts', inner, h => by
    simp only [exEAlts] at h
    split at h
    · rename_i fs1 inner1 hex
      simp only [Option.some.injEq, Prod.mk.injEq] at h
      obtain ⟨rfl, rfl⟩ := h
      have := exAlt_cw g o r X a.fs fs1 inner1 hex
      simp only [ealtsCw, List.length_cons, and_true]; omega
    · split at h
      · rename_i as1 inner1 hex
        simp only [Option.some.injEq, Prod.mk.injEq] at h
        obtain ⟨rfl, rfl⟩ := h
        have := exEAlts_cw g o r X as as1 inner1 hex
        simp only [ealtsCw, List.length_cons]; omega
      · cases h

theorem extractStep_measure (g o r : Nat) {ps ps' : List EProd}
    (h : extractStep ps = .changed ps') :
    prodsCw g o r ps' + o = prodsCw g o r ps + g ∧ multiCount ps' = multiCount ps := by
  obtain ⟨pre, p, post, X, alts', inner, rfl, _, hex, rfl⟩ := extractInProds_spec _ _ _ h
  obtain ⟨h1, h2⟩ := exEAlts_cw g o r X p.alts alts' inner hex
  have e1 : ∀ (a b c : EProd) (l : List EProd), [a, b, c] ++ l = [a] ++ ([b] ++ ([c] ++ l)) :=
    fun _ _ _ _ => rfl
  have e2 : ∀ (a : EProd) (l : List EProd), a :: l = [a] ++ l := fun _ _ => rfl
  constructor
  · rw [List.append_assoc, e1, e2 p]
    simp only [prodsCw_append, prodsCw, ealtsCw, altCw, Factor.cw]
    omega
  · rw [List.append_assoc, e1, e2 p]
    simp [multiCount_append, multiCount, h2]

/-! ## no step fails -/

theorem sepStep_cases (ps : List EProd) :
    sepStep ps = .unchanged ∨ ∃ ps', sepStep ps = .changed ps' := by
  unfold sepStep
  split
  · exact .inr ⟨_, rfl⟩
  · exact .inl rfl

theorem repStep_cases (ty : GType) (ps : List EProd) :
    repStep ty ps = .unchanged ∨ ∃ ps', repStep ty ps = .changed ps' := by
  unfold repStep
  split
  · exact .inl rfl
  · rename_i L _
    obtain ⟨X, hX⟩ := generateName_total (variableNames ps) (L.lhs ++ "List".toList)
    rw [hX]
    exact .inr ⟨_, rfl⟩

theorem groupStep_cases (ps : List EProd) :
    groupStep ps = .unchanged ∨ ∃ ps', groupStep ps = .changed ps' := by
  unfold groupStep
  split
  · exact .inl rfl
  · rename_i L _
    split
    · exact .inr ⟨_, rfl⟩
    · obtain ⟨X, hX⟩ := generateName_total (variableNames ps) (L.lhs ++ "Group".toList)
      rw [hX]
      exact .inr ⟨_, rfl⟩

theorem extractInProds_cases (excl : List Name) : ∀ ps : List EProd,
    extractInProds excl ps = .unchanged ∨ ∃ ps', extractInProds excl ps = .changed ps'
  | [] => .inl rfl
  | p :: ps => by
    simp only [extractInProds]
    obtain ⟨X, hX⟩ := generateName_total excl (optPreferred p.lhs)
    rw [hX]
    simp only
    split
    · exact .inr ⟨_, rfl⟩
    · rcases extractInProds_cases excl ps with h | ⟨ps', h⟩
      · rw [h]; exact .inl rfl
      · rw [h]; exact .inr ⟨_, rfl⟩

/-! ## the loops -/

/-- a `while step(..)` loop whose steps preserve `Inv`, never fail under `Inv` and strictly
    decrease `μ` ends within `μ + 1` evaluations of `step` -/
theorem iterStep_terminates (step : List EProd → StepRes) (μ : List EProd → Nat)
    (Inv : List EProd → Prop)
    (hstep : ∀ a, Inv a → step a = .unchanged ∨ ∃ b, step a = .changed b ∧ Inv b ∧ μ b < μ a) :
    ∀ (fuel : Nat) (ps : List EProd) (m : Bool), Inv ps → μ ps < fuel →
      ∃ ps' m', iterStep step fuel ps m = .ok (ps', m') ∧ Inv ps' ∧ step ps' = .unchanged ∧
        ((ps' = ps ∧ m' = m) ∨ (m' = true ∧ μ ps' < μ ps))
  | 0, _, _, _, h => absurd h (Nat.not_lt_zero _)
  | f+1, ps, m, hi, hf => by
    rcases hstep ps hi with hu | ⟨b, hc, hib, hlt⟩
    · exact ⟨ps, m, by simp [iterStep, hu], hi, hu, .inl ⟨rfl, rfl⟩⟩
    · obtain ⟨ps', m', h1, h2, h3, h4⟩ :=
        iterStep_terminates step μ Inv hstep f b true hib (by omega)
      refine ⟨ps', m', by simp [iterStep, hc, h1], h2, h3, .inr ?_⟩
      rcases h4 with ⟨rfl, rfl⟩ | ⟨rfl, h4⟩
      · exact ⟨rfl, hlt⟩
      · exact ⟨rfl, by omega⟩

theorem sepStep_decreases {ps ps' : List EProd} (h : sepStep ps = .changed ps') :
    canonMeasure ps' < canonMeasure ps := by
  obtain ⟨h1, h2⟩ := sepStep_measure 2 2 3 h
  unfold canonMeasure; omega

theorem repStep_decreases {ty : GType} {ps ps' : List EProd} (h : repStep ty ps = .changed ps') :
    canonMeasure ps' < canonMeasure ps := by
  obtain ⟨h1, h2⟩ := repStep_measure 2 2 3 h
  unfold canonMeasure; omega

theorem groupStep_decreases {ps ps' : List EProd} (h : groupStep ps = .changed ps') :
    canonMeasure ps' < canonMeasure ps := by
  obtain ⟨h1, h2⟩ := groupStep_measure 2 2 3 h
  unfold canonMeasure; omega

theorem extractStep_decreases {ps ps' : List EProd} (h : extractStep ps = .changed ps') :
    optCount ps' < optCount ps ∧ canonMeasure ps' = canonMeasure ps := by
  obtain ⟨h1, h2⟩ := extractStep_measure 2 2 3 h
  obtain ⟨h3, _⟩ := extractStep_measure 0 1 0 h
  unfold canonMeasure optCount; omega

/-- a property of production lists that every rewriting step preserves -/
structure StepInv (J : List EProd → Prop) : Prop where
  ext : ∀ a b, J a → extractStep a = .changed b → J b
  sep : ∀ a b, J a → sepStep a = .changed b → J b
  rep : ∀ ty a b, J a → repStep ty a = .changed b → J b
  grp : ∀ a b, J a → groupStep a = .changed b → J b

theorem StepInv.trivial : StepInv (fun _ => True) :=
  ⟨fun _ _ _ _ => True.intro, fun _ _ _ _ => True.intro, fun _ _ _ _ _ => True.intro,
   fun _ _ _ _ => True.intro⟩

/-- **one pass** of `separate_alternatives ; eliminate_repetitions ; eliminate_options ;
    eliminate_groups` on an optional-free grammar ends with any fuel above the measure; if it
    reports `modified`, the measure has strictly decreased; if not, nothing was changed and no
    step applies any more. -/
theorem pass_terminates_inv {J : List EProd → Prop} (hJ : StepInv J) (ty : GType) {fuel : Nat}
    {ps : List EProd} (hn : NoOpt ps) (hj : J ps) (hf : canonMeasure ps < fuel) :
    ∃ ps' m, pass ty fuel ps = .ok (ps', m) ∧ NoOpt ps' ∧ J ps' ∧
      canonMeasure ps' ≤ canonMeasure ps ∧ (m = true → canonMeasure ps' < canonMeasure ps) ∧
      (m = false → ps' = ps ∧ sepStep ps = .unchanged ∧ repStep ty ps = .unchanged ∧
        groupStep ps = .unchanged) := by
  obtain ⟨ps1, m1, e1, ⟨n1, j1⟩, u1, r1⟩ := iterStep_terminates sepStep canonMeasure
    (fun a => NoOpt a ∧ J a)
    (fun a ha => by
      rcases sepStep_cases a with h | ⟨b, h⟩
      · exact .inl h
      · exact .inr ⟨b, h, ⟨sepStep_noOpt h ha.1, hJ.sep a b ha.2 h⟩, sepStep_decreases h⟩)
    fuel ps false ⟨hn, hj⟩ hf
  have c1 : canonMeasure ps1 ≤ canonMeasure ps ∧
      (m1 = true → canonMeasure ps1 < canonMeasure ps) ∧ (m1 = false → ps1 = ps) := by
    rcases r1 with ⟨rfl, rfl⟩ | ⟨rfl, h⟩
    · exact ⟨Nat.le_refl _, (fun h => by cases h), fun _ => rfl⟩
    · exact ⟨by omega, fun _ => h, fun h => by cases h⟩
  obtain ⟨ps2, m2, e2, ⟨n2, j2⟩, u2, r2⟩ := iterStep_terminates (repStep ty) canonMeasure
    (fun a => NoOpt a ∧ J a)
    (fun a ha => by
      rcases repStep_cases ty a with h | ⟨b, h⟩
      · exact .inl h
      · exact .inr ⟨b, h, ⟨repStep_noOpt h ha.1, hJ.rep ty a b ha.2 h⟩, repStep_decreases h⟩)
    fuel ps1 m1 ⟨n1, j1⟩ (by omega)
  have c2 : canonMeasure ps2 ≤ canonMeasure ps ∧
      (m2 = true → canonMeasure ps2 < canonMeasure ps) ∧
      (m2 = false → ps2 = ps ∧ ps1 = ps) := by
    rcases r2 with ⟨rfl, rfl⟩ | ⟨rfl, h⟩
    · exact ⟨c1.1, c1.2.1, fun h => ⟨c1.2.2 h, c1.2.2 h⟩⟩
    · exact ⟨by omega, fun _ => by omega, fun h => by cases h⟩
  obtain ⟨ps3, m3, e3, ⟨n3, j3⟩, _, r3⟩ := iterStep_terminates optStep canonMeasure
    (fun a => NoOpt a ∧ J a)
    (fun a ha => .inl (optStep_noOpt ha.1)) fuel ps2 m2 ⟨n2, j2⟩ (by omega)
  have c3 : canonMeasure ps3 ≤ canonMeasure ps ∧
      (m3 = true → canonMeasure ps3 < canonMeasure ps) ∧
      (m3 = false → ps3 = ps ∧ ps2 = ps ∧ ps1 = ps) := by
    rcases r3 with ⟨rfl, rfl⟩ | ⟨rfl, h⟩
    · exact ⟨c2.1, c2.2.1, fun h => ⟨(c2.2.2 h).1, c2.2.2 h⟩⟩
    · exact ⟨by omega, fun _ => by omega, fun h => by cases h⟩
  obtain ⟨ps4, m4, e4, ⟨n4, j4⟩, u4, r4⟩ := iterStep_terminates groupStep canonMeasure
    (fun a => NoOpt a ∧ J a)
    (fun a ha => by
      rcases groupStep_cases a with h | ⟨b, h⟩
      · exact .inl h
      · exact .inr ⟨b, h, ⟨groupStep_noOpt h ha.1, hJ.grp a b ha.2 h⟩, groupStep_decreases h⟩)
    fuel ps3 m3 ⟨n3, j3⟩ (by omega)
  have c4 : canonMeasure ps4 ≤ canonMeasure ps ∧
      (m4 = true → canonMeasure ps4 < canonMeasure ps) ∧
      (m4 = false → ps4 = ps ∧ ps3 = ps ∧ ps2 = ps ∧ ps1 = ps) := by
    rcases r4 with ⟨rfl, rfl⟩ | ⟨rfl, h⟩
    · exact ⟨c3.1, c3.2.1, fun h => ⟨(c3.2.2 h).1, c3.2.2 h⟩⟩
    · exact ⟨by omega, fun _ => by omega, fun h => by cases h⟩
  refine ⟨ps4, m4, ?_, n4, j4, c4.1, c4.2.1, ?_⟩
  · unfold pass
    simp only [e1, CRes.bind, e2, e3, e4]
  · intro hm
    obtain ⟨h4, h3, h2, h1⟩ := c4.2.2 hm
    refine ⟨h4, ?_, ?_, ?_⟩
    · rw [← h1]; exact u1
    · rw [← h2]; exact u2
    · rw [← h4]; exact u4

theorem pass_terminates (ty : GType) {fuel : Nat} {ps : List EProd} (hn : NoOpt ps)
    (hf : canonMeasure ps < fuel) :
    ∃ ps' m, pass ty fuel ps = .ok (ps', m) ∧ NoOpt ps' ∧ canonMeasure ps' ≤ canonMeasure ps ∧
      (m = true → canonMeasure ps' < canonMeasure ps) := by
  obtain ⟨ps', m, e, n, _, h1, h2, _⟩ := pass_terminates_inv StepInv.trivial ty hn True.intro hf
  exact ⟨ps', m, e, n, h1, h2⟩

/-- the outer loop `while operand.modified` ends within `measure + 1` passes, in a state where no
    step applies -/
theorem passLoop_terminates_inv {J : List EProd → Prop} (hJ : StepInv J) (ty : GType)
    {fuel : Nat} : ∀ (n : Nat) (ps : List EProd), NoOpt ps → J ps →
    canonMeasure ps < fuel → canonMeasure ps < n →
      ∃ ps', passLoop ty fuel n ps = .ok ps' ∧ NoOpt ps' ∧ J ps' ∧ sepStep ps' = .unchanged ∧
        repStep ty ps' = .unchanged ∧ groupStep ps' = .unchanged
  | 0, _, _, _, _, h => absurd h (Nat.not_lt_zero _)
  | n+1, ps, hn, hj, hf, hlt => by
    obtain ⟨ps1, m, e, n1, j1, hle, hm, hx⟩ := pass_terminates_inv hJ ty hn hj hf
    cases m with
    | false =>
      obtain ⟨rfl, x1, x2, x3⟩ := hx rfl
      exact ⟨ps1, by simp [passLoop, e], n1, j1, x1, x2, x3⟩
    | true =>
      have := hm rfl
      obtain ⟨ps2, e2, r⟩ :=
        passLoop_terminates_inv hJ ty (fuel := fuel) n ps1 n1 j1 (by omega) (by omega)
      exact ⟨ps2, by simp [passLoop, e, e2], r⟩

theorem passLoop_terminates (ty : GType) {fuel : Nat} (n : Nat) (ps : List EProd) (hn : NoOpt ps)
    (hf : canonMeasure ps < fuel) (hlt : canonMeasure ps < n) :
    ∃ ps', passLoop ty fuel n ps = .ok ps' := by
  obtain ⟨ps', e, _⟩ := passLoop_terminates_inv StepInv.trivial ty n ps hn True.intro hf hlt
  exact ⟨ps', e⟩

/-- the `extract_options` loop ends within `optCount + 1` steps, leaves no optional and does not
    raise the measure -/
theorem extract_terminates_inv {J : List EProd → Prop} (hJ : StepInv J) {fuel : Nat}
    (ps : List EProd) (hj : J ps) (hf : optCount ps < fuel) :
    ∃ ps' m', iterStep extractStep fuel ps false = .ok (ps', m') ∧ NoOpt ps' ∧ J ps' ∧
      canonMeasure ps' ≤ canonMeasure ps := by
  obtain ⟨ps', m', e, ⟨hi, j'⟩, hu, _⟩ := iterStep_terminates extractStep optCount
    (fun a => canonMeasure a ≤ canonMeasure ps ∧ J a)
    (fun a ha => by
      rcases extractInProds_cases (variableNames a) a with h | ⟨b, h⟩
      · exact .inl h
      · have := extractStep_decreases (ps := a) h
        exact .inr ⟨b, h, ⟨by omega, hJ.ext a b ha.2 h⟩, this.1⟩)
    fuel ps false ⟨Nat.le_refl _, hj⟩ hf
  exact ⟨ps', m', e, extractInProds_unchanged _ _ hu, j', hi⟩

theorem extract_terminates {fuel : Nat} (ps : List EProd) (hf : optCount ps < fuel) :
    ∃ ps' m', iterStep extractStep fuel ps false = .ok (ps', m') ∧ NoOpt ps' ∧
      canonMeasure ps' ≤ canonMeasure ps := by
  obtain ⟨ps', m', e, n, _, h⟩ := extract_terminates_inv StepInv.trivial ps True.intro hf
  exact ⟨ps', m', e, n, h⟩

/-- the state in which `finalize` is called: reached with fuel above the measure, optional-free,
    satisfying every step invariant the input satisfied, and no step applies -/
theorem canon_reaches_finalize {J : List EProd → Prop} (hJ : StepInv J) (ty : GType)
    (ps : List EProd) (hj : J ps) (fuel : Nat) (hf : canonMeasure ps < fuel) :
    ∃ ps0 m0 ps1, iterStep extractStep fuel ps false = .ok (ps0, m0) ∧
      passLoop ty fuel fuel ps0 = .ok ps1 ∧ NoOpt ps1 ∧ J ps1 ∧ sepStep ps1 = .unchanged ∧
      repStep ty ps1 = .unchanged ∧ groupStep ps1 = .unchanged := by
  have hopt := optCount_le_canonMeasure ps
  obtain ⟨ps0, m0, e0, n0, j0, hle⟩ := extract_terminates_inv hJ (fuel := fuel) ps hj (by omega)
  obtain ⟨ps1, e1, r⟩ :=
    passLoop_terminates_inv hJ ty (fuel := fuel) fuel ps0 n0 j0 (by omega) (by omega)
  exact ⟨ps0, m0, ps1, e0, e1, r⟩

/-- **`transform_productions` never runs out of fuel above the measure, and never panics** -/
theorem canon_terminates_core (ty : GType) (ps : List EProd) (fuel : Nat)
    (hf : canonMeasure ps < fuel) :
    (∃ B, canon ty fuel ps = .ok B) ∨ canon ty fuel ps = .finalizeError := by
  obtain ⟨ps0, m0, ps1, e0, e1, _⟩ :=
    canon_reaches_finalize StepInv.trivial ty ps True.intro fuel hf
  unfold canon
  simp only [e0, e1]
  cases finalize ps1 with
  | some rs => exact .inl ⟨rs, rfl⟩
  | none => exact .inr rfl

/-! ## the measure is below four times the grammar size (the driver's fuel) -/

mutual
theorem Factor.cw_le_size : ∀ f : Factor, f.cw 2 2 3 ≤ 3 * f.size
  | .t _ => by simp [Factor.cw]
  | .n _ _ => by simp [Factor.cw]
  | .group as => by
    have := altsCw_le_size as
    simp only [Factor.cw, Factor.size]; omega
  | .opt as => by
    have := altsCw_le_size as
    simp only [Factor.cw, Factor.size]; omega
  | .rep as => by
    have := altsCw_le_size as
    simp only [Factor.cw, Factor.size]; omega
theorem altsCw_le_size : ∀ as : List (List Factor), altsCw 2 2 3 as ≤ 3 * altsSize as
  | [] => Nat.le_refl _
  | a :: as => by
    have := altCw_le_size a
    have := altsCw_le_size as
    simp only [altsCw, altsSize]; omega
theorem altCw_le_size : ∀ fs : List Factor, altCw 2 2 3 fs ≤ 3 * altSize fs
  | [] => Nat.le_refl _
  | f :: fs => by
    have := Factor.cw_le_size f
    have := altCw_le_size fs
    simp only [altCw, altSize]; omega
end

theorem ealtsCw_le_size : ∀ alts : List EAlt,
    ealtsCw 2 2 3 alts ≤ 3 * altsSize (alts.map (·.fs))
  | [] => Nat.le_refl _
  | a :: as => by
    have := altCw_le_size a.fs
    have := ealtsCw_le_size as
    simp only [ealtsCw, List.map_cons, altsSize]; omega

theorem grammarSize_foldl (ps : List EProd) : ∀ acc : Nat,
    ps.foldl (fun acc p => acc + 1 + altsSize (p.alts.map (·.fs))) acc =
      acc + ps.foldl (fun acc p => acc + 1 + altsSize (p.alts.map (·.fs))) 0 := by
  induction ps with
  | nil => intro acc; rfl
  | cons p ps ih =>
    intro acc
    simp only [List.foldl_cons]
    rw [ih (acc + 1 + _), ih (0 + 1 + _)]
    omega

theorem grammarSize_cons (p : EProd) (ps : List EProd) :
    grammarSize (p :: ps) = 1 + altsSize (p.alts.map (·.fs)) + grammarSize ps := by
  unfold grammarSize
  rw [List.foldl_cons, grammarSize_foldl]

theorem canonMeasure_le_size : ∀ ps : List EProd, canonMeasure ps ≤ 4 * grammarSize ps
  | [] => Nat.le_refl _
  | p :: ps => by
    have h1 := ealtsCw_le_size p.alts
    have h2 := canonMeasure_le_size ps
    have h3 : (if 1 < p.alts.length then 1 else 0) ≤ 1 := by split <;> omega
    rw [grammarSize_cons]
    unfold canonMeasure at h2 ⊢
    simp only [prodsCw, multiCount]
    omega

end ParolModel
