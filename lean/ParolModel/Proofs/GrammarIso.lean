import ParolModel.Model.GrammarIso
import ParolModel.Proofs.LL
import ParolModel.Proofs.RegexDfa
import ParolModel.Proofs.Regex
/-! Soundness of the C34 checkers (Model/GrammarIso.lean). -/
namespace ParolModel.Ls27

theorem grammarOf_eq_gOf (T : LLTables) : grammarOf T = gOf T := by
  simp only [grammarOf, gOf]
  congr 1

/-! ### Inversion of `Yield` on a cons -/

theorem yield_t_cons_inv {G : Grammar} {a : Nat} {ss : List Sym} {w : List Nat}
    (h : Yield G (.t a :: ss) w) : ∃ v, w = a :: v ∧ Yield G ss v := by
  generalize hs : Sym.t a :: ss = l at h
  cases h with
  | nil => cases hs
  | term b h' =>
    injection hs with h1 h2
    injection h1 with h1
    subst h1; subst h2
    exact ⟨_, rfl, h'⟩
  | nonterm p _ _ _ => injection hs with h1 _; cases h1

theorem yield_n_cons_inv {G : Grammar} {y : Nat} {ss : List Sym} {w : List Nat}
    (h : Yield G (.n y :: ss) w) :
    ∃ p u v, p ∈ G.prods ∧ p.lhs = y ∧ w = u ++ v ∧ Yield G p.rhs u ∧ Yield G ss v := by
  generalize hs : Sym.n y :: ss = l at h
  cases h with
  | nil => cases hs
  | term b _ => injection hs with h1 _; cases h1
  | nonterm p hp hr ht =>
    injection hs with h1 h2
    injection h1 with h1
    subst h2
    exact ⟨p, _, _, hp, h1.symm, rfl, hr, ht⟩

/-! ### Inlining preserves the language -/

structure InlineOk (G : Grammar) (x : Nat) (body : List Sym) : Prop where
  mem : (⟨x, body⟩ : Rule) ∈ G.prods
  uniq : ∀ p ∈ G.prods, p.lhs = x → p = ⟨x, body⟩
  notStart : x ≠ G.start
  notRec : Sym.n x ∉ body

theorem inlineBody_ok {G : Grammar} {x : Nat} {body : List Sym} (h : inlineBody G x = some body) :
    InlineOk G x body := by
  unfold inlineBody at h
  split at h
  · rename_i p hf
    split at h
    · rename_i hc
      simp only [Bool.and_eq_true, bne_iff_ne, ne_eq, Bool.not_eq_true', List.contains_eq_mem,
        decide_eq_false_iff_not] at hc
      have hb : p.rhs = body := by simpa using h
      have hpm : p ∈ G.prods.filter fun p => p.lhs == x := by rw [hf]; exact List.mem_singleton.2 rfl
      have hp := List.mem_filter.1 hpm
      have hl : p.lhs = x := by simpa using hp.2
      have hpe : p = ⟨x, body⟩ := by cases p; simp_all
      refine ⟨hpe ▸ hp.1, ?_, fun e => hc.1 e, hb ▸ hc.2⟩
      intro q hq hql
      have : q ∈ G.prods.filter fun p => p.lhs == x := List.mem_filter.2 ⟨hq, by simpa using hql⟩
      rw [hf] at this
      rw [List.mem_singleton.1 this]
      exact hpe
    · cases h
  · cases h

theorem substSyms_of_not_mem (x : Nat) (body : List Sym) :
    ∀ ss : List Sym, Sym.n x ∉ ss → substSyms x body ss = ss := by
  intro ss
  induction ss with
  | nil => intro _; rfl
  | cons s ss ih =>
    intro h
    have h1 : Sym.n x ∉ ss := fun hm => h (List.mem_cons_of_mem _ hm)
    cases s with
    | t a => simp [substSyms, ih h1]
    | n y =>
      have : y ≠ x := by
        intro e; subst e; exact h List.mem_cons_self
      simp [substSyms, this, ih h1]

/-- Folding back: whatever the substituted string derives, the original string derives. -/
theorem yield_unsubst {G : Grammar} {x : Nat} {body : List Sym} (hmem : (⟨x, body⟩ : Rule) ∈ G.prods) :
    ∀ (ss : List Sym) (w : List Nat), Yield G (substSyms x body ss) w → Yield G ss w := by
  intro ss
  induction ss with
  | nil => intro w h; simpa [substSyms] using h
  | cons s ss ih =>
    intro w h
    cases s with
    | t a =>
      simp only [substSyms] at h
      obtain ⟨v, rfl, hv⟩ := yield_t_cons_inv h
      exact .term a (ih v hv)
    | n y =>
      simp only [substSyms] at h
      split at h
      · rename_i hy
        subst hy
        obtain ⟨u, v, rfl, hu, hv⟩ := Yield.split h
        exact Yield.nonterm (⟨y, body⟩ : Rule) hmem hu (ih v hv)
      · obtain ⟨p, u, v, hp, hl, rfl, hu, hv⟩ := yield_n_cons_inv h
        subst hl
        exact Yield.nonterm p hp hu (ih v hv)

theorem inline_fwd {G : Grammar} {x : Nat} {body : List Sym} (hmem : (⟨x, body⟩ : Rule) ∈ G.prods)
    {ss : List Sym} {w : List Nat} (h : Yield (inlineNT G x body) ss w) : Yield G ss w := by
  induction h with
  | nil => exact .nil
  | term a _ ih => exact .term a ih
  | nonterm p hp _ _ ih1 ih2 =>
    simp only [inlineNT, List.mem_map, List.mem_filter] at hp
    obtain ⟨q, ⟨hq, _⟩, rfl⟩ := hp
    exact Yield.nonterm q hq (yield_unsubst hmem _ _ ih1) ih2

theorem inline_bwd {G : Grammar} {x : Nat} {body : List Sym} (hok : InlineOk G x body)
    {ss : List Sym} {w : List Nat} (h : Yield G ss w) :
    Yield (inlineNT G x body) (substSyms x body ss) w := by
  induction h with
  | nil => exact .nil
  | term a _ ih => simpa [substSyms] using Yield.term a ih
  | nonterm p hp _ _ ih1 ih2 =>
    simp only [substSyms]
    split
    · rename_i hl
      have hpe := hok.uniq p hp hl
      subst hpe
      simp only [substSyms_of_not_mem x body body hok.notRec] at ih1
      exact Yield.append ih1 ih2
    · rename_i hl
      have hm : (⟨p.lhs, substSyms x body p.rhs⟩ : Rule) ∈ (inlineNT G x body).prods := by
        simp only [inlineNT, List.mem_map, List.mem_filter]
        exact ⟨p, ⟨hp, by simpa using hl⟩, rfl⟩
      exact Yield.nonterm (⟨p.lhs, substSyms x body p.rhs⟩ : Rule) hm ih1 ih2

theorem inlineNT_lang {G : Grammar} {x : Nat} {body : List Sym} (hok : InlineOk G x body) (w : List Nat) :
    Lang (inlineNT G x body) w ↔ Lang G w := by
  constructor
  · intro h
    exact inline_fwd hok.mem h
  · intro h
    have := inline_bwd hok h
    have hs : G.start ≠ x := fun e => hok.notStart e.symm
    simpa [Lang, inlineNT, substSyms, hs] using this

theorem inlineAll_lang : ∀ (xs : List Nat) (G G' : Grammar), inlineAll G xs = some G' →
    ∀ w, Lang G' w ↔ Lang G w := by
  intro xs
  induction xs with
  | nil =>
    intro G G' h w
    simp only [inlineAll, Option.some.injEq] at h
    subst h; exact Iff.rfl
  | cons x xs ih =>
    intro G G' h w
    simp only [inlineAll] at h
    split at h
    · rename_i b hb
      exact (ih _ _ h w).trans (inlineNT_lang (inlineBody_ok hb) w)
    · cases h

/-! ### Production-preserving maps -/

theorem sim_yield {G1 G2 : Grammar} {f g : Nat → Nat}
    (hp : ∀ p ∈ G1.prods, mapRule f g p ∈ G2.prods) {ss : List Sym} {w : List Nat}
    (h : Yield G1 ss w) : Yield G2 (ss.map (mapSym f g)) (w.map g) := by
  induction h with
  | nil => exact .nil
  | term a _ ih => simpa [mapSym] using Yield.term (g a) ih
  | nonterm p hpm _ _ ih1 ih2 =>
    have := Yield.nonterm (mapRule f g p) (hp p hpm) ih1 ih2
    simpa [mapRule, mapSym, List.map_append] using this

theorem simulatesB_lang {G1 G2 : Grammar} {f g : Nat → Nat} (h : simulatesB G1 G2 f g = true)
    {w : List Nat} (hw : Lang G1 w) : Lang G2 (w.map g) := by
  simp only [simulatesB, Bool.and_eq_true, beq_iff_eq, List.all_eq_true, List.contains_eq_mem,
    decide_eq_true_eq] at h
  have := sim_yield (f := f) (g := g) h.2 hw
  simpa [Lang, mapSym, h.1] using this

theorem applyMap_ge (l : List Nat) (a : Nat) (h : l.length ≤ a) : applyMap l a = a := by
  simp [applyMap, List.getD, List.getElem?_eq_none h]

theorem inverseOnB_spec {l l' : List Nat} (h : inverseOnB l l' = true) (a : Nat) :
    applyMap l' (applyMap l a) = a := by
  simp only [inverseOnB, Bool.and_eq_true, beq_iff_eq, List.all_eq_true, List.mem_range] at h
  by_cases ha : a < l.length
  · exact h.2 a ha
  · rw [applyMap_ge l a (by omega), applyMap_ge l' a (by omega)]

theorem inverseOnB_inj {l l' : List Nat} (h : inverseOnB l l' = true) {a b : Nat}
    (hab : applyMap l a = applyMap l b) : a = b := by
  rw [← inverseOnB_spec h a, ← inverseOnB_spec h b, hab]

/-! ### Regex relations -/

theorem reDisjoint_sound (r s : Re) (fuel : Nat) (h : reDisjoint r s fuel = true) (w : List Nat) :
    ¬ (matchesRe r w = true ∧ matchesRe s w = true) := by
  have := autRel_sound relDisj reAut reAut reAut_respects reAut_respects r s fuel h w
  simp only [reAut_accepts, relDisj, Bool.not_eq_true', Bool.and_eq_false_iff] at this
  intro ⟨h1, h2⟩
  rcases this with h' | h'
  · rw [h1] at h'; cases h'
  · rw [h2] at h'; cases h'

theorem reSame_sound (r s : Re) (h : reSame r s = true) (w : List Nat) : matchesRe r w = matchesRe s w := by
  simp only [reSame, Bool.or_eq_true, beq_iff_eq] at h
  rcases h with h | h
  · rw [h]
  · exact re_equiv_re_sound r s _ h w

/-- Terminals with equivalent regexes and the same lookahead condition have the same match length. -/
theorem matchLen_congr (t1 t2 : ScanTerm) (hre : ∀ w, matchesRe t1.re w = matchesRe t2.re w)
    (hla : t1.la = t2.la) (w : List Nat) : t1.matchLen w = t2.matchLen w := by
  rw [ScanTerm.matchLen_eq_spec, ScanTerm.matchLen_eq_spec]
  cases h1 : t1.matchLenSpec w with
  | none =>
    have hn := matchLenSpec_none t1 w h1
    cases h2 : t2.matchLenSpec w with
    | none => rfl
    | some m =>
      obtain ⟨a, b, c, d, _⟩ := matchLenSpec_some t2 w m h2
      exact absurd ⟨(hre _).trans c, hla ▸ d⟩ (hn m a b)
  | some n =>
    obtain ⟨a, b, c, d, e⟩ := matchLenSpec_some t1 w n h1
    cases h2 : t2.matchLenSpec w with
    | none =>
      exact absurd ⟨(hre _).symm.trans c, hla ▸ d⟩ (matchLenSpec_none t2 w h2 n a b)
    | some m =>
      obtain ⟨a', b', c', d', e'⟩ := matchLenSpec_some t2 w m h2
      rcases Nat.lt_trichotomy n m with hlt | heq | hgt
      · exact absurd ⟨(hre _).trans c', hla ▸ d'⟩ (e m hlt b')
      · rw [heq]
      · exact absurd ⟨(hre _).symm.trans c, hla ▸ d⟩ (e' n hgt b)

theorem termSame_spec {g : Nat → Nat} {t1 t2 : ScanTerm} (h : termSame g t1 t2 = true) :
    t2.tok = g t1.tok ∧ ∀ w, t2.matchLen w = t1.matchLen w := by
  simp only [termSame, Bool.and_eq_true, beq_iff_eq] at h
  obtain ⟨⟨h1, h2⟩, h3⟩ := h
  refine ⟨h1, fun w => (matchLen_congr t1 t2 (reSame_sound _ _ h2) ?_ w).symm⟩
  simpa [laSame] using h3

/-! ### `before` on duplicate-free lists -/

theorem nodupB_iff (l : List Nat) : nodupB l = true ↔ l.Nodup := by
  induction l with
  | nil => simp [nodupB]
  | cons x xs ih => simp [nodupB, ih, List.nodup_cons]

theorem before_split (pre post : List Nat) (a b : Nat) (h : a ∉ pre) :
    before (pre ++ a :: post) a b = post.contains b := by
  induction pre with
  | nil => simp [before, List.dropWhile]
  | cons x pre ih =>
    have hx : x ≠ a := fun e => h (by simp [e])
    have hp : a ∉ pre := fun hm => h (List.mem_cons_of_mem _ hm)
    have := ih hp
    simp only [before] at this ⊢
    simpa [List.dropWhile, hx] using this

/-! ### The best match does not depend on the declaration order of non-overlapping terminals -/

theorem bestOf_none_iff (len : ScanTerm → Option Nat) (ts : List ScanTerm) :
    bestOf len ts none = none ↔ ∀ t ∈ ts, len t = none := by
  constructor
  · intro h t ht
    cases hl : len t with
    | none => rfl
    | some n =>
      have := bestOf_isSome_of_mem len ts none t ht (by simp [hl])
      rw [h] at this; cases this
  · intro h
    cases hb : bestOf len ts none with
    | none => rfl
    | some p =>
      rcases bestOf_spec len ts none p.1 p.2 hb with ⟨hbn, _⟩ | ⟨pre, t, post, hts, _, hlen, _⟩
      · cases hbn
      · have := h t (by rw [hts]; simp)
        rw [this] at hlen; cases hlen

/-- What `bestOf … none = some (n, k)` means. -/
theorem bestOf_some_spec {len : ScanTerm → Option Nat} {ts : List ScanTerm} {n k : Nat}
    (h : bestOf len ts none = some (n, k)) :
    ∃ pre t post, ts = pre ++ t :: post ∧ t.tok = k ∧ len t = some n ∧
      (∀ u ∈ pre, ∀ m, len u = some m → m < n) ∧ (∀ u ∈ ts, ∀ m, len u = some m → m ≤ n) := by
  rcases bestOf_spec len ts none n k h with ⟨hb, _⟩ | ⟨pre, t, post, hts, htok, hlen, _, hpre, hpost⟩
  · cases hb
  · refine ⟨pre, t, post, hts, htok, hlen, hpre, ?_⟩
    intro u hu m hm
    rw [hts] at hu
    rcases List.mem_append.1 hu with hu | hu
    · exact Nat.le_of_lt (hpre u hu m hm)
    · rcases List.mem_cons.1 hu with rfl | hu
      · rw [hlen] at hm; cases hm; exact Nat.le_refl _
      · exact hpost u hu m hm

theorem bestOf_perm (g : Nat → Nat) (hg : ∀ a b, g a = g b → a = b)
    (ts1 ts2 : List ScanTerm) (len1 len2 : ScanTerm → Option Nat)
    (nd1 : (ts1.map (·.tok)).Nodup) (nd2 : (ts2.map (·.tok)).Nodup)
    (h12 : ∀ t1 ∈ ts1, ∃ t2 ∈ ts2, t2.tok = g t1.tok ∧ len2 t2 = len1 t1)
    (h21 : ∀ t2 ∈ ts2, ∃ t1 ∈ ts1, t2.tok = g t1.tok ∧ len2 t2 = len1 t1)
    (hpri : ∀ a ∈ ts1, ∀ b ∈ ts1, before (ts1.map (·.tok)) a.tok b.tok = true →
      before (ts2.map (·.tok)) (g b.tok) (g a.tok) = true → ∀ n, ¬ (len1 a = some n ∧ len1 b = some n)) :
    bestOf len2 ts2 none = (bestOf len1 ts1 none).map fun p => (p.1, g p.2) := by
  cases h1 : bestOf len1 ts1 none with
  | none =>
    have hn := (bestOf_none_iff len1 ts1).1 h1
    simp only [Option.map_none]
    apply (bestOf_none_iff len2 ts2).2
    intro t2 ht2
    obtain ⟨t1, ht1, _, hl⟩ := h21 t2 ht2
    rw [hl, hn t1 ht1]
  | some p =>
    obtain ⟨n, k⟩ := p
    simp only [Option.map_some]
    obtain ⟨pre, t, post, hts, htok, hlen, hpre, hall⟩ := bestOf_some_spec h1
    have htm : t ∈ ts1 := by rw [hts]; simp
    obtain ⟨t2, ht2m, ht2tok, ht2len⟩ := h12 t htm
    cases h2 : bestOf len2 ts2 none with
    | none =>
      have := (bestOf_none_iff len2 ts2).1 h2 t2 ht2m
      rw [ht2len, hlen] at this; cases this
    | some q =>
      obtain ⟨n2, k2⟩ := q
      obtain ⟨pre2, u2, post2, hts2, hu2tok, hu2len, hpre2, hall2⟩ := bestOf_some_spec h2
      have hu2m : u2 ∈ ts2 := by rw [hts2]; simp
      obtain ⟨u1, hu1m, hu1tok, hu1len⟩ := h21 u2 hu2m
      -- equal lengths
      have hle1 : n ≤ n2 := hall2 t2 ht2m n (by rw [ht2len, hlen])
      have hle2 : n2 ≤ n := hall u1 hu1m n2 (by rw [← hu1len, hu2len])
      have hn : n2 = n := Nat.le_antisymm hle2 hle1
      subst hn
      -- the same terminal
      suffices hk : u1 = t by
        subst hk
        rw [← hu2tok, hu1tok, htok]
      -- where is u1 in ts1 = pre ++ t :: post ?
      have hu1len' : len1 u1 = some n2 := by rw [← hu1len, hu2len]
      rw [hts] at hu1m
      rcases List.mem_append.1 hu1m with hin | hin
      · exact absurd (hpre u1 hin n2 hu1len') (Nat.lt_irrefl _)
      · rcases List.mem_cons.1 hin with heq | hpost
        · exact heq
        · exfalso
          -- t is declared before u1 in scanner 1
          have hk1 : ts1.map (·.tok) = pre.map (·.tok) ++ t.tok :: post.map (·.tok) := by
            rw [hts]; simp
          rw [hk1] at nd1
          have hnd1 := List.nodup_append.1 nd1
          have htpre : t.tok ∉ pre.map (·.tok) := fun hm => hnd1.2.2 _ hm _ List.mem_cons_self rfl
          have hb1 : before (ts1.map (·.tok)) t.tok u1.tok = true := by
            rw [hk1, before_split _ _ _ _ htpre]
            simp only [List.contains_eq_mem, List.mem_map, decide_eq_true_eq]
            exact ⟨u1, hpost, rfl⟩
          -- u2 (= image of u1) is declared before t2 (= image of t) in scanner 2
          have hk2 : ts2.map (·.tok) = pre2.map (·.tok) ++ u2.tok :: post2.map (·.tok) := by
            rw [hts2]; simp
          have hnd2 := nd2
          rw [hk2] at hnd2
          have hnd2' := List.nodup_append.1 hnd2
          have hupre : u2.tok ∉ pre2.map (·.tok) := fun hm => hnd2'.2.2 _ hm _ List.mem_cons_self rfl
          have ht2pos : t2 ∈ post2 := by
            rw [hts2] at ht2m
            rcases List.mem_append.1 ht2m with hin2 | hin2
            · exact absurd (hpre2 t2 hin2 n2 (by rw [ht2len, hlen])) (Nat.lt_irrefl _)
            · rcases List.mem_cons.1 hin2 with heq2 | hp2
              · exfalso
                -- t2 = u2 would give t.tok = u1.tok, but both occur at different places of a duplicate-free list
                have : g t.tok = g u1.tok := by rw [← ht2tok, heq2, hu1tok]
                have htu : t.tok = u1.tok := hg _ _ this
                have hcons := (List.nodup_cons.1 hnd1.2.1).1
                exact hcons (by rw [htu]; exact List.mem_map.2 ⟨u1, hpost, rfl⟩)
              · exact hp2
          have hb2 : before (ts2.map (·.tok)) (g u1.tok) (g t.tok) = true := by
            rw [← hu1tok, ← ht2tok, hk2, before_split _ _ _ _ hupre]
            simp only [List.contains_eq_mem, List.mem_map, decide_eq_true_eq]
            exact ⟨t2, ht2pos, rfl⟩
          have hu1m' : u1 ∈ ts1 := by rw [hts]; exact hu1m
          exact hpri t htm u1 hu1m' hb1 hb2 n2 ⟨hlen, hu1len'⟩

/-! ### From one scan step to the whole tokenization -/

theorem modePairOk_bestOf {g : Nat → Nat} (hg : ∀ a b, g a = g b → a = b) {m1 m2 : ScanMode}
    (h : modePairOk g m1 m2 = true) (w : List Nat) :
    bestOf (·.matchLen w) m2.terms none =
      (bestOf (·.matchLen w) m1.terms none).map fun p => (p.1, g p.2) := by
  unfold modePairOk at h
  simp only [Bool.and_eq_true, List.all_eq_true, List.any_eq_true, beq_iff_eq] at h
  obtain ⟨⟨⟨⟨⟨n1, n2⟩, f12⟩, f21⟩, pri⟩, _⟩ := h
  apply bestOf_perm g hg m1.terms m2.terms _ _ ((nodupB_iff _).1 n1) ((nodupB_iff _).1 n2)
  · intro t1 ht1
    obtain ⟨t2, ht2, hs⟩ := f12 t1 ht1
    exact ⟨t2, ht2, (termSame_spec hs).1, (termSame_spec hs).2 w⟩
  · intro t2 ht2
    obtain ⟨t1, ht1, hs⟩ := f21 t2 ht2
    exact ⟨t1, ht1, (termSame_spec hs).1, (termSame_spec hs).2 w⟩
  · intro a ha b hb hb1 hb2 n ⟨hla, hlb⟩
    have hd := pri a ha b hb
    simp only [hb1, hb2, Bool.and_self, Bool.not_true, Bool.false_or] at hd
    rw [ScanTerm.matchLen_eq_spec] at hla hlb
    obtain ⟨_, _, ma, _, _⟩ := matchLenSpec_some a w n hla
    obtain ⟨_, _, mb, _, _⟩ := matchLenSpec_some b w n hlb
    exact reDisjoint_sound a.re b.re _ hd (w.take n) ⟨ma, mb⟩

theorem modesOk_get {g : Nat → Nat} : ∀ (ms1 ms2 : List ScanMode), modesOk g ms1 ms2 = true → ∀ i : Nat,
    (ms1[i]? = none ∧ ms2[i]? = none) ∨
    ∃ a b, ms1[i]? = some a ∧ ms2[i]? = some b ∧ modePairOk g a b = true := by
  intro ms1
  induction ms1 with
  | nil =>
    intro ms2 h i
    cases ms2 with
    | nil => left; simp
    | cons b bs => simp [modesOk] at h
  | cons a as ih =>
    intro ms2 h i
    cases ms2 with
    | nil => simp [modesOk] at h
    | cons b bs =>
      simp only [modesOk, Bool.and_eq_true] at h
      cases i with
      | zero => right; exact ⟨a, b, by simp, by simp, h.1⟩
      | succ i => simpa using ih bs h.2 i

theorem lookupModeOp_map (g : Nat → Nat) (hg : ∀ a b, g a = g b → a = b) (tok : Nat) :
    ∀ tr : List (Nat × ModeOp), lookupModeOp (tr.map fun p => (g p.1, p.2)) (g tok) = lookupModeOp tr tok := by
  intro tr
  induction tr with
  | nil => rfl
  | cons p tr ih =>
    unfold lookupModeOp at ih ⊢
    simp only [List.map_cons, List.find?_cons]
    by_cases hp : p.1 = tok
    · have h1 : (g p.1 == g tok) = true := by simp [hp]
      have h2 : (p.1 == tok) = true := by simp [hp]
      simp [h1, h2]
    · have h1 : (g p.1 == g tok) = false := by simpa using fun e => hp (hg _ _ e)
      have h2 : (p.1 == tok) = false := by simpa using hp
      simp only [h1, h2]
      exact ih

theorem tokenizeFuel_map {g : Nat → Nat} (hg : ∀ a b, g a = g b → a = b) {ms1 ms2 : List ScanMode}
    (h : modesOk g ms1 ms2 = true) : ∀ (f : Nat) (st : ScanSt) (w : List Nat) (pos : Nat),
    tokenizeFuel ms2 f st w pos = (tokenizeFuel ms1 f st w pos).map (List.map (mapTok g)) := by
  intro f
  induction f with
  | zero =>
    intro st w pos
    cases w <;> simp [tokenizeFuel]
  | succ f ih =>
    intro st w pos
    cases w with
    | nil => simp [tokenizeFuel]
    | cons x xs =>
      rcases modesOk_get ms1 ms2 h st.mode with ⟨e1, e2⟩ | ⟨a, b, e1, e2, hab⟩
      · simp only [tokenizeFuel, stepMatch, e1, e2]
        exact ih _ _ _
      · have hbest := modePairOk_bestOf hg hab (x :: xs)
        have htr : b.trans = a.trans.map fun p => (g p.1, p.2) := by
          unfold modePairOk at hab
          simp only [Bool.and_eq_true, beq_iff_eq] at hab
          exact hab.2
        simp only [tokenizeFuel, stepMatch, e1, e2, hbest]
        cases hb : bestOf (fun t => t.matchLen (x :: xs)) a.terms none with
        | none => simpa using ih _ _ _
        | some p =>
          obtain ⟨n, tok⟩ := p
          simp only [Option.map_some, Option.getD_some, htr, lookupModeOp_map g hg, ih,
            Option.map_map]
          congr 1

end ParolModel.Ls27
