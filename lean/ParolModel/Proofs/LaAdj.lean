import ParolModel.Model.LaBuild
import ParolModel.Proofs.LaDfa
/-! Proofs about the `AdjacencyList` model (C07), part 2a: association lists, sorting helpers,
relational run semantics of `Adj` and `LaDfa`, the generic simulation lemma. -/
namespace ParolModel

/-! ### Association lists (`BTreeMap` model) -/

section bm
variable {β : Type}

/-- Keys strictly ascending. -/
def KS (m : List (Nat × β)) : Prop := (m.map Prod.fst).Pairwise (· < ·)

theorem bmGet_nil (k : Nat) : bmGet ([] : List (Nat × β)) k = none := rfl

theorem bmGet_cons (x : Nat × β) (m : List (Nat × β)) (k : Nat) :
    bmGet (x :: m) k = if x.1 = k then some x.2 else bmGet m k := by
  unfold bmGet
  by_cases h : x.1 = k
  · simp [h]
  · have : (x.1 == k) = false := by simp [h]
    simp [this, h]

theorem bmGet_remove (m : List (Nat × β)) (k k' : Nat) :
    bmGet (bmRemove m k) k' = if k' = k then none else bmGet m k' := by
  induction m with
  | nil => simp [bmRemove, bmGet_nil]
  | cons x xs ih =>
    unfold bmRemove at ih ⊢
    simp only [List.filter_cons]
    by_cases hx : x.1 = k
    · have : (x.1 != k) = false := by simp [hx]
      simp only [this, Bool.false_eq_true, if_false, ih, bmGet_cons]
      by_cases hk : k' = k
      · simp [hk]
      · have : ¬ x.1 = k' := by intro h; exact hk (h ▸ hx)
        simp [hk, this]
    · have : (x.1 != k) = true := by simp [hx]
      simp only [this, if_true, bmGet_cons, ih]
      by_cases hk : k' = k
      · have : ¬ x.1 = k' := by intro h; exact hx (h.trans hk)
        simp [hk, hx]
      · simp [hk]

theorem bmGet_insertSorted (k : Nat) (v : β) (m : List (Nat × β)) (k' : Nat) (hm : bmGet m k = none) :
    bmGet (bmInsertSorted k v m) k' = if k' = k then some v else bmGet m k' := by
  induction m with
  | nil =>
    simp only [bmInsertSorted, bmGet_cons, bmGet_nil]
    by_cases h : k = k' <;> simp [h, eq_comm]
  | cons x xs ih =>
    rw [bmGet_cons] at hm
    by_cases hxk : x.1 = k
    · simp [hxk] at hm
    · simp only [hxk, if_false] at hm
      simp only [bmInsertSorted]
      split
      · simp only [bmGet_cons]
        by_cases h : k = k'
        · simp [h]
        · have : ¬ k' = k := fun e => h e.symm
          simp [h, this]
      · simp only [bmGet_cons, ih hm]
        by_cases h : x.1 = k'
        · have : ¬ k' = k := by intro e; exact hxk (h.trans e)
          simp [h, this]
        · simp [h]

theorem bmGet_insert (m : List (Nat × β)) (k : Nat) (v : β) (k' : Nat) :
    bmGet (bmInsert m k v) k' = if k' = k then some v else bmGet m k' := by
  unfold bmInsert
  rw [bmGet_insertSorted k v _ k' (by simp [bmGet_remove])]
  by_cases h : k' = k
  · simp [h]
  · simp [h, bmGet_remove]

theorem bmGet_mapVal {γ : Type} (f : Nat → β → γ) (m : List (Nat × β)) (k : Nat) :
    bmGet (m.map (fun x => (x.1, f x.1 x.2))) k = (bmGet m k).map (f k) := by
  induction m with
  | nil => simp [bmGet_nil]
  | cons x xs ih =>
    simp only [List.map_cons, bmGet_cons, ih]
    by_cases h : x.1 = k
    · simp [h]
    · simp [h]

theorem bmGet_some_mem {m : List (Nat × β)} {k : Nat} {v : β} (h : bmGet m k = some v) : (k, v) ∈ m := by
  induction m with
  | nil => simp [bmGet_nil] at h
  | cons x xs ih =>
    rw [bmGet_cons] at h
    by_cases hx : x.1 = k
    · simp only [hx, if_true, Option.some.injEq] at h
      have : x = (k, v) := by cases x; simp_all
      simp [this]
    · simp only [hx, if_false] at h
      exact List.mem_cons_of_mem _ (ih h)

theorem KS.cons_inv {x : Nat × β} {m : List (Nat × β)} (h : KS (x :: m)) :
    KS m ∧ ∀ y ∈ m, x.1 < y.1 := by
  unfold KS at *
  simp only [List.map_cons, List.pairwise_cons] at h
  refine ⟨h.2, ?_⟩
  intro y hy
  exact h.1 y.1 (List.mem_map_of_mem hy)

theorem bmGet_of_mem {m : List (Nat × β)} (hs : KS m) {k : Nat} {v : β} (h : (k, v) ∈ m) : bmGet m k = some v := by
  induction m with
  | nil => cases h
  | cons x xs ih =>
    obtain ⟨hs', hlt⟩ := hs.cons_inv
    rw [bmGet_cons]
    rcases List.mem_cons.1 h with rfl | h
    · simp
    · have := hlt _ h
      have hne : ¬ x.1 = k := by simp at this; omega
      simp only [hne, if_false]
      exact ih hs' h

theorem bmGet_none_of_lt {m : List (Nat × β)} {k : Nat} (h : ∀ y ∈ m, k < y.1) : bmGet m k = none := by
  induction m with
  | nil => rfl
  | cons x xs ih =>
    rw [bmGet_cons]
    have := h x List.mem_cons_self
    have hne : ¬ x.1 = k := by omega
    simp only [hne, if_false]
    exact ih (fun y hy => h y (List.mem_cons_of_mem _ hy))

theorem KS.remove {m : List (Nat × β)} (h : KS m) (k : Nat) : KS (bmRemove m k) := by
  unfold KS bmRemove at *
  induction m with
  | nil => simp
  | cons x xs ih =>
    simp only [List.map_cons, List.pairwise_cons] at h
    simp only [List.filter_cons]
    split
    · simp only [List.map_cons, List.pairwise_cons]
      refine ⟨?_, ih h.2⟩
      intro a ha
      obtain ⟨y, hy, rfl⟩ := List.mem_map.1 ha
      exact h.1 y.1 (List.mem_map_of_mem (List.mem_filter.1 hy).1)
    · exact ih h.2

theorem mem_insertSorted (k : Nat) (v : β) (m : List (Nat × β)) (y : Nat × β) :
    y ∈ bmInsertSorted k v m ↔ y = (k, v) ∨ y ∈ m := by
  induction m with
  | nil => simp [bmInsertSorted]
  | cons x xs ih =>
    simp only [bmInsertSorted]
    split
    · simp
    · simp only [List.mem_cons, ih]
      constructor
      · rintro (h | h | h) <;> simp [h]
      · rintro (h | h | h) <;> simp [h]

theorem KS.insertSorted {m : List (Nat × β)} (h : KS m) (k : Nat) (v : β) (hk : bmGet m k = none) :
    KS (bmInsertSorted k v m) := by
  induction m with
  | nil => simp [KS, bmInsertSorted]
  | cons x xs ih =>
    obtain ⟨hs', hlt⟩ := h.cons_inv
    rw [bmGet_cons] at hk
    by_cases hxk : x.1 = k
    · simp [hxk] at hk
    · simp only [hxk, if_false] at hk
      simp only [bmInsertSorted]
      split
      · rename_i hlt2
        unfold KS at *
        simp only [List.map_cons, List.pairwise_cons] at h ⊢
        refine ⟨?_, h⟩
        intro a ha
        rcases ha with _ | ⟨_, ha⟩
        · exact hlt2
        · exact Nat.lt_trans hlt2 (h.1 a ha)
      · rename_i hnlt
        have ih' := ih hs' hk
        unfold KS at *
        simp only [List.map_cons, List.pairwise_cons]
        refine ⟨?_, ih'⟩
        intro a ha
        obtain ⟨y, hy, rfl⟩ := List.mem_map.1 ha
        rcases (mem_insertSorted k v xs y).1 hy with rfl | hy
        · simp only; omega
        · exact hlt y hy

theorem KS.insert {m : List (Nat × β)} (h : KS m) (k : Nat) (v : β) : KS (bmInsert m k v) := by
  unfold bmInsert
  exact (h.remove k).insertSorted k v (by simp [bmGet_remove])

theorem KS.mapVal {γ : Type} {m : List (Nat × β)} (h : KS m) (f : Nat × β → γ) :
    KS (m.map (fun x => (x.1, f x))) := by
  unfold KS at *
  simpa [List.map_map, Function.comp_def] using h

theorem KS.nodup {m : List (Nat × β)} (h : KS m) : (m.map Prod.fst).Nodup := by
  unfold KS at h
  exact h.imp (fun hlt => Nat.ne_of_lt hlt)

theorem KS.sublist {m m' : List (Nat × β)} (h : KS m) (hs : m'.Sublist m) : KS m' := by
  unfold KS at *
  exact h.sublist (hs.map _)

end bm

/-! ### Insertion sorts are permutations -/

theorem insertPair_perm (x : Nat × Nat) (l : Nbrs) : (insertPair x l).Perm (x :: l) := by
  induction l with
  | nil => simp [insertPair]
  | cons y ys ih =>
    simp only [insertPair]
    split
    · exact List.Perm.refl _
    · exact (List.Perm.cons y ih).trans (List.Perm.swap x y ys)

theorem sortPairs_perm (l : Nbrs) : (sortPairs l).Perm l := by
  induction l with
  | nil => exact List.Perm.refl _
  | cons x xs ih =>
    have : sortPairs (x :: xs) = insertPair x (sortPairs xs) := rfl
    rw [this]
    exact (insertPair_perm x _).trans (List.Perm.cons x ih)

theorem mem_sortPairs (l : Nbrs) (x : Nat × Nat) : x ∈ sortPairs l ↔ x ∈ l :=
  (sortPairs_perm l).mem_iff

theorem insertTrans_perm (x : Trans) (l : List Trans) : (insertTrans x l).Perm (x :: l) := by
  induction l with
  | nil => simp [insertTrans]
  | cons y ys ih =>
    simp only [insertTrans]
    split
    · exact List.Perm.refl _
    · exact (List.Perm.cons y ih).trans (List.Perm.swap x y ys)

theorem sortTransList_perm (l : List Trans) : (sortTransList l).Perm l := by
  induction l with
  | nil => exact List.Perm.refl _
  | cons x xs ih =>
    have : sortTransList (x :: xs) = insertTrans x (sortTransList xs) := rfl
    rw [this]
    exact (insertTrans_perm x _).trans (List.Perm.cons x ih)

/-! ### `sortedTrans` as `Pairwise` -/

theorem sortedTrans_iff_pairwise (l : List Trans) : sortedTrans l = true ↔ l.Pairwise transLt := by
  constructor
  · intro h
    induction l with
    | nil => exact List.Pairwise.nil
    | cons a l ih =>
      obtain ⟨h1, h2⟩ := sortedTrans_cons h
      exact List.Pairwise.cons h2 (ih h1)
  · intro h
    induction l with
    | nil => rfl
    | cons a l ih =>
      cases l with
      | nil => rfl
      | cons b rest =>
        simp only [List.pairwise_cons] at h
        simp only [sortedTrans, Bool.and_eq_true, Bool.or_eq_true, decide_eq_true_eq, beq_iff_eq]
        refine ⟨?_, ih (List.pairwise_cons.2 h.2)⟩
        have := h.1 b List.mem_cons_self
        unfold transLt at this
        omega

/-- Inserting into a strictly sorted list an element whose key does not occur keeps it strictly sorted. -/
theorem insertTrans_pairwise (x : Trans) : ∀ (l : List Trans), l.Pairwise transLt →
    (∀ y ∈ l, ¬ (y.src = x.src ∧ y.term = x.term)) → (insertTrans x l).Pairwise transLt := by
  intro l
  induction l with
  | nil => intro _ _; simp [insertTrans]
  | cons y ys ih =>
    intro hp hne
    simp only [List.pairwise_cons] at hp
    simp only [insertTrans]
    split
    · rename_i hle
      have hxy : transLt x y := by
        have := hne y List.mem_cons_self
        simp only [transLe, Bool.or_eq_true, decide_eq_true_eq, Bool.and_eq_true, beq_iff_eq] at hle
        unfold transLt
        omega
      refine List.Pairwise.cons ?_ (List.pairwise_cons.2 hp)
      intro z hz
      rcases List.mem_cons.1 hz with rfl | hz
      · exact hxy
      · exact transLt_trans hxy (hp.1 z hz)
    · rename_i hle
      have hyx : transLt y x := by
        simp only [transLe, Bool.or_eq_true, decide_eq_true_eq, Bool.and_eq_true, beq_iff_eq] at hle
        unfold transLt
        omega
      refine List.Pairwise.cons ?_ (ih hp.2 (fun z hz => hne z (List.mem_cons_of_mem _ hz)))
      intro z hz
      rcases List.mem_cons.1 ((insertTrans_perm x ys).mem_iff.1 hz) with rfl | hz
      · exact hyx
      · exact hp.1 z hz

theorem sortTransList_pairwise : ∀ (l : List Trans),
    l.Pairwise (fun a b => ¬ (a.src = b.src ∧ a.term = b.term)) → (sortTransList l).Pairwise transLt := by
  intro l
  induction l with
  | nil => intro _; exact List.Pairwise.nil
  | cons x xs ih =>
    intro hp
    simp only [List.pairwise_cons] at hp
    have : sortTransList (x :: xs) = insertTrans x (sortTransList xs) := rfl
    rw [this]
    apply insertTrans_pairwise x _ (ih hp.2)
    intro y hy hk
    have hy' := (sortTransList_perm xs).mem_iff.1 hy
    exact hp.1 y hy' ⟨hk.1.symm, hk.2.symm⟩

/-! ### Relational semantics -/

/-- `RunC c s a w p`: reading `w` from state `s` (annotated `a`) ends in a state annotated `p`. -/
inductive RunC (c : LaDfa) : Nat → Int → List Nat → Int → Prop
  | nil (s : Nat) (a : Int) : RunC c s a [] a
  | cons {s : Nat} {a : Int} {t : Nat} {w : List Nat} {p : Int} (tr : Trans) :
      tr ∈ c.trans → tr.src = s → tr.term = t → RunC c tr.dst tr.prod w p → RunC c s a (t :: w) p

theorem stepRef_eq_some_iff {c : LaDfa} (hs : sortedTrans c.trans = true) (s t : Nat) (tr : Trans) :
    stepRef c s t = some tr ↔ tr ∈ c.trans ∧ tr.src = s ∧ tr.term = t := by
  unfold stepRef
  constructor
  · intro h
    have := List.find?_some h
    simp only [decide_eq_true_eq] at this
    exact ⟨List.mem_of_find?_eq_some h, this⟩
  · rintro ⟨hm, h1, h2⟩
    generalize c.trans = l at hs hm
    induction l with
    | nil => cases hm
    | cons x xs ih =>
      obtain ⟨hs', hlt⟩ := sortedTrans_cons hs
      rw [List.find?_cons]
      by_cases hx : x.src = s ∧ x.term = t
      · simp only [hx, and_self, decide_true]
        rcases List.mem_cons.1 hm with rfl | hm
        · rfl
        · have := hlt tr hm
          unfold transLt at this
          omega
      · have : decide (x.src = s ∧ x.term = t) = false := by simp [hx]
        simp only [this]
        rcases List.mem_cons.1 hm with rfl | hm
        · exact absurd ⟨h1, h2⟩ hx
        · exact ih hs' hm

theorem runRef_iff_RunC {c : LaDfa} (hs : sortedTrans c.trans = true) :
    ∀ (w : List Nat) (s : Nat) (a p : Int), runRef c s a w = some p ↔ RunC c s a w p ∧ p > -1 := by
  intro w
  induction w with
  | nil =>
    intro s a p
    simp only [runRef]
    constructor
    · intro h
      split at h
      · injection h with h; subst h; exact ⟨RunC.nil s a, by assumption⟩
      · cases h
    · rintro ⟨h, hp⟩
      cases h
      simp [hp]
  | cons t w ih =>
    intro s a p
    simp only [runRef]
    constructor
    · intro h
      cases hst : stepRef c s t with
      | none => simp [hst] at h
      | some tr =>
        simp only [hst] at h
        obtain ⟨hm, h1, h2⟩ := (stepRef_eq_some_iff hs s t tr).1 hst
        obtain ⟨hr, hp⟩ := (ih tr.dst tr.prod p).1 h
        exact ⟨RunC.cons tr hm h1 h2 hr, hp⟩
    · rintro ⟨h, hp⟩
      cases h with
      | cons tr hm h1 h2 hr =>
        rw [(stepRef_eq_some_iff hs s t tr).2 ⟨hm, h1, h2⟩]
        exact (ih tr.dst tr.prod p).2 ⟨hr, hp⟩

/-- Two automata with the same relational behaviour from the start state predict the same. -/
theorem runRef_eq_of_RunC_iff {c c' : LaDfa} (hs : sortedTrans c.trans = true) (hs' : sortedTrans c'.trans = true)
    (w : List Nat) (h : ∀ p, RunC c 0 c.prod0 w p ↔ RunC c' 0 c'.prod0 w p) :
    runRef c 0 c.prod0 w = runRef c' 0 c'.prod0 w := by
  apply Option.ext
  intro p
  rw [runRef_iff_RunC hs, runRef_iff_RunC hs', h p]

/-- `RunA a s w s'`: in the adjacency list, reading `w` from state `s` leads to state `s'`. -/
inductive RunA (a : Adj) : Nat → List Nat → Nat → Prop
  | nil (s : Nat) : RunA a s [] s
  | cons {s t dst : Nat} {w : List Nat} {s' : Nat} (nb : Nbrs) :
      bmGet a.list s = some nb → (dst, t) ∈ nb → RunA a dst w s' → RunA a s (t :: w) s'

/-- The adjacency list predicts `p` on `w`. -/
def AccA (a : Adj) (w : List Nat) (p : Int) : Prop := ∃ s', RunA a 0 w s' ∧ bmGet a.prods s' = some p

/-- Every neighbour is a state of the list. -/
def Adj.Closed (a : Adj) : Prop :=
  ∀ s nb, bmGet a.list s = some nb → ∀ x ∈ nb, (bmGet a.list x.1).isSome

/-- Generic simulation along a state map `h`: every state's neighbour list in `a'` (at `h s`) is the
    `h`-image of its neighbour list in `a`, annotations agree. -/
structure Sim (a a' : Adj) (h : Nat → Nat) : Prop where
  nbrs : ∀ s nb, bmGet a.list s = some nb →
    ∃ nb', bmGet a'.list (h s) = some nb' ∧ ∀ x, x ∈ nb' ↔ ∃ y ∈ nb, x = (h y.1, y.2)
  prods : ∀ s, (bmGet a.list s).isSome → bmGet a'.prods (h s) = bmGet a.prods s
  closed : a.Closed

theorem Sim.forward {a a' : Adj} {h : Nat → Nat} (sim : Sim a a' h) :
    ∀ {s : Nat} {w : List Nat} {s' : Nat}, RunA a s w s' → RunA a' (h s) w (h s') := by
  intro s w s' hr
  induction hr with
  | nil s => exact RunA.nil _
  | cons nb hnb hmem _ ih =>
    obtain ⟨nb', hnb', hiff⟩ := sim.nbrs _ nb hnb
    exact RunA.cons nb' hnb' ((hiff _).2 ⟨_, hmem, rfl⟩) ih

theorem Sim.backward {a a' : Adj} {h : Nat → Nat} (sim : Sim a a' h) :
    ∀ (w : List Nat) (s : Nat) (s1' : Nat), (bmGet a.list s).isSome → RunA a' (h s) w s1' →
      ∃ s', RunA a s w s' ∧ h s' = s1' ∧ (bmGet a.list s').isSome := by
  intro w
  induction w with
  | nil =>
    intro s s1' hs hr
    cases hr
    exact ⟨s, RunA.nil s, rfl, hs⟩
  | cons t w ih =>
    intro s s1' hs hr
    cases hr with
    | cons nb'' hnb'' hmem hrest =>
      obtain ⟨nb, hnb⟩ := Option.isSome_iff_exists.1 hs
      obtain ⟨nb', hnb', hiff⟩ := sim.nbrs s nb hnb
      rw [hnb'] at hnb''
      injection hnb'' with e
      subst e
      obtain ⟨y, hy, hxy⟩ := (hiff _).1 hmem
      simp only [Prod.mk.injEq] at hxy
      obtain ⟨e1, e2⟩ := hxy
      subst e2
      have hpres := sim.closed s nb hnb y hy
      rw [e1] at hrest
      obtain ⟨s', hr', he, hp'⟩ := ih y.1 s1' hpres hrest
      exact ⟨s', RunA.cons nb hnb (by cases y; exact hy) hr', he, hp'⟩

/-- States reached by runs are states of the list. -/
theorem RunA.present {a : Adj} (hc : a.Closed) : ∀ {s : Nat} {w : List Nat} {s' : Nat},
    RunA a s w s' → (bmGet a.list s).isSome → (bmGet a.list s').isSome := by
  intro s w s' hr
  induction hr with
  | nil s => exact id
  | cons nb hnb hmem _ ih =>
    intro _
    exact ih (hc _ nb hnb _ hmem)

theorem Sim.accA {a a' : Adj} {h : Nat → Nat} (sim : Sim a a' h) (h0 : h 0 = 0)
    (hp0 : (bmGet a.list 0).isSome) (w : List Nat) (p : Int) : AccA a w p ↔ AccA a' w p := by
  constructor
  · rintro ⟨s', hr, hp⟩
    refine ⟨h s', by simpa [h0] using sim.forward hr, ?_⟩
    rw [sim.prods s' (hr.present sim.closed hp0)]; exact hp
  · rintro ⟨s1', hr, hp⟩
    rw [← h0] at hr
    obtain ⟨s', hr', he, hpres⟩ := sim.backward w 0 s1' hp0 hr
    refine ⟨s', hr', ?_⟩
    rw [← sim.prods s' hpres, he]; exact hp

end ParolModel
