import ParolModel.Model.Terminals
import Std.Tactic.BVDecide
/-! # Bit-level lemmas for L7 (`Terminals` on `BitVec 128`)

Every lemma here is closed by `bv_decide` (bit-blasting + CaDiCaL + verified LRAT checking; each
use adds one axiom `<thm>._native.bv_decide.ax_*`, i.e. trusts the compiled LRAT checker).
They are stated symbolically in the bit width `b` and in the *shift amounts* `s` (`= index·b`), both
`BitVec 8` (as the `u8` values of the Rust code), so that no multiplier has to be bit-blasted; the
arithmetic `s = i·b` is done on `Nat` in `Proofs/Terminals.lean`. The word type is written
`BitVec 128` literally throughout. -/
namespace ParolModel
namespace Tm

/-- `bv_decide` with a SAT timeout that survives a heavily loaded machine -/
local macro "bvd" : tactic => `(tactic| bv_decide (config := {timeout := 1800}))

/-- `!(!0u128 << b)`: the low `b` bits -/
def maskS (b : BitVec 8) : BitVec 128 := ~~~((~~~ 0#128) <<< b)
/-- the field of width `b` at bit offset `s` -/
def eltS (t : BitVec 128) (b s : BitVec 8) : BitVec 128 := (t >>> s) &&& maskS b
/-- `set` at bit offset `s` -/
def setS (t : BitVec 128) (b s : BitVec 8) (v : BitVec 128) : BitVec 128 :=
  (t &&& ~~~(maskS b <<< s)) ||| ((v &&& maskS b) <<< s)
/-- `set_bits` without its assertion -/
def setBitsRaw (t : BitVec 128) (b : BitVec 8) : BitVec 128 := (t &&& BITS_CLEAR) ||| (b.setWidth 128 <<< 124)
/-- the `|=` of `k_concat`: `n` low bits of `o` placed at offset `s` -/
def catS (t o : BitVec 128) (s n : BitVec 8) : BitVec 128 := t ||| ((o &&& maskS n) <<< s)
/-- the payload (bits 0..119) is zero from bit offset `s` upwards -/
def zeroAbove (t : BitVec 128) (s : BitVec 8) : Prop := (t &&& PAYLOAD) >>> s = 0#128

/-! ## header -/

theorem bits_setBitsRaw (t : BitVec 128) (b : BitVec 8) (hb : b ≤ 15) : bits (setBitsRaw t b) = b := by
  unfold bits setBitsRaw BITS_MASK BITS_CLEAR; bvd
theorem nextIndex_setBitsRaw (t : BitVec 128) (b : BitVec 8) : nextIndex (setBitsRaw t b) = nextIndex t := by
  unfold nextIndex setBitsRaw IDX_MASK BITS_CLEAR; bvd
theorem nextIndex_setNextIndex (t : BitVec 128) (i : BitVec 8) (hi : i ≤ 15) : nextIndex (setNextIndex t i) = i := by
  unfold nextIndex setNextIndex IDX_MASK IDX_CLEAR; bvd
theorem bits_setNextIndex (t : BitVec 128) (i : BitVec 8) (hi : i ≤ 15) : bits (setNextIndex t i) = bits t := by
  unfold bits setNextIndex BITS_MASK IDX_CLEAR; bvd
theorem payload_setNextIndex (t : BitVec 128) (i : BitVec 8) : setNextIndex t i &&& PAYLOAD = t &&& PAYLOAD := by
  unfold setNextIndex IDX_CLEAR PAYLOAD; bvd
theorem payload_setBitsRaw (t : BitVec 128) (b : BitVec 8) : setBitsRaw t b &&& PAYLOAD = t &&& PAYLOAD := by
  unfold setBitsRaw BITS_CLEAR PAYLOAD; bvd
theorem nextIndex_le (t : BitVec 128) : nextIndex t ≤ 15 := by
  unfold nextIndex IDX_MASK; bvd
theorem bits_le (t : BitVec 128) : bits t ≤ 15 := by
  unfold bits BITS_MASK; bvd
theorem bits_zero : bits 0#128 = 0 := by unfold bits BITS_MASK; bvd
theorem nextIndex_zero : nextIndex 0#128 = 0 := by unfold nextIndex IDX_MASK; bvd

/-- a field below bit 120 only depends on the payload -/
theorem eltS_payload (t : BitVec 128) (b s : BitVec 8) (hb : b ≤ 12) (hs : s ≤ 108) (hsb : s + b ≤ 120) :
    eltS t b s = eltS (t &&& PAYLOAD) b s := by
  unfold eltS maskS PAYLOAD; bvd

/-! ## `set` / `get` -/

theorem eltS_setS_same (t : BitVec 128) (b s : BitVec 8) (v : BitVec 128) (hb : b ≤ 12) (hs : s ≤ 108) :
    eltS (setS t b s v) b s = v &&& maskS b := by
  unfold eltS setS maskS; bvd

theorem eltS_setS_other (t : BitVec 128) (b s s' : BitVec 8) (v : BitVec 128) (hb : b ≤ 12) (hs : s ≤ 108)
    (hs' : s' ≤ 108) (h : s + b ≤ s' ∨ s' + b ≤ s) :
    eltS (setS t b s v) b s' = eltS t b s' := by
  unfold eltS setS maskS; bvd

theorem bits_setS (t : BitVec 128) (b s : BitVec 8) (v : BitVec 128) (hb : b ≤ 12) (hs : s ≤ 108) (hsb : s + b ≤ 120) :
    bits (setS t b s v) = bits t := by
  unfold bits setS maskS BITS_MASK; bvd
theorem nextIndex_setS (t : BitVec 128) (b s : BitVec 8) (v : BitVec 128) (hb : b ≤ 12) (hs : s ≤ 108) (hsb : s + b ≤ 120) :
    nextIndex (setS t b s v) = nextIndex t := by
  unfold nextIndex setS maskS IDX_MASK; bvd

/-- appending a field at the zero boundary moves the boundary up by one field -/
theorem zeroAbove_setS_push (t : BitVec 128) (b s : BitVec 8) (v : BitVec 128) (hb : b ≤ 12) (hs : s ≤ 108)
    (hsb : s + b ≤ 120) (hz : zeroAbove t s) : zeroAbove (setS t b s v) (s + b) := by
  unfold zeroAbove setS maskS PAYLOAD at *; bvd
/-- overwriting a field below the zero boundary keeps the boundary -/
theorem zeroAbove_setS_inside (t : BitVec 128) (b s z : BitVec 8) (v : BitVec 128) (hb : b ≤ 12) (hs : s ≤ 108)
    (hz8 : z ≤ 120) (hsb : s + b ≤ z) (hz : zeroAbove t z) : zeroAbove (setS t b s v) z := by
  unfold zeroAbove setS maskS PAYLOAD at *; bvd

/-! ## `k_concat` -/

theorem eltS_catS_below (t o : BitVec 128) (b s n s' : BitVec 8) (hb : b ≤ 12) (hs : s ≤ 120) (hn : n ≤ 120)
    (hs' : s' ≤ 108) (h : s' + b ≤ s) : eltS (catS t o s n) b s' = eltS t b s' := by
  unfold eltS catS maskS; bvd

theorem eltS_catS_above (t o : BitVec 128) (b s n d : BitVec 8) (hb : b ≤ 12) (hs : s ≤ 120) (hn : n ≤ 120)
    (hsn : s + n ≤ 120) (hd : d ≤ 108) (hdn : d + b ≤ n) (hz : zeroAbove t s) :
    eltS (catS t o s n) b (s + d) = eltS o b d := by
  unfold zeroAbove eltS catS maskS PAYLOAD at *; bvd

theorem zeroAbove_catS (t o : BitVec 128) (s n : BitVec 8) (hs : s ≤ 120) (hn : n ≤ 120)
    (hsn : s + n ≤ 120) (hz : zeroAbove t s) : zeroAbove (catS t o s n) (s + n) := by
  unfold zeroAbove catS maskS PAYLOAD at *; bvd

theorem bits_catS (t o : BitVec 128) (s n : BitVec 8) (hs : s ≤ 120) (hn : n ≤ 120) (hsn : s + n ≤ 120) :
    bits (catS t o s n) = bits t := by
  unfold bits catS maskS BITS_MASK; bvd

/-! ## `of` -/

theorem copyMask_step (b c : BitVec 8) (hb : b ≤ 12) (hc : c ≤ 108) : (maskS c <<< b) ||| maskS b = maskS (c + b) := by
  unfold maskS; bvd

theorem eltS_and_maskS (t : BitVec 128) (b s n : BitVec 8) (hb : b ≤ 12) (hs : s ≤ 108) (hn : n ≤ 120) (h : s + b ≤ n) :
    eltS (t &&& maskS n) b s = eltS t b s := by
  unfold eltS maskS; bvd

theorem zeroAbove_and_maskS (t : BitVec 128) (n : BitVec 8) (hn : n ≤ 120) : zeroAbove (t &&& maskS n) n := by
  unfold zeroAbove maskS PAYLOAD; bvd

/-! ## equality -/

theorem prefix_eq_step (t u : BitVec 128) (b s : BitVec 8) (hb : b ≤ 12) (hs : s ≤ 108) :
    (t &&& maskS (s + b) = u &&& maskS (s + b)) ↔ (t &&& maskS s = u &&& maskS s ∧ eltS t b s = eltS u b s) := by
  unfold eltS maskS; bvd

theorem eq_of_prefix_eq (t u : BitVec 128) (s : BitVec 8) (hs : s ≤ 120) (ht : zeroAbove t s) (hu : zeroAbove u s)
    (hp : t &&& maskS s = u &&& maskS s) (hb : bits t = bits u) (hi : nextIndex t = nextIndex u) : t = u := by
  unfold zeroAbove maskS bits nextIndex PAYLOAD BITS_MASK IDX_MASK at *; bvd

theorem maskS_zero : maskS 0 = 0#128 := by unfold maskS; bvd

/-! ## ordering -/

/-- comparing two words = comparing the parts above bit `s`, then the parts below -/
theorem lt_split (x y : BitVec 128) (s : BitVec 8) (hs : s ≤ 120) :
    (x < y) ↔ (x >>> s < y >>> s ∨ (x >>> s = y >>> s ∧ x &&& maskS s < y &&& maskS s)) := by
  unfold maskS; bvd

theorem prefix_shr (t : BitVec 128) (b s : BitVec 8) (hb : b ≤ 12) (hs : s ≤ 108) :
    (t &&& maskS (s + b)) >>> s = eltS t b s := by
  unfold eltS maskS; bvd

theorem prefix_and (t : BitVec 128) (b s : BitVec 8) (hb : b ≤ 12) (hs : s ≤ 108) :
    (t &&& maskS (s + b)) &&& maskS s = t &&& maskS s := by
  unfold maskS; bvd

theorem lt_step (t u : BitVec 128) (b s : BitVec 8) (hb : b ≤ 12) (hs : s ≤ 108) :
    (t &&& maskS (s + b) < u &&& maskS (s + b)) ↔
      (eltS t b s < eltS u b s ∨ (eltS t b s = eltS u b s ∧ t &&& maskS s < u &&& maskS s)) := by
  rw [lt_split _ _ s (by bv_omega), prefix_shr t b s hb hs, prefix_shr u b s hb hs,
    prefix_and t b s hb hs, prefix_and u b s hb hs]

/-! ## iteration -/

theorem shr_shr (t : BitVec 128) (s b : BitVec 8) (hb : b ≤ 12) (hs : s ≤ 120) : (t >>> s) >>> b = t >>> (s + b) := by
  have h : (s + b).toNat = s.toNat + b.toNat := by bv_omega
  rw [BitVec.ushiftRight_eq' (t >>> s) b, BitVec.ushiftRight_eq' t s, BitVec.ushiftRight_eq' t (s + b), h,
    BitVec.shiftRight_add]

theorem eltS_le_mask (t : BitVec 128) (b s : BitVec 8) : eltS t b s ≤ maskS b := by
  unfold eltS maskS; bvd

theorem maskS_lt (b : BitVec 8) (hb : b ≤ 12) : maskS b < 4096#128 := by
  unfold maskS; bvd

end Tm
end ParolModel
