import ParolModel.Proofs.LR
import ParolModel.Proofs.LLSim
/-! Simulation lemmas for the LR parser model `lrRun` (C14, C17, C20 — LR halves).

Structure: one iteration of `lrLoop` is the non-recursive function `lrStep` (`lrLoop_step`); with the
parse-tree stack reduced to the arguments of its counting entries (`sigItems`) a state becomes an
`LRCore`, on which `coreStep` does the same work without tree events (`lrStep_core`, `lrLoop_core`).
Everything else is proved about the step functions and lifted by `lrCore_reach` / `lrLoop_reach`. -/
namespace ParolModel

-- ---------------------------------------------------------------------------------------------
-- one iteration of `lrLoop`

inductive LRStepOut
  | next (s : LRSt)
  | stop (s : LRSt) (r : Res)
  | fin (s : LRSt)

/-- The state after `handle_additional_tokens`. -/
def drainSt (trim : Bool) (s : LRSt) : LRSt :=
  { s with input := (lrDrain trim s.input s.pt s.comments).1,
           pt := (lrDrain trim s.input s.pt s.comments).2.1,
           comments := (lrDrain trim s.input s.pt s.comments).2.2 }

/-- After a reduction: pop `n` states, take the goto of the exposed state. -/
def lrGoto (T : LRTables) (s' : LRSt) (n nt : Nat) : LRStepOut :=
  if s'.states.length ≤ n then .stop s' .internal else
  match s'.states.drop n with
  | [] => .stop s' .internal
  | top :: rest =>
    match (T.rows[top]?).bind (fun r => findGoto r nt) with
    | none => .stop s' .internal
    | some g => .next { s' with states := g :: top :: rest }

/-- The table action on a state whose leading skipped tokens have been handled. -/
def lrAct (T : LRTables) (trim : Bool) (s : LRSt) : LRStepOut :=
  match s.states with
  | [] => .stop s .internal
  | cur :: _ =>
    match T.rows[cur]? with
    | none => .stop s .internal
    | some row =>
      match findAct row (nextTerm s.input) with
      | none => .stop s (.syntax (s.input.head?.map (·.id)))
      | some (.shift next) =>
        match s.input with
        | [] => .stop s .internal
        | t :: rest =>
          .next { s with states := next :: s.states, input := rest,
                         pt := ⟨true, .tok t.id t.ty, [.tok t.id]⟩ :: s.pt }
      | some (.reduce nt p) =>
        match callAction T trim s p with
        | none => .stop s .internal
        | some (s', n) => lrGoto T s' n nt
      | some .accept =>
        match T.prods.findIdx? (·.lhs == T.start) with
        | none => .stop s .internal
        | some p =>
          match callAction T trim s p with
          | none => .stop s .internal
          | some (s', _) => .fin s'

def lrStep (T : LRTables) (o : Opts) (s : LRSt) : LRStepOut :=
  if depthExceeded o s then .stop s (.depth s.states.length) else lrAct T o.trim (drainSt o.trim s)

theorem lrLoop_step (T : LRTables) (o : Opts) (fuel : Nat) (s : LRSt) (steps : Nat) :
    lrLoop T o (fuel + 1) s steps =
      match lrStep T o s with
      | .next s' => lrLoop T o fuel s' (steps + 1)
      | .stop s' r => lrAbort s' r steps
      | .fin s' => lrFinish o.trim s' (steps + 1) := by
  rw [lrLoop]
  unfold lrStep
  split
  · rfl
  · simp only [drainSt]
    generalize lrDrain o.trim s.input s.pt s.comments = d
    obtain ⟨inp, pt, cm⟩ := d
    simp only [lrAct]
    cases s.states with
    | nil => rfl
    | cons cur sts =>
      simp only
      cases T.rows[cur]? with
      | none => rfl
      | some row =>
        simp only
        cases findAct row (nextTerm inp) with
        | none => rfl
        | some act =>
          cases act with
          | shift next =>
            simp only
            cases inp with
            | nil => rfl
            | cons t rest => rfl
          | reduce nt p =>
            simp only
            cases callAction T o.trim ⟨cur :: sts, inp, pt, s.actions, cm⟩ p with
            | none => rfl
            | some x =>
              obtain ⟨s', n⟩ := x
              simp only [lrGoto]
              split
              · rfl
              · cases hdrop : s'.states.drop n with
                | nil => rfl
                | cons top rest =>
                  simp only
                  cases (T.rows[top]?).bind (fun r => findGoto r nt) with
                  | none => rfl
                  | some g => rfl
          | accept =>
            simp only
            cases T.prods.findIdx? (·.lhs == T.start) with
            | none => rfl
            | some p0 =>
              simp only
              cases callAction T o.trim ⟨cur :: sts, inp, pt, s.actions, cm⟩ p0 with
              | none => rfl
              | some x => rfl

-- ---------------------------------------------------------------------------------------------
-- the state without tree events

structure LRCore where
  states : List Nat
  input : List MTok
  items : List PTItem                  -- arguments of the counting entries, top first
  actions : List (Nat × List PTItem)
  comments : List Nat

def LRSt.core (s : LRSt) : LRCore := ⟨s.states, s.input, sigItems s.pt, s.actions, s.comments⟩

inductive CoreStepOut
  | next (c : LRCore)
  | stop (c : LRCore) (r : Res)
  | fin (c : LRCore)

def LRStepOut.core : LRStepOut → CoreStepOut
  | .next s => .next s.core
  | .stop s r => .stop s.core r
  | .fin s => .fin s.core

def coreDrain : List MTok → List Nat → List MTok × List Nat
  | [], cm => ([], cm)
  | t :: rest, cm =>
    if t.skip then coreDrain rest (if t.comment then t.id :: cm else cm) else (t :: rest, cm)

def coreDrainSt (c : LRCore) : LRCore :=
  { c with input := (coreDrain c.input c.comments).1, comments := (coreDrain c.input c.comments).2 }

def coreAction (T : LRTables) (c : LRCore) (p : Nat) : Option (LRCore × Nat) :=
  match T.prods[p]? with
  | none => none
  | some pr =>
    if c.items.length < pr.len then none else
    some ({ c with items := .nt pr.lhs :: c.items.drop pr.len,
                   actions := (p, (c.items.take pr.len).reverse) :: c.actions }, pr.len)

def coreGoto (T : LRTables) (c' : LRCore) (n nt : Nat) : CoreStepOut :=
  if c'.states.length ≤ n then .stop c' .internal else
  match c'.states.drop n with
  | [] => .stop c' .internal
  | top :: rest =>
    match (T.rows[top]?).bind (fun r => findGoto r nt) with
    | none => .stop c' .internal
    | some g => .next { c' with states := g :: top :: rest }

def coreAct (T : LRTables) (c : LRCore) : CoreStepOut :=
  match c.states with
  | [] => .stop c .internal
  | cur :: _ =>
    match T.rows[cur]? with
    | none => .stop c .internal
    | some row =>
      match findAct row (nextTerm c.input) with
      | none => .stop c (.syntax (c.input.head?.map (·.id)))
      | some (.shift next) =>
        match c.input with
        | [] => .stop c .internal
        | t :: rest =>
          .next { c with states := next :: c.states, input := rest, items := .tok t.id t.ty :: c.items }
      | some (.reduce nt p) =>
        match coreAction T c p with
        | none => .stop c .internal
        | some (c', n) => coreGoto T c' n nt
      | some .accept =>
        match T.prods.findIdx? (·.lhs == T.start) with
        | none => .stop c .internal
        | some p =>
          match coreAction T c p with
          | none => .stop c .internal
          | some (c', _) => .fin c'

def coreDepthExceeded (md : Option Nat) (c : LRCore) : Bool :=
  match md with
  | some m => decide (c.states.length > m)
  | none => false

def coreStep (T : LRTables) (md : Option Nat) (c : LRCore) : CoreStepOut :=
  if coreDepthExceeded md c then .stop c (.depth c.states.length) else coreAct T (coreDrainSt c)

def coreOut (c : LRCore) (r : Res) (steps : Nat) : CoreOut := ⟨r, c.actions.reverse, c.comments.reverse, steps⟩

/-- `lrLoop` without the tree. -/
def lrCore (T : LRTables) (md : Option Nat) : Nat → LRCore → Nat → CoreOut
  | 0, c, steps => coreOut c .fuel steps
  | fuel + 1, c, steps =>
    match coreStep T md c with
    | .next c' => lrCore T md fuel c' (steps + 1)
    | .stop c' r => coreOut c' r steps
    | .fin c' => coreOut c' .ok (steps + 1)

def LROut.core (o : LROut) : CoreOut := ⟨o.res, o.actions, o.comments, o.steps⟩

/-- The input does not start with a skipped token. -/
def Drained (inp : List MTok) : Prop := ∀ t rest, inp = t :: rest → t.skip = false

theorem lrDrain_core (trim : Bool) : ∀ (inp : List MTok) (pt : List LRItem) (cm : List Nat),
    (lrDrain trim inp pt cm).1 = (coreDrain inp cm).1 ∧
    sigItems (lrDrain trim inp pt cm).2.1 = sigItems pt ∧
    (lrDrain trim inp pt cm).2.2 = (coreDrain inp cm).2 := by
  intro inp
  induction inp with
  | nil => intro pt cm; exact ⟨rfl, rfl, rfl⟩
  | cons t rest ih =>
    intro pt cm
    simp only [lrDrain, coreDrain]
    by_cases hs : t.skip = true
    · simp only [hs, if_true]
      obtain ⟨h1, h2, h3⟩ := ih (if trim then pt else ⟨false, .tok t.id t.ty, [.tok t.id]⟩ :: pt)
        (if t.comment then t.id :: cm else cm)
      refine ⟨h1, ?_, h3⟩
      rw [h2]; cases trim <;> simp [sigItems]
    · have hs' : t.skip = false := by simpa using hs
      simp only [hs', Bool.false_eq_true, if_false]
      exact ⟨trivial, trivial, trivial⟩

theorem coreDrain_drained : ∀ (inp : List MTok) (cm : List Nat), Drained (coreDrain inp cm).1 := by
  intro inp
  induction inp with
  | nil => intro cm t rest h; simp [coreDrain] at h
  | cons t rest ih =>
    intro cm
    simp only [coreDrain]
    by_cases hs : t.skip = true
    · simp only [hs, if_true]; exact ih _
    · have hs' : t.skip = false := by simpa using hs
      simp only [hs', Bool.false_eq_true, if_false]
      intro t' rest' h
      injection h with h1 _
      subst h1; exact hs'

theorem coreDrain_of_drained {inp : List MTok} (h : Drained inp) (cm : List Nat) : coreDrain inp cm = (inp, cm) := by
  cases inp with
  | nil => rfl
  | cons t rest => simp [coreDrain, h t rest rfl]

theorem lrDrain_of_drained {inp : List MTok} (h : Drained inp) (trim : Bool) (pt : List LRItem) (cm : List Nat) :
    lrDrain trim inp pt cm = (inp, pt, cm) := by
  cases inp with
  | nil => rfl
  | cons t rest => simp [lrDrain, h t rest rfl]

theorem drainSt_core (trim : Bool) (s : LRSt) : (drainSt trim s).core = coreDrainSt s.core := by
  obtain ⟨h1, h2, h3⟩ := lrDrain_core trim s.input s.pt s.comments
  simp only [drainSt, LRSt.core, coreDrainSt, h1, h2, h3]

/-- `pop_n` splits the counting entries at position `n`. -/
theorem popN_take {pt : List LRItem} {n : Nat} {c rest : List LRItem} (h : popN pt n = (c, rest)) :
    sigItems c = (sigItems pt).take n ∧ sigItems rest = (sigItems pt).drop n := by
  obtain ⟨hpt, hle, hlt⟩ := popN_sig pt n c rest h
  have hlen : (sigItems c).length = (c.filter (·.sig)).length := by simp [sigItems]
  rw [hpt, sigItems_append]
  by_cases hn : (c.filter (·.sig)).length = n
  · rw [List.take_left' (by omega), List.drop_left' (by omega)]
    exact ⟨rfl, rfl⟩
  · have hr := hlt (by omega)
    subst hr
    simp only [sigItems, List.filter_nil, List.map_nil, List.append_nil] at hlen ⊢
    rw [List.take_of_length_le (by simp; omega), List.drop_eq_nil_of_le (by simp; omega)]
    exact ⟨rfl, rfl⟩

theorem callAction_core (T : LRTables) (trim : Bool) (s : LRSt) (p : Nat) :
    (callAction T trim s p).map (fun x => (x.1.core, x.2)) = coreAction T s.core p := by
  unfold callAction coreAction
  cases T.prods[p]? with
  | none => rfl
  | some pr =>
    simp only
    generalize hp : popN s.pt pr.len = r
    obtain ⟨c, rest⟩ := r
    obtain ⟨hc, hrest⟩ := popN_take hp
    have hargs : ((c.reverse.filter (·.sig)).map (·.item)) = ((sigItems s.pt).take pr.len).reverse := by
      rw [← hc]; simp [sigItems, List.filter_reverse, List.map_reverse]
    simp only [hargs]
    have hitems : s.core.items = sigItems s.pt := rfl
    by_cases hlen : s.core.items.length < pr.len
    · have : (((sigItems s.pt).take pr.len).reverse).length ≠ pr.len := by
        rw [hitems] at hlen; simp [List.length_take]; omega
      rw [if_pos this, if_pos hlen]; rfl
    · have : ¬ (((sigItems s.pt).take pr.len).reverse).length ≠ pr.len := by
        rw [hitems] at hlen; simp [List.length_take]; omega
      rw [if_neg this, if_neg hlen]
      simp only [Option.map_some, LRSt.core, sigItems, List.filter_cons, if_true, List.map_cons]
      simp only [sigItems] at hrest
      rw [hrest]

theorem lrGoto_core (T : LRTables) (s' : LRSt) (n nt : Nat) :
    (lrGoto T s' n nt).core = coreGoto T s'.core n nt := by
  unfold lrGoto coreGoto
  have h1 : s'.core.states = s'.states := rfl
  rw [h1]
  split
  · rfl
  · cases s'.states.drop n with
    | nil => rfl
    | cons top rest =>
      simp only
      cases (T.rows[top]?).bind (fun r => findGoto r nt) with
      | none => rfl
      | some g => rfl

theorem lrAct_core (T : LRTables) (trim : Bool) (s : LRSt) : (lrAct T trim s).core = coreAct T s.core := by
  have hca := callAction_core T trim s
  unfold lrAct coreAct
  have h1 : s.core.states = s.states := rfl
  have h2 : s.core.input = s.input := rfl
  rw [h1, h2]
  cases hst : s.states with
  | nil => rfl
  | cons cur sts =>
    simp only
    cases T.rows[cur]? with
    | none => rfl
    | some row =>
      simp only
      cases findAct row (nextTerm s.input) with
      | none => rfl
      | some act =>
        cases act with
        | shift next =>
          simp only
          cases hin : s.input with
          | nil => rfl
          | cons t rest => simp [LRStepOut.core, LRSt.core, sigItems, hst]
        | reduce nt p =>
          simp only
          rw [← hca p]
          cases callAction T trim s p with
          | none => rfl
          | some x =>
            obtain ⟨s', n⟩ := x
            exact lrGoto_core T s' n nt
        | accept =>
          simp only
          cases T.prods.findIdx? (·.lhs == T.start) with
          | none => rfl
          | some p0 =>
            simp only
            rw [← hca p0]
            cases callAction T trim s p0 with
            | none => rfl
            | some x => rfl

theorem depthExceeded_core (o : Opts) (s : LRSt) : depthExceeded o s = coreDepthExceeded o.maxDepth s.core := by
  unfold depthExceeded coreDepthExceeded
  cases o.maxDepth <;> rfl

theorem lrStep_core (T : LRTables) (o : Opts) (s : LRSt) : (lrStep T o s).core = coreStep T o.maxDepth s.core := by
  unfold lrStep coreStep
  rw [depthExceeded_core]
  split
  · rfl
  · rw [lrAct_core, drainSt_core]

theorem callAction_input {T : LRTables} {trim : Bool} {s s' : LRSt} {p n : Nat}
    (h : callAction T trim s p = some (s', n)) : s'.input = s.input ∧ s'.states = s.states ∧ s'.comments = s.comments := by
  unfold callAction at h
  cases hpr : T.prods[p]? with
  | none => simp [hpr] at h
  | some pr =>
    simp only [hpr] at h
    generalize popN s.pt pr.len = r at h
    obtain ⟨c, rest⟩ := r
    simp only at h
    split at h
    · cases h
    · injection h with h
      injection h with h1 h2
      subst h1
      exact ⟨rfl, rfl, rfl⟩

theorem lrAct_fin_input {T : LRTables} {trim : Bool} {s s' : LRSt} (h : lrAct T trim s = .fin s') :
    s'.input = s.input := by
  unfold lrAct at h
  split at h
  · cases h
  · split at h
    · cases h
    · split at h
      · cases h
      · split at h <;> cases h
      · split at h
        · cases h
        · unfold lrGoto at h
          split at h
          · cases h
          · split at h
            · cases h
            · split at h <;> cases h
      · split at h
        · cases h
        · split at h
          · cases h
          · rename_i hca
            injection h with h
            subst h
            exact (callAction_input hca).1

theorem drainSt_drained (trim : Bool) (s : LRSt) : Drained (drainSt trim s).input := by
  have := (lrDrain_core trim s.input s.pt s.comments).1
  simp only [drainSt, this]
  exact coreDrain_drained _ _

theorem lrStep_fin_drained {T : LRTables} {o : Opts} {s s' : LRSt} (h : lrStep T o s = .fin s') :
    Drained s'.input := by
  unfold lrStep at h
  split at h
  · cases h
  · rw [lrAct_fin_input h]; exact drainSt_drained _ _

theorem lrFinish_core {trim : Bool} {s : LRSt} (hd : Drained s.input) (steps : Nat) :
    (lrFinish trim s steps).core = coreOut s.core .ok steps := by
  unfold lrFinish
  split
  · rfl
  · rw [lrDrain_of_drained hd]; rfl

/-- The executable LR model with the tree erased is `lrCore`: the tree builder — and hence the
    `trim` option — has no influence on result, actions, comments and step count. -/
theorem lrLoop_core (T : LRTables) (o : Opts) : ∀ (fuel : Nat) (s : LRSt) (steps : Nat),
    (lrLoop T o fuel s steps).core = lrCore T o.maxDepth fuel s.core steps := by
  intro fuel
  induction fuel with
  | zero => intro s steps; rfl
  | succ fuel ih =>
    intro s steps
    rw [lrLoop_step, lrCore, ← lrStep_core]
    cases hst : lrStep T o s with
    | next s' => exact ih s' _
    | stop s' r => rfl
    | fin s' => exact lrFinish_core (lrStep_fin_drained hst) _

def lrCoreRun (T : LRTables) (md : Option Nat) (fuel : Nat) (input : List MTok) : CoreOut :=
  lrCore T md fuel ⟨[0], input, [], [], []⟩ 0

theorem lrRun_core (T : LRTables) (o : Opts) (fuel : Nat) (toks : List MTok) :
    (lrRun T o fuel toks).core = lrCoreRun T o.maxDepth fuel toks :=
  lrLoop_core T o fuel ⟨[0], toks, [], [], []⟩ 0

end ParolModel
