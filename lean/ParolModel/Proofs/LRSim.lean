import ParolModel.Proofs.LR
import ParolModel.Proofs.LLSim
import ParolModel.Model.LRComplete
/-! Simulation lemmas for the LR parser model `lrRun` (C14, C17, C20 — LR halves).

Structure: one iteration of `lrLoop` is the non-recursive function `lrStep` (`lrLoop_step`); with the
parse-tree stack reduced to the arguments of its counting entries (`sigItems`) a state becomes an
`LRCore`, on which `coreStep` does the same work without tree events (`lrStep_core`, `lrLoop_core`).
Everything else is proved about the step functions and lifted by `lrCore_reach` / `lrLoop_reach`. -/
namespace ParolModel

-- ---------------------------------------------------------------------------------------------
-- one iteration of `lrLoop`

inductive LRStepOut
  | next (s : LRSt)
  | stop (s : LRSt) (r : Res)
  | fin (s : LRSt)

/-- The state after `handle_additional_tokens`. -/
def drainSt (trim : Bool) (s : LRSt) : LRSt :=
  { s with input := (lrDrain trim s.input s.pt s.comments).1,
           pt := (lrDrain trim s.input s.pt s.comments).2.1,
           comments := (lrDrain trim s.input s.pt s.comments).2.2 }

/-- After a reduction: pop `n` states, take the goto of the exposed state. -/
def lrGoto (T : LRTables) (s' : LRSt) (n nt : Nat) : LRStepOut :=
  if s'.states.length ≤ n then .stop s' .internal else
  match s'.states.drop n with
  | [] => .stop s' .internal
  | top :: rest =>
    match (T.rows[top]?).bind (fun r => findGoto r nt) with
    | none => .stop s' .internal
    | some g => .next { s' with states := g :: top :: rest }

/-- The table action on a state whose leading skipped tokens have been handled. -/
def lrAct (T : LRTables) (trim : Bool) (s : LRSt) : LRStepOut :=
  match s.states with
  | [] => .stop s .internal
  | cur :: _ =>
    match T.rows[cur]? with
    | none => .stop s .internal
    | some row =>
      match findAct row (nextTerm s.input) with
      | none => .stop s (.syntax (s.input.head?.map (·.id)))
      | some (.shift next) =>
        match s.input with
        | [] => .stop s .internal
        | t :: rest =>
          .next { s with states := next :: s.states, input := rest,
                         pt := ⟨true, .tok t.id t.ty, [.tok t.id]⟩ :: s.pt }
      | some (.reduce nt p) =>
        match callAction T trim s p with
        | none => .stop s .internal
        | some (s', n) => lrGoto T s' n nt
      | some .accept =>
        match T.prods.findIdx? (·.lhs == T.start) with
        | none => .stop s .internal
        | some p =>
          match callAction T trim s p with
          | none => .stop s .internal
          | some (s', _) => .fin s'

def lrStep (T : LRTables) (o : Opts) (s : LRSt) : LRStepOut :=
  if depthExceeded o s then .stop s (.depth s.states.length) else lrAct T o.trim (drainSt o.trim s)

theorem lrLoop_step (T : LRTables) (o : Opts) (fuel : Nat) (s : LRSt) (steps : Nat) :
    lrLoop T o (fuel + 1) s steps =
      match lrStep T o s with
      | .next s' => lrLoop T o fuel s' (steps + 1)
      | .stop s' r => lrAbort s' r steps
      | .fin s' => lrFinish o.trim s' (steps + 1) := by
  rw [lrLoop]
  unfold lrStep
  split
  · rfl
  · simp only [drainSt]
    generalize lrDrain o.trim s.input s.pt s.comments = d
    obtain ⟨inp, pt, cm⟩ := d
    simp only [lrAct]
    cases s.states with
    | nil => rfl
    | cons cur sts =>
      simp only
      cases T.rows[cur]? with
      | none => rfl
      | some row =>
        simp only
        cases findAct row (nextTerm inp) with
        | none => rfl
        | some act =>
          cases act with
          | shift next =>
            simp only
            cases inp with
            | nil => rfl
            | cons t rest => rfl
          | reduce nt p =>
            simp only
            cases callAction T o.trim ⟨cur :: sts, inp, pt, s.actions, cm⟩ p with
            | none => rfl
            | some x =>
              obtain ⟨s', n⟩ := x
              simp only [lrGoto]
              split
              · rfl
              · cases hdrop : s'.states.drop n with
                | nil => rfl
                | cons top rest =>
                  simp only
                  cases (T.rows[top]?).bind (fun r => findGoto r nt) with
                  | none => rfl
                  | some g => rfl
          | accept =>
            simp only
            cases T.prods.findIdx? (·.lhs == T.start) with
            | none => rfl
            | some p0 =>
              simp only
              cases callAction T o.trim ⟨cur :: sts, inp, pt, s.actions, cm⟩ p0 with
              | none => rfl
              | some x => rfl

-- ---------------------------------------------------------------------------------------------
-- the state without tree events

structure LRCore where
  states : List Nat
  input : List MTok
  items : List PTItem                  -- arguments of the counting entries, top first
  actions : List (Nat × List PTItem)
  comments : List Nat

def LRSt.core (s : LRSt) : LRCore := ⟨s.states, s.input, sigItems s.pt, s.actions, s.comments⟩

inductive CoreStepOut
  | next (c : LRCore)
  | stop (c : LRCore) (r : Res)
  | fin (c : LRCore)

def LRStepOut.core : LRStepOut → CoreStepOut
  | .next s => .next s.core
  | .stop s r => .stop s.core r
  | .fin s => .fin s.core

def coreDrain : List MTok → List Nat → List MTok × List Nat
  | [], cm => ([], cm)
  | t :: rest, cm =>
    if t.skip then coreDrain rest (if t.comment then t.id :: cm else cm) else (t :: rest, cm)

def coreDrainSt (c : LRCore) : LRCore :=
  { c with input := (coreDrain c.input c.comments).1, comments := (coreDrain c.input c.comments).2 }

def coreAction (T : LRTables) (c : LRCore) (p : Nat) : Option (LRCore × Nat) :=
  match T.prods[p]? with
  | none => none
  | some pr =>
    if c.items.length < pr.len then none else
    some ({ c with items := .nt pr.lhs :: c.items.drop pr.len,
                   actions := (p, (c.items.take pr.len).reverse) :: c.actions }, pr.len)

def coreGoto (T : LRTables) (c' : LRCore) (n nt : Nat) : CoreStepOut :=
  if c'.states.length ≤ n then .stop c' .internal else
  match c'.states.drop n with
  | [] => .stop c' .internal
  | top :: rest =>
    match (T.rows[top]?).bind (fun r => findGoto r nt) with
    | none => .stop c' .internal
    | some g => .next { c' with states := g :: top :: rest }

def coreAct (T : LRTables) (c : LRCore) : CoreStepOut :=
  match c.states with
  | [] => .stop c .internal
  | cur :: _ =>
    match T.rows[cur]? with
    | none => .stop c .internal
    | some row =>
      match findAct row (nextTerm c.input) with
      | none => .stop c (.syntax (c.input.head?.map (·.id)))
      | some (.shift next) =>
        match c.input with
        | [] => .stop c .internal
        | t :: rest =>
          .next { c with states := next :: c.states, input := rest, items := .tok t.id t.ty :: c.items }
      | some (.reduce nt p) =>
        match coreAction T c p with
        | none => .stop c .internal
        | some (c', n) => coreGoto T c' n nt
      | some .accept =>
        match T.prods.findIdx? (·.lhs == T.start) with
        | none => .stop c .internal
        | some p =>
          match coreAction T c p with
          | none => .stop c .internal
          | some (c', _) => .fin c'

def coreDepthExceeded (md : Option Nat) (c : LRCore) : Bool :=
  match md with
  | some m => decide (c.states.length > m)
  | none => false

def coreStep (T : LRTables) (md : Option Nat) (c : LRCore) : CoreStepOut :=
  if coreDepthExceeded md c then .stop c (.depth c.states.length) else coreAct T (coreDrainSt c)

def coreOut (c : LRCore) (r : Res) (steps : Nat) : CoreOut := ⟨r, c.actions.reverse, c.comments.reverse, steps⟩

/-- `lrLoop` without the tree. -/
def lrCore (T : LRTables) (md : Option Nat) : Nat → LRCore → Nat → CoreOut
  | 0, c, steps => coreOut c .fuel steps
  | fuel + 1, c, steps =>
    match coreStep T md c with
    | .next c' => lrCore T md fuel c' (steps + 1)
    | .stop c' r => coreOut c' r steps
    | .fin c' => coreOut c' .ok (steps + 1)

def LROut.core (o : LROut) : CoreOut := ⟨o.res, o.actions, o.comments, o.steps⟩

/-- The input does not start with a skipped token. -/
def Drained (inp : List MTok) : Prop := ∀ t rest, inp = t :: rest → t.skip = false

theorem lrDrain_core (trim : Bool) : ∀ (inp : List MTok) (pt : List LRItem) (cm : List Nat),
    (lrDrain trim inp pt cm).1 = (coreDrain inp cm).1 ∧
    sigItems (lrDrain trim inp pt cm).2.1 = sigItems pt ∧
    (lrDrain trim inp pt cm).2.2 = (coreDrain inp cm).2 := by
  intro inp
  induction inp with
  | nil => intro pt cm; exact ⟨rfl, rfl, rfl⟩
  | cons t rest ih =>
    intro pt cm
    simp only [lrDrain, coreDrain]
    by_cases hs : t.skip = true
    · simp only [hs, if_true]
      obtain ⟨h1, h2, h3⟩ := ih (if trim then pt else ⟨false, .tok t.id t.ty, [.tok t.id]⟩ :: pt)
        (if t.comment then t.id :: cm else cm)
      refine ⟨h1, ?_, h3⟩
      rw [h2]; cases trim <;> simp [sigItems]
    · have hs' : t.skip = false := by simpa using hs
      simp only [hs', Bool.false_eq_true, if_false]
      exact ⟨trivial, trivial, trivial⟩

theorem coreDrain_drained : ∀ (inp : List MTok) (cm : List Nat), Drained (coreDrain inp cm).1 := by
  intro inp
  induction inp with
  | nil => intro cm t rest h; simp [coreDrain] at h
  | cons t rest ih =>
    intro cm
    simp only [coreDrain]
    by_cases hs : t.skip = true
    · simp only [hs, if_true]; exact ih _
    · have hs' : t.skip = false := by simpa using hs
      simp only [hs', Bool.false_eq_true, if_false]
      intro t' rest' h
      injection h with h1 _
      subst h1; exact hs'

theorem coreDrain_of_drained {inp : List MTok} (h : Drained inp) (cm : List Nat) : coreDrain inp cm = (inp, cm) := by
  cases inp with
  | nil => rfl
  | cons t rest => simp [coreDrain, h t rest rfl]

theorem lrDrain_of_drained {inp : List MTok} (h : Drained inp) (trim : Bool) (pt : List LRItem) (cm : List Nat) :
    lrDrain trim inp pt cm = (inp, pt, cm) := by
  cases inp with
  | nil => rfl
  | cons t rest => simp [lrDrain, h t rest rfl]

theorem drainSt_core (trim : Bool) (s : LRSt) : (drainSt trim s).core = coreDrainSt s.core := by
  obtain ⟨h1, h2, h3⟩ := lrDrain_core trim s.input s.pt s.comments
  simp only [drainSt, LRSt.core, coreDrainSt, h1, h2, h3]

/-- `pop_n` splits the counting entries at position `n`. -/
theorem popN_take {pt : List LRItem} {n : Nat} {c rest : List LRItem} (h : popN pt n = (c, rest)) :
    sigItems c = (sigItems pt).take n ∧ sigItems rest = (sigItems pt).drop n := by
  obtain ⟨hpt, hle, hlt⟩ := popN_sig pt n c rest h
  have hlen : (sigItems c).length = (c.filter (·.sig)).length := by simp [sigItems]
  rw [hpt, sigItems_append]
  by_cases hn : (c.filter (·.sig)).length = n
  · rw [List.take_left' (by omega), List.drop_left' (by omega)]
    exact ⟨rfl, rfl⟩
  · have hr := hlt (by omega)
    subst hr
    simp only [sigItems, List.filter_nil, List.map_nil, List.append_nil] at hlen ⊢
    rw [List.take_of_length_le (by simp; omega), List.drop_eq_nil_of_le (by simp; omega)]
    exact ⟨rfl, rfl⟩

theorem callAction_core (T : LRTables) (trim : Bool) (s : LRSt) (p : Nat) :
    (callAction T trim s p).map (fun x => (x.1.core, x.2)) = coreAction T s.core p := by
  unfold callAction coreAction
  cases T.prods[p]? with
  | none => rfl
  | some pr =>
    simp only
    generalize hp : popN s.pt pr.len = r
    obtain ⟨c, rest⟩ := r
    obtain ⟨hc, hrest⟩ := popN_take hp
    have hargs : ((c.reverse.filter (·.sig)).map (·.item)) = ((sigItems s.pt).take pr.len).reverse := by
      rw [← hc]; simp [sigItems, List.filter_reverse, List.map_reverse]
    simp only [hargs]
    have hitems : s.core.items = sigItems s.pt := rfl
    by_cases hlen : s.core.items.length < pr.len
    · have : (((sigItems s.pt).take pr.len).reverse).length ≠ pr.len := by
        rw [hitems] at hlen; simp [List.length_take]; omega
      rw [if_pos this, if_pos hlen]; rfl
    · have : ¬ (((sigItems s.pt).take pr.len).reverse).length ≠ pr.len := by
        rw [hitems] at hlen; simp [List.length_take]; omega
      rw [if_neg this, if_neg hlen]
      simp only [Option.map_some, LRSt.core, sigItems, List.filter_cons, if_true, List.map_cons]
      simp only [sigItems] at hrest
      rw [hrest]

theorem lrGoto_core (T : LRTables) (s' : LRSt) (n nt : Nat) :
    (lrGoto T s' n nt).core = coreGoto T s'.core n nt := by
  unfold lrGoto coreGoto
  have h1 : s'.core.states = s'.states := rfl
  rw [h1]
  split
  · rfl
  · cases s'.states.drop n with
    | nil => rfl
    | cons top rest =>
      simp only
      cases (T.rows[top]?).bind (fun r => findGoto r nt) with
      | none => rfl
      | some g => rfl

theorem lrAct_core (T : LRTables) (trim : Bool) (s : LRSt) : (lrAct T trim s).core = coreAct T s.core := by
  have hca := callAction_core T trim s
  unfold lrAct coreAct
  have h1 : s.core.states = s.states := rfl
  have h2 : s.core.input = s.input := rfl
  rw [h1, h2]
  cases hst : s.states with
  | nil => rfl
  | cons cur sts =>
    simp only
    cases T.rows[cur]? with
    | none => rfl
    | some row =>
      simp only
      cases findAct row (nextTerm s.input) with
      | none => rfl
      | some act =>
        cases act with
        | shift next =>
          simp only
          cases hin : s.input with
          | nil => rfl
          | cons t rest => simp [LRStepOut.core, LRSt.core, sigItems, hst]
        | reduce nt p =>
          simp only
          rw [← hca p]
          cases callAction T trim s p with
          | none => rfl
          | some x =>
            obtain ⟨s', n⟩ := x
            exact lrGoto_core T s' n nt
        | accept =>
          simp only
          cases T.prods.findIdx? (·.lhs == T.start) with
          | none => rfl
          | some p0 =>
            simp only
            rw [← hca p0]
            cases callAction T trim s p0 with
            | none => rfl
            | some x => rfl

theorem depthExceeded_core (o : Opts) (s : LRSt) : depthExceeded o s = coreDepthExceeded o.maxDepth s.core := by
  unfold depthExceeded coreDepthExceeded
  cases o.maxDepth <;> rfl

theorem lrStep_core (T : LRTables) (o : Opts) (s : LRSt) : (lrStep T o s).core = coreStep T o.maxDepth s.core := by
  unfold lrStep coreStep
  rw [depthExceeded_core]
  split
  · rfl
  · rw [lrAct_core, drainSt_core]

theorem callAction_input {T : LRTables} {trim : Bool} {s s' : LRSt} {p n : Nat}
    (h : callAction T trim s p = some (s', n)) : s'.input = s.input ∧ s'.states = s.states ∧ s'.comments = s.comments := by
  unfold callAction at h
  cases hpr : T.prods[p]? with
  | none => simp [hpr] at h
  | some pr =>
    simp only [hpr] at h
    generalize popN s.pt pr.len = r at h
    obtain ⟨c, rest⟩ := r
    simp only at h
    split at h
    · cases h
    · injection h with h
      injection h with h1 h2
      subst h1
      exact ⟨rfl, rfl, rfl⟩

theorem lrAct_fin_input {T : LRTables} {trim : Bool} {s s' : LRSt} (h : lrAct T trim s = .fin s') :
    s'.input = s.input := by
  unfold lrAct at h
  split at h
  · cases h
  · split at h
    · cases h
    · split at h
      · cases h
      · split at h <;> cases h
      · split at h
        · cases h
        · unfold lrGoto at h
          split at h
          · cases h
          · split at h
            · cases h
            · split at h <;> cases h
      · split at h
        · cases h
        · split at h
          · cases h
          · rename_i hca
            injection h with h
            subst h
            exact (callAction_input hca).1

theorem drainSt_drained (trim : Bool) (s : LRSt) : Drained (drainSt trim s).input := by
  have := (lrDrain_core trim s.input s.pt s.comments).1
  simp only [drainSt, this]
  exact coreDrain_drained _ _

theorem lrStep_fin_drained {T : LRTables} {o : Opts} {s s' : LRSt} (h : lrStep T o s = .fin s') :
    Drained s'.input := by
  unfold lrStep at h
  split at h
  · cases h
  · rw [lrAct_fin_input h]; exact drainSt_drained _ _

theorem lrFinish_core {trim : Bool} {s : LRSt} (hd : Drained s.input) (steps : Nat) :
    (lrFinish trim s steps).core = coreOut s.core .ok steps := by
  unfold lrFinish
  split
  · rfl
  · rw [lrDrain_of_drained hd]; rfl

/-- The executable LR model with the tree erased is `lrCore`: the tree builder — and hence the
    `trim` option — has no influence on result, actions, comments and step count. -/
theorem lrLoop_core (T : LRTables) (o : Opts) : ∀ (fuel : Nat) (s : LRSt) (steps : Nat),
    (lrLoop T o fuel s steps).core = lrCore T o.maxDepth fuel s.core steps := by
  intro fuel
  induction fuel with
  | zero => intro s steps; rfl
  | succ fuel ih =>
    intro s steps
    rw [lrLoop_step, lrCore, ← lrStep_core]
    cases hst : lrStep T o s with
    | next s' => exact ih s' _
    | stop s' r => rfl
    | fin s' => exact lrFinish_core (lrStep_fin_drained hst) _

def lrCoreRun (T : LRTables) (md : Option Nat) (fuel : Nat) (input : List MTok) : CoreOut :=
  lrCore T md fuel ⟨[0], input, [], [], []⟩ 0

theorem lrRun_core (T : LRTables) (o : Opts) (fuel : Nat) (toks : List MTok) :
    (lrRun T o fuel toks).core = lrCoreRun T o.maxDepth fuel toks :=
  lrLoop_core T o fuel ⟨[0], toks, [], [], []⟩ 0

-- ---------------------------------------------------------------------------------------------
-- skipped tokens are irrelevant (C17)

/-- Normal form: skipped tokens removed from the input, comment trace forgotten. -/
def LRCore.sk (c : LRCore) : LRCore := { c with input := sigToks c.input, comments := [] }

def CoreStepOut.sk : CoreStepOut → CoreStepOut
  | .next c => .next c.sk
  | .stop c r => .stop c.sk r
  | .fin c => .fin c.sk

theorem coreDrain_sig : ∀ (inp : List MTok) (cm : List Nat), sigToks (coreDrain inp cm).1 = sigToks inp := by
  intro inp
  induction inp with
  | nil => intro cm; rfl
  | cons t rest ih =>
    intro cm
    simp only [coreDrain]
    by_cases hs : t.skip = true
    · simp only [hs, if_true]; rw [ih, sigToks_cons_skip hs]
    · have hs' : t.skip = false := by simpa using hs
      simp only [hs', Bool.false_eq_true, if_false]

theorem coreDrainSt_sk (c : LRCore) : (coreDrainSt c).sk = c.sk := by
  simp only [coreDrainSt, LRCore.sk, coreDrain_sig]

theorem sigToks_drained (inp : List MTok) : Drained (sigToks inp) := by
  intro t rest h
  have : t ∈ sigToks inp := by rw [h]; exact List.mem_cons_self
  simp only [sigToks, List.mem_filter, Bool.not_eq_true'] at this
  exact this.2

theorem coreDrainSt_of_drained {c : LRCore} (h : Drained c.input) : coreDrainSt c = c := by
  simp only [coreDrainSt, coreDrain_of_drained h]

theorem coreAction_sk (T : LRTables) (c : LRCore) (p : Nat) :
    coreAction T c.sk p = (coreAction T c p).map (fun x => (x.1.sk, x.2)) := by
  unfold coreAction
  cases T.prods[p]? with
  | none => rfl
  | some pr =>
    simp only
    have : c.sk.items = c.items := rfl
    rw [this]
    split <;> rfl

theorem coreGoto_sk (T : LRTables) (c : LRCore) (n nt : Nat) : (coreGoto T c n nt).sk = coreGoto T c.sk n nt := by
  unfold coreGoto
  have : c.sk.states = c.states := rfl
  rw [this]
  split
  · rfl
  · cases c.states.drop n with
    | nil => rfl
    | cons top rest =>
      simp only
      cases (T.rows[top]?).bind (fun r => findGoto r nt) with
      | none => rfl
      | some g => rfl

theorem coreAct_sk (T : LRTables) (c : LRCore) (hd : Drained c.input) : (coreAct T c).sk = coreAct T c.sk := by
  have hterm : nextTerm c.sk.input = nextTerm c.input ∧ c.sk.input.head? = c.input.head? := by
    simp only [LRCore.sk]
    cases hin : c.input with
    | nil => exact ⟨rfl, rfl⟩
    | cons t rest => rw [sigToks_cons_sig (hd t rest hin)]; exact ⟨rfl, rfl⟩
  unfold coreAct
  have h1 : c.sk.states = c.states := rfl
  rw [h1, hterm.1, hterm.2]
  cases hst : c.states with
  | nil => rfl
  | cons cur sts =>
    simp only
    cases T.rows[cur]? with
    | none => rfl
    | some row =>
      simp only
      cases findAct row (nextTerm c.input) with
      | none => rfl
      | some act =>
        cases act with
        | shift next =>
          simp only
          cases hin : c.input with
          | nil =>
            have : c.sk.input = [] := by simp [LRCore.sk, hin, sigToks]
            rw [this]; rfl
          | cons t rest =>
            have : c.sk.input = t :: sigToks rest := by
              simp only [LRCore.sk, hin]; exact sigToks_cons_sig (hd t rest hin)
            rw [this]
            simp [CoreStepOut.sk, LRCore.sk, hst]
        | reduce nt p =>
          simp only
          rw [coreAction_sk]
          cases coreAction T c p with
          | none => rfl
          | some x =>
            obtain ⟨c', n⟩ := x
            exact coreGoto_sk T c' n nt
        | accept =>
          simp only
          cases T.prods.findIdx? (·.lhs == T.start) with
          | none => rfl
          | some p0 =>
            simp only
            rw [coreAction_sk]
            cases coreAction T c p0 with
            | none => rfl
            | some x => rfl

theorem coreStep_sk (T : LRTables) (md : Option Nat) (c : LRCore) : (coreStep T md c).sk = coreStep T md c.sk := by
  unfold coreStep
  have hdep : coreDepthExceeded md c.sk = coreDepthExceeded md c := rfl
  rw [hdep]
  split
  · rfl
  · have hdr : Drained c.sk.input := sigToks_drained c.input
    have hdc : Drained (coreDrainSt c).input := coreDrain_drained _ _
    rw [coreDrainSt_of_drained hdr, coreAct_sk T _ hdc, coreDrainSt_sk]

/-- **Skipped tokens never influence parsing (LR)**, on the tree-free loop. -/
theorem lrCore_sk (T : LRTables) (md : Option Nat) : ∀ (fuel : Nat) (c : LRCore) (steps : Nat),
    (lrCore T md fuel c.sk steps).ra = (lrCore T md fuel c steps).ra := by
  intro fuel
  induction fuel with
  | zero => intro c steps; rfl
  | succ fuel ih =>
    intro c steps
    rw [lrCore, lrCore, ← coreStep_sk]
    cases coreStep T md c with
    | next c' => exact ih c' _
    | stop c' r => rfl
    | fin c' => rfl

theorem lrCoreRun_skip_irrelevant (T : LRTables) (md : Option Nat) (fuel : Nat) (toks : List MTok) :
    (lrCoreRun T md fuel (sigToks toks)).ra = (lrCoreRun T md fuel toks).ra := by
  unfold lrCoreRun
  rw [← lrCore_sk T md fuel ⟨[0], sigToks toks, [], [], []⟩, ← lrCore_sk T md fuel ⟨[0], toks, [], [], []⟩]
  simp only [LRCore.sk, sigToks_idem]

-- ---------------------------------------------------------------------------------------------
-- depth limit (C20)

theorem coreStep_depth (T : LRTables) (m : Nat) (c : LRCore) :
    coreStep T (some m) c = coreStep T none c ∨
    (c.states.length > m ∧ coreStep T (some m) c = .stop c (.depth c.states.length)) := by
  unfold coreStep coreDepthExceeded
  by_cases h : c.states.length > m
  · exact Or.inr ⟨h, by simp [h]⟩
  · exact Or.inl (by simp [h])

theorem lrCore_depth (T : LRTables) (m : Nat) : ∀ (fuel : Nat) (c : LRCore) (steps : Nat),
    lrCore T (some m) fuel c steps = lrCore T none fuel c steps ∨
    ∃ d, d > m ∧ (lrCore T (some m) fuel c steps).res = .depth d := by
  intro fuel
  induction fuel with
  | zero => intro c steps; exact Or.inl rfl
  | succ fuel ih =>
    intro c steps
    rw [lrCore, lrCore]
    rcases coreStep_depth T m c with h | ⟨hd, h⟩
    · rw [h]
      cases coreStep T none c with
      | next c' => exact ih c' _
      | stop c' r => exact Or.inl rfl
      | fin c' => exact Or.inl rfl
    · rw [h]
      exact Or.inr ⟨_, hd, rfl⟩

-- ---------------------------------------------------------------------------------------------
-- lifting step invariants to runs

/-- Every run that does not run out of fuel ends with a `stop` or `fin` step taken from a state that
    satisfies any invariant preserved by `next` steps. -/
theorem lrCore_reach (T : LRTables) (md : Option Nat) (I : LRCore → Prop)
    (hnext : ∀ c c', I c → coreStep T md c = .next c' → I c') :
    ∀ (fuel : Nat) (c : LRCore) (steps : Nat), I c →
      (lrCore T md fuel c steps).res = .fuel ∨
      ∃ c0 c' k, I c0 ∧
        ((∃ r, coreStep T md c0 = .stop c' r ∧ lrCore T md fuel c steps = coreOut c' r k) ∨
         (coreStep T md c0 = .fin c' ∧ lrCore T md fuel c steps = coreOut c' .ok k)) := by
  intro fuel
  induction fuel with
  | zero => intro c steps _; exact Or.inl rfl
  | succ fuel ih =>
    intro c steps hc
    rw [lrCore]
    cases hst : coreStep T md c with
    | next c' => exact ih c' _ (hnext c c' hc hst)
    | stop c' r => exact Or.inr ⟨c, c', steps, hc, Or.inl ⟨r, hst, rfl⟩⟩
    | fin c' => exact Or.inr ⟨c, c', steps + 1, hc, Or.inr ⟨hst, rfl⟩⟩

theorem lrLoop_reach (T : LRTables) (o : Opts) (I : LRSt → Prop)
    (hnext : ∀ s s', I s → lrStep T o s = .next s' → I s') :
    ∀ (fuel : Nat) (s : LRSt) (steps : Nat), I s →
      (lrLoop T o fuel s steps).res = .fuel ∨
      ∃ s0 s' k, I s0 ∧
        ((∃ r, lrStep T o s0 = .stop s' r ∧ lrLoop T o fuel s steps = lrAbort s' r k) ∨
         (lrStep T o s0 = .fin s' ∧ lrLoop T o fuel s steps = lrFinish o.trim s' k)) := by
  intro fuel
  induction fuel with
  | zero => intro s steps _; exact Or.inl rfl
  | succ fuel ih =>
    intro s steps hs
    rw [lrLoop_step]
    cases hst : lrStep T o s with
    | next s' => exact ih s' _ (hnext s s' hs hst)
    | stop s' r => exact Or.inr ⟨s, s', steps, hs, Or.inl ⟨r, hst, rfl⟩⟩
    | fin s' => exact Or.inr ⟨s, s', steps + 1, hs, Or.inr ⟨hst, rfl⟩⟩

-- ---------------------------------------------------------------------------------------------
-- what a step does to input and comments

def CoreStepOut.st : CoreStepOut → LRCore
  | .next c => c
  | .stop c _ => c
  | .fin c => c

def LRStepOut.st : LRStepOut → LRSt
  | .next s => s
  | .stop s _ => s
  | .fin s => s

theorem LRStepOut.core_st (x : LRStepOut) : x.core.st = x.st.core := by cases x <;> rfl

theorem coreDrain_pre : ∀ (inp : List MTok) (cm : List Nat), ∃ pre, inp = pre ++ (coreDrain inp cm).1 ∧
    (coreDrain inp cm).2.reverse = cm.reverse ++ commentIds (pre.filter (·.skip)) := by
  intro inp
  induction inp with
  | nil => intro cm; exact ⟨[], rfl, by simp [coreDrain, commentIds]⟩
  | cons t rest ih =>
    intro cm
    simp only [coreDrain]
    by_cases hs : t.skip = true
    · simp only [hs, if_true]
      obtain ⟨pre, h1, h2⟩ := ih (if t.comment then t.id :: cm else cm)
      refine ⟨t :: pre, by rw [List.cons_append, ← h1], ?_⟩
      rw [h2]
      cases hc : t.comment <;> simp [commentIds, hs, hc]
    · have hs' : t.skip = false := by simpa using hs
      simp only [hs', Bool.false_eq_true, if_false]
      exact ⟨[], rfl, by simp [commentIds]⟩

theorem coreAction_fields {T : LRTables} {c c' : LRCore} {p n : Nat} (h : coreAction T c p = some (c', n)) :
    c'.input = c.input ∧ c'.comments = c.comments ∧ c'.states = c.states := by
  unfold coreAction at h
  cases hpr : T.prods[p]? with
  | none => simp [hpr] at h
  | some pr =>
    simp only [hpr] at h
    split at h
    · cases h
    · injection h with h
      injection h with h1 h2
      subst h1
      exact ⟨rfl, rfl, rfl⟩

theorem coreGoto_st (T : LRTables) (c : LRCore) (n nt : Nat) :
    (coreGoto T c n nt).st.input = c.input ∧ (coreGoto T c n nt).st.comments = c.comments := by
  unfold coreGoto
  split
  · exact ⟨rfl, rfl⟩
  · cases c.states.drop n with
    | nil => exact ⟨rfl, rfl⟩
    | cons top rest =>
      simp only
      cases (T.rows[top]?).bind (fun r => findGoto r nt) with
      | none => exact ⟨rfl, rfl⟩
      | some g => exact ⟨rfl, rfl⟩

/-- The table action leaves the comments alone and consumes at most the (significant) head token. -/
theorem coreAct_st (T : LRTables) (c : LRCore) (hd : Drained c.input) :
    (coreAct T c).st.comments = c.comments ∧
    ((coreAct T c).st.input = c.input ∨ ∃ t, t.skip = false ∧ c.input = t :: (coreAct T c).st.input) := by
  unfold coreAct
  cases hst : c.states with
  | nil => exact ⟨rfl, Or.inl rfl⟩
  | cons cur sts =>
    simp only
    cases T.rows[cur]? with
    | none => exact ⟨rfl, Or.inl rfl⟩
    | some row =>
      simp only
      cases findAct row (nextTerm c.input) with
      | none => exact ⟨rfl, Or.inl rfl⟩
      | some act =>
        cases act with
        | shift next =>
          simp only
          cases hin : c.input with
          | nil => simp only; exact ⟨rfl, Or.inl hin⟩
          | cons t rest => exact ⟨rfl, Or.inr ⟨t, hd t rest hin, rfl⟩⟩
        | reduce nt p =>
          simp only
          cases hca : coreAction T c p with
          | none => exact ⟨rfl, Or.inl rfl⟩
          | some x =>
            obtain ⟨c', n⟩ := x
            obtain ⟨h1, h2, _⟩ := coreAction_fields hca
            obtain ⟨h3, h4⟩ := coreGoto_st T c' n nt
            simp only
            exact ⟨by rw [h4, h2], Or.inl (by rw [h3, h1])⟩
        | accept =>
          simp only
          cases T.prods.findIdx? (·.lhs == T.start) with
          | none => exact ⟨rfl, Or.inl rfl⟩
          | some p0 =>
            simp only
            cases hca : coreAction T c p0 with
            | none => exact ⟨rfl, Or.inl rfl⟩
            | some x =>
              obtain ⟨c', n⟩ := x
              obtain ⟨h1, h2, _⟩ := coreAction_fields hca
              exact ⟨h2, Or.inl h1⟩

/-- One iteration consumes a prefix of the input and reports exactly its comment tokens. -/
theorem coreStep_pre (T : LRTables) (md : Option Nat) (c : LRCore) :
    ∃ pre, c.input = pre ++ (coreStep T md c).st.input ∧
      (coreStep T md c).st.comments.reverse = c.comments.reverse ++ commentIds (pre.filter (·.skip)) := by
  unfold coreStep
  split
  · exact ⟨[], rfl, by simp [CoreStepOut.st, commentIds]⟩
  · obtain ⟨pre, h1, h2⟩ := coreDrain_pre c.input c.comments
    have hd : Drained (coreDrainSt c).input := coreDrain_drained _ _
    obtain ⟨h3, h4⟩ := coreAct_st T (coreDrainSt c) hd
    have hi : (coreDrainSt c).input = (coreDrain c.input c.comments).1 := rfl
    have hc : (coreDrainSt c).comments = (coreDrain c.input c.comments).2 := rfl
    rw [h3, hc, h2]
    rcases h4 with h4 | ⟨t, ht, h4⟩
    · exact ⟨pre, by rw [h4, hi]; exact h1, rfl⟩
    · refine ⟨pre ++ [t], ?_, ?_⟩
      · rw [List.append_assoc, List.singleton_append, ← h4, hi]; exact h1
      · simp [List.filter_append, ht]

theorem coreGoto_not_fin {T : LRTables} {c c' : LRCore} {n nt : Nat} : coreGoto T c n nt ≠ .fin c' := by
  unfold coreGoto
  split
  · intro h; cases h
  · cases c.states.drop n with
    | nil => intro h; cases h
    | cons top rest =>
      simp only
      cases (T.rows[top]?).bind (fun r => findGoto r nt) with
      | none => intro h; cases h
      | some g => intro h; cases h

theorem coreGoto_stop {T : LRTables} {c c' : LRCore} {n nt : Nat} {r : Res} (h : coreGoto T c n nt = .stop c' r) :
    r = .internal := by
  unfold coreGoto at h
  split at h
  · injection h with _ h; exact h.symm
  · cases hd : c.states.drop n with
    | nil => simp only [hd] at h; injection h with _ h; exact h.symm
    | cons top rest =>
      simp only [hd] at h
      cases hg : (T.rows[top]?).bind (fun r => findGoto r nt) with
      | none => simp only [hg] at h; injection h with _ h; exact h.symm
      | some g => simp only [hg] at h; cases h

/-- A `fin` step is an `Accept` entry of the table for the type of the next significant token. -/
theorem coreAct_fin_accept {T : LRTables} {c c' : LRCore} (h : coreAct T c = .fin c') :
    ∃ row, row ∈ T.rows ∧ findAct row (nextTerm c.input) = some .accept := by
  unfold coreAct at h
  cases hst : c.states with
  | nil => simp only [hst] at h; cases h
  | cons cur sts =>
    simp only [hst] at h
    cases hrow : T.rows[cur]? with
    | none => simp only [hrow] at h; cases h
    | some row =>
      simp only [hrow] at h
      cases hact : findAct row (nextTerm c.input) with
      | none => simp only [hact] at h; cases h
      | some act =>
        simp only [hact] at h
        cases act with
        | shift next =>
          simp only at h
          cases hin : c.input with
          | nil => simp only [hin] at h; cases h
          | cons t rest => simp only [hin] at h; cases h
        | reduce nt p =>
          simp only at h
          cases hca : coreAction T c p with
          | none => simp only [hca] at h; cases h
          | some x => simp only [hca] at h; exact absurd h coreGoto_not_fin
        | accept => exact ⟨row, List.mem_of_getElem? hrow, hact⟩

/-- Only `fin` steps report success. -/
theorem coreStep_stop_ne_ok {T : LRTables} {md : Option Nat} {c c' : LRCore} {r : Res}
    (h : coreStep T md c = .stop c' r) : r ≠ .ok := by
  unfold coreStep at h
  split at h
  · injection h with _ h; rw [← h]; intro h'; cases h'
  · generalize coreDrainSt c = d at h
    unfold coreAct at h
    cases hst : d.states with
    | nil => simp only [hst] at h; injection h with _ h; rw [← h]; intro h'; cases h'
    | cons cur sts =>
      simp only [hst] at h
      cases hrow : T.rows[cur]? with
      | none => simp only [hrow] at h; injection h with _ h; rw [← h]; intro h'; cases h'
      | some row =>
        simp only [hrow] at h
        cases hact : findAct row (nextTerm d.input) with
        | none => simp only [hact] at h; injection h with _ h; rw [← h]; intro h'; cases h'
        | some act =>
          simp only [hact] at h
          cases act with
          | shift next =>
            simp only at h
            cases hin : d.input with
            | nil => simp only [hin] at h; injection h with _ h; rw [← h]; intro h'; cases h'
            | cons t rest => simp only [hin] at h; cases h
          | reduce nt p =>
            simp only at h
            cases hca : coreAction T d p with
            | none => simp only [hca] at h; injection h with _ h; rw [← h]; intro h'; cases h'
            | some x => simp only [hca] at h; rw [coreGoto_stop h]; intro h'; cases h'
          | accept =>
            simp only at h
            cases hp0 : T.prods.findIdx? (·.lhs == T.start) with
            | none => simp only [hp0] at h; injection h with _ h; rw [← h]; intro h'; cases h'
            | some p0 =>
              simp only [hp0] at h
              cases hca : coreAction T d p0 with
              | none => simp only [hca] at h; injection h with _ h; rw [← h]; intro h'; cases h'
              | some x => simp only [hca] at h; cases h

/-- `Accept` is entered only for the end-of-input terminal. -/
def acceptOnEoi (T : LRTables) : Bool :=
  T.rows.all fun row => row.acts.all fun (t, a) => match a with
    | .accept => t == 0
    | _ => true

theorem acceptOnEoi_of_valid {T : LRTables} {gprods : List Rule} (hv : lrTableValid T gprods = true) :
    acceptOnEoi T = true := by
  simp only [lrTableValid, Bool.and_eq_true] at hv
  obtain ⟨_, hrows⟩ := hv
  simp only [acceptOnEoi, List.all_eq_true]
  intro row hrow
  obtain ⟨q, hq⟩ := List.mem_iff_getElem?.1 hrow
  have hmem : (row, q) ∈ T.rows.zipIdx := by
    rw [List.mem_zipIdx_iff_getElem?]; simpa using hq
  have := (List.all_eq_true.1 hrows) (row, q) hmem
  simp only [List.all_eq_true] at this
  intro x hx
  have hx' := this x hx
  obtain ⟨t, a⟩ := x
  cases a with
  | shift _ => rfl
  | reduce _ _ => rfl
  | accept =>
    simp only [Bool.and_eq_true] at hx'
    exact hx'.1

/-- With `acceptOnEoi`, no significant end-of-input-typed token and a drained input, a `fin` step
    happens only when the whole input is consumed. -/
theorem coreStep_fin_nil {T : LRTables} {md : Option Nat} {c c' : LRCore} (hacc : acceptOnEoi T = true)
    (hne : ∀ t ∈ c.input, t.skip = false → t.ty ≠ 0) (h : coreStep T md c = .fin c') : c'.input = [] := by
  obtain ⟨pre, hpre, _⟩ := coreStep_pre T md c
  rw [h] at hpre
  simp only [CoreStepOut.st] at hpre
  unfold coreStep at h
  split at h
  · cases h
  · have hd : Drained (coreDrainSt c).input := coreDrain_drained _ _
    obtain ⟨_, h4⟩ := coreAct_st T (coreDrainSt c) hd
    rw [h] at h4
    simp only [CoreStepOut.st] at h4
    obtain ⟨row, hrow, hact⟩ := coreAct_fin_accept h
    have h0 : nextTerm (coreDrainSt c).input = 0 := by
      have := mem_of_findAct hact
      simp only [acceptOnEoi, List.all_eq_true] at hacc
      have := hacc row hrow _ this
      simpa using this
    have hin : (coreDrainSt c).input = c'.input := by
      rcases h4 with h4 | ⟨t, _, h4⟩
      · exact h4.symm
      · exfalso
        obtain ⟨pre2, hp2, _⟩ := coreDrain_pre c.input c.comments
        have hi : (coreDrainSt c).input = (coreDrain c.input c.comments).1 := rfl
        rw [← hi, h4] at hp2
        -- t is significant, head of drained input, type 0
        have ht0 : t.ty = 0 := by rw [h4] at h0; exact h0
        have htm : t ∈ c.input := by rw [hp2]; simp
        exact hne t htm (hd t _ h4) ht0
    rw [← hin]
    cases hi : (coreDrainSt c).input with
    | nil => rfl
    | cons t rest =>
      exfalso
      obtain ⟨pre2, hp2, _⟩ := coreDrain_pre c.input c.comments
      have hi' : (coreDrainSt c).input = (coreDrain c.input c.comments).1 := rfl
      rw [← hi', hi] at hp2
      have ht0 : t.ty = 0 := by rw [hi] at h0; exact h0
      have htm : t ∈ c.input := by rw [hp2]; simp
      exact hne t htm (hd t _ hi) ht0

-- ---------------------------------------------------------------------------------------------
-- comments: once, in order (C17)

/-- The comment trace so far is the comment tokens of the consumed prefix. -/
def CmInv (toks : List MTok) (c : LRCore) : Prop :=
  ∃ pre, toks = pre ++ c.input ∧ c.comments.reverse = commentIds (pre.filter (·.skip))

theorem CmInv_step {T : LRTables} {md : Option Nat} {toks : List MTok} {c : LRCore} (h : CmInv toks c) :
    CmInv toks (coreStep T md c).st := by
  obtain ⟨pre, h1, h2⟩ := h
  obtain ⟨pre2, h3, h4⟩ := coreStep_pre T md c
  refine ⟨pre ++ pre2, by rw [List.append_assoc, ← h3]; exact h1, ?_⟩
  rw [h4, h2]
  simp [commentIds, List.filter_append]

theorem lrCoreRun_comments (T : LRTables) (md : Option Nat) (fuel : Nat) (toks : List MTok)
    (hacc : acceptOnEoi T = true) (hne : ∀ t ∈ toks, t.skip = false → t.ty ≠ 0)
    (h : (lrCoreRun T md fuel toks).res = .ok) :
    (lrCoreRun T md fuel toks).comments = commentIds (toks.filter (·.skip)) := by
  unfold lrCoreRun at h ⊢
  have hnext : ∀ c c', CmInv toks c → coreStep T md c = .next c' → CmInv toks c' := by
    intro c c' hc hst
    have := CmInv_step (T := T) (md := md) hc
    rw [hst] at this; exact this
  have h0 : CmInv toks ⟨[0], toks, [], [], []⟩ := ⟨[], rfl, rfl⟩
  rcases lrCore_reach T md (CmInv toks) hnext fuel _ 0 h0 with hf | ⟨c0, c', k, hI, ⟨r, hst, hout⟩ | ⟨hst, hout⟩⟩
  · rw [hf] at h; cases h
  · rw [hout] at h
    exact absurd h (coreStep_stop_ne_ok hst)
  · have hI' := CmInv_step (T := T) (md := md) hI
    rw [hst] at hI'
    obtain ⟨pre, hp, hc⟩ := hI'
    simp only [CoreStepOut.st] at hp hc
    obtain ⟨pre0, hp0, _⟩ := hI
    have hne0 : ∀ t ∈ c0.input, t.skip = false → t.ty ≠ 0 := by
      intro t ht; exact hne t (by rw [hp0]; exact List.mem_append_right _ ht)
    have hnil := coreStep_fin_nil hacc hne0 hst
    rw [hnil, List.append_nil] at hp
    rw [hout, hp]
    simp only [coreOut, hc]

-- ---------------------------------------------------------------------------------------------
-- leaves of the tree = all tokens (C14)

/-- Tree events of the whole parse-tree stack, bottom to top. -/
def ptEvents (pt : List LRItem) : List TreeEv := pt.reverse.flatMap (·.events)

theorem ptEvents_cons (x : LRItem) (pt : List LRItem) : ptEvents (x :: pt) = ptEvents pt ++ x.events := by
  simp [ptEvents]

theorem ptEvents_append (a b : List LRItem) : ptEvents (a ++ b) = ptEvents b ++ ptEvents a := by
  simp [ptEvents]

/-- Token ids in the stacked subtrees followed by the ids of the unread input. -/
def leavesOf (s : LRSt) : List Nat := tokIds (ptEvents s.pt) ++ s.input.map (·.id)

theorem lrDrain_leaves : ∀ (inp : List MTok) (pt : List LRItem) (cm : List Nat),
    tokIds (ptEvents (lrDrain false inp pt cm).2.1) ++ (lrDrain false inp pt cm).1.map (·.id) =
      tokIds (ptEvents pt) ++ inp.map (·.id) := by
  intro inp
  induction inp with
  | nil => intro pt cm; rfl
  | cons t rest ih =>
    intro pt cm
    simp only [lrDrain]
    by_cases hs : t.skip = true
    · simp only [hs, if_true, Bool.false_eq_true, if_false]
      rw [ih]
      simp [ptEvents_cons]
    · have hs' : t.skip = false := by simpa using hs
      simp only [hs', Bool.false_eq_true, if_false]

theorem drainSt_leaves (s : LRSt) : leavesOf (drainSt false s) = leavesOf s := by
  simp only [leavesOf, drainSt]
  exact lrDrain_leaves s.input s.pt s.comments

theorem callAction_leaves {T : LRTables} {s s' : LRSt} {p n : Nat} (h : callAction T false s p = some (s', n)) :
    tokIds (ptEvents s'.pt) = tokIds (ptEvents s.pt) := by
  unfold callAction at h
  cases hpr : T.prods[p]? with
  | none => simp [hpr] at h
  | some pr =>
    simp only [hpr] at h
    generalize hp : popN s.pt pr.len = r at h
    obtain ⟨c, rest⟩ := r
    simp only at h
    split at h
    · cases h
    · injection h with h
      injection h with h1 h2
      subst h1
      obtain ⟨hpt, _, _⟩ := popN_sig _ _ _ _ hp
      rw [hpt, ptEvents_append, ptEvents_cons]
      simp [ptEvents]

theorem lrGoto_st (T : LRTables) (s : LRSt) (n nt : Nat) :
    (lrGoto T s n nt).st.pt = s.pt ∧ (lrGoto T s n nt).st.input = s.input := by
  unfold lrGoto
  split
  · exact ⟨rfl, rfl⟩
  · cases s.states.drop n with
    | nil => exact ⟨rfl, rfl⟩
    | cons top rest =>
      simp only
      cases (T.rows[top]?).bind (fun r => findGoto r nt) with
      | none => exact ⟨rfl, rfl⟩
      | some g => exact ⟨rfl, rfl⟩

theorem lrAct_leaves (T : LRTables) (s : LRSt) : leavesOf (lrAct T false s).st = leavesOf s := by
  unfold lrAct
  cases hst : s.states with
  | nil => rfl
  | cons cur sts =>
    simp only
    cases T.rows[cur]? with
    | none => rfl
    | some row =>
      simp only
      cases findAct row (nextTerm s.input) with
      | none => rfl
      | some act =>
        cases act with
        | shift next =>
          simp only
          cases hin : s.input with
          | nil => simp only [leavesOf, LRStepOut.st, hin]
          | cons t rest => simp [leavesOf, LRStepOut.st, ptEvents_cons, hin]
        | reduce nt p =>
          simp only
          cases hca : callAction T false s p with
          | none => rfl
          | some x =>
            obtain ⟨s', n⟩ := x
            obtain ⟨h1, h2⟩ := lrGoto_st T s' n nt
            simp only [leavesOf, h1, h2, callAction_leaves hca, (callAction_input hca).1]
        | accept =>
          simp only
          cases T.prods.findIdx? (·.lhs == T.start) with
          | none => rfl
          | some p0 =>
            simp only
            cases hca : callAction T false s p0 with
            | none => rfl
            | some x =>
              obtain ⟨s', n⟩ := x
              simp only [leavesOf, LRStepOut.st, callAction_leaves hca, (callAction_input hca).1]

theorem lrStep_leaves (T : LRTables) (o : Opts) (s : LRSt) (htrim : o.trim = false) :
    leavesOf (lrStep T o s).st = leavesOf s := by
  unfold lrStep
  split
  · rfl
  · rw [htrim, lrAct_leaves, drainSt_leaves]

theorem lrStep_st_input (T : LRTables) (o : Opts) (s : LRSt) :
    (lrStep T o s).st.input = (coreStep T o.maxDepth s.core).st.input := by
  rw [← lrStep_core, LRStepOut.core_st]; rfl

/-- **Leaves = tokens (LR)** on the model run. -/
theorem lrRun_leaves (T : LRTables) (o : Opts) (fuel : Nat) (toks : List MTok)
    (hacc : acceptOnEoi T = true) (hne : ∀ t ∈ toks, t.skip = false → t.ty ≠ 0)
    (htrim : o.trim = false) (h : (lrRun T o fuel toks).res = .ok) :
    tokIds (lrRun T o fuel toks).tree = toks.map (·.id) := by
  unfold lrRun at h ⊢
  let I : LRSt → Prop := fun s => leavesOf s = toks.map (·.id) ∧ ∃ pre, toks = pre ++ s.input
  have hI : ∀ s, I s → I (lrStep T o s).st := by
    intro s ⟨h1, pre, h2⟩
    refine ⟨by rw [lrStep_leaves T o s htrim]; exact h1, ?_⟩
    obtain ⟨pre2, h3, _⟩ := coreStep_pre T o.maxDepth s.core
    rw [lrStep_st_input]
    exact ⟨pre ++ pre2, by rw [List.append_assoc, ← h3]; exact h2⟩
  have hnext : ∀ s s', I s → lrStep T o s = .next s' → I s' := by
    intro s s' hs hst
    have := hI s hs
    rw [hst] at this; exact this
  have h0 : I ⟨[0], toks, [], [], []⟩ := ⟨by simp [leavesOf, ptEvents], [], rfl⟩
  rcases lrLoop_reach T o I hnext fuel _ 0 h0 with hf | ⟨s0, s', k, hI0, ⟨r, hst, hout⟩ | ⟨hst, hout⟩⟩
  · rw [hf] at h; cases h
  · rw [hout] at h
    have hc := lrStep_core T o s0
    rw [hst] at hc
    exact absurd h (coreStep_stop_ne_ok hc.symm)
  · have hI' := hI s0 hI0
    rw [hst] at hI'
    obtain ⟨hl, _⟩ := hI'
    obtain ⟨_, pre0, hp0⟩ := hI0
    have hc := lrStep_core T o s0
    rw [hst] at hc
    have hne0 : ∀ t ∈ s0.core.input, t.skip = false → t.ty ≠ 0 := by
      intro t ht; exact hne t (by rw [hp0]; exact List.mem_append_right _ ht)
    have hnil : s'.input = [] := coreStep_fin_nil hacc hne0 hc.symm
    simp only [LRStepOut.st, leavesOf, hnil, List.map_nil, List.append_nil] at hl
    rw [hout, htrim]
    simp only [lrFinish, Bool.false_eq_true, if_false, hnil, lrDrain]
    simpa [ptEvents] using hl

-- ---------------------------------------------------------------------------------------------
-- no internal error for complete tables (C19)

theorem mem_of_findGoto {row : LRRow} {a g : Nat} (h : findGoto row a = some g) : (a, g) ∈ row.gotos := by
  simp only [findGoto, Option.map_eq_some_iff] at h
  obtain ⟨⟨a', g'⟩, hfind, hg⟩ := h
  simp only at hg; subst hg
  have hmem := List.mem_of_find?_eq_some hfind
  have hpred := List.find?_some hfind
  simp only [beq_iff_eq] at hpred
  subst hpred
  exact hmem

theorem lrAccOf_zero_none {T : LRTables} (h0 : (preds T 0).isEmpty = true) : lrAccOf T 0 = none := by
  simp only [preds, List.isEmpty_iff, List.map_eq_nil_iff, List.filter_eq_nil_iff] at h0
  simp only [lrAccOf, Option.map_eq_none_iff, List.find?_eq_none]
  exact h0

/-- With state 0 at the bottom (no incoming transition), a right-hand side that `backSpells` accepts
    is never longer than the path. -/
theorem Path.spells_len {T : LRTables} {final : Nat → Bool} (h0 : lrAccOf T 0 = none) :
    ∀ (rr : List Sym) (q : Nat) (sts : List Nat) (syms : List Sym), Path T (q :: sts) syms →
      (q :: sts).getLast? = some 0 → backSpells T final q rr = true → rr.length ≤ syms.length := by
  intro rr
  induction rr with
  | nil => intros; simp
  | cons X rest ih =>
    intro q sts syms hp hb hbs
    simp only [backSpells, Bool.and_eq_true, beq_iff_eq, List.all_eq_true] at hbs
    obtain ⟨hacc, hall⟩ := hbs
    cases hp with
    | base s =>
      simp only [List.getLast?_singleton, Option.some.injEq] at hb
      subst hb
      rw [h0] at hacc; cases hacc
    | @step _ s rest' X' syms' hacc' hs hp' =>
      have := ih s rest' syms' hp' (by simpa using hb) (hall s hs)
      simp only [List.length_cons]; omega

structure NIInv (T : LRTables) (c : LRCore) : Prop where
  path : Path T c.states (c.items.map itemSym)
  bottom : c.states.getLast? = some 0
  top : ∃ cur rest, c.states = cur :: rest ∧ cur < T.rows.length

def NIGood (T : LRTables) : CoreStepOut → Prop
  | .next c' => NIInv T c'
  | .stop _ r => r ≠ .internal
  | .fin _ => True

theorem coreGoto_next {T : LRTables} {c : LRCore} {n nt top g : Nat} {rest : List Nat}
    (hd : c.states.drop n = top :: rest) (hg : (T.rows[top]?).bind (fun r => findGoto r nt) = some g) :
    coreGoto T c n nt = .next { c with states := g :: top :: rest } := by
  unfold coreGoto
  have : ¬ c.states.length ≤ n := by
    intro hle
    rw [List.drop_eq_nil_of_le hle] at hd; cases hd
  rw [if_neg this]
  simp only [hd, hg]

/-- The state after a successful `call_action`. -/
def coreReduced (c : LRCore) (p : Nat) (pr : LRProd) : LRCore :=
  { c with items := .nt pr.lhs :: c.items.drop pr.len,
           actions := (p, (c.items.take pr.len).reverse) :: c.actions }

theorem coreAction_some {T : LRTables} {c : LRCore} {p : Nat} {pr : LRProd} (hpr : T.prods[p]? = some pr)
    (hlen : pr.len ≤ c.items.length) : coreAction T c p = some (coreReduced c p pr, pr.len) := by
  unfold coreAction
  simp only [hpr]
  rw [if_neg (by omega)]
  rfl

theorem getLast?_drop_cons {l : List Nat} {n : Nat} {x : Nat} {rest : List Nat} (h : l.drop n = x :: rest) :
    (x :: rest).getLast? = l.getLast? := by
  have hl : l = l.take n ++ (x :: rest) := by rw [← h, List.take_append_drop]
  calc (x :: rest).getLast? = (l.take n ++ (x :: rest)).getLast? := by
        rw [List.getLast?_append]
        cases hr : (x :: rest).getLast? with
        | none => simp at hr
        | some y => rfl
    _ = l.getLast? := by rw [← hl]

theorem coreAct_ni {T : LRTables} {gprods : List Rule} (hc : lrTableComplete T gprods = true) {c : LRCore}
    (hinv : NIInv T c) : NIGood T (coreAct T c) := by
  simp only [lrTableComplete, Bool.and_eq_true, decide_eq_true_eq] at hc
  obtain ⟨⟨⟨hv, _h0⟩, hrange⟩, hgotos⟩ := hc
  simp only [lrTableValid, Bool.and_eq_true, beq_iff_eq] at hv
  obtain ⟨⟨⟨⟨hlen, hprods⟩, hacc⟩, hpred0⟩, hrows⟩ := hv
  have hacc0 := lrAccOf_zero_none hpred0
  obtain ⟨cur, sts, hst, hcur⟩ := hinv.top
  have hpath : Path T (cur :: sts) (c.items.map itemSym) := by rw [← hst]; exact hinv.path
  have hbot : (cur :: sts).getLast? = some 0 := by rw [← hst]; exact hinv.bottom
  have hrow : T.rows[cur]? = some T.rows[cur] := List.getElem?_eq_getElem hcur
  generalize T.rows[cur] = row at hrow
  have hrowmem : (row, cur) ∈ T.rows.zipIdx := by
    rw [List.mem_zipIdx_iff_getElem?]; simpa using hrow
  have hrowmem' : row ∈ T.rows := List.mem_of_getElem? hrow
  generalize hout : coreAct T c = out
  unfold coreAct at hout
  simp only [hst, hrow] at hout
  cases hact : findAct row (nextTerm c.input) with
  | none => simp only [hact] at hout; rw [← hout]; intro h; cases h
  | some act =>
    simp only [hact] at hout
    have hactmem := mem_of_findAct hact
    have hchk := (List.all_eq_true.1 ((List.all_eq_true.1 hrows) (row, cur) hrowmem)) _ hactmem
    have hrng := (List.all_eq_true.1 hrange) row hrowmem'
    simp only [Bool.and_eq_true, List.all_eq_true] at hrng
    obtain ⟨hrng1, hrng2⟩ := hrng
    have hgchk := (List.all_eq_true.1 ((List.all_eq_true.1 hgotos) (row, cur) hrowmem)) _ hactmem
    cases act with
    | shift next =>
      simp only at hout hchk
      have hnext := hrng1 _ hactmem
      simp only [decide_eq_true_eq] at hnext
      cases hin : c.input with
      | nil =>
        exfalso
        rw [hin] at hchk
        simp [nextTerm] at hchk
      | cons t rest =>
        simp only [hin] at hout
        rw [← hout]
        have hty : nextTerm c.input = t.ty := by rw [hin]; rfl
        obtain ⟨ha, hp⟩ := acc_of_edge hacc (edge_of_shift hrow hact)
        rw [hty] at ha
        exact ⟨by simpa [itemSym] using Path.step ha hp hpath, by simpa using hbot, next, cur :: sts, rfl, hnext⟩
    | reduce nt p =>
      simp only at hout hchk hgchk
      cases hgr : gprods[p]? with
      | none => simp [hgr] at hchk
      | some r =>
        simp only [hgr, Bool.and_eq_true, beq_iff_eq] at hchk hgchk
        obtain ⟨hlhs, _⟩ := hchk
        have hplt : p < T.prods.length := by
          have := (List.getElem?_eq_some_iff.1 hgr).1; omega
        have hpr : T.prods[p]? = some T.prods[p] := List.getElem?_eq_getElem hplt
        generalize T.prods[p] = pr at hpr
        have hzip := zip_all_get hprods hgr hpr
        simp only [Bool.and_eq_true, beq_iff_eq] at hzip
        obtain ⟨hl2, hlen2⟩ := hzip
        have hrr := Path.spells_len hacc0 r.rhs.reverse cur sts _ hpath hbot hgchk
        simp only [List.length_reverse, List.length_map] at hrr
        obtain ⟨_, s2, sts', hdrop, hfin, hpath2⟩ :=
          Path.spells r.rhs.reverse cur sts _ hpath hgchk (by simpa using hrr)
        simp only [List.length_reverse] at hdrop hpath2
        rw [hlen2] at hdrop hpath2 hrr
        rw [coreAction_some hpr hrr] at hout
        simp only at hout
        simp only [hasGoto, Option.isSome_iff_exists] at hfin
        obtain ⟨g, hg⟩ := hfin
        have hdrop' : (coreReduced c p pr).states.drop pr.len = s2 :: sts' := by
          simp only [coreReduced, hst]; exact hdrop
        rw [coreGoto_next hdrop' hg] at hout
        rw [← hout]
        simp only [Option.bind_eq_some_iff] at hg
        obtain ⟨row2, hrow2, hgoto⟩ := hg
        obtain ⟨ha, hp⟩ := acc_of_edge hacc (edge_of_goto hrow2 hgoto)
        have hg2 := (List.all_eq_true.1 hrange) row2 (List.mem_of_getElem? hrow2)
        simp only [Bool.and_eq_true, List.all_eq_true] at hg2
        have hglt := hg2.2 _ (mem_of_findGoto hgoto)
        simp only [decide_eq_true_eq] at hglt
        refine ⟨?_, ?_, g, s2 :: sts', rfl, hglt⟩
        · simp only [coreReduced, List.map_cons, itemSym, List.map_drop]
          rw [← hl2, hlhs]
          exact Path.step ha hp hpath2
        · have := getLast?_drop_cons hdrop
          simp only [List.getLast?_cons_cons]
          rw [this]; exact hbot
    | accept =>
      simp only at hout hchk
      simp only [Bool.and_eq_true, beq_iff_eq] at hchk
      obtain ⟨_, hchk⟩ := hchk
      cases hp0 : T.prods.findIdx? (·.lhs == T.start) with
      | none => simp [hp0] at hchk
      | some p0 =>
        simp only [hp0] at hout hchk
        cases hgr : gprods[p0]? with
        | none => simp [hgr] at hchk
        | some r =>
          simp only [hgr] at hchk
          have hplt : p0 < T.prods.length := by
            have := (List.getElem?_eq_some_iff.1 hgr).1; omega
          have hpr : T.prods[p0]? = some T.prods[p0] := List.getElem?_eq_getElem hplt
          generalize T.prods[p0] = pr at hpr
          have hzip := zip_all_get hprods hgr hpr
          simp only [Bool.and_eq_true, beq_iff_eq] at hzip
          obtain ⟨_, hlen2⟩ := hzip
          have hrr := Path.spells_len hacc0 r.rhs.reverse cur sts _ hpath hbot hchk
          simp only [List.length_reverse, List.length_map] at hrr
          rw [hlen2] at hrr
          rw [coreAction_some hpr hrr] at hout
          rw [← hout]
          trivial

theorem coreStep_ni {T : LRTables} {gprods : List Rule} (hc : lrTableComplete T gprods = true) (md : Option Nat)
    {c : LRCore} (hinv : NIInv T c) : NIGood T (coreStep T md c) := by
  unfold coreStep
  split
  · intro h; cases h
  · exact coreAct_ni hc ⟨hinv.path, hinv.bottom, hinv.top⟩

theorem lrCoreRun_no_internal {T : LRTables} {gprods : List Rule} (hc : lrTableComplete T gprods = true)
    (md : Option Nat) (fuel : Nat) (toks : List MTok) : (lrCoreRun T md fuel toks).res ≠ .internal := by
  unfold lrCoreRun
  have hnext : ∀ c c', NIInv T c → coreStep T md c = .next c' → NIInv T c' := by
    intro c c' hi hst
    have := coreStep_ni hc md hi
    rw [hst] at this; exact this
  have hrows : 0 < T.rows.length := by
    simp only [lrTableComplete, Bool.and_eq_true, decide_eq_true_eq] at hc
    exact hc.1.1.2
  have h0 : NIInv T ⟨[0], toks, [], [], []⟩ := ⟨Path.base 0, rfl, 0, [], rfl, hrows⟩
  rcases lrCore_reach T md (NIInv T) hnext fuel _ 0 h0 with hf | ⟨c0, c', k, hI, ⟨r, hst, hout⟩ | ⟨hst, hout⟩⟩
  · rw [hf]; intro h; cases h
  · rw [hout]
    have := coreStep_ni hc md hI
    rw [hst] at this
    exact this
  · rw [hout]; intro h; cases h

end ParolModel
