import ParolModel.Proofs.LRTerm
/-! Termination of the LR parser model for tables whose reduce-only computations have consistent
summaries (`lrSummOk`, Model/LRTermCheck.lean) — the exact checker of C19 (LR half).

Invariant (`StackChk`): every two neighbours `q` over `s` on the state stack (extended at the bottom by
the pseudo state `|rows|`) form a pair the checker has looked at (`s ∈ lrBelow T q`). Measure
(`stackN`): the number of reductions still to come with the current lookahead, computed from the
summaries along the actual stack: the cost of the computation above the second entry, and — if that
computation returns by popping `j + 1` further entries — the cost of what goes on `j + 1` entries
further down (`contK`). Every reduction lowers it (`stackN_reduce`); a shift consumes a token. -/
namespace ParolModel

/-- Reductions still to come once control returns to the top of `l` with non-terminal `b`. -/
def contK (T : LRTables) (S : LRSumm) (t : Nat) : List Nat → Nat → Nat
  | [], _ => 0
  | y :: r, b =>
    match lrGotoOf T y b with
    | none => 0
    | some g =>
      S.cost t y g +
        match S.out t y g with
        | none => 0
        | some (b', j) => contK T S t (r.drop j) b'
termination_by l => l.length
decreasing_by simp only [List.length_drop, List.length_cons]; omega

/-- Reductions still to come on the (extended) stack `x :: y :: r` with lookahead `t`. -/
def stackN (T : LRTables) (S : LRSumm) (t : Nat) : List Nat → Nat
  | x :: y :: r =>
    S.cost t y x +
      match S.out t y x with
      | none => 0
      | some (b, j) => contK T S t (r.drop j) b
  | _ => 0

theorem contK_cons (T : LRTables) (S : LRSumm) (t y : Nat) (r : List Nat) (b : Nat) :
    contK T S t (y :: r) b =
      match lrGotoOf T y b with
      | none => 0
      | some g => stackN T S t (g :: y :: r) := by
  rw [contK]
  cases lrGotoOf T y b with
  | none => rfl
  | some g => rfl

def StackChk (T : LRTables) : List Nat → Prop
  | q :: s :: rest => s ∈ lrBelow T q ∧ StackChk T (s :: rest)
  | _ => True

theorem StackChk.tail {T : LRTables} {x : Nat} {l : List Nat} (h : StackChk T (x :: l)) : StackChk T l := by
  cases l with
  | nil => trivial
  | cons y r => exact h.2

theorem StackChk.drop {T : LRTables} : ∀ (k : Nat) {l : List Nat}, StackChk T l → StackChk T (l.drop k) := by
  intro k
  induction k with
  | zero => intro l h; simpa using h
  | succ k ih =>
    intro l h
    cases l with
    | nil => simpa using h
    | cons x xs => simpa using ih h.tail

theorem drop_append_cons {α : Type} {m : List α} {x : α} {r : List α} :
    ∀ (k : Nat) {l : List α}, l.drop k = x :: r → (l ++ m).drop k = x :: (r ++ m) := by
  intro k
  induction k with
  | zero => intro l h; simp only [List.drop_zero] at h; subst h; rfl
  | succ k ih =>
    intro l h
    cases l with
    | nil => simp at h
    | cons y ys =>
      simp only [List.drop_succ_cons] at h
      simpa using ih h

theorem mem_preds_of_edge {T : LRTables} {s : Nat} {X : Sym} {q : Nat} (he : (s, X, q) ∈ lrEdges T) :
    s ∈ preds T q := by
  simp only [preds, List.mem_map, List.mem_filter, beq_iff_eq]
  exact ⟨(s, X, q), ⟨he, rfl⟩, rfl⟩

theorem mem_below_of_goto {T : LRTables} {s a g : Nat} (h : lrGotoOf T s a = some g) : s ∈ lrBelow T g := by
  simp only [lrGotoOf, Option.bind_eq_some_iff] at h
  obtain ⟨row, hrow, hg⟩ := h
  simp only [lrBelow, List.mem_append]
  exact Or.inr (mem_preds_of_edge (edge_of_goto hrow hg))

/-- The checker has looked at every pair of the invariant, for every lookahead. -/
theorem summCond_of_ok {T : LRTables} {S : LRSumm} (hok : lrSummOk T S = true) {s q : Nat}
    (hs : s ∈ lrBelow T q) (t : Nat) : summCond T S t s q = true := by
  cases hred : lrRedOf T t q with
  | none => simp only [summCond, hred]
  | some ak =>
    have hred' := hred
    unfold lrRedOf at hred'
    cases hrow : T.rows[q]? with
    | none => simp [hrow] at hred'
    | some row =>
      simp only [hrow] at hred'
      cases hact : findAct row t with
      | none => simp [hact] at hred'
      | some act =>
        have hmem := mem_of_findAct hact
        have hrowmem : (row, q) ∈ T.rows.zipIdx := by
          rw [List.mem_zipIdx_iff_getElem?]; simpa using hrow
        simp only [lrSummOk, List.all_eq_true] at hok
        exact hok (row, q) hrowmem s hs (t, act) hmem

/-- **Every reduction lowers `stackN`**: `cur` (over `s`) reduces a production of length `k` to `a`,
    which exposes `s'` and pushes `g = goto(s', a)`. -/
theorem stackN_reduce {T : LRTables} {S : LRSumm} (hok : lrSummOk T S = true) {t cur s a k s' g : Nat}
    {rest rest2 : List Nat} (hchk : StackChk T (cur :: s :: rest)) (hred : lrRedOf T t cur = some (a, k))
    (hdrop : (cur :: s :: rest).drop k = s' :: rest2) (hg : lrGotoOf T s' a = some g) :
    stackN T S t (g :: s' :: rest2) < stackN T S t (cur :: s :: rest) := by
  have hc := summCond_of_ok hok hchk.1 t
  simp only [summCond, hred] at hc
  match k with
  | 0 =>
    simp only [List.drop_zero, List.cons.injEq] at hdrop
    obtain ⟨rfl, rfl⟩ := hdrop
    simp only [hg, Bool.and_eq_true, decide_eq_true_eq] at hc
    obtain ⟨hc1, hc2⟩ := hc
    simp only [stackN]
    cases ho : S.out t cur g with
    | none => simp only; omega
    | some bj =>
      obtain ⟨b, j⟩ := bj
      simp only [ho] at hc2
      match j with
      | 0 =>
        simp only [List.drop_zero, contK_cons]
        cases hg2 : lrGotoOf T s b with
        | none => simp only; omega
        | some g' =>
          simp only [hg2, Bool.and_eq_true, beq_iff_eq, decide_eq_true_eq] at hc2
          obtain ⟨ho2, hc3⟩ := hc2
          simp only [stackN, ho2]
          omega
      | j + 1 =>
        simp only [beq_iff_eq] at hc2
        simp only [hc2, List.drop_succ_cons]
        omega
  | 1 =>
    simp only [List.drop_succ_cons, List.drop_zero, List.cons.injEq] at hdrop
    obtain ⟨rfl, rfl⟩ := hdrop
    simp only [hg, Bool.and_eq_true, beq_iff_eq, decide_eq_true_eq] at hc
    obtain ⟨ho, hc1⟩ := hc
    simp only [stackN, ho]
    omega
  | k + 2 =>
    simp only [List.drop_succ_cons] at hdrop
    simp only [Bool.and_eq_true, beq_iff_eq, decide_eq_true_eq] at hc
    obtain ⟨ho, hc1⟩ := hc
    have : stackN T S t (cur :: s :: rest) = S.cost t s cur + contK T S t (rest.drop k) a := by
      simp only [stackN, ho]
    rw [this, hdrop, contK_cons]
    simp only [hg]
    omega

-- ---------------------------------------------------------------------------------------------
-- what a `next` step of the table action is

theorem coreAction_inv {T : LRTables} {c c1 : LRCore} {p n : Nat} (h : coreAction T c p = some (c1, n)) :
    ∃ pr, T.prods[p]? = some pr ∧ n = pr.len ∧ c1.states = c.states ∧ c1.input = c.input := by
  unfold coreAction at h
  cases hpr : T.prods[p]? with
  | none => simp [hpr] at h
  | some pr =>
    simp only [hpr] at h
    split at h
    · cases h
    · injection h with h
      injection h with h1 h2
      subst h1
      exact ⟨pr, rfl, h2.symm, rfl, rfl⟩

theorem coreGoto_next_inv {T : LRTables} {c c' : LRCore} {n nt : Nat} (h : coreGoto T c n nt = .next c') :
    ∃ top rest g, c.states.drop n = top :: rest ∧ lrGotoOf T top nt = some g ∧
      c' = { c with states := g :: top :: rest } := by
  unfold coreGoto at h
  split at h
  · cases h
  · cases hd : c.states.drop n with
    | nil => simp only [hd] at h; cases h
    | cons top rest =>
      simp only [hd] at h
      cases hg : (T.rows[top]?).bind (fun r => findGoto r nt) with
      | none => simp only [hg] at h; cases h
      | some g =>
        simp only [hg] at h
        injection h with h
        exact ⟨top, rest, g, rfl, hg, h.symm⟩

/-- A `next` step is a shift along a transition of the automaton or a reduction as described by
    `lrRedOf` / `lrGotoOf`. -/
theorem coreAct_next_cases {T : LRTables} {c c' : LRCore} (h : coreAct T c = .next c') :
    (∃ cur sts next, c.states = cur :: sts ∧ cur ∈ preds T next ∧ c'.states = next :: cur :: sts ∧
        c'.input.length < c.input.length) ∨
    (∃ cur sts a k s' rest' g, c.states = cur :: sts ∧ lrRedOf T (nextTerm c.input) cur = some (a, k) ∧
        (cur :: sts).drop k = s' :: rest' ∧ lrGotoOf T s' a = some g ∧ c'.states = g :: s' :: rest' ∧
        c'.input = c.input) := by
  unfold coreAct at h
  cases hst : c.states with
  | nil => simp only [hst] at h; cases h
  | cons cur sts =>
    simp only [hst] at h
    cases hrow : T.rows[cur]? with
    | none => simp only [hrow] at h; cases h
    | some row =>
      simp only [hrow] at h
      cases hact : findAct row (nextTerm c.input) with
      | none => simp only [hact] at h; cases h
      | some act =>
        simp only [hact] at h
        cases act with
        | shift next =>
          simp only at h
          cases hin : c.input with
          | nil => simp only [hin] at h; cases h
          | cons tk rest =>
            simp only [hin] at h
            injection h with h
            subst h
            refine Or.inl ⟨cur, sts, next, rfl, mem_preds_of_edge (edge_of_shift hrow hact), by simp, by simp⟩
        | reduce nt p =>
          simp only at h
          cases hca : coreAction T c p with
          | none => simp only [hca] at h; cases h
          | some x =>
            obtain ⟨c1, n⟩ := x
            simp only [hca] at h
            obtain ⟨pr, hpr, hn, hs1, hi1⟩ := coreAction_inv hca
            obtain ⟨top, rest, g, hd, hg, hc'⟩ := coreGoto_next_inv h
            subst hc'
            rw [hs1, hst, hn] at hd
            refine Or.inr ⟨cur, sts, nt, pr.len, top, rest, g, rfl, ?_, hd, hg, rfl, hi1⟩
            simp only [lrRedOf, hrow, hact, hpr]
        | accept =>
          simp only at h
          cases hp0 : T.prods.findIdx? (·.lhs == T.start) with
          | none => simp only [hp0] at h; cases h
          | some p0 =>
            simp only [hp0] at h
            cases hca : coreAction T c p0 with
            | none => simp only [hca] at h; cases h
            | some x => simp only [hca] at h; cases h

/-- The state stack extended by the pseudo state below state 0. -/
def extStack (T : LRTables) (c : LRCore) : List Nat := c.states ++ [T.rows.length]

def summMeasure (T : LRTables) (S : LRSumm) (c : LRCore) : Nat := stackN T S (coreLa c) (extStack T c)

theorem coreAct_summ {T : LRTables} {S : LRSumm} (hok : lrSummOk T S = true) {c c' : LRCore}
    (hinv : StackChk T (extStack T c)) (h : coreAct T c = .next c') :
    StackChk T (extStack T c') ∧
    (c'.input.length < c.input.length ∨
     (c'.input = c.input ∧
      stackN T S (nextTerm c.input) (extStack T c') < stackN T S (nextTerm c.input) (extStack T c))) := by
  rcases coreAct_next_cases h with ⟨cur, sts, next, hst, hp, hst', hlt⟩ |
    ⟨cur, sts, a, k, s', rest', g, hst, hred, hdrop, hg, hst', hin⟩
  · refine ⟨?_, Or.inl hlt⟩
    simp only [extStack, hst', hst] at hinv ⊢
    exact ⟨by simp only [lrBelow, List.mem_append]; exact Or.inr hp, hinv⟩
  · simp only [extStack, hst', hst] at hinv ⊢
    have hd2 : ((cur :: sts) ++ [T.rows.length]).drop k = s' :: (rest' ++ [T.rows.length]) :=
      drop_append_cons k hdrop
    refine ⟨⟨mem_below_of_goto hg, ?_⟩, Or.inr ⟨hin, ?_⟩⟩
    · have := StackChk.drop k hinv
      rw [hd2] at this
      exact this
    · cases hsts : sts ++ [T.rows.length] with
      | nil => simp at hsts
      | cons s rest =>
        simp only [List.cons_append, hsts] at hinv hd2 ⊢
        exact stackN_reduce hok hinv hred hd2 hg

theorem coreStep_summ {T : LRTables} {S : LRSumm} (hok : lrSummOk T S = true) (md : Option Nat) {c c' : LRCore}
    (hinv : StackChk T (extStack T c)) (h : coreStep T md c = .next c') :
    StackChk T (extStack T c') ∧
    (c'.input.length < c.input.length ∨
     (c'.input.length ≤ c.input.length ∧ summMeasure T S c' < summMeasure T S c)) := by
  unfold coreStep at h
  split at h
  · cases h
  · have hd : Drained (coreDrainSt c).input := coreDrain_drained _ _
    have hinv' : StackChk T (extStack T (coreDrainSt c)) := hinv
    obtain ⟨hi, hm⟩ := coreAct_summ (S := S) hok hinv' h
    refine ⟨hi, ?_⟩
    have hle := coreDrainSt_input_le c
    rcases hm with hlt | ⟨hin, hlt⟩
    · exact Or.inl (by omega)
    · refine Or.inr ⟨by rw [hin]; exact hle, ?_⟩
      have hd' : Drained c'.input := by rw [hin]; exact hd
      have hla : coreLa c' = nextTerm (coreDrainSt c).input := by rw [coreLa_of_drained hd', hin]
      have hla2 : coreLa c = nextTerm (coreDrainSt c).input := rfl
      have hext : extStack T (coreDrainSt c) = extStack T c := rfl
      unfold summMeasure
      rw [hla, hla2, ← hext]
      exact hlt

/-- **Termination on the tree-free loop**: lexicographic induction on (input length, `stackN`). -/
theorem lrCore_summ_term {T : LRTables} {S : LRSumm} (hok : lrSummOk T S = true) (md : Option Nat) :
    ∀ (len : Nat) (c : LRCore), c.input.length < len → StackChk T (extStack T c) →
      ∃ fuel, ∀ steps, (lrCore T md fuel c steps).res ≠ .fuel := by
  intro len
  induction len with
  | zero => intro c h; omega
  | succ len ihlen =>
    have inner : ∀ (m : Nat) (c : LRCore), c.input.length < len + 1 → summMeasure T S c < m →
        StackChk T (extStack T c) → ∃ fuel, ∀ steps, (lrCore T md fuel c steps).res ≠ .fuel := by
      intro m
      induction m with
      | zero => intro c _ h; omega
      | succ m ihm =>
        intro c hlen hm hinv
        cases hst : coreStep T md c with
        | next c' =>
          obtain ⟨hi, hdec⟩ := coreStep_summ (S := S) hok md hinv hst
          have : ∃ fuel, ∀ steps, (lrCore T md fuel c' steps).res ≠ .fuel := by
            rcases hdec with hlt | ⟨hle, hlt⟩
            · exact ihlen c' (by omega) hi
            · exact ihm c' (by omega) (by omega) hi
          obtain ⟨fuel, hf⟩ := this
          refine ⟨fuel + 1, fun steps => ?_⟩
          rw [lrCore, hst]
          exact hf _
        | stop c' r =>
          refine ⟨1, fun steps => ?_⟩
          rw [lrCore, hst]
          exact coreStep_stop_ne_fuel hst
        | fin c' =>
          refine ⟨1, fun steps => ?_⟩
          rw [lrCore, hst]
          simp only [coreOut]
          intro hf; cases hf
    intro c hlen hinv
    exact inner (summMeasure T S c + 1) c hlen (by omega) hinv

theorem extStack_init (T : LRTables) (toks : List MTok) :
    StackChk T (extStack T ⟨[0], toks, [], [], []⟩) := by
  simp only [extStack, List.cons_append, List.nil_append, StackChk, lrBelow, and_true]
  simp

/-- More fuel does not bring back the `fuel` outcome. -/
theorem lrCore_fuel_mono (T : LRTables) (md : Option Nat) : ∀ (fuel : Nat) (c : LRCore) (steps : Nat),
    (lrCore T md fuel c steps).res ≠ .fuel → ∀ extra, (lrCore T md (fuel + extra) c steps).res ≠ .fuel := by
  intro fuel
  induction fuel with
  | zero => intro c steps h; exact absurd rfl h
  | succ fuel ih =>
    intro c steps h extra
    have e : fuel + 1 + extra = (fuel + extra) + 1 := by omega
    rw [e, lrCore]
    rw [lrCore] at h
    cases hst : coreStep T md c with
    | next c' => simp only [hst] at h ⊢; exact ih c' _ h extra
    | stop c' r => simp only [hst] at h ⊢; exact h
    | fin c' => simp only [hst] at h ⊢; exact h

end ParolModel
