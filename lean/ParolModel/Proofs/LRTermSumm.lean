import ParolModel.Proofs.LRTerm
/-! Termination of the LR parser model for tables whose reduce-only computations have consistent
summaries (`lrSummOk`, Model/LRTermCheck.lean) — the exact checker of C19 (LR half).

Invariant (`StackChk`): every two neighbours `q` over `s` on the state stack (extended at the bottom by
the pseudo state `|rows|`) form a pair the checker has looked at (`s ∈ lrBelow T q`). Potential
(`stackF`), computed from the summaries along the actual stack: the cost of the computation above the
second entry, and — if that computation returns by popping `j + 1` further entries — the potential of
what goes on `j + 1` entries further down (`contF`); where the chain ends (a computation that stops)
`C` times (the entries that stay stacked + the cost of that last computation, which bounds what it
can still push). Every reduction lowers it (`stackF_reduce`); it is at most `C * height + C² + C`
(`stackF_le`) and exactly `C * (height - 1)` when the top state does not reduce (`stackF_stop`), so a
shift raises it by at most `C² + 3 C`: with `C² + 3 C + 1` per unread token every step lowers the
sum (`coreStep_summ`). -/
namespace ParolModel

/-- Potential of what goes on once control returns to the top of `l` with non-terminal `b`. -/
def contF (T : LRTables) (S : LRSumm) (t : Nat) : List Nat → Nat → Nat
  | [], _ => 0
  | y :: r, b =>
    match lrGotoOf T y b with
    | none => 0
    | some g =>
      S.costOf T t y g +
        match S.outOf T t y g with
        | none => S.maxc * (r.length + 1 + S.costOf T t y g)
        | some (b', j) => contF T S t (r.drop j) b'
termination_by l => l.length
decreasing_by simp only [List.length_drop, List.length_cons]; omega

/-- What follows the computation above `r` (outcome `o`, cost `c`): if it stops, `C` for every entry
    that stays stacked and for every entry it may still push; if it returns, the rest of the chain. -/
def tailF (T : LRTables) (S : LRSumm) (t : Nat) (o : Option (Nat × Nat)) (c : Nat) (r : List Nat) : Nat :=
  match o with
  | none => S.maxc * (r.length + 1 + c)
  | some (b, j) => contF T S t (r.drop j) b

/-- The potential of the (extended) stack `x :: y :: r` with lookahead `t`: the number of reductions
    still to come plus `C` times (entries below the place where they end + cost of the last
    computation of the chain). -/
def stackF (T : LRTables) (S : LRSumm) (t : Nat) : List Nat → Nat
  | x :: y :: r => S.costOf T t y x + tailF T S t (S.outOf T t y x) (S.costOf T t y x) r
  | _ => 0

theorem contF_cons (T : LRTables) (S : LRSumm) (t y : Nat) (r : List Nat) (b : Nat) :
    contF T S t (y :: r) b =
      match lrGotoOf T y b with
      | none => 0
      | some g => stackF T S t (g :: y :: r) := by
  rw [contF]
  cases lrGotoOf T y b with
  | none => rfl
  | some g =>
    simp only [stackF, tailF]

theorem tailF_mono (T : LRTables) (S : LRSumm) (t : Nat) (o : Option (Nat × Nat)) {c c' : Nat} (h : c ≤ c')
    (r : List Nat) : tailF T S t o c r ≤ tailF T S t o c' r := by
  cases o with
  | none => exact Nat.mul_le_mul_left _ (by omega)
  | some bj => exact Nat.le_refl _

def StackChk (T : LRTables) : List Nat → Prop
  | q :: s :: rest => s ∈ lrBelow T q ∧ StackChk T (s :: rest)
  | _ => True

theorem StackChk.tail {T : LRTables} {x : Nat} {l : List Nat} (h : StackChk T (x :: l)) : StackChk T l := by
  cases l with
  | nil => trivial
  | cons y r => exact h.2

theorem StackChk.drop {T : LRTables} : ∀ (k : Nat) {l : List Nat}, StackChk T l → StackChk T (l.drop k) := by
  intro k
  induction k with
  | zero => intro l h; simpa using h
  | succ k ih =>
    intro l h
    cases l with
    | nil => simpa using h
    | cons x xs => simpa using ih h.tail

theorem drop_append_cons {α : Type} {m : List α} {x : α} {r : List α} :
    ∀ (k : Nat) {l : List α}, l.drop k = x :: r → (l ++ m).drop k = x :: (r ++ m) := by
  intro k
  induction k with
  | zero => intro l h; simp only [List.drop_zero] at h; subst h; rfl
  | succ k ih =>
    intro l h
    cases l with
    | nil => simp at h
    | cons y ys =>
      simp only [List.drop_succ_cons] at h
      simpa using ih h

theorem mem_preds_of_edge {T : LRTables} {s : Nat} {X : Sym} {q : Nat} (he : (s, X, q) ∈ lrEdges T) :
    s ∈ preds T q := by
  simp only [preds, List.mem_map, List.mem_filter, beq_iff_eq]
  exact ⟨(s, X, q), ⟨he, rfl⟩, rfl⟩

theorem mem_below_of_goto {T : LRTables} {s a g : Nat} (h : lrGotoOf T s a = some g) : s ∈ lrBelow T g := by
  simp only [lrGotoOf, Option.bind_eq_some_iff] at h
  obtain ⟨row, hrow, hg⟩ := h
  simp only [lrBelow, List.mem_append]
  exact Or.inr (mem_preds_of_edge (edge_of_goto hrow hg))

/-- The checker has looked at every pair of the invariant, for every lookahead. -/
theorem summCond_of_ok {T : LRTables} {S : LRSumm} (hok : lrSummOk T S = true) {s q : Nat}
    (hs : s ∈ lrBelow T q) (t : Nat) : summCond T S t s q = true := by
  cases hred : lrRedOf T t q with
  | none => simp only [summCond, hred]
  | some ak =>
    have hred' := hred
    unfold lrRedOf at hred'
    cases hrow : T.rows[q]? with
    | none => simp [hrow] at hred'
    | some row =>
      simp only [hrow] at hred'
      cases hact : findAct row t with
      | none => simp [hact] at hred'
      | some act =>
        have hmem := mem_of_findAct hact
        have hrowmem : (row, q) ∈ T.rows.zipIdx := by
          rw [List.mem_zipIdx_iff_getElem?]; simpa using hrow
        simp only [lrSummOk, List.all_eq_true] at hok
        exact hok (row, q) hrowmem s hs (t, act) hmem

theorem costOf_le {T : LRTables} {S : LRSumm} (hok : lrSummOk T S = true) {s q : Nat}
    (hs : s ∈ lrBelow T q) (t : Nat) : S.costOf T t s q ≤ S.maxc := by
  have hc := summCond_of_ok hok hs t
  unfold LRSumm.costOf
  cases hred : lrRedOf T t q with
  | none => simp
  | some ak =>
    obtain ⟨a, k⟩ := ak
    simp only [summCond, hred, Bool.and_eq_true, decide_eq_true_eq] at hc
    simp only [Option.isSome_some, if_true]
    exact hc.1

theorem costOf_some {S : LRSumm} {T : LRTables} {t s q : Nat} {ak : Nat × Nat} (h : lrRedOf T t q = some ak) :
    S.costOf T t s q = S.cost t s q ∧ S.outOf T t s q = S.out t s q := by
  simp [LRSumm.costOf, LRSumm.outOf, h]

/-- A top state that does not reduce on `t`: the potential is `C` per entry below it. -/
theorem stackF_stop {T : LRTables} (S : LRSumm) {t x : Nat} (y : Nat) (r : List Nat) (h : lrRedOf T t x = none) :
    stackF T S t (x :: y :: r) = S.maxc * (r.length + 1) := by
  simp [stackF, tailF, LRSumm.costOf, LRSumm.outOf, h]

/-- **Every reduction lowers `stackF`**: `cur` (over `s`) reduces a production of length `k` to `a`,
    which exposes `s'` and pushes `g = goto(s', a)`. -/
theorem stackF_reduce {T : LRTables} {S : LRSumm} (hok : lrSummOk T S = true) {t cur s a k s' g : Nat}
    {rest rest2 : List Nat} (hchk : StackChk T (cur :: s :: rest)) (hred : lrRedOf T t cur = some (a, k))
    (hdrop : (cur :: s :: rest).drop k = s' :: rest2) (hg : lrGotoOf T s' a = some g) :
    stackF T S t (g :: s' :: rest2) < stackF T S t (cur :: s :: rest) := by
  have hc := summCond_of_ok hok hchk.1 t
  simp only [summCond, hred, Bool.and_eq_true, decide_eq_true_eq] at hc
  obtain ⟨_, hc⟩ := hc
  obtain ⟨hcost, hout⟩ := costOf_some (S := S) (s := s) hred
  have hold : stackF T S t (cur :: s :: rest) = S.cost t s cur + tailF T S t (S.out t s cur) (S.cost t s cur) rest := by
    simp only [stackF, hcost, hout]
  rw [hold]
  match k with
  | 0 =>
    simp only [List.drop_zero, List.cons.injEq] at hdrop
    obtain ⟨rfl, rfl⟩ := hdrop
    simp only [hg, Bool.and_eq_true, decide_eq_true_eq] at hc
    obtain ⟨hc1, hc2⟩ := hc
    simp only [stackF]
    generalize S.costOf T t cur g = c1 at hc1 hc2 ⊢
    cases ho : S.outOf T t cur g with
    | none =>
      simp only [ho, beq_iff_eq] at hc2
      simp only [hc2, tailF, List.length_cons]
      have := Nat.mul_le_mul_left S.maxc (show rest.length + 1 + 1 + c1 ≤ rest.length + 1 + S.cost t s cur by omega)
      omega
    | some bj =>
      obtain ⟨b, j⟩ := bj
      simp only [ho] at hc2
      match j with
      | 0 =>
        simp only [tailF, List.drop_zero, contF_cons]
        cases hg2 : lrGotoOf T s b with
        | none => simp only; omega
        | some g' =>
          simp only [hg2, Bool.and_eq_true, beq_iff_eq, decide_eq_true_eq] at hc2
          obtain ⟨ho2, hc3⟩ := hc2
          simp only [stackF, ho2]
          have := tailF_mono T S t (S.outOf T t s g') (show S.costOf T t s g' ≤ S.cost t s cur by omega) rest
          simp only [tailF] at this ⊢
          omega
      | j + 1 =>
        simp only [beq_iff_eq] at hc2
        simp only [hc2, tailF, List.drop_succ_cons]
        omega
  | 1 =>
    simp only [List.drop_succ_cons, List.drop_zero, List.cons.injEq] at hdrop
    obtain ⟨rfl, rfl⟩ := hdrop
    simp only [hg, Bool.and_eq_true, beq_iff_eq, decide_eq_true_eq] at hc
    obtain ⟨ho, hc1⟩ := hc
    simp only [stackF, ho]
    have := tailF_mono T S t (S.outOf T t s g) (show S.costOf T t s g ≤ S.cost t s cur by omega) rest
    omega
  | k + 2 =>
    simp only [List.drop_succ_cons] at hdrop
    simp only [Bool.and_eq_true, beq_iff_eq, decide_eq_true_eq] at hc
    obtain ⟨ho, hc1⟩ := hc
    simp only [ho, tailF, hdrop, contF_cons, hg]
    omega

/-- Upper bound of the potential: `C` per entry plus `C² + C`. -/
theorem stackF_le {T : LRTables} {S : LRSumm} (hok : lrSummOk T S = true) (t : Nat) :
    ∀ (n : Nat) (l : List Nat), l.length ≤ n → StackChk T l →
      stackF T S t l ≤ S.maxc * l.length + S.maxc * S.maxc + S.maxc := by
  intro n
  induction n with
  | zero =>
    intro l hl _
    have : l = [] := List.eq_nil_of_length_eq_zero (by omega)
    subst this; simp [stackF]
  | succ n ih =>
    intro l hl hchk
    match l with
    | [] => simp [stackF]
    | [x] => simp [stackF]
    | x :: y :: r =>
      have hcx := costOf_le hok hchk.1 t
      simp only [stackF]
      generalize S.costOf T t y x = c at hcx ⊢
      have hlen : S.maxc * (x :: y :: r).length = S.maxc * r.length + S.maxc + S.maxc := by
        simp only [List.length_cons, Nat.mul_add, Nat.mul_one]
      rw [hlen]
      cases ho : S.outOf T t y x with
      | none =>
        simp only [tailF]
        have h1 : S.maxc * (r.length + 1 + c) = S.maxc * r.length + S.maxc + S.maxc * c := by
          simp only [Nat.mul_add, Nat.mul_one]
        have h2 := Nat.mul_le_mul_left S.maxc hcx
        omega
      | some bj =>
        obtain ⟨b, j⟩ := bj
        simp only [tailF]
        cases hd : r.drop j with
        | nil => simp only [contF]; omega
        | cons y' r' =>
          rw [contF_cons]
          cases hg : lrGotoOf T y' b with
          | none => simp only; omega
          | some g =>
            simp only
            have hlen2 : r'.length + 1 ≤ r.length := by
              have := congrArg List.length hd
              simp only [List.length_drop, List.length_cons] at this
              omega
            have hchk2 : StackChk T (g :: y' :: r') := by
              refine ⟨mem_below_of_goto hg, ?_⟩
              have := StackChk.drop j hchk.tail.tail
              rw [hd] at this
              exact this
            have := ih (g :: y' :: r') (by simp only [List.length_cons] at hl ⊢; omega) hchk2
            have h3 : S.maxc * (g :: y' :: r').length = S.maxc * r'.length + S.maxc + S.maxc := by
              simp only [List.length_cons, Nat.mul_add, Nat.mul_one]
            rw [h3] at this
            have h4 := Nat.mul_le_mul_left S.maxc hlen2
            rw [Nat.mul_add, Nat.mul_one] at h4
            omega

-- ---------------------------------------------------------------------------------------------
-- what a `next` step of the table action is

theorem coreAction_inv {T : LRTables} {c c1 : LRCore} {p n : Nat} (h : coreAction T c p = some (c1, n)) :
    ∃ pr, T.prods[p]? = some pr ∧ n = pr.len ∧ c1.states = c.states ∧ c1.input = c.input := by
  unfold coreAction at h
  cases hpr : T.prods[p]? with
  | none => simp [hpr] at h
  | some pr =>
    simp only [hpr] at h
    split at h
    · cases h
    · injection h with h
      injection h with h1 h2
      subst h1
      exact ⟨pr, rfl, h2.symm, rfl, rfl⟩

theorem coreGoto_next_inv {T : LRTables} {c c' : LRCore} {n nt : Nat} (h : coreGoto T c n nt = .next c') :
    ∃ top rest g, c.states.drop n = top :: rest ∧ lrGotoOf T top nt = some g ∧
      c' = { c with states := g :: top :: rest } := by
  unfold coreGoto at h
  split at h
  · cases h
  · cases hd : c.states.drop n with
    | nil => simp only [hd] at h; cases h
    | cons top rest =>
      simp only [hd] at h
      cases hg : (T.rows[top]?).bind (fun r => findGoto r nt) with
      | none => simp only [hg] at h; cases h
      | some g =>
        simp only [hg] at h
        injection h with h
        exact ⟨top, rest, g, rfl, hg, h.symm⟩

/-- A `next` step is a shift along a transition of the automaton or a reduction as described by
    `lrRedOf` / `lrGotoOf`. -/
theorem coreAct_next_cases {T : LRTables} {c c' : LRCore} (h : coreAct T c = .next c') :
    (∃ cur sts next, c.states = cur :: sts ∧ cur ∈ preds T next ∧ c'.states = next :: cur :: sts ∧
        c'.input.length < c.input.length ∧ lrRedOf T (nextTerm c.input) cur = none) ∨
    (∃ cur sts a k s' rest' g, c.states = cur :: sts ∧ lrRedOf T (nextTerm c.input) cur = some (a, k) ∧
        (cur :: sts).drop k = s' :: rest' ∧ lrGotoOf T s' a = some g ∧ c'.states = g :: s' :: rest' ∧
        c'.input = c.input) := by
  unfold coreAct at h
  cases hst : c.states with
  | nil => simp only [hst] at h; cases h
  | cons cur sts =>
    simp only [hst] at h
    cases hrow : T.rows[cur]? with
    | none => simp only [hrow] at h; cases h
    | some row =>
      simp only [hrow] at h
      cases hact : findAct row (nextTerm c.input) with
      | none => simp only [hact] at h; cases h
      | some act =>
        simp only [hact] at h
        cases act with
        | shift next =>
          simp only at h
          cases hin : c.input with
          | nil => simp only [hin] at h; cases h
          | cons tk rest =>
            simp only [hin] at h
            injection h with h
            subst h
            refine Or.inl ⟨cur, sts, next, rfl, mem_preds_of_edge (edge_of_shift hrow hact), by simp, by simp, ?_⟩
            simp only [lrRedOf, hrow, ← hin, hact]
        | reduce nt p =>
          simp only at h
          cases hca : coreAction T c p with
          | none => simp only [hca] at h; cases h
          | some x =>
            obtain ⟨c1, n⟩ := x
            simp only [hca] at h
            obtain ⟨pr, hpr, hn, hs1, hi1⟩ := coreAction_inv hca
            obtain ⟨top, rest, g, hd, hg, hc'⟩ := coreGoto_next_inv h
            subst hc'
            rw [hs1, hst, hn] at hd
            refine Or.inr ⟨cur, sts, nt, pr.len, top, rest, g, rfl, ?_, hd, hg, rfl, hi1⟩
            simp only [lrRedOf, hrow, hact, hpr]
        | accept =>
          simp only at h
          cases hp0 : T.prods.findIdx? (·.lhs == T.start) with
          | none => simp only [hp0] at h; cases h
          | some p0 =>
            simp only [hp0] at h
            cases hca : coreAction T c p0 with
            | none => simp only [hca] at h; cases h
            | some x => simp only [hca] at h; cases h

/-- The state stack extended by the pseudo state below state 0. -/
def extStack (T : LRTables) (c : LRCore) : List Nat := c.states ++ [T.rows.length]

/-- Weight of one token: what a shift can add to `stackF`, plus one. -/
def LRSumm.tokW (S : LRSumm) : Nat := S.maxc * S.maxc + 3 * S.maxc + 1

/-- The potential of a parser state: every step lowers it. -/
def summMeasure (T : LRTables) (S : LRSumm) (c : LRCore) : Nat :=
  stackF T S (coreLa c) (extStack T c) + S.tokW * c.input.length

theorem coreAct_summ {T : LRTables} {S : LRSumm} (hok : lrSummOk T S = true) {c c' : LRCore}
    (hinv : StackChk T (extStack T c)) (h : coreAct T c = .next c') :
    StackChk T (extStack T c') ∧
    ((c'.input.length < c.input.length ∧ ∀ t', stackF T S t' (extStack T c') + 1 ≤
        stackF T S (nextTerm c.input) (extStack T c) + S.tokW) ∨
     (c'.input = c.input ∧
      stackF T S (nextTerm c.input) (extStack T c') < stackF T S (nextTerm c.input) (extStack T c))) := by
  rcases coreAct_next_cases h with ⟨cur, sts, next, hst, hp, hst', hlt, hnone⟩ |
    ⟨cur, sts, a, k, s', rest', g, hst, hred, hdrop, hg, hst', hin⟩
  · simp only [extStack, hst', hst] at hinv ⊢
    have hchk' : StackChk T (next :: cur :: (sts ++ [T.rows.length])) :=
      ⟨by simp only [lrBelow, List.mem_append]; exact Or.inr hp, hinv⟩
    refine ⟨hchk', Or.inl ⟨hlt, fun t' => ?_⟩⟩
    cases hsts : sts ++ [T.rows.length] with
    | nil => simp at hsts
    | cons s rest =>
      simp only [List.cons_append, hsts] at hchk' ⊢
      rw [stackF_stop S s rest hnone]
      have hU := stackF_le (S := S) hok t' _ (next :: cur :: s :: rest) (Nat.le_refl _) hchk'
      have e1 : S.maxc * (next :: cur :: s :: rest).length = S.maxc * rest.length + 3 * S.maxc := by
        simp only [List.length_cons, Nat.mul_add, Nat.mul_one]; omega
      have e2 : S.maxc * (rest.length + 1) = S.maxc * rest.length + S.maxc := by
        simp only [Nat.mul_add, Nat.mul_one]
      rw [e1] at hU
      rw [e2]
      unfold LRSumm.tokW
      omega
  · simp only [extStack, hst', hst] at hinv ⊢
    have hd2 : ((cur :: sts) ++ [T.rows.length]).drop k = s' :: (rest' ++ [T.rows.length]) :=
      drop_append_cons k hdrop
    refine ⟨⟨mem_below_of_goto hg, ?_⟩, Or.inr ⟨hin, ?_⟩⟩
    · have := StackChk.drop k hinv
      rw [hd2] at this
      exact this
    · cases hsts : sts ++ [T.rows.length] with
      | nil => simp at hsts
      | cons s rest =>
        simp only [List.cons_append, hsts] at hinv hd2 ⊢
        exact stackF_reduce hok hinv hred hd2 hg

/-- **Every `next` step lowers the potential** (and keeps the invariant). -/
theorem coreStep_summ {T : LRTables} {S : LRSumm} (hok : lrSummOk T S = true) (md : Option Nat) {c c' : LRCore}
    (hinv : StackChk T (extStack T c)) (h : coreStep T md c = .next c') :
    StackChk T (extStack T c') ∧ summMeasure T S c' < summMeasure T S c := by
  unfold coreStep at h
  split at h
  · cases h
  · have hd : Drained (coreDrainSt c).input := coreDrain_drained _ _
    have hinv' : StackChk T (extStack T (coreDrainSt c)) := hinv
    obtain ⟨hi, hm⟩ := coreAct_summ (S := S) hok hinv' h
    refine ⟨hi, ?_⟩
    have hle := coreDrainSt_input_le c
    have hla2 : coreLa c = nextTerm (coreDrainSt c).input := rfl
    have hext : extStack T (coreDrainSt c) = extStack T c := rfl
    unfold summMeasure
    rw [hla2, ← hext]
    generalize S.tokW = W at hm ⊢
    rcases hm with ⟨hlt, hsh⟩ | ⟨hin, hlt⟩
    · have h1 : c'.input.length + 1 ≤ c.input.length := by omega
      have h2 := Nat.mul_le_mul_left W h1
      rw [Nat.mul_add, Nat.mul_one] at h2
      have := hsh (coreLa c')
      omega
    · have hd' : Drained c'.input := by rw [hin]; exact hd
      have hla : coreLa c' = nextTerm (coreDrainSt c).input := by rw [coreLa_of_drained hd', hin]
      rw [hla, hin]
      have h2 := Nat.mul_le_mul_left W hle
      omega

/-- **Termination on the tree-free loop**: fuel above the potential is never exhausted. -/
theorem lrCore_summ_term {T : LRTables} {S : LRSumm} (hok : lrSummOk T S = true) (md : Option Nat) :
    ∀ (fuel : Nat) (c : LRCore) (steps : Nat), StackChk T (extStack T c) → summMeasure T S c < fuel →
      (lrCore T md fuel c steps).res ≠ .fuel := by
  intro fuel
  induction fuel with
  | zero => intro c steps _ h; omega
  | succ fuel ih =>
    intro c steps hinv hm
    rw [lrCore]
    cases hst : coreStep T md c with
    | next c' =>
      obtain ⟨hi, hlt⟩ := coreStep_summ (S := S) hok md hinv hst
      exact ih c' _ hi (by omega)
    | stop c' r => exact coreStep_stop_ne_fuel hst
    | fin c' => simp only [coreOut]; intro hf; cases hf

theorem extStack_init (T : LRTables) (toks : List MTok) :
    StackChk T (extStack T ⟨[0], toks, [], [], []⟩) := by
  simp only [extStack, List.cons_append, List.nil_append, StackChk, lrBelow, and_true]
  simp

theorem summMeasure_init {T : LRTables} {S : LRSumm} (hok : lrSummOk T S = true) (toks : List MTok) :
    summMeasure T S ⟨[0], toks, [], [], []⟩ < S.fuel toks := by
  have hU := stackF_le (S := S) hok (coreLa ⟨[0], toks, [], [], []⟩) _ _ (Nat.le_refl _) (extStack_init T toks)
  unfold summMeasure LRSumm.fuel
  have e : extStack T ⟨[0], toks, [], [], []⟩ = [0, T.rows.length] := rfl
  rw [e] at hU ⊢
  simp only [List.length_cons, List.length_nil] at hU ⊢
  have e2 : (toks.length + 1) * (S.maxc * S.maxc + 3 * S.maxc + 1) =
      S.tokW * toks.length + (S.maxc * S.maxc + 3 * S.maxc + 1) := by
    unfold LRSumm.tokW
    rw [Nat.add_mul, Nat.one_mul, Nat.mul_comm]
  rw [e2]
  omega

/-- More fuel does not bring back the `fuel` outcome. -/
theorem lrCore_fuel_mono (T : LRTables) (md : Option Nat) : ∀ (fuel : Nat) (c : LRCore) (steps : Nat),
    (lrCore T md fuel c steps).res ≠ .fuel → ∀ extra, (lrCore T md (fuel + extra) c steps).res ≠ .fuel := by
  intro fuel
  induction fuel with
  | zero => intro c steps h; exact absurd rfl h
  | succ fuel ih =>
    intro c steps h extra
    have e : fuel + 1 + extra = (fuel + extra) + 1 := by omega
    rw [e, lrCore]
    rw [lrCore] at h
    cases hst : coreStep T md c with
    | next c' => simp only [hst] at h ⊢; exact ih c' _ h extra
    | stop c' r => simp only [hst] at h ⊢; exact h
    | fin c' => simp only [hst] at h ⊢; exact h

end ParolModel
