import ParolModel.Proofs.LaAdj
/-! Proofs about the `AdjacencyList` model (C07), part 2b: the well-formedness invariant, the two
primitive operations (`combine_two_states`, `rename_state`) as simulations, the loops of `minimize`. -/
namespace ParolModel

/-- The state map of `rename_neighbor(id, new)`. -/
def hmap (id new s : Nat) : Nat := if s = id then new else s

theorem mem_nbRename (nb : Nbrs) (id new : Nat) (x : Nat × Nat) :
    x ∈ nbRename nb id new ↔ ∃ y ∈ nb, x = (hmap id new y.1, y.2) := by
  unfold nbRename
  split
  · rw [mem_sortPairs, List.mem_map]
    constructor
    · rintro ⟨y, hy, rfl⟩
      refine ⟨y, hy, ?_⟩
      unfold hmap
      by_cases h : y.1 = id <;> simp [h]
    · rintro ⟨y, hy, rfl⟩
      refine ⟨y, hy, ?_⟩
      unfold hmap
      by_cases h : y.1 = id <;> simp [h]
  · rename_i hany
    have hno : ∀ y ∈ nb, y.1 ≠ id := by
      intro y hy he
      apply hany
      rw [List.any_eq_true]
      exact ⟨y, hy, by simp [he]⟩
    constructor
    · intro hx
      exact ⟨x, hx, by simp [hmap, hno x hx]⟩
    · rintro ⟨y, hy, rfl⟩
      simpa [hmap, hno y hy] using hy

theorem nbRename_terms_perm (nb : Nbrs) (id new : Nat) :
    ((nbRename nb id new).map Prod.snd).Perm (nb.map Prod.snd) := by
  unfold nbRename
  split
  · refine ((sortPairs_perm _).map _).trans ?_
    rw [List.map_map]
    have : (Prod.snd ∘ fun x : Nat × Nat => if (x.1 == id) = true then (new, x.2) else x) = Prod.snd := by
      funext x
      by_cases h : x.1 = id <;> simp [h]
    rw [this]
  · exact List.Perm.refl _

theorem nbRename_nil (id new : Nat) : nbRename [] id new = [] := by simp [nbRename]

theorem foldl_contains_id (b : Nbrs) : ∀ (acc : Nbrs), (∀ n ∈ b, n ∈ acc) →
    b.foldl (fun acc n => if acc.contains n then acc else acc ++ [n]) acc = acc := by
  induction b with
  | nil => intro acc _; rfl
  | cons n ns ih =>
    intro acc h
    simp only [List.foldl_cons]
    have : acc.contains n = true := by simpa using h n List.mem_cons_self
    simp only [this, if_true]
    exact ih acc (fun m hm => h m (List.mem_cons_of_mem _ hm))

theorem nbAppend_self (l : Nbrs) : nbAppend l l = l := by
  unfold nbAppend
  rw [foldl_contains_id l l (fun _ h => h)]
  simp

/-! ### Well-formedness of adjacency lists -/

structure AdjWF (a : Adj) : Prop where
  ksl : KS a.list
  ksp : KS a.prods
  keys : ∀ s, (bmGet a.list s).isSome ↔ (bmGet a.prods s).isSome
  det : ∀ s nb, bmGet a.list s = some nb → (nb.map Prod.snd).Nodup
  closed : a.Closed
  leaves : ∀ s p, bmGet a.prods s = some p → p ≠ -1 → bmGet a.list s = some []
  zero : (bmGet a.list 0).isSome

/-! ### `rename_state` -/

theorem renameState_absent {a : Adj} {id new : Nat} (h1 : bmGet a.list id = none) (h2 : bmGet a.prods id = none) :
    a.renameState id new = { a with list := a.list.map (fun x => (x.1, nbRename x.2 id new)) } := by
  simp [Adj.renameState, h1, h2]

theorem renameState_present {a : Adj} {id new : Nat} {e : Nbrs} {p : Int}
    (h1 : bmGet a.list id = some e) (h2 : bmGet a.prods id = some p) :
    a.renameState id new =
      { a with list := (bmInsert (bmRemove a.list id) new e).map (fun x => (x.1, nbRename x.2 id new)),
               prods := bmInsert (bmRemove a.prods id) new p } := by
  simp [Adj.renameState, h1, h2]

/-! ### `combine_two_states` -/

theorem combineTwo_spec {a a' : Adj} {keep merge : Nat} (h : a.combineTwo keep merge = some a') :
    keep ≠ merge ∧ ∃ lk lm pk, bmGet a.list keep = some lk ∧ bmGet a.list merge = some lm ∧
      bmGet a.prods keep = some pk ∧ bmGet a.prods merge = some pk ∧
      a' = (({ a with list := bmInsert a.list keep (nbAppend lk lm) } : Adj).removeState merge).renameState merge keep := by
  unfold Adj.combineTwo at h
  split at h
  · cases h
  · rename_i hne
    refine ⟨hne, ?_⟩
    split at h
    · rename_i lk lm pk pm e1 e2 e3 e4
      split at h
      · cases h
      · rename_i hpp
        have hpp' : pk = pm := by
          by_cases h' : pk = pm
          · exact h'
          · exact absurd h' hpp
        subst hpp'
        injection h with h
        exact ⟨lk, lm, pk, e1, e2, e3, e4, h.symm⟩
    · cases h

/-- The result of `combine_two_states` when both states have the same neighbour list. -/
theorem combineTwo_eq {a a' : Adj} {keep merge : Nat} (h : a.combineTwo keep merge = some a')
    (hsame : ∀ lm lk, bmGet a.list merge = some lm → bmGet a.list keep = some lk → lm = lk) :
    keep ≠ merge ∧ (∃ l pk, bmGet a.list keep = some l ∧ bmGet a.list merge = some l ∧
      bmGet a.prods keep = some pk ∧ bmGet a.prods merge = some pk) ∧
    a' = { a with
      list := (bmRemove (bmInsert a.list keep ((bmGet a.list keep).getD [])) merge).map (fun x => (x.1, nbRename x.2 merge keep)),
      prods := bmRemove a.prods merge } := by
  obtain ⟨hne, lk, lm, pk, e1, e2, e3, e4, rfl⟩ := combineTwo_spec h
  have : lm = lk := hsame lm lk e2 e1
  subst this
  refine ⟨hne, ⟨lm, pk, e1, e2, e3, e4⟩, ?_⟩
  rw [nbAppend_self]
  have h1 : bmGet (({ a with list := bmInsert a.list keep lm } : Adj).removeState merge).list merge = none := by
    simp [Adj.removeState, bmGet_remove]
  have h2 : bmGet (({ a with list := bmInsert a.list keep lm } : Adj).removeState merge).prods merge = none := by
    simp [Adj.removeState, bmGet_remove]
  rw [renameState_absent h1 h2]
  simp [Adj.removeState, e1]

theorem combineTwo_get_list {a a' : Adj} {keep merge : Nat} (h : a.combineTwo keep merge = some a')
    (hsame : ∀ lm lk, bmGet a.list merge = some lm → bmGet a.list keep = some lk → lm = lk) (s : Nat) :
    bmGet a'.list s = if s = merge then none else (bmGet a.list s).map (fun nb => nbRename nb merge keep) := by
  obtain ⟨hne, ⟨l, pk, e1, e2, e3, e4⟩, rfl⟩ := combineTwo_eq h hsame
  simp only
  rw [bmGet_mapVal (fun _ nb => nbRename nb merge keep), bmGet_remove, bmGet_insert]
  by_cases hs : s = merge
  · simp [hs]
  · simp only [hs, if_false]
    by_cases hk : s = keep
    · simp [hk, e1]
    · simp [hk]

theorem combineTwo_get_prods {a a' : Adj} {keep merge : Nat} (h : a.combineTwo keep merge = some a')
    (hsame : ∀ lm lk, bmGet a.list merge = some lm → bmGet a.list keep = some lk → lm = lk) (s : Nat) :
    bmGet a'.prods s = if s = merge then none else bmGet a.prods s := by
  obtain ⟨hne, ⟨l, pk, e1, e2, e3, e4⟩, rfl⟩ := combineTwo_eq h hsame
  simp only
  rw [bmGet_remove]

theorem combineTwo_sim {a a' : Adj} {keep merge : Nat} (hwf : AdjWF a) (h : a.combineTwo keep merge = some a')
    (hsame : ∀ lm lk, bmGet a.list merge = some lm → bmGet a.list keep = some lk → lm = lk) :
    Sim a a' (hmap merge keep) := by
  have hl := combineTwo_get_list h hsame
  have hp := combineTwo_get_prods h hsame
  obtain ⟨hne, ⟨l, pk, e1, e2, e3, e4⟩, _⟩ := combineTwo_eq h hsame
  refine ⟨?_, ?_, hwf.closed⟩
  · intro s nb hnb
    by_cases hs : s = merge
    · subst hs
      rw [e2] at hnb
      injection hnb with hnb
      subst hnb
      refine ⟨nbRename l s keep, ?_, fun x => mem_nbRename _ _ _ x⟩
      simp [hmap, hl, hne, e1]
    · refine ⟨nbRename nb merge keep, ?_, fun x => mem_nbRename _ _ _ x⟩
      simp [hmap, hs, hl, hnb]
  · intro s hs
    by_cases hsm : s = merge
    · subst hsm
      simp [hmap, hp, hne, e3, e4]
    · simp [hmap, hsm, hp]

theorem combineTwo_wf {a a' : Adj} {keep merge : Nat} (hwf : AdjWF a) (h : a.combineTwo keep merge = some a')
    (hsame : ∀ lm lk, bmGet a.list merge = some lm → bmGet a.list keep = some lk → lm = lk) (h0 : merge ≠ 0) :
    AdjWF a' := by
  have hl := combineTwo_get_list h hsame
  have hp := combineTwo_get_prods h hsame
  obtain ⟨hne, ⟨l, pk, e1, e2, e3, e4⟩, heq⟩ := combineTwo_eq h hsame
  refine ⟨?_, ?_, ?_, ?_, ?_, ?_, ?_⟩
  · rw [heq]
    exact (((hwf.ksl.insert keep _).remove merge).mapVal (fun x => nbRename x.2 merge keep))
  · rw [heq]
    exact hwf.ksp.remove merge
  · intro s
    rw [hl, hp]
    by_cases hs : s = merge
    · simp [hs]
    · simp only [hs, if_false, Option.isSome_map]
      exact hwf.keys s
  · intro s nb hnb
    rw [hl] at hnb
    by_cases hs : s = merge
    · simp [hs] at hnb
    · simp only [hs, if_false] at hnb
      cases hg : bmGet a.list s with
      | none => simp [hg] at hnb
      | some nb0 =>
        simp only [hg, Option.map_some, Option.some.injEq] at hnb
        subst hnb
        exact (nbRename_terms_perm nb0 merge keep).nodup_iff.2 (hwf.det s nb0 hg)
  · intro s nb hnb x hx
    rw [hl] at hnb
    by_cases hs : s = merge
    · simp [hs] at hnb
    · simp only [hs, if_false] at hnb
      cases hg : bmGet a.list s with
      | none => simp [hg] at hnb
      | some nb0 =>
        simp only [hg, Option.map_some, Option.some.injEq] at hnb
        subst hnb
        obtain ⟨y, hy, rfl⟩ := (mem_nbRename nb0 merge keep x).1 hx
        have hpres := hwf.closed s nb0 hg y hy
        simp only [hl, hmap]
        by_cases hym : y.1 = merge
        · simp [hym, hne, e1]
        · simpa [hym] using hpres
  · intro s p hps hpne
    rw [hp] at hps
    by_cases hs : s = merge
    · simp [hs] at hps
    · simp only [hs, if_false] at hps
      rw [hl]
      simp [hs, hwf.leaves s p hps hpne, nbRename_nil]
  · rw [hl]
    have : (0 : Nat) ≠ merge := fun e => h0 e.symm
    simpa [this] using hwf.zero

end ParolModel
