import ParolModel.Proofs.Tables
import ParolModel.Model.TermId
/-! Helper lemmas about the per-grammar oracle `tidCheck` (Model/TermId.lean). -/
namespace ParolModel.Tbl

theorem symAgree_t {i : Nat} {ds : PSym} (h : symAgree (.t i) ds = true) : ds = .t i ∨ ds = .unk := by
  cases ds <;> simp_all [symAgree]

theorem symAgree_n {i : Nat} {ds : PSym} (h : symAgree (.n i) ds = true) : ds = .n i ∨ ds = .unk := by
  cases ds <;> simp_all [symAgree]

theorem occAt_spec {g : List GProd} {p j : Nat} {o : XOcc} (h : occAt g p j = some o) :
    ∃ gp, g[p]? = some gp ∧ gp.rhs[j]? = some (.t o) := by
  unfold occAt at h
  cases hg : g[p]? with
  | none => simp [hg] at h
  | some gp =>
    simp only [hg, Option.bind_some] at h
    cases hr : gp.rhs[j]? with
    | none => simp [hr] at h
    | some s =>
      cases s with
      | n i => simp [hr] at h
      | t o' =>
        simp only [hr, Option.some.injEq] at h
        subst h
        exact ⟨gp, rfl, hr⟩

theorem occ_mem_allOcc {g : List GProd} {p j : Nat} {gp : GProd} {o : XOcc}
    (hg : g[p]? = some gp) (hr : gp.rhs[j]? = some (.t o)) : o.occ ∈ allOcc g := by
  unfold allOcc gOccs
  refine List.mem_map.2 ⟨o, ?_, rfl⟩
  refine List.mem_flatMap.2 ⟨gp, List.mem_of_getElem? hg, ?_⟩
  exact List.mem_filterMap.2 ⟨.t o, List.mem_of_getElem? hr, rfl⟩

end ParolModel.Tbl
