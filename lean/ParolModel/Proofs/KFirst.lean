import ParolModel.Proofs.KDec
/-! The faithful `first_k` model against the declarative FIRST_k:
* evaluation over compiled parts (terminal runs) = evaluation symbol by symbol (`evalParts_eq_evalSyms`);
* membership in a fold as a chain of `kcat` steps (`mem_evalSymsFrom`);
* every closed environment contains the declarative sets (`chain_of_yield`);
* for grammars without (hidden) left recursion every well-formed fixpoint is contained in the
  declarative sets (`fixpoint_genuine`): the uniqueness lemma. -/
namespace ParolModel.KS

/-! ## congruence -/

theorem kcatSetQ_congr {k : Nat} {X X' Y Y' : TSet} (hX : SetEq X X') (hY : SetEq Y Y') :
    SetEq (kcatSetQ k X Y) (kcatSetQ k X' Y') := by
  intro t
  simp only [mem_kcatSetQ]
  constructor
  · rintro ⟨x, hx, h⟩
    refine ⟨x, (hX x).1 hx, ?_⟩
    rcases h with h | ⟨hc, y, hy, rfl⟩
    · exact Or.inl h
    · exact Or.inr ⟨hc, y, (hY y).1 hy, rfl⟩
  · rintro ⟨x, hx, h⟩
    refine ⟨x, (hX x).2 hx, ?_⟩
    rcases h with h | ⟨hc, y, hy, rfl⟩
    · exact Or.inl h
    · exact Or.inr ⟨hc, y, (hY y).2 hy, rfl⟩

theorem evalPartsFrom_congr {k : Nat} {env : Nat → TSet} (ps : List KPart) :
    ∀ {r r' : TSet}, SetEq r r' → SetEq (evalPartsFrom k env r ps) (evalPartsFrom k env r' ps) := by
  induction ps with
  | nil => intro r r' h; exact h
  | cons p ps ih => intro r r' h; exact ih (kcatSetQ_congr h (SetEq.refl _))

/-! ## symbol-wise evaluation -/

def symSet (env : Nat → TSet) : Sym → TSet
  | .t a => [[a]]
  | .n A => env A

def evalSymsFrom (k : Nat) (env : Nat → TSet) (r : TSet) : List Sym → TSet
  | [] => r
  | s :: ss => evalSymsFrom k env (kcatSetQ k r (symSet env s)) ss

theorem evalSymsFrom_congr {k : Nat} {env env' : Nat → TSet} (henv : ∀ A, SetEq (env A) (env' A))
    (ss : List Sym) :
    ∀ {r r' : TSet}, SetEq r r' → SetEq (evalSymsFrom k env r ss) (evalSymsFrom k env' r' ss) := by
  induction ss with
  | nil => intro r r' h; exact h
  | cons s ss ih =>
    intro r r' h
    apply ih
    apply kcatSetQ_congr h
    cases s with
    | t a => exact SetEq.refl _
    | n A => exact henv A

theorem tupComplete_false_length {k : Nat} {x : Tup} (hk : 1 ≤ k) (hc : tupComplete k x = false) :
    x.length < k := by
  unfold tupComplete at hc
  cases x with
  | nil => simp; omega
  | cons a as =>
    simp only [List.isEmpty_cons, Bool.not_false, List.length_cons, Bool.true_and, Bool.or_eq_false_iff,
      decide_eq_false_iff_not] at hc
    simp only [List.length_cons]
    omega

/-- a terminal run of length ≥ 2 may be split off token by token -/
theorem kcatSetQ_run_split {k : Nat} (hk : 1 ≤ k) {a : Nat} (ha : a ≠ 0) (run : List Nat) (r : TSet) :
    SetEq (kcatSetQ k r [(a :: run).take k]) (kcatSetQ k (kcatSetQ k r [[a]]) [run.take k]) := by
  intro t
  simp only [mem_kcatSetQ, List.mem_singleton]
  constructor
  · rintro ⟨x, hx, h⟩
    rcases h with ⟨hc, rfl⟩ | ⟨hc, y, rfl, rfl⟩
    · exact ⟨t, ⟨t, hx, Or.inl ⟨hc, rfl⟩⟩, Or.inl ⟨hc, rfl⟩⟩
    · have hlt := tupComplete_false_length hk hc
      have hx1 : kcat k x [a] = x ++ [a] := by
        unfold kcat; simp only [hc, Bool.false_eq_true, ↓reduceIte]
        congr 1; exact List.take_of_length_le (by simp; omega)
      refine ⟨x ++ [a], ⟨x, hx, Or.inr ⟨hc, [a], rfl, hx1.symm⟩⟩, ?_⟩
      cases hc1 : tupComplete k (x ++ [a]) with
      | true =>
        left
        refine ⟨rfl, ?_⟩
        -- complete: |x| + 1 ≥ k (last token a ≠ 0), so exactly one token fits
        have hlen : k ≤ (x ++ [a]).length := by
          unfold tupComplete at hc1
          simp only [Bool.and_eq_true, Bool.or_eq_true, decide_eq_true_eq, beq_iff_eq] at hc1
          rcases hc1.2 with h | h
          · exact h
          · simp at h; exact absurd h ha
        simp only [List.length_append, List.length_singleton] at hlen
        unfold kcat; simp only [hc, Bool.false_eq_true, ↓reduceIte]
        have hk1 : k - x.length = 1 := by omega
        rw [hk1, List.take_take]
        have : min 1 k = 1 := by omega
        rw [this]; simp
      | false =>
        right
        refine ⟨rfl, run.take k, rfl, ?_⟩
        have hlt1 := tupComplete_false_length hk hc1
        simp only [List.length_append, List.length_singleton] at hlt1
        unfold kcat
        simp only [hc, hc1, Bool.false_eq_true, ↓reduceIte, List.length_append, List.length_singleton]
        rw [List.take_take, List.take_take]
        have h1 : min (k - x.length) k = k - x.length := by omega
        have h2 : min (k - (x.length + 1)) k = k - (x.length + 1) := by omega
        rw [h1, h2]
        have h3 : k - x.length = (k - (x.length + 1)) + 1 := by omega
        rw [h3, List.take_succ_cons]
        simp
  · rintro ⟨x1, ⟨x, hx, h1⟩, h⟩
    rcases h1 with ⟨hc, rfl⟩ | ⟨hc, y, rfl, rfl⟩
    · -- x complete: stays in both stages
      rcases h with ⟨_, rfl⟩ | ⟨hc', _⟩
      · exact ⟨t, hx, Or.inl ⟨hc, rfl⟩⟩
      · rw [hc] at hc'; cases hc'
    · have hlt := tupComplete_false_length hk hc
      have hx1 : kcat k x [a] = x ++ [a] := by
        unfold kcat; simp only [hc, Bool.false_eq_true, ↓reduceIte]
        congr 1; exact List.take_of_length_le (by simp; omega)
      rw [hx1] at h
      refine ⟨x, hx, Or.inr ⟨hc, _, rfl, ?_⟩⟩
      rcases h with ⟨hc1, rfl⟩ | ⟨hc1, y, rfl, rfl⟩
      · have hlen : k ≤ (x ++ [a]).length := by
          unfold tupComplete at hc1
          simp only [Bool.and_eq_true, Bool.or_eq_true, decide_eq_true_eq, beq_iff_eq] at hc1
          rcases hc1.2 with h | h
          · exact h
          · simp at h; exact absurd h ha
        simp only [List.length_append, List.length_singleton] at hlen
        unfold kcat; simp only [hc, Bool.false_eq_true, ↓reduceIte]
        have hk1 : k - x.length = 1 := by omega
        rw [hk1, List.take_take]
        have : min 1 k = 1 := by omega
        rw [this]; simp
      · have hlt1 := tupComplete_false_length hk hc1
        simp only [List.length_append, List.length_singleton] at hlt1
        unfold kcat
        simp only [hc, hc1, Bool.false_eq_true, ↓reduceIte, List.length_append, List.length_singleton]
        rw [List.take_take, List.take_take]
        have h1 : min (k - x.length) k = k - x.length := by omega
        have h2 : min (k - (x.length + 1)) k = k - (x.length + 1) := by omega
        rw [h1, h2]
        have h3 : k - x.length = (k - (x.length + 1)) + 1 := by omega
        rw [h3, List.take_succ_cons]
        simp

theorem take_singleton_of_pos {k : Nat} (hk : 1 ≤ k) (a : Nat) : ([a] : List Nat).take k = [a] :=
  List.take_of_length_le (by simp; omega)

/-- evaluation over the compiled parts of a right-hand side = evaluation symbol by symbol -/
theorem evalParts_eq_evalSyms {k : Nat} (hk : 1 ≤ k) (env : Nat → TSet) (ss : List Sym)
    (h0 : Sym.t 0 ∉ ss) :
    ∀ r, SetEq (evalPartsFrom k env r (compileParts ss)) (evalSymsFrom k env r ss) := by
  induction ss with
  | nil => intro r; exact SetEq.refl _
  | cons s ss ih =>
    have h0' : Sym.t 0 ∉ ss := fun h => h0 (List.mem_cons_of_mem _ h)
    intro r
    cases s with
    | n A => exact ih h0' _
    | t a =>
      have ha : a ≠ 0 := by
        intro e; subst e; exact h0 List.mem_cons_self
      simp only [evalSymsFrom, symSet]
      refine SetEq.trans ?_ (ih h0' _)
      simp only [compileParts]
      split
      · rename_i run ps hcp
        rw [hcp]
        simp only [evalPartsFrom, partSet]
        exact evalPartsFrom_congr ps (kcatSetQ_run_split hk ha run r)
      · simp only [evalPartsFrom, partSet, take_singleton_of_pos hk]
        exact SetEq.refl _

/-! ## chains -/

/-- `Chain k env x ss y`: folding the symbols `ss` into the tuple `x` can end in `y` -/
inductive Chain (k : Nat) (env : Nat → TSet) : Tup → List Sym → Tup → Prop
  | nil (x : Tup) : Chain k env x [] x
  | keep {x y : Tup} (s : Sym) {ss : List Sym} : tupComplete k x = true → Chain k env x ss y →
      Chain k env x (s :: ss) y
  | ext {x y z : Tup} (s : Sym) {ss : List Sym} : tupComplete k x = false → z ∈ symSet env s →
      Chain k env (kcat k x z) ss y → Chain k env x (s :: ss) y

theorem mem_evalSymsFrom {k : Nat} {env : Nat → TSet} (ss : List Sym) :
    ∀ (r : TSet) (t : Tup), t ∈ evalSymsFrom k env r ss ↔ ∃ x ∈ r, Chain k env x ss t := by
  induction ss with
  | nil =>
    intro r t
    simp only [evalSymsFrom]
    constructor
    · intro h; exact ⟨t, h, .nil t⟩
    · rintro ⟨x, hx, hc⟩; cases hc; exact hx
  | cons s ss ih =>
    intro r t
    simp only [evalSymsFrom, ih, mem_kcatSetQ]
    constructor
    · rintro ⟨x1, ⟨x, hx, h⟩, hc⟩
      rcases h with ⟨hcomp, rfl⟩ | ⟨hcomp, z, hz, rfl⟩
      · exact ⟨x1, hx, .keep s hcomp hc⟩
      · exact ⟨x, hx, .ext s hcomp hz hc⟩
    · rintro ⟨x, hx, hc⟩
      cases hc with
      | keep _ hcomp hc' => exact ⟨x, ⟨x, hx, Or.inl ⟨hcomp, rfl⟩⟩, hc'⟩
      | ext _ hcomp hz hc' => exact ⟨_, ⟨x, hx, Or.inr ⟨hcomp, _, hz, rfl⟩⟩, hc'⟩

theorem chain_complete {k : Nat} {env : Nat → TSet} {x : Tup} (hc : tupComplete k x = true)
    (ss : List Sym) : Chain k env x ss x := by
  induction ss with
  | nil => exact .nil x
  | cons s ss ih => exact .keep s hc ih


/-! ## well-formed tuples -/

/-- no end-of-input token, length ≤ k -/
def TupWf (k : Nat) (x : Tup) : Prop := 0 ∉ x ∧ x.length ≤ k

theorem tupWf_nil (k : Nat) : TupWf k [] := ⟨by simp, by simp⟩

theorem kcat_wf {k : Nat} {x z : Tup} (hx : TupWf k x) (hz : 0 ∉ z) : TupWf k (kcat k x z) := by
  unfold kcat
  split
  · exact hx
  · refine ⟨?_, ?_⟩
    · simp only [List.mem_append, not_or]
      exact ⟨hx.1, fun h => hz (List.mem_of_mem_take h)⟩
    · simp only [List.length_append, List.length_take]
      have := hx.2
      omega

theorem take_wf {k : Nat} {w : List Nat} (h0 : 0 ∉ w) : TupWf k (w.take k) :=
  ⟨fun h => h0 (List.mem_of_mem_take h), by simp [List.length_take]; omega⟩

theorem take_eq_self_of_wf {k : Nat} {x : Tup} (h : TupWf k x) : x.take k = x :=
  List.take_of_length_le h.2

/-! ## every closed environment contains the declarative FIRST_k -/

theorem chain_of_yield {G : Grammar} {k : Nat} {env : Nat → TSet} (hk : 1 ≤ k) (hno : NoEoi G)
    (hclosed : ∀ p ∈ G.prods, ∀ t, t ∈ evalSymsFrom k env [[]] p.rhs → t ∈ env p.lhs)
    {ss : List Sym} {w : List Nat} (h : Yield G ss w) :
    Sym.t 0 ∉ ss → ∀ x, TupWf k x → Chain k env x ss ((x ++ w).take k) := by
  induction h with
  | nil =>
    intro _ x hx
    rw [List.append_nil, take_eq_self_of_wf hx]
    exact .nil x
  | @term a ss w _ ih =>
    intro hss x hx
    have ha : a ≠ 0 := by intro e; subst e; exact hss List.mem_cons_self
    have hss' : Sym.t 0 ∉ ss := fun h => hss (List.mem_cons_of_mem _ h)
    cases hc : tupComplete k x with
    | true =>
      rw [take_eq_of_complete ((tupComplete_iff_of_wf hk hx.1 hx.2).1 hc)]
      exact chain_complete hc _
    | false =>
      have hx' : kcat k x [a] = (x ++ [a]).take k := kcat_eq_take_of_incomplete hk hx.1 hx.2 hc
      have hwf' : TupWf k (kcat k x [a]) := kcat_wf hx (by simp; exact fun e => ha e.symm)
      have := ih hss' _ hwf'
      rw [hx', take_append_take_left] at this
      refine .ext (.t a) hc (z := [a]) (by simp [symSet]) ?_
      rw [hx']
      simpa using this
  | @nonterm p ss u v hp hr _ ih1 ih2 =>
    intro hss x hx
    have hss' : Sym.t 0 ∉ ss := fun h => hss (List.mem_cons_of_mem _ h)
    have hu0 : 0 ∉ u := yield_no_eoi hno hr (hno p hp)
    cases hc : tupComplete k x with
    | true =>
      rw [take_eq_of_complete ((tupComplete_iff_of_wf hk hx.1 hx.2).1 hc)]
      exact chain_complete hc _
    | false =>
      have hmem : u.take k ∈ env p.lhs := by
        apply hclosed p hp
        rw [mem_evalSymsFrom]
        refine ⟨[], by simp, ?_⟩
        have := ih1 (hno p hp) [] (tupWf_nil k)
        simpa using this
      have hx' : kcat k x (u.take k) = (x ++ u).take k := by
        rw [kcat_eq_take_of_incomplete hk hx.1 hx.2 hc, take_append_take_right]
      have hwf' : TupWf k (kcat k x (u.take k)) :=
        kcat_wf hx (fun h => hu0 (List.mem_of_mem_take h))
      have := ih2 hss' _ hwf'
      rw [hx', take_append_take_left, List.append_assoc] at this
      refine .ext (.n p.lhs) hc (z := u.take k) (by simpa [symSet] using hmem) ?_
      rw [hx']
      exact this

/-! ## uniqueness: fixpoints contain only genuine tuples when there is no left recursion -/

/-- `B` is a left corner of `A`: `A → α B β` with `α ⇒* ε` -/
def LC (G : Grammar) (A B : Nat) : Prop :=
  ∃ p ∈ G.prods, p.lhs = A ∧ ∃ α β, p.rhs = α ++ Sym.n B :: β ∧ Yield G α []

/-- no left recursion, direct, indirect or hidden behind nullable prefixes: the left-corner
    relation admits a rank function -/
def NoLeftRec (G : Grammar) : Prop := ∃ ρ : Nat → Nat, ∀ A B, LC G A B → ρ B < ρ A

/-- every non-terminal used on a right-hand side derives some terminal string -/
def Productive (G : Grammar) : Prop :=
  ∀ p ∈ G.prods, ∀ B, Sym.n B ∈ p.rhs → ∃ w, Yield G [.n B] w

def EnvWf (k : Nat) (env : Nat → TSet) : Prop := ∀ A y, y ∈ env A → TupWf k y

/-- `y` agrees on its first `r` tokens with a genuine yield of `A` -/
def Gen (G : Grammar) (r : Nat) (A : Nat) (y : Tup) : Prop :=
  ∃ w, Yield G [.n A] w ∧ y.take r = w.take r

theorem take_append_of_le_length {r : Nat} {u v : List Nat} (h : r ≤ u.length) :
    (u ++ v).take r = u.take r := by
  rw [List.take_append]
  have : r - u.length = 0 := by omega
  rw [this]; simp

theorem length_ge_of_take_eq {r : Nat} {x u : List Nat} (h : x.take r = u.take r) (hx : r ≤ x.length) :
    r ≤ u.length := by
  have := congrArg List.length h
  simp only [List.length_take] at this
  omega

theorem eq_of_take_eq_of_short {r : Nat} {x u : List Nat} (h : x.take r = u.take r) (hx : x.length < r) :
    u = x := by
  have hl := congrArg List.length h
  simp only [List.length_take] at hl
  have hu : u.length < r := by omega
  rw [List.take_of_length_le (by omega), List.take_of_length_le (by omega)] at h
  exact h.symm

theorem yield_sym_exists {G : Grammar} (hprod : Productive G) {p : Rule} (hp : p ∈ G.prods)
    {s : Sym} (hs : s ∈ p.rhs) : ∃ w, Yield G [s] w := by
  cases s with
  | t a => exact ⟨[a], .term a .nil⟩
  | n B => exact hprod p hp B hs

theorem chain_genuine {G : Grammar} {k r : Nat} {env : Nat → TSet} (hk : 1 ≤ k) (hr : r ≤ k)
    (hno : NoEoi G) (hprod : Productive G) (hwf : EnvWf k env) {A : Nat} {p : Rule}
    (hp : p ∈ G.prods) (hpl : p.lhs = A)
    (hi : ∀ r', r' < r → ∀ B y, y ∈ env B → Gen G r' B y)
    (hii : ∀ B, LC G A B → ∀ y, y ∈ env B → Gen G r B y) :
    ∀ (x : Tup) (ss : List Sym) (y : Tup), Chain k env x ss y →
      ∀ α u, p.rhs = α ++ ss → Yield G α u → x.take r = u.take r → TupWf k x →
        ∃ w, Yield G p.rhs w ∧ y.take r = w.take r := by
  intro x ss y hch
  induction hch with
  | nil x =>
    intro α u hrhs hu hxu _
    rw [List.append_nil] at hrhs
    exact ⟨u, hrhs ▸ hu, hxu⟩
  | @keep x y s ss hc _ ih =>
    intro α u hrhs hu hxu hx
    have hlen : x.length = k := (tupComplete_iff_of_wf hk hx.1 hx.2).1 hc
    have hs : s ∈ p.rhs := by rw [hrhs]; simp
    obtain ⟨ws, hws⟩ := yield_sym_exists hprod hp hs
    have hul : r ≤ u.length := length_ge_of_take_eq hxu (by omega)
    refine ih (α ++ [s]) (u ++ ws) (by rw [hrhs]; simp) (Yield.append hu hws) ?_ hx
    rw [take_append_of_le_length hul]; exact hxu
  | @ext x y z s ss hc hz _ ih =>
    intro α u hrhs hu hxu hx
    have hlt : x.length < k := tupComplete_false_length hk hc
    have hs : s ∈ p.rhs := by rw [hrhs]; simp
    have hz0 : 0 ∉ z := by
      cases s with
      | t a =>
        simp only [symSet, List.mem_singleton] at hz
        subst hz
        have : Sym.t a ∈ p.rhs := hs
        intro h0
        simp only [List.mem_singleton] at h0
        subst h0
        exact hno p hp this
      | n B => exact (hwf B z hz).1
    have hx' : kcat k x z = x ++ z.take (k - x.length) := by
      unfold kcat; simp [hc]
    have hwf' : TupWf k (kcat k x z) := kcat_wf hx hz0
    rcases Nat.lt_or_ge x.length r with hshort | hlong
    · -- the first r tokens are not yet fixed: u = x, and z must be genuine for the room left
      have hux : u = x := eq_of_take_eq_of_short hxu hshort
      subst hux
      -- a yield of s that agrees with z on the first r - |u| tokens
      have hgen : ∃ ws, Yield G [s] ws ∧ z.take (r - u.length) = ws.take (r - u.length) := by
        cases s with
        | t a =>
          simp only [symSet, List.mem_singleton] at hz
          subst hz
          exact ⟨[a], .term a .nil, rfl⟩
        | n B =>
          simp only [symSet] at hz
          rcases Nat.eq_zero_or_pos u.length with h0 | hpos
          · have hu0 : u = [] := List.eq_nil_of_length_eq_zero h0
            subst hu0
            have hlc : LC G A B := ⟨p, hp, hpl, α, ss, hrhs, hu⟩
            have := hii B hlc z hz
            simpa [Gen] using this
          · exact hi (r - u.length) (by omega) B z hz
      obtain ⟨ws, hws, hzw⟩ := hgen
      refine ih (α ++ [s]) (u ++ ws) (by rw [hrhs]; simp) (Yield.append hu hws) ?_ hwf'
      rw [hx', List.take_append, List.take_append, List.take_take]
      have hmin : min (r - u.length) (k - u.length) = r - u.length := by omega
      rw [hmin, hzw]
    · -- the first r tokens are fixed already
      obtain ⟨ws, hws⟩ := yield_sym_exists hprod hp hs
      have hul : r ≤ u.length := length_ge_of_take_eq hxu hlong
      refine ih (α ++ [s]) (u ++ ws) (by rw [hrhs]; simp) (Yield.append hu hws) ?_ hwf'
      rw [hx', take_append_of_le_length hlong, take_append_of_le_length hul]
      exact hxu

/-- **Uniqueness.** In a productive grammar without left recursion, every tuple of a well-formed
    environment that is supported by the step function (each tuple of `env A` is produced by some
    alternative of `A` from `env`) is a genuine k-prefix. -/
theorem fixpoint_genuine {G : Grammar} {k : Nat} {env : Nat → TSet} (hk : 1 ≤ k) (hno : NoEoi G)
    (hprod : Productive G) (hnlr : NoLeftRec G) (hwf : EnvWf k env)
    (hfix : ∀ A y, y ∈ env A → ∃ p ∈ G.prods, p.lhs = A ∧ y ∈ evalSymsFrom k env [[]] p.rhs) :
    ∀ r, r ≤ k → ∀ A y, y ∈ env A → Gen G r A y := by
  obtain ⟨ρ, hρ⟩ := hnlr
  intro r
  induction r using Nat.strongRecOn with
  | ind r ihr =>
    intro hr
    -- inner induction on the left-corner rank
    have inner : ∀ n, ∀ A, ρ A = n → ∀ y, y ∈ env A → Gen G r A y := by
      intro n
      induction n using Nat.strongRecOn with
      | ind n ihn =>
        intro A hA y hy
        obtain ⟨p, hp, hpl, hmem⟩ := hfix A y hy
        rw [mem_evalSymsFrom] at hmem
        obtain ⟨x, hx, hch⟩ := hmem
        simp only [List.mem_singleton] at hx
        subst hx
        obtain ⟨w, hw, hyw⟩ := chain_genuine hk hr hno hprod hwf hp hpl
          (fun r' hr' B y hy => ihr r' hr' (by omega) B y hy)
          (fun B hlc y hy => ihn (ρ B) (by rw [← hA]; exact hρ A B hlc) B rfl y hy)
          [] p.rhs y hch [] [] (by simp) .nil rfl (tupWf_nil k)
        exact ⟨w, hpl ▸ yield_single hp hw, hyw⟩
    intro A y hy
    exact inner (ρ A) A rfl y hy

end ParolModel.KS
