import ParolModel.Model.LLTreeCheck
import ParolModel.Proofs.LRTree
import ParolModel.Proofs.LLSim
/-! The LL parser model builds a derivation tree, reports its post-order and predicts its pre-order
(C02b).

* `llTreeCheck_eq_lr`: the instantiation of `treeCheck` by the handler `ll-tree-check` is the one of
  `lr-tree-check` on the grammar `gOf T` of the production table (no markers inside right-hand sides).
* `treeCheck_top`: `treeCheck` accepts `root( skipped tokens, d, skipped tokens )` for every well-formed
  tree `d` rooted at the start symbol (generalises `treeCheck_dtree`, which has no trailing tokens).
* `DSP`, `DSP_forest`: the declarative parse `DS` of a symbol sequence (Proofs/LLTree.lean), extended by
  the list of chosen productions in prediction order, IS a forest of derivation trees: events,
  post-order actions, action arguments, root symbols, leaves, pre-order production list.
* `LmDeriv`, `dtree_leftmost_ctx`: the pre-order production list of a well-formed tree is a leftmost
  derivation of its frontier.
* `llLoopG_erase`, `llRunG_erase`: the ghost-instrumented run is `llRun` plus the prediction trace;
  `llRunG_tree`: on success the prediction trace is the pre-order of the tree. -/
namespace ParolModel

theorem tokEv_eq_tokEvOf : tokEv = tokEvOf := rfl

theorem symPT_stackSyms : ∀ (l : List PT), (∀ x ∈ l, PT.isE x = false) → (stackSyms l).map lrSymPT = l := by
  intro l
  induction l with
  | nil => intro _; rfl
  | cons x l ih =>
    intro h
    have ih' := ih (fun y hy => h y (List.mem_cons_of_mem _ hy))
    cases x with
    | t a => simp [lrSymPT, ih']
    | n a => simp [lrSymPT, ih']
    | e p => have := h (.e p) List.mem_cons_self; simp [PT.isE] at this

/-- The handler `ll-tree-check` evaluates the same function as `lr-tree-check` on the grammar the
    production table denotes. -/
theorem llTreeCheck_eq_lr (T : LLTables) (hwf : ∀ pr ∈ T.prods, ∀ x ∈ pr.rhsRev, PT.isE x = false)
    (toks : List MTok) (acts : List (Nat × List PTItem)) (tree : List TreeEv) :
    llTreeCheck T toks acts tree = lrTreeCheck T.start (gOf T).prods toks acts tree := by
  have h1 : (fun (p : Nat) => T.prods[p]?.map LLProd.lhs) = (fun p => (gOf T).prods[p]?.map Rule.lhs) := by
    funext p
    simp only [gOf, List.getElem?_map]
    cases T.prods[p]? <;> rfl
  have h2 : (fun (p : Nat) => T.prods[p]?.map (fun (pr : LLProd) => pr.rhsRev.reverse)) =
      (fun p => (gOf T).prods[p]?.map (fun (r : Rule) => r.rhs.map lrSymPT)) := by
    funext p
    simp only [gOf, List.getElem?_map]
    cases hp : T.prods[p]? with
    | none => rfl
    | some pr =>
      simp only [Option.map_some, ruleOf, Option.some.injEq]
      exact (symPT_stackSyms _ (fun x hx => hwf pr (List.mem_of_getElem? hp) x (by simpa using hx))).symm
  unfold llTreeCheck lrTreeCheck
  rw [h1, h2]

/-- **The executable statement holds for every well-formed tree, with skipped tokens on both sides**:
    `treeCheck` accepts the post-order actions and the event rendering
    `root( skipped tokens, d, skipped tokens )` of a well-formed tree `d` rooted at the start symbol,
    if the leaves are the tokens and token ids are positions. (The LL parser attaches the skipped
    tokens after the last significant token to the artificial root, behind the start node.) -/
theorem treeCheck_top (start : Nat) (gprods : List Rule) (toks pre post : List MTok) (p : Nat)
    (kids : List DTree) (hid : toks.map (·.id) = List.range toks.length)
    (hwf : (DTree.node p start kids).wf gprods = true) (hpre : ∀ t ∈ pre, t.skip = true)
    (hpost : ∀ t ∈ post, t.skip = true)
    (hleaves : pre ++ (DTree.node p start kids).leaves ++ post = toks) :
    lrTreeCheck start gprods toks (DTree.node p start kids).postActs
      (.open_ none :: pre.map tokEvOf ++ (DTree.node p start kids).events ++ post.map tokEvOf ++ [.close]) = none := by
  generalize hd : DTree.node p start kids = d at hwf hleaves ⊢
  have hat : ∀ t ∈ toks, toks[t.id]? = some t := by
    intro t ht
    obtain ⟨i, hi⟩ := List.mem_iff_getElem?.1 ht
    have h1 : (toks.map (·.id))[i]? = some t.id := by simp [hi]
    rw [hid] at h1
    have hlt : i < toks.length := by
      rcases Nat.lt_or_ge i toks.length with h | h
      · exact h
      · rw [List.getElem?_eq_none (by simpa using h)] at hi; cases hi
    rw [List.getElem?_range hlt] at h1
    injection h1 with h1
    rw [← h1]; exact hi
  let top : List DTree := pre.map DTree.leaf ++ d :: post.map DTree.leaf
  have htop_ev : pre.map tokEvOf ++ d.events ++ post.map tokEvOf = top.flatMap DTree.events := by
    simp [top, List.flatMap_append, flatMap_leaf_events]
  have htop_nodes : top.flatMap DTree.nodes = d.nodes := by
    simp [top, List.flatMap_append, flatMap_leaf_nodes]
  have htop_leaves : top.flatMap DTree.leaves = toks := by
    rw [← hleaves]; simp [top, List.flatMap_append, flatMap_leaf_leaves]
  have hpost' : postNodes (.open_ none :: pre.map tokEvOf ++ d.events ++ post.map tokEvOf ++ [.close]) [] [] =
      some (d.nodes.map ProdApp.pnode ++ [(none, top.map DTree.child)]) := by
    rw [List.cons_append, List.cons_append, List.cons_append, htop_ev]
    simp only [postNodes]
    rw [postNodes_forest top (fun k _ => postNodes_events k), htop_nodes]
    simp [postNodes]
  have hrootkids : ∀ k ∈ top, TokAt toks k := by
    intro k hk t hkt
    subst hkt
    apply hat
    rw [← htop_leaves]
    exact List.mem_flatMap.2 ⟨_, hk, by simp⟩
  have hskipnil : ∀ l : List MTok, (∀ t ∈ l, t.skip = true) → (l.map DTree.leaf).filter DTree.sig = [] := by
    intro l hl
    rw [List.filter_eq_nil_iff]
    intro k hk
    obtain ⟨t, ht, rfl⟩ := List.mem_map.1 hk
    simp [DTree.sig, hl t ht]
  have hroot : sigChildren toks (top.map DTree.child) = [Child.nt start] := by
    rw [sigChildren_kids toks top hrootkids]
    have h2 : top.filter DTree.sig = [d] := by
      simp only [top, List.filter_append, List.filter_cons, hskipnil pre hpre, hskipnil post hpost,
        List.nil_append]
      rw [← hd]; rfl
    rw [h2, ← hd]; rfl
  have hleafIds : leafIds (.open_ none :: pre.map tokEvOf ++ d.events ++ post.map tokEvOf ++ [.close]) =
      List.range toks.length := by
    rw [List.cons_append, List.cons_append, List.cons_append, htop_ev]
    simp only [leafIds, leafIds_append, List.append_nil]
    rw [leafIds_forest, htop_leaves, hid]
  have hnodeskids : ∀ n ∈ d.nodes, ∀ k ∈ n.kids, TokAt toks k := by
    intro n hn k hk t hkt
    subst hkt
    apply hat
    rw [← hleaves]
    exact List.mem_append_left _ (List.mem_append_right _ (DTree.kid_leaf_mem d n hn t hk))
  have hzip : (d.nodes.map ProdApp.pnode).zip (actionsAsChildren d.postActs) =
      d.nodes.map (fun n => (n.pnode, (n.prod, n.action.2.map childOfItem))) := by
    simp only [actionsAsChildren, DTree.postActs, List.map_map]
    rw [List.zip_map']
    rfl
  unfold lrTreeCheck treeCheck
  simp only [hpost', List.reverse_append, List.reverse_cons, List.reverse_nil, List.nil_append,
    List.singleton_append, List.reverse_reverse, hroot, hleafIds]
  have hlen : (actionsAsChildren d.postActs).length = d.nodes.length := by
    simp [actionsAsChildren, DTree.postActs]
  simp only [bne_self_eq_false, Bool.false_eq_true, if_false, List.length_map, hlen, hzip]
  split
  · rename_i x0 p0 a0 hf
    exfalso
    have hmem := List.mem_of_find?_eq_some hf
    have hp := List.find?_some hf
    obtain ⟨n, hn, hx⟩ := List.mem_map.1 hmem
    have hok : n.ok gprods = true := by
      have := hwf
      simp only [DTree.wf, List.all_eq_true] at this
      exact this n hn
    obtain ⟨r, hr, hl, hsyms⟩ := ProdApp.ok_iff.1 hok
    have hk := hnodeskids n hn
    have h1 := childrenMatch_kids toks n.kids hk
    simp only [ProdApp.syms] at hsyms
    rw [hsyms] at h1
    have h2 := sigChildren_kids toks n.kids hk
    have h3 : (n.kids.filter DTree.sig).map DTree.child = (n.action.2).map childOfItem := by
      simp only [ProdApp.action, List.map_map]
      apply List.map_congr_left
      intro k _; exact (DTree.childOfItem_arg k).symm
    simp only [Prod.mk.injEq] at hx
    obtain ⟨hx1, hx2, hx3⟩ := hx
    subst hx1; subst hx2; subst hx3
    simp only [ProdApp.pnode, hr, Option.map_some, h1, h2, h3, hl, beq_self_eq_true, Bool.true_and,
      Bool.not_true, Bool.false_eq_true] at hp
  · rfl

-- ---------------------------------------------------------------------------------------------
-- the declarative parse `DS` is a forest of derivation trees

namespace DTree

@[simp] theorem preNodesL_eq (l : List DTree) : preNodesL l = l.flatMap preNodes := by
  induction l with
  | nil => rfl
  | cons k ks ih => simp [preNodesL, ih]

theorem preNodes_node (p lhs : Nat) (kids : List DTree) :
    (node p lhs kids).preNodes = ⟨p, lhs, kids⟩ :: kids.flatMap preNodes := by
  simp [preNodes]

@[simp] theorem preNodes_leaf (t : MTok) : (leaf t).preNodes = [] := rfl

end DTree

theorem flatMap_leaf_preNodes (pre : List MTok) : (pre.map DTree.leaf).flatMap DTree.preNodes = [] := by
  induction pre with
  | nil => rfl
  | cons t pre ih => simp only [List.map_cons, List.flatMap_cons, ih]; rfl

theorem skips_filter_sig (l : List MTok) (hl : ∀ t ∈ l, t.skip = true) :
    (l.map DTree.leaf).filter DTree.sig = [] := by
  rw [List.filter_eq_nil_iff]
  intro k hk
  obtain ⟨t, ht, rfl⟩ := List.mem_map.1 hk
  simp [DTree.sig, hl t ht]

/-- `DS` (Proofs/LLTree.lean) with one more index: the productions chosen for the non-terminal
    occurrences, in the order in which the parser PREDICTS them — a production before everything below
    it, left to right. -/
inductive DSP (T : LLTables) : List PT → List MTok → List MTok →
    List (Nat × List PTItem) → List TreeEv → List Nat → List PTItem → List Nat → Prop
  | nil {inp} : DSP T [] inp inp [] [] [] [] []
  | tok {a ss inp rest' r acts tr cm items ps} (tok : MTok) :
      afterSkips inp = tok :: rest' → tok.skip = false → tok.ty = a →
      DSP T ss rest' r acts tr cm items ps →
      DSP T (.t a :: ss) inp r acts ((leadSkips inp).map tokEv ++ tokEv tok :: tr)
        (commentIds (leadSkips inp) ++ cm) (.tok tok.id tok.ty :: items) ps
  | nt {a ss inp mid r acts1 acts2 tr1 tr2 cm1 cm2 items1 items2 ps1 ps2} (p : Nat) (pr : LLProd) :
      predict T a inp = some (.ok (Int.ofNat p)) → T.prods[p]? = some pr →
      DSP T pr.rhsRev.reverse inp mid acts1 tr1 cm1 items1 ps1 →
      DSP T ss mid r acts2 tr2 cm2 items2 ps2 →
      DSP T (.n a :: ss) inp r (acts1 ++ (p, items1) :: acts2)
        (.open_ (some pr.lhs) :: tr1 ++ .close :: tr2) (cm1 ++ cm2) (.nt pr.lhs :: items2)
        (p :: ps1 ++ ps2)

theorem DSP.toDS {T : LLTables} {syms inp r acts tr cm items ps}
    (h : DSP T syms inp r acts tr cm items ps) : DS T syms inp r acts tr cm items := by
  induction h with
  | nil => exact .nil
  | tok tok h1 h2 h3 _ ih => exact .tok tok h1 h2 h3 ih
  | nt p pr h1 h2 _ _ ih1 ih2 => exact .nt p pr h1 h2 ih1 ih2

theorem DS.toDSP {T : LLTables} {syms inp r acts tr cm items}
    (h : DS T syms inp r acts tr cm items) : ∃ ps, DSP T syms inp r acts tr cm items ps := by
  induction h with
  | nil => exact ⟨[], .nil⟩
  | tok tok h1 h2 h3 _ ih => obtain ⟨ps, ih⟩ := ih; exact ⟨ps, .tok tok h1 h2 h3 ih⟩
  | nt p pr h1 h2 _ _ ih1 ih2 =>
    obtain ⟨ps1, ih1⟩ := ih1
    obtain ⟨ps2, ih2⟩ := ih2
    exact ⟨p :: ps1 ++ ps2, .nt p pr h1 h2 ih1 ih2⟩

/-- **`DS` is a forest of derivation trees.** For a declarative parse of `syms` there is a forest `ks`
    (one tree per symbol, plus the skipped tokens as non-counting leaves in front of the token they
    precede) whose event rendering, post-order actions, action arguments, root symbols, leaves and
    pre-order production list are exactly what `DSP` records, and every tree of which is a derivation
    tree of `gOf T`. -/
theorem DSP_forest (T : LLTables) (hT : TablesSound T) {syms inp r acts tr cm items ps}
    (h : DSP T syms inp r acts tr cm items ps) :
    ∃ ks : List DTree,
      ks.flatMap DTree.events = tr ∧
      (ks.flatMap DTree.nodes).map ProdApp.action = acts ∧
      (ks.filter DTree.sig).map DTree.arg = items ∧
      (ks.filter DTree.sig).map DTree.sym = stackSyms syms ∧
      ks.flatMap DTree.leaves ++ r = inp ∧
      (∀ k ∈ ks, k.wf (gOf T).prods = true) ∧
      (ks.flatMap DTree.preNodes).map (·.prod) = ps := by
  induction h with
  | nil => exact ⟨[], rfl, rfl, rfl, rfl, rfl, (by intro k hk; cases hk), rfl⟩
  | @tok a ss inp rest' r acts tr cm items ps tok hrest hskip hty _ ih =>
    obtain ⟨ks, hev, hac, hit, hsy, hlv, hwf, hpre⟩ := ih
    have hls := leadSkips_all_skip inp
    refine ⟨(leadSkips inp).map DTree.leaf ++ DTree.leaf tok :: ks, ?_, ?_, ?_, ?_, ?_, ?_, ?_⟩
    · simp [List.flatMap_append, flatMap_leaf_events, hev, tokEv_eq_tokEvOf, tokEvOf]
    · simp [List.flatMap_append, flatMap_leaf_nodes, hac]
    · rw [List.filter_append, skips_filter_sig _ hls, List.nil_append,
        List.filter_cons_of_pos (by simp [DTree.sig, hskip])]
      simp [DTree.arg, hit]
    · rw [List.filter_append, skips_filter_sig _ hls, List.nil_append,
        List.filter_cons_of_pos (by simp [DTree.sig, hskip])]
      simp [DTree.sym, hsy, hty]
    · have h1 := lead_after inp
      rw [hrest, ← hlv] at h1
      refine Eq.trans ?_ h1
      simp [List.flatMap_append, flatMap_leaf_leaves, List.append_assoc]
    · intro k hk
      rcases List.mem_append.1 hk with hk | hk
      · obtain ⟨t, _, rfl⟩ := List.mem_map.1 hk; exact DTree.wf_leaf _ t
      · rcases List.mem_cons.1 hk with rfl | hk
        · exact DTree.wf_leaf _ tok
        · exact hwf k hk
    · simp [List.flatMap_append, flatMap_leaf_preNodes, hpre]
  | @nt a ss inp mid r acts1 acts2 tr1 tr2 cm1 cm2 items1 items2 ps1 ps2 p pr hp hpr _ _ ih1 ih2 =>
    obtain ⟨ks1, hev1, hac1, hit1, hsy1, hlv1, hwf1, hpre1⟩ := ih1
    obtain ⟨ks2, hev2, hac2, hit2, hsy2, hlv2, hwf2, hpre2⟩ := ih2
    have hlhs : pr.lhs = a := by
      unfold predict at hp
      cases hd : T.dfas[a]? with
      | none => simp [hd] at hp
      | some d =>
        simp only [hd, Option.some.injEq] at hp
        obtain ⟨hfrom, hgt⟩ := eval_ok_from d true _ _ hp
        exact hT.lhs_ok a d hd _ hfrom hgt pr (by simpa using hpr)
    refine ⟨DTree.node p pr.lhs ks1 :: ks2, ?_, ?_, ?_, ?_, ?_, ?_, ?_⟩
    · simp [DTree.events_node, hev1, hev2]
    · simp [DTree.nodes_node, hac1, hac2, ProdApp.action, hit1]
    · rw [List.filter_cons_of_pos (by rfl)]
      simp [DTree.arg, hit2]
    · rw [List.filter_cons_of_pos (by rfl)]
      simp [DTree.sym, hsy2, hlhs]
    · simp only [List.flatMap_cons, DTree.leaves_node, List.append_assoc, hlv2, hlv1]
    · intro k hk
      rcases List.mem_cons.1 hk with rfl | hk
      · rw [DTree.wf_node]
        refine ⟨hwf1, ?_⟩
        rw [ProdApp.ok_iff]
        refine ⟨ruleOf pr, by simp [gOf, List.getElem?_map, hpr], rfl, ?_⟩
        simp only [ProdApp.syms, hsy1, ruleOf]
      · exact hwf2 k hk
    · simp [DTree.preNodes_node, hpre1, hpre2]

-- ---------------------------------------------------------------------------------------------
-- pre-order = leftmost derivation


/-- One LEFTMOST derivation step with production `p`: `w A β ⇒ w rhs(p) β`, where `w` consists of
    terminals only. -/
inductive LmStep (gprods : List Rule) (p : Nat) : List Sym → List Sym → Prop
  | mk (r : Rule) (w : List Nat) (β : List Sym) : gprods[p]? = some r →
      LmStep gprods p (w.map Sym.t ++ Sym.n r.lhs :: β) (w.map Sym.t ++ r.rhs ++ β)

/-- A leftmost derivation that applies the productions `ps` in this order. -/
inductive LmDeriv (gprods : List Rule) : List Nat → List Sym → List Sym → Prop
  | nil (α : List Sym) : LmDeriv gprods [] α α
  | cons {p : Nat} {ps : List Nat} {α β γ : List Sym} :
      LmStep gprods p α β → LmDeriv gprods ps β γ → LmDeriv gprods (p :: ps) α γ

theorem LmDeriv.append {gprods : List Rule} {ps qs : List Nat} {α β γ : List Sym}
    (h1 : LmDeriv gprods ps α β) (h2 : LmDeriv gprods qs β γ) : LmDeriv gprods (ps ++ qs) α γ := by
  induction h1 with
  | nil _ => exact h2
  | cons hs _ ih => exact .cons hs (ih h2)

/-- A leftmost derivation is a derivation: every step replaces one non-terminal by the right-hand side
    of a production of it (so the derived terminal string is a `Yield`; see `lmDeriv_yield`). -/
theorem LmStep.rule {gprods : List Rule} {p : Nat} {α β : List Sym} (h : LmStep gprods p α β) :
    ∃ (r : Rule) (w : List Nat) (γ : List Sym), gprods[p]? = some r ∧
      α = w.map Sym.t ++ Sym.n r.lhs :: γ ∧ β = w.map Sym.t ++ r.rhs ++ γ := by
  cases h with
  | mk r w γ hr => exact ⟨r, w, γ, hr, rfl, rfl⟩

/-- Forest form of `dtree_leftmost_ctx`, after the terminal prefix `w` and in front of an arbitrary
    right context `β`. -/
theorem dforest_leftmost (gprods : List Rule) : ∀ (ks : List DTree),
    (∀ k ∈ ks, k.sig = true → ∀ (w : List Nat) (β : List Sym),
      LmDeriv gprods (prodSeq k.preNodes) (w.map Sym.t ++ k.sym :: β)
        ((w ++ sigTypes k.leaves).map Sym.t ++ β)) →
    ∀ (w : List Nat) (β : List Sym),
      LmDeriv gprods (prodSeq (ks.flatMap DTree.preNodes))
        (w.map Sym.t ++ (ks.filter DTree.sig).map DTree.sym ++ β)
        ((w ++ sigTypes (ks.flatMap DTree.leaves)).map Sym.t ++ β) := by
  intro ks
  induction ks with
  | nil => intro _ w β; simpa [prodSeq, sigTypes, sigToks] using LmDeriv.nil _
  | cons k ks ih =>
    intro h w β
    have ih' := ih (fun k' hk' => h k' (List.mem_cons_of_mem _ hk'))
    rw [List.flatMap_cons, List.flatMap_cons, sigTypes_append]
    have hseq : prodSeq (k.preNodes ++ ks.flatMap DTree.preNodes) =
        prodSeq k.preNodes ++ prodSeq (ks.flatMap DTree.preNodes) := by
      simp [prodSeq]
    rw [hseq]
    cases hs : k.sig with
    | true =>
      rw [List.filter_cons_of_pos hs, List.map_cons]
      -- first `k` (leftmost!), then its right siblings behind `k`'s frontier
      have h1 := h k List.mem_cons_self hs w ((ks.filter DTree.sig).map DTree.sym ++ β)
      have h2 := ih' (w ++ sigTypes k.leaves) β
      refine LmDeriv.append (β := (w ++ sigTypes k.leaves).map Sym.t ++ ((ks.filter DTree.sig).map DTree.sym ++ β)) ?_ ?_
      · simpa [List.append_assoc] using h1
      · simpa [List.append_assoc] using h2
    | false =>
      obtain ⟨t, rfl, ht⟩ := DTree.of_not_sig hs
      rw [List.filter_cons_of_neg (by simp [hs])]
      simpa [prodSeq, sigTypes, sigToks, ht] using ih' w β

/-- **Pre-order = leftmost derivation**: for a well-formed tree, applying the productions of its
    pre-order list in this order is a leftmost derivation of the frontier from the root symbol (behind
    any terminal prefix `w`, in front of any right context `β`). -/
theorem dtree_leftmost_ctx (gprods : List Rule) (d : DTree) :
    d.wf gprods = true → d.sig = true → ∀ (w : List Nat) (β : List Sym),
      LmDeriv gprods (prodSeq d.preNodes) (w.map Sym.t ++ d.sym :: β)
        ((w ++ sigTypes d.leaves).map Sym.t ++ β) := by
  induction d using DTree.induct with
  | leaf t =>
    intro _ hs w β
    have : t.skip = false := by simpa [DTree.sig] using hs
    simpa [prodSeq, DTree.sym, sigTypes, sigToks, this] using LmDeriv.nil _
  | node p lhs kids ih =>
    intro hwf _ w β
    obtain ⟨hk, hok⟩ := DTree.wf_node.1 hwf
    obtain ⟨r, hr, hl, hsyms⟩ := ProdApp.ok_iff.1 hok
    simp only [ProdApp.syms] at hsyms hl
    have hf := dforest_leftmost gprods kids (fun k hkm hs => ih k hkm (hk k hkm) hs) w β
    rw [hsyms] at hf
    have hstep : LmStep gprods p (w.map Sym.t ++ Sym.n lhs :: β) (w.map Sym.t ++ r.rhs ++ β) := by
      rw [← hl]; exact LmStep.mk r w β hr
    have hseq : prodSeq (DTree.node p lhs kids).preNodes = p :: prodSeq (kids.flatMap DTree.preNodes) := by
      simp [prodSeq, DTree.preNodes_node]
    rw [hseq, DTree.leaves_node]
    exact LmDeriv.cons hstep hf

/-- The nodes a tree's event rendering opens are its production applications in pre-order. -/
theorem treeOpens_append (a b : List TreeEv) : treeOpens (a ++ b) = treeOpens a ++ treeOpens b := by
  induction a with
  | nil => rfl
  | cons e a ih =>
    cases e with
    | open_ x => cases x <;> simp [treeOpens, ih]
    | close => simp [treeOpens, ih]
    | tok id => simp [treeOpens, ih]

theorem treeOpens_events (d : DTree) : treeOpens d.events = d.preNodes.map (·.lhs) := by
  induction d using DTree.induct with
  | leaf t => rfl
  | node p lhs kids ih =>
    rw [DTree.events_node, DTree.preNodes_node]
    simp only [List.cons_append, treeOpens, treeOpens_append, List.append_nil, List.map_cons,
      List.cons.injEq, true_and]
    induction kids with
    | nil => rfl
    | cons k ks ihk =>
      simp only [List.flatMap_cons, treeOpens_append, List.map_append]
      rw [ih k List.mem_cons_self, ihk (fun k' hk' => ih k' (List.mem_cons_of_mem _ hk'))]

/-- Pre-order and post-order list the same production applications (permutation). -/
theorem preNodes_perm_nodesApp (d : DTree) : d.preNodes.Perm d.nodes := by
  induction d using DTree.induct with
  | leaf t => exact .refl _
  | node p lhs kids ih =>
    rw [DTree.preNodes_node, DTree.nodes_node]
    refine List.Perm.trans (List.Perm.cons _ ?_) (List.perm_append_singleton _ _).symm
    induction kids with
    | nil => exact .refl _
    | cons k ks ihk =>
      simp only [List.flatMap_cons]
      exact List.Perm.append (ih k List.mem_cons_self) (ihk (fun k' hk' => ih k' (List.mem_cons_of_mem _ hk')))

theorem preNodes_perm_nodes (d : DTree) : (d.preNodes.map (·.prod)).Perm (d.nodes.map (·.prod)) :=
  (preNodes_perm_nodesApp d).map _

end ParolModel
