import ParolModel.Proofs.LaUnite
/-! Proofs (C07), part 4: from tuple sets to the compiled, minimised automaton. -/
namespace ParolModel

/-- Pairwise disjoint (a tuple occurs only under one production number), prefix-free, non-empty. -/
structure SetsOk (sets : List (Nat × List Tuple)) : Prop where
  nonempty : ∀ q ∈ sets, q.2 ≠ []
  disjoint : ∀ q ∈ sets, ∀ q' ∈ sets, ∀ t, t ∈ q.2 → t ∈ q'.2 → q.1 = q'.1
  prefixFree : ∀ q ∈ sets, ∀ q' ∈ sets, ∀ t u, t ∈ q.2 → t ++ u ∈ q'.2 → u = []

theorem SetsOk.subset {sets sets' : List (Nat × List Tuple)} (h : SetsOk sets) (hs : ∀ q ∈ sets', q ∈ sets) :
    SetsOk sets' :=
  ⟨fun q hq => h.nonempty q (hs q hq),
   fun q hq q' hq' => h.disjoint q (hs q hq) q' (hs q' hq'),
   fun q hq q' hq' => h.prefixFree q (hs q hq) q' (hs q' hq')⟩

/-- The annotation function of a family of tuple sets. -/
def Mof (sets : List (Nat × List Tuple)) (w : List Nat) : Int :=
  match setsLookup sets w with
  | some p => p
  | none => -1

theorem setsLookup_some {sets : List (Nat × List Tuple)} {w : List Nat} {p : Int} (h : setsLookup sets w = some p) :
    ∃ q ∈ sets, w ∈ q.2 ∧ p = (q.1 : Int) := by
  induction sets with
  | nil => simp [setsLookup] at h
  | cons q rest ih =>
    obtain ⟨p', ts⟩ := q
    simp only [setsLookup] at h
    split at h
    · rename_i hc
      injection h with h
      exact ⟨(p', ts), List.mem_cons_self, by simpa using hc, h.symm⟩
    · obtain ⟨q, hq, hw, hp⟩ := ih h
      exact ⟨q, List.mem_cons_of_mem _ hq, hw, hp⟩

theorem setsLookup_none {sets : List (Nat × List Tuple)} {w : List Nat} (h : setsLookup sets w = none) :
    ∀ q ∈ sets, w ∉ q.2 := by
  induction sets with
  | nil => intro q hq; cases hq
  | cons q rest ih =>
    obtain ⟨p', ts⟩ := q
    simp only [setsLookup] at h
    split at h
    · cases h
    · rename_i hc
      intro q hq
      rcases List.mem_cons.1 hq with rfl | hq
      · simpa using hc
      · exact ih h q hq

theorem Mof_mem {sets : List (Nat × List Tuple)} (ok : SetsOk sets) {w : List Nat} {q : Nat × List Tuple}
    (hq : q ∈ sets) (hw : w ∈ q.2) : Mof sets w = (q.1 : Int) := by
  unfold Mof
  cases h : setsLookup sets w with
  | none => exact absurd hw (setsLookup_none h q hq)
  | some p =>
    obtain ⟨q', hq', hw', hp⟩ := setsLookup_some h
    simp only [hp]
    rw [ok.disjoint q' hq' q hq w hw' hw]

theorem Mof_not_mem {sets : List (Nat × List Tuple)} {w : List Nat} (h : ∀ q ∈ sets, w ∉ q.2) : Mof sets w = -1 := by
  unfold Mof
  cases hl : setsLookup sets w with
  | none => rfl
  | some p =>
    obtain ⟨q, hq, hw, _⟩ := setsLookup_some hl
    exact absurd hw (h q hq)

theorem Mof_ne {sets : List (Nat × List Tuple)} {w : List Nat} (h : Mof sets w ≠ -1) : ∃ q ∈ sets, w ∈ q.2 := by
  apply Classical.byContradiction
  intro hn
  apply h
  apply Mof_not_mem
  intro q hq hw
  exact hn ⟨q, hq, hw⟩

theorem Mof_ge (sets : List (Nat × List Tuple)) (w : List Nat) : -1 ≤ Mof sets w := by
  unfold Mof
  cases h : setsLookup sets w with
  | none => simp
  | some p =>
    obtain ⟨q, _, _, hp⟩ := setsLookup_some h
    simp only [hp]; omega

theorem accOf_Mof (sets : List (Nat × List Tuple)) (w : List Nat) : accOf (Mof sets w) = setsLookup sets w := by
  unfold Mof accOf
  cases h : setsLookup sets w with
  | none => simp
  | some p =>
    obtain ⟨q, _, _, hp⟩ := setsLookup_some h
    have : p > -1 := by rw [hp]; omega
    simp [this]

theorem Mof_prefixFree {sets : List (Nat × List Tuple)} (ok : SetsOk sets) (w u : List Nat)
    (h1 : Mof sets w ≠ -1) (h2 : Mof sets (w ++ u) ≠ -1) : u = [] := by
  obtain ⟨q, hq, hw⟩ := Mof_ne h1
  obtain ⟨q', hq', hw'⟩ := Mof_ne h2
  exact ok.prefixFree q hq q' hq' w u hw hw'

/-- What the uniting loop of `calculate_lookahead_dfas` has built after the productions `P`. -/
structure Built (P : List (Nat × List Tuple)) (d : LDfa) : Prop where
  ex : ∃ l, TrieInv d l (Mof P) ∧ ∀ s, s < d.prods.length → ∃ u, Mof P (l s ++ u) ≠ -1
  es : ES d.trans

theorem built_single (k : Nat) {p : Nat} {S : List Tuple} (hS : S ≠ []) : Built [(p, S)] (fromKTuples k S p) := by
  obtain ⟨l, h, _, hlive⟩ := fromKTuples_inv k S p hS
  have hM : Mof [(p, S)] = fun w => if w ∈ S then (p : Int) else -1 := by
    funext w
    unfold Mof
    simp only [setsLookup]
    by_cases hw : w ∈ S <;> simp [hw]
  refine ⟨⟨l, hM ▸ h, ?_⟩, ES.fromKTuples k S p⟩
  intro s hs
  obtain ⟨u, hu⟩ := hlive s hs
  refine ⟨u, ?_⟩
  rw [hM]
  simp only [hu, if_true]
  omega

theorem built_step (k : Nat) {P : List (Nat × List Tuple)} {p : Nat} {S : List Tuple} {d d' : LDfa}
    (ok : SetsOk (P ++ [(p, S)])) (hP : P ≠ []) (hb : Built P d)
    (h : unite true d (fromKTuples k S p) = .ok d') : Built (P ++ [(p, S)]) d' := by
  have hS : S ≠ [] := ok.nonempty (p, S) (by simp)
  have okP : SetsOk P := ok.subset (fun q hq => List.mem_append_left _ hq)
  obtain ⟨l1, h1, hlive1⟩ := hb.ex
  obtain ⟨l2, h2, _, hlive2⟩ := fromKTuples_inv k S p hS
  obtain ⟨l, M, htrie, hes, hin, hout, hold, hnew, _⟩ := unite_inv h1 hb.es h2 h
  have hpS : (p, S) ∈ P ++ [(p, S)] := by simp
  have hMeq : ∀ w, Mof (P ++ [(p, S)]) w = M w := by
    intro w
    by_cases hlab : ∃ s2, s2 < (fromKTuples k S p).prods.length ∧ s2 ≠ 0 ∧ l2 s2 = w
    · obtain ⟨s2, hs2, h0, rfl⟩ := hlab
      rw [hin s2 hs2 h0]
      by_cases hw : l2 s2 ∈ S
      · simp only [hw, if_true]
        exact Mof_mem ok hpS hw
      · simp only [hw, if_false]
        apply Mof_not_mem
        intro q hq hwq
        obtain ⟨u, hu⟩ := hlive2 s2 hs2
        have := ok.prefixFree q hq (p, S) hpS (l2 s2) u hwq hu
        subst this
        simp only [List.append_nil] at hu
        exact hw hu
    · have hno : ∀ s2, s2 < (fromKTuples k S p).prods.length → s2 ≠ 0 → l2 s2 ≠ w := by
        intro s2 hs2 h0 he
        exact hlab ⟨s2, hs2, h0, he⟩
      rw [hout w hno]
      by_cases hex : ∃ q ∈ P, w ∈ q.2
      · obtain ⟨q, hq, hw⟩ := hex
        rw [Mof_mem ok (List.mem_append_left _ hq) hw, Mof_mem okP hq hw]
      · have hnP : ∀ q ∈ P, w ∉ q.2 := fun q hq hw => hex ⟨q, hq, hw⟩
        rw [Mof_not_mem hnP]
        by_cases hw : w ∈ S
        · -- then `w` is the word of state 0 of the trie of `S`, i.e. `[]`, and `P` contains it too
          have hsupp := h2.supp w (by simp only [hw, if_true]; omega)
          obtain ⟨s2, hs2, hl⟩ := hsupp
          have hs20 : s2 = 0 := by
            apply Classical.byContradiction
            intro hne
            exact hno s2 hs2 hne hl
          subst hs20
          rw [h2.label0] at hl
          subst hl
          obtain ⟨q, hq⟩ := List.exists_mem_of_ne_nil P hP
          obtain ⟨t, ht⟩ := List.exists_mem_of_ne_nil q.2 (okP.nonempty q hq)
          have := ok.prefixFree (p, S) hpS q (List.mem_append_left _ hq) [] t hw (by simpa using ht)
          subst this
          exact absurd ht (hnP q hq)
        · apply Mof_not_mem
          intro q hq hwq
          rcases List.mem_append.1 hq with hq | hq
          · exact hnP q hq hwq
          · simp only [List.mem_singleton] at hq
            subst hq
            exact hw hwq
  refine ⟨⟨l, htrie.congr_M hMeq, ?_⟩, hes⟩
  intro r hr
  rcases hnew r hr with hlt | ⟨s2, hs2, _, hl⟩
  · obtain ⟨u, hu⟩ := hlive1 r hlt
    obtain ⟨q, hq, hw⟩ := Mof_ne hu
    refine ⟨u, ?_⟩
    rw [hold r hlt, Mof_mem ok (List.mem_append_left _ hq) hw]
    omega
  · obtain ⟨u, hu⟩ := hlive2 s2 hs2
    refine ⟨u, ?_⟩
    rw [hl, Mof_mem ok hpS hu]
    simp only; omega

theorem built_fold (k : Nat) : ∀ (rest P : List (Nat × List Tuple)) {acc d : LDfa},
    SetsOk (P ++ rest) → P ≠ [] → Built P acc →
    rest.foldlM (fun acc (q : Nat × List Tuple) => unite true acc (fromKTuples k q.2 q.1)) acc = .ok d →
    Built (P ++ rest) d := by
  intro rest
  induction rest with
  | nil =>
    intro P acc d _ _ hb h
    simp only [List.foldlM_nil] at h
    injection h with h
    subst h
    simpa using hb
  | cons q rest ih =>
    intro P acc d ok hP hb h
    rw [foldlM_except_cons] at h
    cases h1 : unite true acc (fromKTuples k q.2 q.1) with
    | error err => rw [h1] at h; cases h
    | ok a1 =>
      rw [h1] at h
      have hr : rest.foldlM (fun acc (q : Nat × List Tuple) => unite true acc (fromKTuples k q.2 q.1)) a1 = .ok d := h
      have ok1 : SetsOk (P ++ [q]) := ok.subset (by
        intro x hx
        rcases List.mem_append.1 hx with hx | hx
        · exact List.mem_append_left _ hx
        · simp only [List.mem_singleton] at hx
          subst hx
          exact List.mem_append_right _ List.mem_cons_self)
      have hb1 := built_step k (p := q.1) (S := q.2) ok1 hP hb h1
      have := ih (P ++ [q]) (by simpa using ok) (by simp) hb1 hr
      simpa using this

theorem built_all {k : Nat} {sets : List (Nat × List Tuple)} {d : LDfa} (ok : SetsOk sets)
    (h : uniteAll true k sets = some (.ok d)) : Built sets d := by
  cases sets with
  | nil => simp [uniteAll] at h
  | cons q rest =>
    obtain ⟨p, ts⟩ := q
    simp only [uniteAll, Option.some.injEq] at h
    have hb := built_single k (p := p) (ok.nonempty (p, ts) List.mem_cons_self)
    exact built_fold k rest [(p, ts)] (by simpa using ok) (by simp) hb h

theorem Built.compiledOk {sets : List (Nat × List Tuple)} {d : LDfa} (ok : SetsOk sets) (hb : Built sets d) :
    CompiledOk (compileRaw d) := by
  obtain ⟨l, htrie, hlive⟩ := hb.ex
  exact compiledOk_of_trie htrie hb.es hlive (Mof_prefixFree ok)

theorem Built.runRef {sets : List (Nat × List Tuple)} {d : LDfa} (hb : Built sets d) (w : List Nat) :
    runRef (compileRaw d) 0 (compileRaw d).prod0 w = setsLookup sets w := by
  obtain ⟨l, htrie, _⟩ := hb.ex
  rw [htrie.runRef_eq (Mof_ge sets) w, accOf_Mof]

/-- `setsOk` (the executable test used by the oracle handlers) implies `SetsOk`. -/
theorem isPrefixOf'_append : ∀ (t u : List Nat), isPrefixOf' t (t ++ u) = true := by
  intro t
  induction t with
  | nil => intro u; cases u <;> rfl
  | cons a as ih => intro u; simp [isPrefixOf', ih]

theorem setsOk_sound {sets : List (Nat × List Tuple)} (h : setsOk sets = true) : SetsOk sets := by
  unfold setsOk at h
  simp only [Bool.and_eq_true, List.all_eq_true] at h
  obtain ⟨hne, hall⟩ := h
  have hmem : ∀ q ∈ sets, ∀ t ∈ q.2, (q.1, t) ∈ sets.flatMap (fun s => s.2.map (fun t => (s.1, t))) := by
    intro q hq t ht
    exact List.mem_flatMap.2 ⟨q, hq, List.mem_map.2 ⟨t, ht, rfl⟩⟩
  refine ⟨?_, ?_, ?_⟩
  · intro q hq he
    have := hne q hq
    simp [he] at this
  · intro q hq q' hq' t ht ht'
    have := (hall (q.1, t) (hmem q hq t ht) (q'.1, t) (hmem q' hq' t ht')).1
    simpa using this
  · intro q hq q' hq' t u ht hu
    have := (hall (q.1, t) (hmem q hq t ht) (q'.1, t ++ u) (hmem q' hq' _ hu)).2
    simp only [isPrefixOf'_append, Bool.not_true, Bool.or_false, beq_iff_eq] at this
    have hlen := congrArg List.length this
    simp only [List.length_append] at hlen
    exact List.eq_nil_of_length_eq_zero (by omega)

end ParolModel
