import ParolModel.Proofs.KFirstCode
/-! The faithful `follow_k` model against the declarative FOLLOW_k: the Gauss–Seidel sweep, the stop
criterion "position map repeats", the first comparison against the k − 1 map. -/
namespace ParolModel.KS

/-! ## equations -/

theorem mem_eqsOfRhs {pi lhs : Nat} {ss : List Sym} {e : FEq} :
    ∀ {i : Nat}, e ∈ eqsOfRhs pi lhs i ss →
      e.source = lhs ∧ ∃ α, ss = α ++ Sym.n e.target :: e.rest := by
  induction ss with
  | nil => intro i h; simp [eqsOfRhs] at h
  | cons s ss ih =>
    intro i h
    cases s with
    | t a =>
      simp only [eqsOfRhs] at h
      obtain ⟨h1, α, h2⟩ := ih h
      exact ⟨h1, .t a :: α, by simp [h2]⟩
    | n B =>
      simp only [eqsOfRhs, List.mem_cons] at h
      rcases h with rfl | h
      · exact ⟨rfl, [], rfl⟩
      · obtain ⟨h1, α, h2⟩ := ih h
        exact ⟨h1, .n B :: α, by simp [h2]⟩

theorem eqsOfRhs_complete {pi lhs : Nat} {α β : List Sym} {B : Nat} :
    ∀ {i : Nat}, ∃ e ∈ eqsOfRhs pi lhs i (α ++ Sym.n B :: β),
      e.target = B ∧ e.source = lhs ∧ e.rest = β := by
  induction α with
  | nil => intro i; exact ⟨⟨pi, i+1, B, lhs, β⟩, by simp [eqsOfRhs], rfl, rfl, rfl⟩
  | cons s α ih =>
    intro i
    obtain ⟨e, he, h⟩ := ih (i := i+1)
    cases s with
    | t a => exact ⟨e, by simpa [eqsOfRhs] using he, h⟩
    | n C => exact ⟨e, by simp only [List.cons_append, eqsOfRhs, List.mem_cons]; exact Or.inr he, h⟩

theorem mem_eqsFrom {ps : List Rule} {e : FEq} :
    ∀ {pi : Nat}, e ∈ eqsFrom pi ps →
      ∃ p ∈ ps, e.source = p.lhs ∧ ∃ α, p.rhs = α ++ Sym.n e.target :: e.rest := by
  induction ps with
  | nil => intro pi h; simp [eqsFrom] at h
  | cons p ps ih =>
    intro pi h
    simp only [eqsFrom, List.mem_append] at h
    rcases h with h | h
    · obtain ⟨h1, h2⟩ := mem_eqsOfRhs h
      exact ⟨p, List.mem_cons_self, h1, h2⟩
    · obtain ⟨q, hq, h'⟩ := ih h
      exact ⟨q, List.mem_cons_of_mem _ hq, h'⟩

theorem eqsFrom_complete {ps : List Rule} {p : Rule} (hp : p ∈ ps) {α β : List Sym} {B : Nat}
    (hr : p.rhs = α ++ Sym.n B :: β) :
    ∀ {pi : Nat}, ∃ e ∈ eqsFrom pi ps, e.target = B ∧ e.source = p.lhs ∧ e.rest = β := by
  induction ps with
  | nil => cases hp
  | cons q ps ih =>
    intro pi
    simp only [eqsFrom, List.mem_append]
    rcases List.mem_cons.1 hp with rfl | hp'
    · obtain ⟨e, he, h⟩ := eqsOfRhs_complete (pi := pi) (lhs := p.lhs) (α := α) (β := β) (B := B) (i := 0)
      exact ⟨e, Or.inl (hr ▸ he), h⟩
    · obtain ⟨e, he, h⟩ := ih hp' (pi := pi+1)
      exact ⟨e, Or.inr he, h⟩

theorem mem_followEqs {G : Grammar} {e : FEq} (h : e ∈ followEqs G) :
    ∃ p ∈ G.prods, e.source = p.lhs ∧ ∃ α, p.rhs = α ++ Sym.n e.target :: e.rest :=
  mem_eqsFrom h

theorem followEqs_complete {G : Grammar} {p : Rule} (hp : p ∈ G.prods) {α β : List Sym} {B : Nat}
    (hr : p.rhs = α ++ Sym.n B :: β) :
    ∃ e ∈ followEqs G, e.target = B ∧ e.source = p.lhs ∧ e.rest = β :=
  eqsFrom_complete hp hr

theorem target_mem_ntsOf {G : Grammar} {e : FEq} (h : e ∈ followEqs G) : e.target ∈ ntsOf G := by
  obtain ⟨p, hp, _, α, hr⟩ := mem_followEqs h
  exact rhs_mem_ntsOf hp (by rw [hr]; simp)

/-! ## accumulators -/

theorem keys_envUnionAt (E : Env) (B : Nat) (r : TSet) :
    (envUnionAt E B r).map (·.1) = E.map (·.1) := by
  induction E with
  | nil => rfl
  | cons x xs ih =>
    obtain ⟨C, s⟩ := x
    simp only [envUnionAt]
    split
    · simp
    · simp [ih]

theorem mem_envGet_envUnionAt {E : Env} {A B : Nat} {r : TSet} {t : Tup} :
    t ∈ envGet (envUnionAt E B r) A ↔
      t ∈ envGet E A ∨ (A = B ∧ B ∈ E.map (·.1) ∧ t ∈ r) := by
  induction E with
  | nil => simp [envUnionAt, envGet]
  | cons x xs ih =>
    obtain ⟨C, s⟩ := x
    simp only [envUnionAt]
    by_cases hCB : C = B
    · subst hCB
      simp only [↓reduceIte, envGet, List.map_cons, List.mem_cons, true_or, true_and]
      by_cases hCA : C = A
      · subst hCA
        simp only [↓reduceIte, mem_union, true_and]
      · simp only [hCA, ↓reduceIte]
        constructor
        · intro h; exact Or.inl h
        · rintro (h | ⟨h1, _⟩)
          · exact h
          · exact absurd h1.symm hCA
    · simp only [hCB, ↓reduceIte, envGet, List.map_cons, List.mem_cons]
      by_cases hCA : C = A
      · subst hCA
        simp only [↓reduceIte]
        constructor
        · intro h; exact Or.inl h
        · rintro (h | ⟨h1, _⟩)
          · exact h
          · exact absurd h1 hCB
      · simp only [hCA, ↓reduceIte, ih]
        constructor
        · rintro (h | ⟨h1, h2, h3⟩)
          · exact Or.inl h
          · exact Or.inr ⟨h1, Or.inr h2, h3⟩
        · rintro (h | ⟨h1, h2 | h2, h3⟩)
          · exact Or.inl h
          · exact absurd h2.symm hCB
          · exact Or.inr ⟨h1, h2, h3⟩

/-- pointwise extensional equality of accumulators -/
def EnvEq (E E' : Env) : Prop := ∀ A, SetEq (envGet E A) (envGet E' A)

/-- the function evaluated for one equation -/
def eqVal (k : Nat) (fn : Nat → TSet) (acc : Env) (e : FEq) : TSet :=
  kcatSetQ k (evalParts k fn (compileParts e.rest)) (envGet acc e.source)

theorem eqVal_congr {k : Nat} {fn : Nat → TSet} {acc acc' : Env} (h : EnvEq acc acc') (e : FEq) :
    SetEq (eqVal k fn acc e) (eqVal k fn acc' e) :=
  kcatSetQ_congr (SetEq.refl _) (h e.source)

theorem followStep_cons (k : Nat) (fn : Nat → TSet) (e : FEq) (es : List FEq) (acc : Env) :
    followStep k fn (e :: es) acc =
      (eqVal k fn acc e :: (followStep k fn es (envUnionAt acc e.target (eqVal k fn acc e))).1,
       (followStep k fn es (envUnionAt acc e.target (eqVal k fn acc e))).2) := rfl

theorem keys_followStep (k : Nat) (fn : Nat → TSet) (es : List FEq) :
    ∀ acc, (followStep k fn es acc).2.map (·.1) = acc.map (·.1) := by
  induction es with
  | nil => intro acc; rfl
  | cons e es ih => intro acc; rw [followStep_cons]; simp only; rw [ih, keys_envUnionAt]

/-- (S1) accumulators only grow during a sweep -/
theorem followStep_mono (k : Nat) (fn : Nat → TSet) (es : List FEq) :
    ∀ acc A t, t ∈ envGet acc A → t ∈ envGet (followStep k fn es acc).2 A := by
  induction es with
  | nil => intro acc A t h; exact h
  | cons e es ih =>
    intro acc A t h
    rw [followStep_cons]
    exact ih _ A t (mem_envGet_envUnionAt.2 (Or.inl h))

/-- (S2) every position result is contained in the accumulator of its target after the sweep -/
theorem followStep_covered (k : Nat) (fn : Nat → TSet) (es : List FEq) :
    ∀ acc, (∀ e ∈ es, e.target ∈ acc.map (·.1)) →
      ∀ p ∈ es.zip (followStep k fn es acc).1, ∀ t ∈ p.2, t ∈ envGet (followStep k fn es acc).2 p.1.target := by
  induction es with
  | nil => intro acc _ p hp; simp [followStep] at hp
  | cons e es ih =>
    intro acc hk p hp t ht
    rw [followStep_cons] at hp ⊢
    simp only [List.zip_cons_cons, List.mem_cons] at hp
    rcases hp with rfl | hp
    · apply followStep_mono
      exact mem_envGet_envUnionAt.2 (Or.inr ⟨rfl, hk e List.mem_cons_self, ht⟩)
    · exact ih _ (fun e' he' => by rw [keys_envUnionAt]; exact hk e' (List.mem_cons_of_mem _ he')) p hp t ht

/-- (S4) nothing but the position results enters the accumulators -/
theorem followStep_acc_sub (k : Nat) (fn : Nat → TSet) (es : List FEq) :
    ∀ acc A t, t ∈ envGet (followStep k fn es acc).2 A →
      t ∈ envGet acc A ∨ ∃ p ∈ es.zip (followStep k fn es acc).1, p.1.target = A ∧ t ∈ p.2 := by
  induction es with
  | nil => intro acc A t h; exact Or.inl h
  | cons e es ih =>
    intro acc A t h
    rw [followStep_cons] at h ⊢
    simp only at h
    rcases ih _ A t h with h' | ⟨p, hp, h1, h2⟩
    · rcases mem_envGet_envUnionAt.1 h' with h'' | ⟨h1, _, h3⟩
      · exact Or.inl h''
      · exact Or.inr ⟨(e, eqVal k fn acc e), by simp, h1.symm, h3⟩
    · exact Or.inr ⟨p, by simp only [List.zip_cons_cons, List.mem_cons]; exact Or.inr hp, h1, h2⟩

/-- (S3) if every position result of a sweep was already contained in (an accumulator equal to)
    the starting accumulator, the sweep changed nothing and its results are the values at it -/
theorem followStep_stable (k : Nat) (fn : Nat → TSet) (es : List FEq) :
    ∀ acc acc0, EnvEq acc acc0 →
      (∀ p ∈ es.zip (followStep k fn es acc).1, ∀ t ∈ p.2, t ∈ envGet acc0 p.1.target) →
      EnvEq (followStep k fn es acc).2 acc0 ∧
      ∀ p ∈ es.zip (followStep k fn es acc).1, SetEq p.2 (eqVal k fn acc0 p.1) := by
  induction es with
  | nil => intro acc acc0 h _; exact ⟨h, fun p hp => by simp [followStep] at hp⟩
  | cons e es ih =>
    intro acc acc0 heq hsub
    rw [followStep_cons] at hsub ⊢
    simp only [List.zip_cons_cons, List.mem_cons] at hsub
    have hr : ∀ t ∈ eqVal k fn acc e, t ∈ envGet acc0 e.target := fun t ht =>
      hsub (e, eqVal k fn acc e) (Or.inl rfl) t ht
    have heq1 : EnvEq (envUnionAt acc e.target (eqVal k fn acc e)) acc0 := by
      intro A t
      rw [mem_envGet_envUnionAt]
      constructor
      · rintro (h | ⟨h1, _, h3⟩)
        · exact (heq A t).1 h
        · subst h1; exact hr t h3
      · intro h; exact Or.inl ((heq A t).2 h)
    obtain ⟨h1, h2⟩ := ih _ acc0 heq1 (fun p hp => hsub p (Or.inr hp))
    refine ⟨h1, ?_⟩
    intro p hp
    simp only [List.zip_cons_cons, List.mem_cons] at hp
    rcases hp with rfl | hp
    · exact eqVal_congr heq e
    · exact h2 p hp

theorem allSetEq_zip_transfer {L M : List TSet} (h : AllSetEq L M) :
    ∀ (es : List FEq) p, p ∈ es.zip L → ∃ S', (p.1, S') ∈ es.zip M ∧ SetEq p.2 S' := by
  induction h with
  | nil => intro es p hp; simp at hp
  | @cons x y xs ys h1 _ ih =>
    intro es p hp
    cases es with
    | nil => simp at hp
    | cons e es =>
      simp only [List.zip_cons_cons, List.mem_cons] at hp
      rcases hp with rfl | hp
      · exact ⟨y, by simp, h1⟩
      · obtain ⟨S', hS', hs⟩ := ih es p hp
        exact ⟨S', by simp only [List.zip_cons_cons, List.mem_cons]; exact Or.inr hS', hs⟩

theorem AllSetEq.symm {L M : List TSet} (h : AllSetEq L M) : AllSetEq M L := by
  induction h with
  | nil => exact .nil
  | cons h1 _ ih => exact .cons h1.symm ih

end ParolModel.KS
