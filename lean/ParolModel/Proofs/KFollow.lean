import ParolModel.Proofs.KFirstCode
/-! The faithful `follow_k` model against the declarative FOLLOW_k: the Gauss–Seidel sweep, the stop
criterion "position map repeats", the first comparison against the k − 1 map. -/
namespace ParolModel.KS

/-! ## equations -/

theorem mem_eqsOfRhs {pi lhs : Nat} {ss : List Sym} {e : FEq} :
    ∀ {i : Nat}, e ∈ eqsOfRhs pi lhs i ss →
      e.source = lhs ∧ ∃ α, ss = α ++ Sym.n e.target :: e.rest := by
  induction ss with
  | nil => intro i h; simp [eqsOfRhs] at h
  | cons s ss ih =>
    intro i h
    cases s with
    | t a =>
      simp only [eqsOfRhs] at h
      obtain ⟨h1, α, h2⟩ := ih h
      exact ⟨h1, .t a :: α, by simp [h2]⟩
    | n B =>
      simp only [eqsOfRhs, List.mem_cons] at h
      rcases h with rfl | h
      · exact ⟨rfl, [], rfl⟩
      · obtain ⟨h1, α, h2⟩ := ih h
        exact ⟨h1, .n B :: α, by simp [h2]⟩

theorem eqsOfRhs_complete {pi lhs : Nat} {α β : List Sym} {B : Nat} :
    ∀ {i : Nat}, ∃ e ∈ eqsOfRhs pi lhs i (α ++ Sym.n B :: β),
      e.target = B ∧ e.source = lhs ∧ e.rest = β := by
  induction α with
  | nil => intro i; exact ⟨⟨pi, i+1, B, lhs, β⟩, by simp [eqsOfRhs], rfl, rfl, rfl⟩
  | cons s α ih =>
    intro i
    obtain ⟨e, he, h⟩ := ih (i := i+1)
    cases s with
    | t a => exact ⟨e, by simpa [eqsOfRhs] using he, h⟩
    | n C => exact ⟨e, by simp only [List.cons_append, eqsOfRhs, List.mem_cons]; exact Or.inr he, h⟩

theorem mem_eqsFrom {ps : List Rule} {e : FEq} :
    ∀ {pi : Nat}, e ∈ eqsFrom pi ps →
      ∃ p ∈ ps, e.source = p.lhs ∧ ∃ α, p.rhs = α ++ Sym.n e.target :: e.rest := by
  induction ps with
  | nil => intro pi h; simp [eqsFrom] at h
  | cons p ps ih =>
    intro pi h
    simp only [eqsFrom, List.mem_append] at h
    rcases h with h | h
    · obtain ⟨h1, h2⟩ := mem_eqsOfRhs h
      exact ⟨p, List.mem_cons_self, h1, h2⟩
    · obtain ⟨q, hq, h'⟩ := ih h
      exact ⟨q, List.mem_cons_of_mem _ hq, h'⟩

theorem eqsFrom_complete {ps : List Rule} {p : Rule} (hp : p ∈ ps) {α β : List Sym} {B : Nat}
    (hr : p.rhs = α ++ Sym.n B :: β) :
    ∀ {pi : Nat}, ∃ e ∈ eqsFrom pi ps, e.target = B ∧ e.source = p.lhs ∧ e.rest = β := by
  induction ps with
  | nil => cases hp
  | cons q ps ih =>
    intro pi
    simp only [eqsFrom, List.mem_append]
    rcases List.mem_cons.1 hp with rfl | hp'
    · obtain ⟨e, he, h⟩ := eqsOfRhs_complete (pi := pi) (lhs := p.lhs) (α := α) (β := β) (B := B) (i := 0)
      exact ⟨e, Or.inl (hr ▸ he), h⟩
    · obtain ⟨e, he, h⟩ := ih hp' (pi := pi+1)
      exact ⟨e, Or.inr he, h⟩

theorem mem_followEqs {G : Grammar} {e : FEq} (h : e ∈ followEqs G) :
    ∃ p ∈ G.prods, e.source = p.lhs ∧ ∃ α, p.rhs = α ++ Sym.n e.target :: e.rest :=
  mem_eqsFrom h

theorem followEqs_complete {G : Grammar} {p : Rule} (hp : p ∈ G.prods) {α β : List Sym} {B : Nat}
    (hr : p.rhs = α ++ Sym.n B :: β) :
    ∃ e ∈ followEqs G, e.target = B ∧ e.source = p.lhs ∧ e.rest = β :=
  eqsFrom_complete hp hr

theorem target_mem_ntsOf {G : Grammar} {e : FEq} (h : e ∈ followEqs G) : e.target ∈ ntsOf G := by
  obtain ⟨p, hp, _, α, hr⟩ := mem_followEqs h
  exact rhs_mem_ntsOf hp (by rw [hr]; simp)

/-! ## accumulators -/

theorem keys_envUnionAt (E : Env) (B : Nat) (r : TSet) :
    (envUnionAt E B r).map (·.1) = E.map (·.1) := by
  induction E with
  | nil => rfl
  | cons x xs ih =>
    obtain ⟨C, s⟩ := x
    simp only [envUnionAt]
    split
    · simp
    · simp [ih]

theorem mem_envGet_envUnionAt {E : Env} {A B : Nat} {r : TSet} {t : Tup} :
    t ∈ envGet (envUnionAt E B r) A ↔
      t ∈ envGet E A ∨ (A = B ∧ B ∈ E.map (·.1) ∧ t ∈ r) := by
  induction E with
  | nil => simp [envUnionAt, envGet]
  | cons x xs ih =>
    obtain ⟨C, s⟩ := x
    simp only [envUnionAt]
    by_cases hCB : C = B
    · subst hCB
      simp only [↓reduceIte, envGet, List.map_cons, List.mem_cons, true_or, true_and]
      by_cases hCA : C = A
      · subst hCA
        simp only [↓reduceIte, mem_union, true_and]
      · simp only [hCA, ↓reduceIte]
        constructor
        · intro h; exact Or.inl h
        · rintro (h | ⟨h1, _⟩)
          · exact h
          · exact absurd h1.symm hCA
    · simp only [hCB, ↓reduceIte, envGet, List.map_cons, List.mem_cons]
      by_cases hCA : C = A
      · subst hCA
        simp only [↓reduceIte]
        constructor
        · intro h; exact Or.inl h
        · rintro (h | ⟨h1, _⟩)
          · exact h
          · exact absurd h1 hCB
      · simp only [hCA, ↓reduceIte, ih]
        constructor
        · rintro (h | ⟨h1, h2, h3⟩)
          · exact Or.inl h
          · exact Or.inr ⟨h1, Or.inr h2, h3⟩
        · rintro (h | ⟨h1, h2 | h2, h3⟩)
          · exact Or.inl h
          · exact absurd h2.symm hCB
          · exact Or.inr ⟨h1, h2, h3⟩

/-- pointwise extensional equality of accumulators -/
def EnvEq (E E' : Env) : Prop := ∀ A, SetEq (envGet E A) (envGet E' A)

/-- the function evaluated for one equation -/
def eqVal (k : Nat) (fn : Nat → TSet) (acc : Env) (e : FEq) : TSet :=
  kcatSetQ k (evalParts k fn (compileParts e.rest)) (envGet acc e.source)

theorem eqVal_congr {k : Nat} {fn : Nat → TSet} {acc acc' : Env} (h : EnvEq acc acc') (e : FEq) :
    SetEq (eqVal k fn acc e) (eqVal k fn acc' e) :=
  kcatSetQ_congr (SetEq.refl _) (h e.source)

theorem followStep_cons (k : Nat) (fn : Nat → TSet) (e : FEq) (es : List FEq) (acc : Env) :
    followStep k fn (e :: es) acc =
      (eqVal k fn acc e :: (followStep k fn es (envUnionAt acc e.target (eqVal k fn acc e))).1,
       (followStep k fn es (envUnionAt acc e.target (eqVal k fn acc e))).2) := rfl

theorem keys_followStep (k : Nat) (fn : Nat → TSet) (es : List FEq) :
    ∀ acc, (followStep k fn es acc).2.map (·.1) = acc.map (·.1) := by
  induction es with
  | nil => intro acc; rfl
  | cons e es ih => intro acc; rw [followStep_cons]; simp only; rw [ih, keys_envUnionAt]

/-- (S1) accumulators only grow during a sweep -/
theorem followStep_mono (k : Nat) (fn : Nat → TSet) (es : List FEq) :
    ∀ acc A t, t ∈ envGet acc A → t ∈ envGet (followStep k fn es acc).2 A := by
  induction es with
  | nil => intro acc A t h; exact h
  | cons e es ih =>
    intro acc A t h
    rw [followStep_cons]
    exact ih _ A t (mem_envGet_envUnionAt.2 (Or.inl h))

/-- (S2) every position result is contained in the accumulator of its target after the sweep -/
theorem followStep_covered (k : Nat) (fn : Nat → TSet) (es : List FEq) :
    ∀ acc, (∀ e ∈ es, e.target ∈ acc.map (·.1)) →
      ∀ p ∈ es.zip (followStep k fn es acc).1, ∀ t ∈ p.2, t ∈ envGet (followStep k fn es acc).2 p.1.target := by
  induction es with
  | nil => intro acc _ p hp; simp [followStep] at hp
  | cons e es ih =>
    intro acc hk p hp t ht
    rw [followStep_cons] at hp ⊢
    simp only [List.zip_cons_cons, List.mem_cons] at hp
    rcases hp with rfl | hp
    · apply followStep_mono
      exact mem_envGet_envUnionAt.2 (Or.inr ⟨rfl, hk e List.mem_cons_self, ht⟩)
    · exact ih _ (fun e' he' => by rw [keys_envUnionAt]; exact hk e' (List.mem_cons_of_mem _ he')) p hp t ht

/-- (S4) nothing but the position results enters the accumulators -/
theorem followStep_acc_sub (k : Nat) (fn : Nat → TSet) (es : List FEq) :
    ∀ acc A t, t ∈ envGet (followStep k fn es acc).2 A →
      t ∈ envGet acc A ∨ ∃ p ∈ es.zip (followStep k fn es acc).1, p.1.target = A ∧ t ∈ p.2 := by
  induction es with
  | nil => intro acc A t h; exact Or.inl h
  | cons e es ih =>
    intro acc A t h
    rw [followStep_cons] at h ⊢
    simp only at h
    rcases ih _ A t h with h' | ⟨p, hp, h1, h2⟩
    · rcases mem_envGet_envUnionAt.1 h' with h'' | ⟨h1, _, h3⟩
      · exact Or.inl h''
      · exact Or.inr ⟨(e, eqVal k fn acc e), by simp, h1.symm, h3⟩
    · exact Or.inr ⟨p, by simp only [List.zip_cons_cons, List.mem_cons]; exact Or.inr hp, h1, h2⟩

/-- (S3) if every position result of a sweep was already contained in (an accumulator equal to)
    the starting accumulator, the sweep changed nothing and its results are the values at it -/
theorem followStep_stable (k : Nat) (fn : Nat → TSet) (es : List FEq) :
    ∀ acc acc0, EnvEq acc acc0 →
      (∀ p ∈ es.zip (followStep k fn es acc).1, ∀ t ∈ p.2, t ∈ envGet acc0 p.1.target) →
      EnvEq (followStep k fn es acc).2 acc0 ∧
      ∀ p ∈ es.zip (followStep k fn es acc).1, SetEq p.2 (eqVal k fn acc0 p.1) := by
  induction es with
  | nil => intro acc acc0 h _; exact ⟨h, fun p hp => by simp [followStep] at hp⟩
  | cons e es ih =>
    intro acc acc0 heq hsub
    rw [followStep_cons] at hsub ⊢
    simp only [List.zip_cons_cons, List.mem_cons] at hsub
    have hr : ∀ t ∈ eqVal k fn acc e, t ∈ envGet acc0 e.target := fun t ht =>
      hsub (e, eqVal k fn acc e) (Or.inl rfl) t ht
    have heq1 : EnvEq (envUnionAt acc e.target (eqVal k fn acc e)) acc0 := by
      intro A t
      rw [mem_envGet_envUnionAt]
      constructor
      · rintro (h | ⟨h1, _, h3⟩)
        · exact (heq A t).1 h
        · subst h1; exact hr t h3
      · intro h; exact Or.inl ((heq A t).2 h)
    obtain ⟨h1, h2⟩ := ih _ acc0 heq1 (fun p hp => hsub p (Or.inr hp))
    refine ⟨h1, ?_⟩
    intro p hp
    simp only [List.zip_cons_cons, List.mem_cons] at hp
    rcases hp with rfl | hp
    · exact eqVal_congr heq e
    · exact h2 p hp

theorem allSetEq_zip_transfer {L M : List TSet} (h : AllSetEq L M) :
    ∀ (es : List FEq) p, p ∈ es.zip L → ∃ S', (p.1, S') ∈ es.zip M ∧ SetEq p.2 S' := by
  induction h with
  | nil => intro es p hp; simp at hp
  | @cons x y xs ys h1 _ ih =>
    intro es p hp
    cases es with
    | nil => simp at hp
    | cons e es =>
      simp only [List.zip_cons_cons, List.mem_cons] at hp
      rcases hp with rfl | hp
      · exact ⟨y, by simp, h1⟩
      · obtain ⟨S', hS', hs⟩ := ih es p hp
        exact ⟨S', by simp only [List.zip_cons_cons, List.mem_cons]; exact Or.inr hS', hs⟩

theorem AllSetEq.symm {L M : List TSet} (h : AllSetEq L M) : AllSetEq M L := by
  induction h with
  | nil => exact .nil
  | cons h1 _ ih => exact .cons h1.symm ih


/-! ## FIRST of a symbol string over a correct FIRST environment -/

def FirstOK (G : Grammar) (k : Nat) (fn : Nat → TSet) : Prop :=
  ∀ A t, t ∈ fn A ↔ FirstK G k [.n A] t

theorem chain_of_yield_spec {G : Grammar} {k : Nat} {env : Nat → TSet} (hk : 1 ≤ k) (hno : NoEoi G)
    (henv : ∀ A u, Yield G [.n A] u → u.take k ∈ env A)
    {ss : List Sym} {w : List Nat} (h : Yield G ss w) :
    Sym.t 0 ∉ ss → ∀ x, TupWf k x → Chain k env x ss ((x ++ w).take k) := by
  induction h with
  | nil =>
    intro _ x hx
    rw [List.append_nil, take_eq_self_of_wf hx]
    exact .nil x
  | @term a ss w _ ih =>
    intro hss x hx
    have ha : a ≠ 0 := by intro e; subst e; exact hss List.mem_cons_self
    have hss' : Sym.t 0 ∉ ss := fun h => hss (List.mem_cons_of_mem _ h)
    cases hc : tupComplete k x with
    | true =>
      rw [take_eq_of_complete ((tupComplete_iff_of_wf hk hx.1 hx.2).1 hc)]
      exact chain_complete hc _
    | false =>
      have hx' : kcat k x [a] = (x ++ [a]).take k := kcat_eq_take_of_incomplete hk hx.1 hx.2 hc
      have hwf' : TupWf k (kcat k x [a]) := kcat_wf hx (by simp; exact fun e => ha e.symm)
      have := ih hss' _ hwf'
      rw [hx', take_append_take_left] at this
      refine .ext (.t a) hc (z := [a]) (by simp [symSet]) ?_
      rw [hx']
      simpa using this
  | @nonterm p ss u v hp hr _ _ ih2 =>
    intro hss x hx
    have hss' : Sym.t 0 ∉ ss := fun h => hss (List.mem_cons_of_mem _ h)
    have hu0 : 0 ∉ u := yield_no_eoi hno hr (hno p hp)
    cases hc : tupComplete k x with
    | true =>
      rw [take_eq_of_complete ((tupComplete_iff_of_wf hk hx.1 hx.2).1 hc)]
      exact chain_complete hc _
    | false =>
      have hmem : u.take k ∈ env p.lhs := henv _ _ (yield_single hp hr)
      have hx' : kcat k x (u.take k) = (x ++ u).take k := by
        rw [kcat_eq_take_of_incomplete hk hx.1 hx.2 hc, take_append_take_right]
      have hwf' : TupWf k (kcat k x (u.take k)) :=
        kcat_wf hx (fun h => hu0 (List.mem_of_mem_take h))
      have := ih2 hss' _ hwf'
      rw [hx', take_append_take_left, List.append_assoc] at this
      refine .ext (.n p.lhs) hc (z := u.take k) (by simpa [symSet] using hmem) ?_
      rw [hx']
      exact this

theorem chain_sound {G : Grammar} {k : Nat} {env : Nat → TSet} (hk : 1 ≤ k) (hno : NoEoi G)
    (henv : ∀ A z, z ∈ env A → ∃ u, Yield G [.n A] u ∧ z = u.take k)
    {x : Tup} {ss : List Sym} {y : Tup} (h : Chain k env x ss y) :
    (∀ s ∈ ss, ∃ w, Yield G [s] w) → Sym.t 0 ∉ ss → TupWf k x →
      ∃ w, Yield G ss w ∧ y = (x ++ w).take k := by
  induction h with
  | nil x => intro _ _ hx; exact ⟨[], .nil, by rw [List.append_nil, take_eq_self_of_wf hx]⟩
  | @keep x y s ss hc _ ih =>
    intro hprod hss hx
    obtain ⟨w', hw', hy⟩ := ih (fun s' h' => hprod s' (List.mem_cons_of_mem _ h'))
      (fun h => hss (List.mem_cons_of_mem _ h)) hx
    obtain ⟨ws, hws⟩ := hprod s List.mem_cons_self
    have hlen := (tupComplete_iff_of_wf hk hx.1 hx.2).1 hc
    refine ⟨ws ++ w', ?_, ?_⟩
    · have := Yield.append hws hw'
      simpa using this
    · rw [hy, take_eq_of_complete hlen, take_eq_of_complete hlen]
  | @ext x y z s ss hc hz _ ih =>
    intro hprod hss hx
    have hss' : Sym.t 0 ∉ ss := fun h => hss (List.mem_cons_of_mem _ h)
    -- z is the k-prefix of a yield of s
    have hzs : ∃ u, Yield G [s] u ∧ z = u.take k ∧ 0 ∉ u := by
      cases s with
      | t a =>
        simp only [symSet, List.mem_singleton] at hz
        subst hz
        have ha : a ≠ 0 := by intro e; subst e; exact hss List.mem_cons_self
        exact ⟨[a], .term a .nil, (take_singleton_of_pos hk a).symm, by simp; exact fun e => ha e.symm⟩
      | n B =>
        obtain ⟨u, hu, rfl⟩ := henv B z hz
        exact ⟨u, hu, rfl, yield_no_eoi hno hu (by simp)⟩
    obtain ⟨u, hu, rfl, hu0⟩ := hzs
    have hx' : kcat k x (u.take k) = (x ++ u).take k := by
      rw [kcat_eq_take_of_incomplete hk hx.1 hx.2 hc, take_append_take_right]
    have hwf' : TupWf k (kcat k x (u.take k)) := kcat_wf hx (fun h => hu0 (List.mem_of_mem_take h))
    obtain ⟨w', hw', hy⟩ := ih (fun s' h' => hprod s' (List.mem_cons_of_mem _ h')) hss' hwf'
    refine ⟨u ++ w', ?_, ?_⟩
    · have := Yield.append hu hw'
      simpa using this
    · rw [hy, hx', take_append_take_left, List.append_assoc]

/-- over a correct FIRST environment the evaluation of (the compiled parts of) a suffix of a
    right-hand side is the declarative FIRST_k of that suffix -/
theorem evalParts_spec {G : Grammar} {k : Nat} {fn : Nat → TSet} (hk : 1 ≤ k) (hno : NoEoi G)
    (hprod : Productive G) (hfn : FirstOK G k fn) {p : Rule} (hp : p ∈ G.prods)
    {α β : List Sym} (hr : p.rhs = α ++ β) (t : Tup) :
    t ∈ evalParts k fn (compileParts β) ↔ FirstK G k β t := by
  have h0 : Sym.t 0 ∉ β := fun h => hno p hp (by rw [hr]; exact List.mem_append_right _ h)
  have hsym : ∀ s ∈ β, ∃ w, Yield G [s] w := fun s hs =>
    yield_sym_exists hprod hp (by rw [hr]; exact List.mem_append_right _ hs)
  rw [show evalParts k fn (compileParts β) = evalPartsFrom k fn [[]] (compileParts β) from rfl,
    evalParts_eq_evalSyms hk fn β h0 [[]] t, mem_evalSymsFrom]
  constructor
  · rintro ⟨x, hx, hch⟩
    simp only [List.mem_singleton] at hx
    subst hx
    obtain ⟨w, hw, hy⟩ := chain_sound hk hno
      (fun A z hz => by obtain ⟨u, hu, rfl⟩ := (hfn A z).1 hz; exact ⟨u, hu, rfl⟩) hch hsym h0 (tupWf_nil k)
    exact ⟨w, hw, by simpa using hy⟩
  · rintro ⟨w, hw, rfl⟩
    refine ⟨[], by simp, ?_⟩
    have := chain_of_yield_spec hk hno (fun A u hu => (hfn A _).2 ⟨u, hu, rfl⟩) hw h0 [] (tupWf_nil k)
    simpa using this

/-! ## declarative values of positions and accumulators -/

/-- declarative value of the position of an equation -/
def PosK (G : Grammar) (k : Nat) (e : FEq) (t : Tup) : Prop :=
  ∃ v1 f, Yield G e.rest v1 ∧ FollowKc G k e.source f ∧ t = (v1 ++ f).take k

def AccSound (G : Grammar) (k : Nat) (acc : Env) : Prop :=
  ∀ A t, t ∈ envGet acc A → FollowKc G k A t

/-- every left-hand side occurs in a sentential form whose right context derives a terminal string
    (reachable, and the context is productive) -/
def Reachable (G : Grammar) : Prop :=
  ∀ p ∈ G.prods, ∃ γ v, FollowCtx G p.lhs γ ∧ Yield G γ v

theorem followKc_inh {G : Grammar} (hreach : Reachable G) {p : Rule} (hp : p ∈ G.prods) (k : Nat) :
    ∃ f, FollowKc G k p.lhs f := by
  obtain ⟨γ, v, hc, hv⟩ := hreach p hp
  exact ⟨_, γ, v, hc, hv, rfl⟩

theorem posK_follow {G : Grammar} {k : Nat} {e : FEq} (he : e ∈ followEqs G) {t : Tup}
    (h : PosK G k e t) : FollowKc G k e.target t := by
  obtain ⟨v1, f, hv1, ⟨γ, v2, hc, hv2, rfl⟩, rfl⟩ := h
  obtain ⟨p, hp, hs, α, hr⟩ := mem_followEqs he
  refine ⟨e.rest ++ γ, v1 ++ v2, FollowCtx.step p hp α e.rest γ e.target hr (hs ▸ hc),
    Yield.append hv1 hv2, ?_⟩
  rw [take_append_take_right, List.append_assoc]

theorem followKc_tuple_wf {G : Grammar} {k A : Nat} {t : Tup}
    (h : FollowKc G k A t) : t.length ≤ k := by
  obtain ⟨_, _, _, _, rfl⟩ := h
  simp [List.length_take]; omega

theorem followKc_ne_nil {G : Grammar} {k A : Nat} (hk : 1 ≤ k) {t : Tup}
    (h : FollowKc G k A t) : t ≠ [] := by
  obtain ⟨_, v, _, _, rfl⟩ := h
  intro e
  have := congrArg List.length e
  simp [List.length_take] at this
  omega

structure FHyp (G : Grammar) (k : Nat) (fn : Nat → TSet) : Prop where
  kpos : 1 ≤ k
  noEoi : NoEoi G
  prod : Productive G
  reach : Reachable G
  first : FirstOK G k fn

theorem eqVal_sound {G : Grammar} {k : Nat} {fn : Nat → TSet} (H : FHyp G k fn) {acc : Env}
    (hs : AccSound G k acc) {e : FEq} (he : e ∈ followEqs G) {t : Tup} (ht : t ∈ eqVal k fn acc e) :
    PosK G k e t := by
  obtain ⟨p, hp, hsrc, α, hr⟩ := mem_followEqs he
  have hr' : p.rhs = (α ++ [Sym.n e.target]) ++ e.rest := by rw [hr]; simp
  have hspec := evalParts_spec H.kpos H.noEoi H.prod H.first hp hr'
  unfold eqVal at ht
  rw [mem_kcatSetQ] at ht
  obtain ⟨x, hx, h⟩ := ht
  obtain ⟨v1, hv1, rfl⟩ := (hspec x).1 hx
  have h0 : Sym.t 0 ∉ e.rest := fun h => H.noEoi p hp (by rw [hr']; exact List.mem_append_right _ h)
  have hv0 : 0 ∉ v1 := yield_no_eoi H.noEoi hv1 h0
  have hwf : TupWf k (v1.take k) := take_wf hv0
  rcases h with ⟨hc, rfl⟩ | ⟨hc, y, hy, rfl⟩
  · obtain ⟨f, hf⟩ := followKc_inh H.reach hp k
    refine ⟨v1, f, hv1, hsrc ▸ hf, ?_⟩
    have hlen := (tupComplete_iff_of_wf H.kpos hwf.1 hwf.2).1 hc
    rw [← take_append_take_left, take_eq_of_complete hlen]
  · refine ⟨v1, y, hv1, hs _ _ hy, ?_⟩
    rw [kcat_eq_take_of_incomplete H.kpos hwf.1 hwf.2 hc, take_append_take_left]

theorem eqVal_complete {G : Grammar} {k : Nat} {fn : Nat → TSet} (H : FHyp G k fn) {acc : Env}
    {e : FEq} (he : e ∈ followEqs G) {v1 : List Nat} (hv1 : Yield G e.rest v1) {y : Tup}
    (hy : y ∈ envGet acc e.source) : (v1 ++ y).take k ∈ eqVal k fn acc e := by
  obtain ⟨p, hp, hsrc, α, hr⟩ := mem_followEqs he
  have hr' : p.rhs = (α ++ [Sym.n e.target]) ++ e.rest := by rw [hr]; simp
  have hspec := evalParts_spec H.kpos H.noEoi H.prod H.first hp hr'
  have h0 : Sym.t 0 ∉ e.rest := fun h => H.noEoi p hp (by rw [hr']; exact List.mem_append_right _ h)
  unfold eqVal
  have hX : ∀ x ∈ evalParts k fn (compileParts e.rest), 0 ∉ x ∧ x.length ≤ k := by
    intro x hx
    obtain ⟨u, hu, rfl⟩ := (hspec x).1 hx
    exact take_wf (yield_no_eoi H.noEoi hu h0)
  rw [mem_kcatSetQ_wf H.kpos hX (List.ne_nil_of_mem hy)]
  exact ⟨v1.take k, (hspec _).2 ⟨v1, hv1, rfl⟩, y, hy, (take_append_take_left k v1 y).symm⟩

theorem followStep_sound {G : Grammar} {k : Nat} {fn : Nat → TSet} (H : FHyp G k fn)
    (es : List FEq) (hes : ∀ e ∈ es, e ∈ followEqs G) :
    ∀ acc, AccSound G k acc →
      AccSound G k (followStep k fn es acc).2 ∧
      ∀ p ∈ es.zip (followStep k fn es acc).1, ∀ t ∈ p.2, PosK G k p.1 t := by
  induction es with
  | nil => intro acc h; exact ⟨h, fun p hp => by simp [followStep] at hp⟩
  | cons e es ih =>
    intro acc hacc
    rw [followStep_cons]
    have he := hes e List.mem_cons_self
    have hval : ∀ t ∈ eqVal k fn acc e, PosK G k e t := fun t ht => eqVal_sound H hacc he ht
    have hacc1 : AccSound G k (envUnionAt acc e.target (eqVal k fn acc e)) := by
      intro A t ht
      rcases mem_envGet_envUnionAt.1 ht with h | ⟨h1, _, h3⟩
      · exact hacc A t h
      · subst h1; exact posK_follow he (hval t h3)
    obtain ⟨h1, h2⟩ := ih (fun e' he' => hes e' (List.mem_cons_of_mem _ he')) _ hacc1
    refine ⟨h1, ?_⟩
    intro p hp t ht
    simp only [List.zip_cons_cons, List.mem_cons] at hp
    rcases hp with rfl | hp
    · exact hval t ht
    · exact h2 p hp t ht

/-! ## the iteration from a covered state -/

/-- the position map is contained in the accumulators of the targets -/
def Covered (es : List FEq) (map : List TSet) (acc : Env) : Prop :=
  ∀ p ∈ es.zip map, ∀ t ∈ p.2, t ∈ envGet acc p.1.target

structure IterOut (G : Grammar) (k : Nat) (fn : Nat → TSet) (acc0 : Env) (P : List TSet) (accF : Env) : Prop where
  sound : AccSound G k accF
  grows : ∀ A t, t ∈ envGet acc0 A → t ∈ envGet accF A
  closed : ∀ e ∈ followEqs G, ∀ t ∈ eqVal k fn accF e, t ∈ envGet accF e.target
  vals : ∀ p ∈ (followEqs G).zip P, SetEq p.2 (eqVal k fn accF p.1)

theorem mem_zip_of_mem_left {es : List FEq} {P : List TSet} (hlen : P.length = es.length) {e : FEq}
    (he : e ∈ es) : ∃ S, (e, S) ∈ es.zip P := by
  induction es generalizing P with
  | nil => cases he
  | cons e' es ih =>
    cases P with
    | nil => simp at hlen
    | cons S P =>
      simp only [List.length_cons, Nat.add_right_cancel_iff] at hlen
      rcases List.mem_cons.1 he with rfl | he'
      · exact ⟨S, by simp⟩
      · obtain ⟨S', hS'⟩ := ih hlen he'
        exact ⟨S', by simp only [List.zip_cons_cons, List.mem_cons]; exact Or.inr hS'⟩

theorem length_followStep (k : Nat) (fn : Nat → TSet) (es : List FEq) :
    ∀ acc, (followStep k fn es acc).1.length = es.length := by
  induction es with
  | nil => intro acc; rfl
  | cons e es ih => intro acc; rw [followStep_cons]; simp [ih]

theorem iterFollow_covered {G : Grammar} {k : Nat} {fn : Nat → TSet} (H : FHyp G k fn) :
    ∀ (fuel : Nat) (map : List TSet) (acc : Env) (P : List TSet) (accF : Env),
      acc.map (·.1) = ntsOf G → AccSound G k acc → Covered (followEqs G) map acc →
      iterFollow k fn (followEqs G) fuel map acc = some (P, accF) →
      IterOut G k fn acc P accF := by
  intro fuel
  induction fuel with
  | zero => intro map acc P accF _ _ _ h; simp [iterFollow] at h
  | succ f ih =>
    intro map acc P accF hkeys hsound hcov h
    simp only [iterFollow] at h
    have hkeys' : (followStep k fn (followEqs G) acc).2.map (·.1) = ntsOf G := by
      rw [keys_followStep]; exact hkeys
    have htk : ∀ e ∈ followEqs G, e.target ∈ acc.map (·.1) := fun e he => by
      rw [hkeys]; exact target_mem_ntsOf he
    obtain ⟨hs2, _⟩ := followStep_sound H (followEqs G) (fun e he => he) acc hsound
    have hcov2 := followStep_covered k fn (followEqs G) acc htk
    split at h
    · rename_i hsame
      injection h with h
      have h1 := congrArg Prod.fst h
      have h2 := congrArg Prod.snd h
      simp only at h1 h2
      subst h1; subst h2
      have hall := listSame_iff.1 hsame
      -- every position result was already in the starting accumulators
      have hsub : ∀ p ∈ (followEqs G).zip (followStep k fn (followEqs G) acc).1,
          ∀ t ∈ p.2, t ∈ envGet acc p.1.target := by
        intro p hp t ht
        obtain ⟨S', hS', hse⟩ := allSetEq_zip_transfer hall (followEqs G) p hp
        exact hcov (p.1, S') hS' t ((hse t).1 ht)
      obtain ⟨heq, hvals⟩ := followStep_stable k fn (followEqs G) acc acc (fun _ => SetEq.refl _) hsub
      have heq' : EnvEq acc (followStep k fn (followEqs G) acc).2 := fun A => (heq A).symm
      refine ⟨hs2, followStep_mono k fn _ acc, ?_, ?_⟩
      · intro e he t ht
        obtain ⟨S, hS⟩ := mem_zip_of_mem_left (length_followStep k fn _ acc) he
        have h1 : t ∈ S := ((hvals _ hS) t).2 ((eqVal_congr heq' e t).2 ht)
        exact hcov2 _ hS t h1
      · intro p hp
        exact (hvals p hp).trans (eqVal_congr heq' p.1)
    · have := ih _ _ P accF hkeys' hs2 hcov2 h
      exact ⟨this.sound, fun A t ht => this.grows A t (followStep_mono k fn _ acc A t ht),
        this.closed, this.vals⟩

/-! ## closure gives completeness -/

theorem follow_complete {G : Grammar} {k : Nat} {fn : Nat → TSet} (H : FHyp G k fn) {accF : Env}
    (hinit : [0] ∈ envGet accF G.start)
    (hclosed : ∀ e ∈ followEqs G, ∀ t ∈ eqVal k fn accF e, t ∈ envGet accF e.target)
    {A : Nat} {γ : List Sym} (hc : FollowCtx G A γ) :
    ∀ v, Yield G γ v → (v ++ [0]).take k ∈ envGet accF A := by
  induction hc with
  | start =>
    intro v hv
    have := yield_nil_inv hv
    subst this
    simp only [List.nil_append]
    rw [take_singleton_of_pos H.kpos]
    exact hinit
  | step p hp α β γ B hr _ ih =>
    intro v hv
    obtain ⟨v1, v2, rfl, hv1, hv2⟩ := Yield.split hv
    obtain ⟨e, he, ht, hs, hrest⟩ := followEqs_complete hp hr
    have hy := ih v2 hv2
    have := eqVal_complete H he (hrest ▸ hv1) (hs ▸ hy)
    have := hclosed e he _ this
    rw [ht, take_append_take_right, ← List.append_assoc] at this
    exact this

/-- from the conclusion of the iteration: the accumulators and the position map are the declarative sets -/
structure FollowOK (G : Grammar) (k : Nat) (P : List TSet) (acc : Env) : Prop where
  acc : ∀ A t, t ∈ envGet acc A ↔ FollowKc G k A t
  pos : ∀ p ∈ (followEqs G).zip P, ∀ t, t ∈ p.2 ↔ PosK G k p.1 t

theorem followOK_of_iterOut {G : Grammar} {k : Nat} {fn : Nat → TSet} (H : FHyp G k fn)
    {acc0 : Env} {P : List TSet} {accF : Env} (hinit : [0] ∈ envGet acc0 G.start)
    (h : IterOut G k fn acc0 P accF) : FollowOK G k P accF := by
  have hacc : ∀ A t, t ∈ envGet accF A ↔ FollowKc G k A t := by
    intro A t
    refine ⟨h.sound A t, ?_⟩
    rintro ⟨γ, v, hc, hv, rfl⟩
    exact follow_complete H (h.grows _ _ hinit) h.closed hc v hv
  refine ⟨hacc, ?_⟩
  intro p hp t
  have he : p.1 ∈ followEqs G := (List.of_mem_zip hp).1
  rw [h.vals p hp t]
  constructor
  · intro ht; exact eqVal_sound H h.sound he ht
  · rintro ⟨v1, f, hv1, hf, rfl⟩
    exact eqVal_complete H he hv1 ((hacc _ _).2 hf)


/-! ## k = 0: every tuple is ε -/

theorem kcatSetQ_zero_nil {X Y : TSet} (hX : ∀ x ∈ X, x = []) : ∀ t ∈ kcatSetQ 0 X Y, t = [] := by
  intro t ht
  rw [mem_kcatSetQ] at ht
  obtain ⟨x, hx, h⟩ := ht
  have := hX x hx
  subst this
  rcases h with ⟨hc, _⟩ | ⟨_, y, _, rfl⟩
  · simp [tupComplete] at hc
  · simp [kcat, tupComplete]

theorem evalPartsFrom_zero_nil {env : Nat → TSet} (parts : List KPart) :
    ∀ r : TSet, (∀ x ∈ r, x = []) → ∀ t ∈ evalPartsFrom 0 env r parts, t = [] := by
  induction parts with
  | nil => intro r hr t ht; exact hr t ht
  | cons p ps ih => intro r hr t ht; exact ih _ (kcatSetQ_zero_nil hr) t ht

theorem eqVal_zero_nil {fn : Nat → TSet} {acc : Env} {e : FEq} : ∀ t ∈ eqVal 0 fn acc e, t = [] := by
  apply kcatSetQ_zero_nil
  apply evalPartsFrom_zero_nil
  intro x hx; simpa using hx

theorem followStep_zero_nil {fn : Nat → TSet} (es : List FEq) :
    ∀ acc, ∀ S ∈ (followStep 0 fn es acc).1, ∀ t ∈ S, t = [] := by
  induction es with
  | nil => intro acc S hS; simp [followStep] at hS
  | cons e es ih =>
    intro acc S hS
    rw [followStep_cons] at hS
    simp only [List.mem_cons] at hS
    rcases hS with rfl | hS
    · exact eqVal_zero_nil
    · exact ih _ S hS

theorem iterFollow_is_step {k : Nat} {fn : Nat → TSet} {es : List FEq} :
    ∀ (fuel : Nat) (map : List TSet) (acc : Env) (r : List TSet × Env),
      iterFollow k fn es fuel map acc = some r → ∃ a, followStep k fn es a = r := by
  intro fuel
  induction fuel with
  | zero => intro map acc r h; simp [iterFollow] at h
  | succ f ih =>
    intro map acc r h
    simp only [iterFollow] at h
    split at h
    · injection h with h; exact ⟨acc, h⟩
    · exact ih _ _ r h

theorem followCode_zero_nil {G : Grammar} {fuel : Nat} {r : List TSet × Env}
    (h : followCode G fuel 0 = some r) : ∀ S ∈ r.1, ∀ t ∈ S, t = [] := by
  simp only [followCode] at h
  cases hf : firstCode G fuel 0 with
  | none => simp [hf] at h
  | some fv =>
    simp only [hf, Option.bind_some] at h
    obtain ⟨a, ha⟩ := iterFollow_is_step _ _ _ r h
    rw [← ha]
    exact followStep_zero_nil _ a

/-! ## the start accumulators -/

theorem envGet_initFollowAcc (G : Grammar) (A : Nat) :
    envGet (initFollowAcc G) A = if A ∈ ntsOf G then (if A = G.start then [[0]] else []) else [] := by
  unfold initFollowAcc
  exact envGet_map _ _ A

theorem keys_initFollowAcc (G : Grammar) : (initFollowAcc G).map (·.1) = ntsOf G := by
  simp [initFollowAcc, Function.comp_def]

theorem init_mem (G : Grammar) : [0] ∈ envGet (initFollowAcc G) G.start := by
  rw [envGet_initFollowAcc]; simp [start_mem_ntsOf]

theorem initFollowAcc_sound (G : Grammar) {k : Nat} (hk : 1 ≤ k) : AccSound G k (initFollowAcc G) := by
  intro A t ht
  rw [envGet_initFollowAcc] at ht
  split at ht
  · split at ht
    · rename_i hA
      simp only [List.mem_singleton] at ht
      subst hA; subst ht
      exact ⟨[], [], .start, .nil, by simp [take_singleton_of_pos hk]⟩
    · cases ht
  · cases ht

/-! ## the first comparison against the k − 1 map -/

theorem followCtx_no_eoi {G : Grammar} (hno : NoEoi G) {A : Nat} {γ : List Sym}
    (h : FollowCtx G A γ) : Sym.t 0 ∉ γ := by
  induction h with
  | start => simp
  | step p hp α β γ B hr _ ih =>
    simp only [List.mem_append, not_or]
    refine ⟨fun h => hno p hp ?_, ih⟩
    rw [hr]; simp [h]

theorem followKc_inv {G : Grammar} {k A : Nat} {t : Tup} (h : FollowKc G k A t) :
    (A = G.start ∧ t = ([0] : Tup).take k) ∨ ∃ e ∈ followEqs G, e.target = A ∧ PosK G k e t := by
  obtain ⟨γ, v, hc, hv, rfl⟩ := h
  cases hc with
  | start =>
    left
    have := yield_nil_inv hv
    subst this
    exact ⟨rfl, rfl⟩
  | step p hp α β γ' B hr hc' =>
    right
    obtain ⟨v1, v2, rfl, hv1, hv2⟩ := Yield.split hv
    obtain ⟨e, he, ht, hs, hrest⟩ := followEqs_complete hp hr
    refine ⟨e, he, ht, v1, (v2 ++ [0]).take k, hrest ▸ hv1, ⟨γ', v2, hs ▸ hc', hv2, rfl⟩, ?_⟩
    rw [take_append_take_right, List.append_assoc]

/-- strings behind a position: a declarative position value is the k-prefix of `v·EOI` with `v` free of EOI -/
theorem posK_shape {G : Grammar} (hno : NoEoi G) {k : Nat} {e : FEq} (he : e ∈ followEqs G) {t : Tup}
    (h : PosK G k e t) : ∃ v, 0 ∉ v ∧ t = (v ++ [0]).take k ∧ ∀ j, PosK G j e ((v ++ [0]).take j) := by
  obtain ⟨v1, f, hv1, ⟨γ, v2, hc, hv2, rfl⟩, rfl⟩ := h
  obtain ⟨p, hp, _, α, hr⟩ := mem_followEqs he
  have h0 : Sym.t 0 ∉ e.rest := fun h => hno p hp (by rw [hr]; simp [h])
  refine ⟨v1 ++ v2, ?_, ?_, ?_⟩
  · simp only [List.mem_append, not_or]
    exact ⟨yield_no_eoi hno hv1 h0, yield_no_eoi hno hv2 (followCtx_no_eoi hno hc)⟩
  · rw [take_append_take_right, List.append_assoc]
  · intro j
    exact ⟨v1, (v2 ++ [0]).take j, hv1, ⟨γ, v2, hc, hv2, rfl⟩, by
      rw [take_append_take_right, List.append_assoc]⟩

theorem take_snoc_eoi {v : List Nat} (h0 : 0 ∉ v) {k : Nat} (h : 0 ∈ (v ++ [0]).take k) :
    (v ++ [0]).take k = v ++ [0] := by
  rcases Nat.lt_or_ge v.length k with hlt | hge
  · exact List.take_of_length_le (by simp; omega)
  · rw [take_append_of_le_length hge] at h
    exact absurd (List.mem_of_mem_take h) h0

theorem premature_ok {G : Grammar} {k : Nat} {fn : Nat → TSet} (H : FHyp G (k+1) fn) (_hk : 1 ≤ k)
    {Pk : List TSet} {acck : Env} (hprev : FollowOK G k Pk acck)
    (hsame : listSame (followStep (k+1) fn (followEqs G) (initFollowAcc G)).1 Pk = true) :
    FollowOK G (k+1) (followStep (k+1) fn (followEqs G) (initFollowAcc G)).1
      (followStep (k+1) fn (followEqs G) (initFollowAcc G)).2 := by
  have hall := listSame_iff.1 hsame
  obtain ⟨hs2, hpos⟩ := followStep_sound H (followEqs G) (fun e he => he) (initFollowAcc G)
    (initFollowAcc_sound G H.kpos)
  have htk : ∀ e ∈ followEqs G, e.target ∈ (initFollowAcc G).map (·.1) := fun e he => by
    rw [keys_initFollowAcc]; exact target_mem_ntsOf he
  have hcov := followStep_covered (k+1) fn (followEqs G) (initFollowAcc G) htk
  have hposIff : ∀ p ∈ (followEqs G).zip (followStep (k+1) fn (followEqs G) (initFollowAcc G)).1,
      ∀ t, t ∈ p.2 ↔ PosK G (k+1) p.1 t := by
    intro p hp t
    refine ⟨hpos p hp t, fun ht => ?_⟩
    have he : p.1 ∈ followEqs G := (List.of_mem_zip hp).1
    obtain ⟨v, hv0, rfl, hall_j⟩ := posK_shape H.noEoi he ht
    -- the k-prefix is in the old map, hence in the new one, hence ends with EOI
    obtain ⟨S', hS', hse⟩ := allSetEq_zip_transfer hall (followEqs G) p hp
    have hu : (v ++ [0]).take k ∈ p.2 := (hse _).2 ((hprev.pos _ hS' _).2 (hall_j k))
    obtain ⟨w, _, hw, _⟩ := posK_shape H.noEoi he (hpos p hp _ hu)
    have hlen : ((w ++ [0]).take (k+1)).length ≤ k := by
      rw [← hw]; simp [List.length_take]; omega
    have h0u : 0 ∈ (v ++ [0]).take k := by
      rw [hw]
      have : (w ++ [0]).take (k+1) = w ++ [0] := by
        apply List.take_of_length_le
        simp only [List.length_take, List.length_append, List.length_singleton] at hlen ⊢
        omega
      rw [this]; simp
    have e1 := take_snoc_eoi hv0 h0u
    have h0u' : 0 ∈ (v ++ [0]).take (k+1) := by
      have hl : (v ++ [0]).length ≤ k := by
        have := congrArg List.length e1
        simp only [List.length_take, List.length_append, List.length_singleton] at this ⊢
        omega
      rw [List.take_of_length_le (by omega)]; simp
    rw [take_snoc_eoi hv0 h0u', ← e1]
    exact hu
  refine ⟨fun A t => ⟨hs2 A t, fun ht => ?_⟩, hposIff⟩
  rcases followKc_inv ht with ⟨rfl, rfl⟩ | ⟨e, he, rfl, hp⟩
  · apply followStep_mono
    rw [take_singleton_of_pos H.kpos]
    exact init_mem G
  · obtain ⟨S, hS⟩ := mem_zip_of_mem_left (length_followStep (k+1) fn _ (initFollowAcc G)) he
    exact hcov _ hS t ((hposIff _ hS t).2 hp)

/-! ## `follow_k` = definition -/

theorem followCode_ok {G : Grammar} {fuel : Nat} (hno : NoEoi G) (hprod : Productive G)
    (hreach : Reachable G) (hnlr : NoLeftRec G) :
    ∀ (k : Nat), 1 ≤ k → ∀ (r : List TSet × Env), followCode G fuel k = some r →
      FollowOK G k r.1 r.2 := by
  intro k
  induction k with
  | zero => intro h; omega
  | succ k ih =>
    intro _ r h
    simp only [followCode] at h
    cases hf : firstCode G fuel (k+1) with
    | none => simp [hf] at h
    | some fv =>
      simp only [hf, Option.bind_some] at h
      cases hp : followCode G fuel k with
      | none => simp [hp] at h
      | some prev =>
        simp only [hp, Option.bind_some] at h
        have hfirst : FirstOK G (k+1) (envGet fv.nts) :=
          (first_k_eq_spec_aux hno hprod hnlr (by omega) hf).1
        have H : FHyp G (k+1) (envGet fv.nts) := ⟨by omega, hno, hprod, hreach, hfirst⟩
        cases fuel with
        | zero => simp [iterFollow] at h
        | succ f =>
          simp only [iterFollow] at h
          have hkeys' : (followStep (k+1) (envGet fv.nts) (followEqs G) (initFollowAcc G)).2.map (·.1) = ntsOf G := by
            rw [keys_followStep]; exact keys_initFollowAcc G
          have htk : ∀ e ∈ followEqs G, e.target ∈ (initFollowAcc G).map (·.1) := fun e he => by
            rw [keys_initFollowAcc]; exact target_mem_ntsOf he
          obtain ⟨hs2, hpos⟩ := followStep_sound H (followEqs G) (fun e he => he) (initFollowAcc G)
            (initFollowAcc_sound G H.kpos)
          have hcov2 := followStep_covered (k+1) (envGet fv.nts) (followEqs G) (initFollowAcc G) htk
          split at h
          · rename_i hsame
            injection h with h
            subst h
            rcases Nat.eq_zero_or_pos k with hk0 | hkpos
            · -- k = 0: the old map holds only ε, the new results are never ε: both are empty, so
              -- the old map is covered and the general argument applies
              subst hk0
              have hall := listSame_iff.1 hsame
              have hcov : Covered (followEqs G) prev.1 (initFollowAcc G) := by
                intro p hp' t ht
                have hnil := followCode_zero_nil hp p.2 (List.of_mem_zip hp').2 t ht
                obtain ⟨S', hS', hse⟩ := allSetEq_zip_transfer hall.symm (followEqs G) p hp'
                have := hpos _ hS' t ((hse t).1 ht)
                exact absurd hnil (followKc_ne_nil (by omega) (posK_follow (List.of_mem_zip hS').1 this))
              have hwhole : iterFollow 1 (envGet fv.nts) (followEqs G) (f+1) prev.1 (initFollowAcc G)
                  = some (followStep 1 (envGet fv.nts) (followEqs G) (initFollowAcc G)) := by
                simp only [iterFollow, hsame, ↓reduceIte]
              exact followOK_of_iterOut H (init_mem G)
                (iterFollow_covered H (f+1) prev.1 (initFollowAcc G) _ _ (keys_initFollowAcc G)
                  (initFollowAcc_sound G H.kpos) hcov hwhole)
            · exact premature_ok H hkpos (ih hkpos prev hp) hsame
          · have hout := iterFollow_covered H f _ _ r.1 r.2 hkeys' hs2 hcov2 h
            exact followOK_of_iterOut H (followStep_mono _ _ _ _ _ _ (init_mem G)) hout


/-- C06 delivers the hypothesis of the C05 theorems for grammars of the property's class -/
theorem setsAreSpecAt_of_class {G : Grammar} {fuel k : Nat} (hno : NoEoi G) (hprod : Productive G)
    (hreach : Reachable G) (hnlr : NoLeftRec G) (hk : 1 ≤ k)
    (hc1 : (firstCode G fuel k).isSome) (hc2 : (followCode G fuel k).isSome) :
    SetsAreSpecAt G fuel k := by
  obtain ⟨fv, hfv⟩ := Option.isSome_iff_exists.1 hc1
  obtain ⟨fw, hfw⟩ := Option.isSome_iff_exists.1 hc2
  refine ⟨fv, fw, hfv, hfw, (first_k_eq_spec_aux hno hprod hnlr hk hfv).2, ?_⟩
  intro A t
  rw [followK_iff_ctx]
  exact (followCode_ok hno hprod hreach hnlr k hk fw hfw).acc A t

theorem c05Hyp_of_class {G : Grammar} {fuel K : Nat} (hno : NoEoi G) (hprod : Productive G)
    (hreach : Reachable G) (hnlr : NoLeftRec G)
    (hcomp : ∀ k, 1 ≤ k → k ≤ K → (firstCode G fuel k).isSome ∧ (followCode G fuel k).isSome)
    {p : Rule} (hp : p ∈ G.prods) : C05Hyp G fuel K p.lhs := by
  refine ⟨hno, fun k h1 h2 => setsAreSpecAt_of_class hno hprod hreach hnlr h1 (hcomp k h1 h2).1 (hcomp k h1 h2).2, ?_⟩
  intro k
  obtain ⟨f, hf⟩ := followKc_inh hreach hp k
  exact ⟨f, followK_iff_ctx.2 hf⟩

/-! ## a grammar of the property's class (non-vacuity of the hypotheses): `S: A "b"; A: ; A: "a";` -/

def Gex : Grammar := ⟨0, [⟨0, [.n 1, .t 6]⟩, ⟨1, []⟩, ⟨1, [.t 5]⟩]⟩

theorem gex_noEoi : NoEoi Gex := by
  intro p hp
  simp [Gex] at hp
  rcases hp with rfl | rfl | rfl <;> simp

theorem gex_yield1 : Yield Gex [.n 1] [] := yield_single (p := ⟨1, []⟩) (by simp [Gex]) .nil

theorem gex_productive : Productive Gex := by
  intro p hp B hB
  simp [Gex] at hp
  rcases hp with rfl | rfl | rfl <;> simp at hB
  subst hB
  exact ⟨[], gex_yield1⟩

theorem gex_reachable : Reachable Gex := by
  intro p hp
  simp [Gex] at hp
  rcases hp with rfl | rfl | rfl
  · exact ⟨[], [], .start, .nil⟩
  · exact ⟨[.t 6], [6], FollowCtx.step (G := Gex) ⟨0, [.n 1, .t 6]⟩ (by simp [Gex]) [] [.t 6] [] 1 rfl .start, .term 6 .nil⟩
  · exact ⟨[.t 6], [6], FollowCtx.step (G := Gex) ⟨0, [.n 1, .t 6]⟩ (by simp [Gex]) [] [.t 6] [] 1 rfl .start, .term 6 .nil⟩

theorem gex_noLeftRec : NoLeftRec Gex := by
  refine ⟨fun A => if A = 0 then 1 else 0, ?_⟩
  rintro A B ⟨p, hp, rfl, α, β, hr, _⟩
  simp [Gex] at hp
  rcases hp with rfl | rfl | rfl
  · -- [n 1, t 6] = α ++ n B :: β
    cases α with
    | nil => simp at hr; obtain ⟨rfl, _⟩ := hr; simp
    | cons x xs =>
      simp at hr
      obtain ⟨_, hr⟩ := hr
      cases xs with
      | nil => simp at hr
      | cons y ys => simp at hr
  · simp at hr
  · cases α with
    | nil => simp at hr
    | cons x xs => simp at hr

end ParolModel.KS
