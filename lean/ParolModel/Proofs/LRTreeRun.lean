import ParolModel.Proofs.LRTree
/-! The invariant of `lrLoop` for valid tables (C03, tree/action half): the parse-tree stack is a forest
of well-formed derivation trees (`DTree`, Model/LRTree.lean) whose post-order is the action trace so
far (`TreeInv`, `drainSt_treeInv`, `lrAct_next_treeInv`); at `Accept` the forest is the derivation tree
of the start symbol on top of leading skipped tokens (`lrAct_fin_tree`); `lrRun_tree` is the statement
about complete runs. -/
namespace ParolModel

-- ---------------------------------------------------------------------------------------------
-- the invariant of `lrLoop`: the parse-tree stack is a forest of well-formed trees

/-- The parse-tree stack entry `lrLoop` holds for a subtree. -/
def DTree.item (trim : Bool) : DTree → LRItem
  | .leaf t => ⟨!t.skip, .tok t.id t.ty, [.tok t.id]⟩
  | .node p lhs kids =>
    ⟨true, .nt lhs, if trim then [.open_ (some lhs), .close] else (DTree.node p lhs kids).events⟩

theorem DTree.item_sig (trim : Bool) (d : DTree) : (d.item trim).sig = d.sig := by cases d <;> rfl
theorem DTree.item_item (trim : Bool) (d : DTree) : (d.item trim).item = d.arg := by cases d <;> rfl
theorem DTree.item_events (d : DTree) : (d.item false).events = d.events := by cases d <;> rfl

theorem filter_sig_map_item (trim : Bool) (ts : List DTree) :
    (ts.map (DTree.item trim)).filter (·.sig) = (ts.filter DTree.sig).map (DTree.item trim) := by
  induction ts with
  | nil => rfl
  | cons d ts ih =>
    simp only [List.map_cons, List.filter_cons, DTree.item_sig, ih]
    split <;> rfl

/-- Tokens that reach the parse-tree stack: all of them, or only the significant ones when trimming. -/
def keepTok (trim : Bool) (t : MTok) : Bool := !(trim && t.skip)

theorem lrDrain_tree (trim : Bool) : ∀ (inp : List MTok) (pt : List LRItem) (cm : List Nat),
    ∃ sk, inp = sk ++ (lrDrain trim inp pt cm).1 ∧ (∀ t ∈ sk, t.skip = true) ∧
      (lrDrain trim inp pt cm).2.1 =
        ((sk.filter (keepTok trim)).map (fun t => (DTree.leaf t).item trim)).reverse ++ pt := by
  intro inp
  induction inp with
  | nil => intro pt cm; exact ⟨[], rfl, by simp, rfl⟩
  | cons t rest ih =>
    intro pt cm
    simp only [lrDrain]
    by_cases hs : t.skip = true
    · simp only [hs, if_true]
      obtain ⟨sk, h1, h2, h3⟩ := ih (if trim then pt else ⟨false, .tok t.id t.ty, [.tok t.id]⟩ :: pt)
        (if t.comment then t.id :: cm else cm)
      refine ⟨t :: sk, by rw [List.cons_append, ← h1], ?_, ?_⟩
      · intro x hx
        rcases List.mem_cons.1 hx with rfl | hx
        · exact hs
        · exact h2 x hx
      · rw [h3]
        cases trim
        · simp [keepTok, DTree.item, hs]
        · simp [keepTok, hs]
    · have hs' : t.skip = false := by simpa using hs
      simp only [hs', Bool.false_eq_true, if_false]
      exact ⟨[], rfl, by simp, rfl⟩

/-- The loop invariant: the parse-tree stack is `ts` (top first), a forest of well-formed trees; the
    actions reported so far are the post-order of the forest; its leaves are the tokens consumed so
    far (those that reach the stack); the state stack is a path spelling the counting roots. -/
def TreeInv (T : LRTables) (gprods : List Rule) (trim : Bool) (toks : List MTok) (s : LRSt) : Prop :=
  ∃ (ts : List DTree) (consumed : List MTok),
    toks = consumed ++ s.input ∧
    s.pt = ts.map (DTree.item trim) ∧
    (∀ d ∈ ts, d.wf gprods = true) ∧
    s.actions.reverse = (ts.reverse.flatMap DTree.nodes).map ProdApp.action ∧
    ts.reverse.flatMap DTree.leaves = consumed.filter (keepTok trim) ∧
    Path T s.states ((ts.filter DTree.sig).map DTree.sym)

theorem filter_sig_skip_leaves {sk : List MTok} (h : ∀ t ∈ sk, t.skip = true) :
    (sk.map DTree.leaf).filter DTree.sig = [] := by
  rw [List.filter_eq_nil_iff]
  intro k hk
  obtain ⟨t, ht, rfl⟩ := List.mem_map.1 hk
  simp [DTree.sig, h t ht]

theorem drainSt_treeInv {T : LRTables} {gprods : List Rule} {trim : Bool} {toks : List MTok} {s : LRSt}
    (h : TreeInv T gprods trim toks s) : TreeInv T gprods trim toks (drainSt trim s) := by
  obtain ⟨ts, consumed, htoks, hpt, hwf, hacts, hleaves, hpath⟩ := h
  obtain ⟨sk, h1, h2, h3⟩ := lrDrain_tree trim s.input s.pt s.comments
  have hsk : ∀ t ∈ sk.filter (keepTok trim), t.skip = true := fun t ht => h2 t (List.mem_filter.1 ht).1
  refine ⟨((sk.filter (keepTok trim)).map DTree.leaf).reverse ++ ts, consumed ++ sk, ?_, ?_, ?_, ?_, ?_, ?_⟩
  · simp only [drainSt]
    rw [List.append_assoc, ← h1]; exact htoks
  · simp only [drainSt]
    rw [h3, hpt]
    simp [List.map_reverse]
  · intro d hd
    rcases List.mem_append.1 hd with hd | hd
    · obtain ⟨t, _, rfl⟩ := List.mem_map.1 (List.mem_reverse.1 hd)
      exact DTree.wf_leaf gprods t
    · exact hwf d hd
  · simp only [drainSt]
    rw [hacts]
    simp [List.flatMap_append, flatMap_leaf_nodes]
  · simp only [List.reverse_append, List.reverse_reverse, List.flatMap_append, flatMap_leaf_leaves,
      List.filter_append, hleaves]
  · simp only [drainSt]
    rw [List.filter_append, List.filter_reverse, filter_sig_skip_leaves hsk]
    simpa using hpath

theorem callAction_tree {T : LRTables} {trim : Bool} {s s' : LRSt} {p n : Nat} {ts : List DTree}
    (hpt : s.pt = ts.map (DTree.item trim)) (h : callAction T trim s p = some (s', n)) :
    ∃ (pr : LRProd) (cts rts : List DTree), T.prods[p]? = some pr ∧ n = pr.len ∧ ts = cts ++ rts ∧
      (cts.filter DTree.sig).length = pr.len ∧
      s'.pt = (DTree.node p pr.lhs cts.reverse :: rts).map (DTree.item trim) ∧
      s'.states = s.states ∧ s'.input = s.input ∧
      s'.actions = ProdApp.action ⟨p, pr.lhs, cts.reverse⟩ :: s.actions := by
  unfold callAction at h
  cases hpr : T.prods[p]? with
  | none => simp [hpr] at h
  | some pr =>
    simp only [hpr] at h
    generalize hp : popN s.pt pr.len = r at h
    obtain ⟨c, rest⟩ := r
    simp only at h
    split at h
    · cases h
    · rename_i hlen
      simp only [ne_eq, Decidable.not_not] at hlen
      injection h with h
      injection h with h1 h2
      subst h1; subst h2
      obtain ⟨hsplit, _, _⟩ := popN_sig _ _ _ _ hp
      rw [hpt] at hsplit
      obtain ⟨cts, rts, hts, hc, hr⟩ := List.map_eq_append_iff.1 hsplit
      subst hc; subst hr
      have hargs : ((cts.map (DTree.item trim)).reverse.filter (·.sig)).map (·.item) =
          (cts.reverse.filter DTree.sig).map DTree.arg := by
        rw [← List.map_reverse, filter_sig_map_item, List.map_map]
        apply List.map_congr_left
        intro d _; exact DTree.item_item trim d
      refine ⟨pr, cts, rts, rfl, rfl, hts, ?_, ?_, rfl, rfl, ?_⟩
      · rw [hargs] at hlen
        simpa [List.filter_reverse] using hlen
      · simp only [List.map_cons, List.cons.injEq, and_true]
        cases trim
        · simp only [DTree.item, Bool.false_eq_true, if_false, DTree.events_node, LRItem.mk.injEq, true_and,
            List.cons.injEq, List.append_cancel_right_eq]
          rw [← List.map_reverse, List.flatMap_map]
          simp only [DTree.item_events]
        · rfl
      · simp only [ProdApp.action, hargs]

theorem path_reduce {T : LRTables} {final : Nat → Bool} {cur : Nat} {sts : List Nat} {csyms rsyms rhs : List Sym}
    (hp : Path T (cur :: sts) (csyms ++ rsyms)) (hb : backSpells T final cur rhs.reverse = true)
    (hlen : csyms.length = rhs.length) :
    csyms = rhs.reverse ∧ ∃ s2 sts', (cur :: sts).drop rhs.length = s2 :: sts' ∧ final s2 = true ∧
      Path T (s2 :: sts') rsyms := by
  have hrr : rhs.reverse.length ≤ (csyms ++ rsyms).length := by simp; omega
  obtain ⟨htake, s2, sts', hdrop, hfin, hpath2⟩ := Path.spells rhs.reverse cur sts _ hp hb hrr
  have h1 : (csyms ++ rsyms).take rhs.reverse.length = csyms := List.take_left' (by simp; omega)
  have h2 : (csyms ++ rsyms).drop rhs.reverse.length = rsyms := List.drop_left' (by simp; omega)
  rw [h1] at htake
  rw [h2] at hpath2
  exact ⟨htake, s2, sts', by simpa using hdrop, hfin, hpath2⟩

theorem skip_leaves_of_not_sig : ∀ (l : List DTree), (∀ k ∈ l, k.sig = false) →
    ∃ sk : List MTok, l = sk.map DTree.leaf ∧ ∀ t ∈ sk, t.skip = true := by
  intro l
  induction l with
  | nil => intro _; exact ⟨[], rfl, by simp⟩
  | cons k l ih =>
    intro h
    obtain ⟨sk, rfl, hsk⟩ := ih (fun k' hk' => h k' (List.mem_cons_of_mem _ hk'))
    obtain ⟨t, rfl, ht⟩ := DTree.of_not_sig (h k List.mem_cons_self)
    refine ⟨t :: sk, rfl, ?_⟩
    intro x hx
    rcases List.mem_cons.1 hx with rfl | hx
    · exact ht
    · exact hsk x hx

/-- What a reduction by production `p` does to the forest, given what `lrTableValid` checks for a
    reduce/accept action by `p` in the current state. -/
theorem reduce_tree {T : LRTables} {gprods : List Rule} {trim : Bool} {s s' : LRSt} {p n : Nat}
    {ts : List DTree} {cur : Nat} {sts : List Nat} {final : Nat → Bool} {r : Rule}
    (hprods : ((gprods.zip T.prods).all fun (r, p) => r.lhs == p.lhs && r.rhs.length == p.len) = true)
    (hpt : s.pt = ts.map (DTree.item trim)) (hwf : ∀ d ∈ ts, d.wf gprods = true)
    (hst : s.states = cur :: sts) (hpath : Path T (cur :: sts) ((ts.filter DTree.sig).map DTree.sym))
    (hgr : gprods[p]? = some r) (hback : backSpells T final cur r.rhs.reverse = true)
    (h : callAction T trim s p = some (s', n)) :
    ∃ (cts rts : List DTree) (s2 : Nat) (sts' : List Nat), ts = cts ++ rts ∧ n = r.rhs.length ∧
      s'.pt = (DTree.node p r.lhs cts.reverse :: rts).map (DTree.item trim) ∧
      (DTree.node p r.lhs cts.reverse).wf gprods = true ∧
      s'.states = cur :: sts ∧ s'.input = s.input ∧
      s'.actions = ProdApp.action ⟨p, r.lhs, cts.reverse⟩ :: s.actions ∧
      (cur :: sts).drop r.rhs.length = s2 :: sts' ∧ final s2 = true ∧
      Path T (s2 :: sts') ((rts.filter DTree.sig).map DTree.sym) := by
  obtain ⟨pr, cts, rts, hpr, hn, hts, hclen, hpt', hstates, hinput, hacts⟩ := callAction_tree hpt h
  have hzip := zip_all_get hprods hgr hpr
  simp only [Bool.and_eq_true, beq_iff_eq] at hzip
  obtain ⟨hl2, hlen2⟩ := hzip
  rw [hts, List.filter_append, List.map_append] at hpath
  obtain ⟨hcsyms, s2, sts', hdrop, hfin, hpath2⟩ := path_reduce hpath hback (by simp; omega)
  refine ⟨cts, rts, s2, sts', hts, by omega, by rw [hl2]; exact hpt', ?_, by rw [hstates, hst], hinput,
    by rw [hl2]; exact hacts, hdrop, hfin, hpath2⟩
  rw [DTree.wf_node]
  refine ⟨fun k hk => hwf k (by rw [hts]; exact List.mem_append_left _ (List.mem_reverse.1 hk)), ?_⟩
  rw [ProdApp.ok_iff]
  refine ⟨r, hgr, rfl, ?_⟩
  simp only [ProdApp.syms, List.filter_reverse, List.map_reverse, hcsyms, List.reverse_reverse]

theorem lrAct_next_treeInv {T : LRTables} {gprods : List Rule} (hv : lrTableValid T gprods = true)
    {trim : Bool} {toks : List MTok} {s s' : LRSt} (hd : Drained s.input)
    (h : TreeInv T gprods trim toks s) (hstep : lrAct T trim s = .next s') : TreeInv T gprods trim toks s' := by
  simp only [lrTableValid, Bool.and_eq_true, beq_iff_eq] at hv
  obtain ⟨⟨⟨⟨_hlen, hprods⟩, hacc⟩, _hpred0⟩, hrows⟩ := hv
  obtain ⟨ts, consumed, htoks, hpt, hwf, hacts, hleaves, hpath⟩ := h
  unfold lrAct at hstep
  cases hst : s.states with
  | nil => simp only [hst] at hstep; cases hstep
  | cons cur sts =>
    simp only [hst] at hstep
    rw [hst] at hpath
    cases hrow : T.rows[cur]? with
    | none => simp only [hrow] at hstep; cases hstep
    | some row =>
      simp only [hrow] at hstep
      have hrowmem : (row, cur) ∈ T.rows.zipIdx := by
        rw [List.mem_zipIdx_iff_getElem?]; simpa using hrow
      cases hact : findAct row (nextTerm s.input) with
      | none => simp only [hact] at hstep; cases hstep
      | some act =>
        simp only [hact] at hstep
        have hactmem := mem_of_findAct hact
        have hrowchk := (List.all_eq_true.1 hrows) (row, cur) hrowmem
        simp only [List.all_eq_true] at hrowchk
        have hchk := hrowchk (nextTerm s.input, act) hactmem
        cases act with
        | shift next =>
          simp only at hstep
          cases hinp : s.input with
          | nil => simp only [hinp] at hstep; cases hstep
          | cons t rest =>
            simp only [hinp] at hstep
            injection hstep with hstep
            subst hstep
            have hskip : t.skip = false := hd t rest hinp
            have hty : nextTerm s.input = t.ty := by rw [hinp]; rfl
            rw [hty] at hact
            obtain ⟨ha, hp⟩ := acc_of_edge hacc (edge_of_shift hrow hact)
            refine ⟨DTree.leaf t :: ts, consumed ++ [t], ?_, ?_, ?_, ?_, ?_, ?_⟩
            · simp only; rw [htoks, hinp]; simp
            · simp only [List.map_cons, hpt, DTree.item, hskip, Bool.not_false]
            · intro d hd'
              rcases List.mem_cons.1 hd' with rfl | hd'
              · exact DTree.wf_leaf gprods t
              · exact hwf d hd'
            · simp only [List.reverse_cons, List.flatMap_append, List.flatMap_cons, List.flatMap_nil,
                DTree.nodes_leaf, List.append_nil]
              exact hacts
            · simp only [List.reverse_cons, List.flatMap_append, List.flatMap_cons, List.flatMap_nil,
                DTree.leaves_leaf, List.append_nil, List.filter_append, hleaves]
              simp [keepTok, hskip]
            · rw [List.filter_cons_of_pos (by simp [DTree.sig, hskip]), List.map_cons]
              exact Path.step ha hp hpath
        | reduce nt p =>
          simp only at hstep hchk
          cases hca : callAction T trim s p with
          | none => simp only [hca] at hstep; cases hstep
          | some x =>
            obtain ⟨s1, n⟩ := x
            simp only [hca] at hstep
            cases hgr : gprods[p]? with
            | none => simp [hgr] at hchk
            | some r =>
              simp only [hgr, Bool.and_eq_true, beq_iff_eq] at hchk
              obtain ⟨hlhs, hback⟩ := hchk
              obtain ⟨cts, rts, s2, sts', hts, hn, hpt1, hwf1, hst1, hin1, hact1, hdrop, _, hpath2⟩ :=
                reduce_tree hprods hpt hwf hst hpath hgr hback hca
              unfold lrGoto at hstep
              split at hstep
              · cases hstep
              · rw [hst1, hn, hdrop] at hstep
                simp only at hstep
                cases hg : (T.rows[s2]?).bind (fun r => findGoto r nt) with
                | none => simp only [hg] at hstep; cases hstep
                | some g =>
                  simp only [hg] at hstep
                  injection hstep with hstep
                  subst hstep
                  simp only [Option.bind_eq_some_iff] at hg
                  obtain ⟨row2, hrow2, hgoto⟩ := hg
                  obtain ⟨ha, hp⟩ := acc_of_edge hacc (edge_of_goto hrow2 hgoto)
                  refine ⟨DTree.node p r.lhs cts.reverse :: rts, consumed, ?_, hpt1, ?_, ?_, ?_, ?_⟩
                  · simp only; rw [hin1]; exact htoks
                  · intro d hd'
                    rcases List.mem_cons.1 hd' with rfl | hd'
                    · exact hwf1
                    · exact hwf d (by rw [hts]; exact List.mem_append_right _ hd')
                  · simp only [hact1, List.reverse_cons, hacts, hts, List.reverse_append, List.flatMap_append,
                      List.map_append, List.flatMap_cons, List.flatMap_nil, List.append_nil, DTree.nodes_node,
                      List.map_cons, List.map_nil, List.append_assoc]
                  · rw [← hleaves, hts]
                    simp only [List.reverse_cons, List.reverse_append, List.flatMap_append, List.flatMap_cons,
                      List.flatMap_nil, List.append_nil, DTree.leaves_node]
                  · simp only
                    rw [List.filter_cons_of_pos (by rfl), List.map_cons]
                    simp only [DTree.sym, hlhs]
                    exact Path.step ha hp hpath2
        | accept =>
          simp only at hstep
          cases hp0 : T.prods.findIdx? (·.lhs == T.start) with
          | none => simp only [hp0] at hstep; cases hstep
          | some p0 =>
            simp only [hp0] at hstep
            cases hca : callAction T trim s p0 with
            | none => simp only [hca] at hstep; cases hstep
            | some x => simp only [hca] at hstep; cases hstep

/-- `Accept`: the forest becomes the derivation tree of the start symbol above skipped tokens only, and
    no input is left. -/
theorem lrAct_fin_tree {T : LRTables} {gprods : List Rule} (hv : lrTableValid T gprods = true)
    {trim : Bool} {toks : List MTok} {s s' : LRSt} (hd : Drained s.input)
    (hne : ∀ t ∈ toks, t.skip = false → t.ty ≠ 0)
    (h : TreeInv T gprods trim toks s) (hstep : lrAct T trim s = .fin s') :
    ∃ (p : Nat) (kids : List DTree) (pre : List MTok),
      (DTree.node p T.start kids).wf gprods = true ∧ (∀ t ∈ pre, t.skip = true) ∧
      pre ++ (DTree.node p T.start kids).leaves = toks.filter (keepTok trim) ∧
      s'.actions.reverse = (DTree.node p T.start kids).postActs ∧
      s'.pt = (DTree.node p T.start kids :: (pre.map DTree.leaf).reverse).map (DTree.item trim) ∧
      s'.input = [] := by
  simp only [lrTableValid, Bool.and_eq_true, beq_iff_eq] at hv
  obtain ⟨⟨⟨⟨_hlen, hprods⟩, _hacc⟩, hpred0⟩, hrows⟩ := hv
  obtain ⟨ts, consumed, htoks, hpt, hwf, hacts, hleaves, hpath⟩ := h
  unfold lrAct at hstep
  cases hst : s.states with
  | nil => simp only [hst] at hstep; cases hstep
  | cons cur sts =>
    simp only [hst] at hstep
    rw [hst] at hpath
    cases hrow : T.rows[cur]? with
    | none => simp only [hrow] at hstep; cases hstep
    | some row =>
      simp only [hrow] at hstep
      have hrowmem : (row, cur) ∈ T.rows.zipIdx := by
        rw [List.mem_zipIdx_iff_getElem?]; simpa using hrow
      cases hact : findAct row (nextTerm s.input) with
      | none => simp only [hact] at hstep; cases hstep
      | some act =>
        simp only [hact] at hstep
        have hactmem := mem_of_findAct hact
        have hrowchk := (List.all_eq_true.1 hrows) (row, cur) hrowmem
        simp only [List.all_eq_true] at hrowchk
        have hchk := hrowchk (nextTerm s.input, act) hactmem
        cases act with
        | shift next =>
          simp only at hstep
          cases hinp : s.input with
          | nil => simp only [hinp] at hstep; cases hstep
          | cons t rest => simp only [hinp] at hstep; cases hstep
        | reduce nt p =>
          simp only at hstep
          cases hca : callAction T trim s p with
          | none => simp only [hca] at hstep; cases hstep
          | some x =>
            obtain ⟨s1, n⟩ := x
            simp only [hca] at hstep
            unfold lrGoto at hstep
            split at hstep
            · cases hstep
            · split at hstep
              · cases hstep
              · split at hstep <;> cases hstep
        | accept =>
          simp only at hstep hchk
          simp only [Bool.and_eq_true, beq_iff_eq] at hchk
          obtain ⟨hterm0, hchk⟩ := hchk
          have hinp : s.input = [] := by
            cases hi : s.input with
            | nil => rfl
            | cons t rest =>
              exfalso
              have hty : nextTerm s.input = t.ty := by rw [hi]; rfl
              have hmem : t ∈ toks := by rw [htoks, hi]; exact List.mem_append_right _ List.mem_cons_self
              exact hne t hmem (hd t rest hi) (by omega)
          cases hp0 : T.prods.findIdx? (·.lhs == T.start) with
          | none => simp [hp0] at hchk
          | some p0 =>
            simp only [hp0] at hstep hchk
            cases hca : callAction T trim s p0 with
            | none => simp only [hca] at hstep; cases hstep
            | some x =>
              obtain ⟨s1, n⟩ := x
              simp only [hca] at hstep
              injection hstep with hstep
              subst hstep
              cases hgr : gprods[p0]? with
              | none => simp [hgr] at hchk
              | some r =>
                simp only [hgr] at hchk
                obtain ⟨cts, rts, s2, sts', hts, hn, hpt1, hwf1, hst1, hin1, hact1, hdrop, hfin, hpath2⟩ :=
                  reduce_tree hprods hpt hwf hst hpath hgr hchk hca
                simp only [beq_iff_eq] at hfin
                subst hfin
                obtain ⟨_, hrsyms⟩ := path_bottom_zero hpred0 hpath2
                have hrsig : ∀ k ∈ rts, k.sig = false := by
                  have : rts.filter DTree.sig = [] := by simpa using hrsyms
                  intro k hk
                  have := (List.filter_eq_nil_iff.1 this) k hk
                  simpa using this
                obtain ⟨sk, hsk, hskip⟩ := skip_leaves_of_not_sig rts hrsig
                have hstart : r.lhs = T.start := by
                  obtain ⟨hlt, hb, _⟩ := List.findIdx?_eq_some_iff_getElem.1 hp0
                  have hpr' : T.prods[p0]? = some T.prods[p0] := List.getElem?_eq_getElem hlt
                  have hzip := zip_all_get hprods hgr hpr'
                  simp only [Bool.and_eq_true, beq_iff_eq] at hzip hb
                  rw [hzip.1]; exact hb
                rw [hstart] at hpt1 hwf1 hact1
                have hcons : consumed = toks := by rw [htoks, hinp]; simp
                refine ⟨p0, cts.reverse, sk.reverse, hwf1, ?_, ?_, ?_, ?_, by rw [hin1]; exact hinp⟩
                · intro t ht; exact hskip t (List.mem_reverse.1 ht)
                · rw [← hcons, ← hleaves, hts, hsk]
                  simp only [List.reverse_append, List.flatMap_append, DTree.leaves_node, ← List.map_reverse,
                    flatMap_leaf_leaves]
                · rw [hact1, List.reverse_cons, hacts, hts, hsk]
                  simp only [List.reverse_append, List.flatMap_append, ← List.map_reverse, flatMap_leaf_nodes,
                    List.nil_append, DTree.postActs, DTree.nodes_node, List.map_append, List.map_cons, List.map_nil]
                · rw [hpt1, hsk]; simp

/-- **The LR parser model builds a derivation tree and reports its post-order.** For every table that
    passes `lrTableValid` and every token sequence, a successful run yields a well-formed tree `d`
    rooted at the start symbol and leading skipped tokens `pre` such that: the tokens that reach the
    parse-tree stack are `pre` followed by the leaves of `d`; the action trace is the post-order of
    `d`; and (untrimmed) the tree events are `root( pre, d )`. -/
theorem lrRun_tree (T : LRTables) (gprods : List Rule) (hv : lrTableValid T gprods = true) (o : Opts)
    (fuel : Nat) (toks : List MTok) (hne : ∀ t ∈ toks, t.skip = false → t.ty ≠ 0)
    (h : (lrRun T o fuel toks).res = .ok) :
    ∃ (p : Nat) (kids : List DTree) (pre : List MTok),
      (DTree.node p T.start kids).wf gprods = true ∧ (∀ t ∈ pre, t.skip = true) ∧
      pre ++ (DTree.node p T.start kids).leaves = toks.filter (keepTok o.trim) ∧
      (lrRun T o fuel toks).actions = (DTree.node p T.start kids).postActs ∧
      (lrRun T o fuel toks).tree =
        (if o.trim then [] else
          .open_ none :: pre.map tokEvOf ++ (DTree.node p T.start kids).events ++ [.close]) := by
  unfold lrRun at h ⊢
  have hnext : ∀ s s', TreeInv T gprods o.trim toks s → lrStep T o s = .next s' →
      TreeInv T gprods o.trim toks s' := by
    intro s s' hs hst
    unfold lrStep at hst
    split at hst
    · cases hst
    · exact lrAct_next_treeInv hv (drainSt_drained _ _) (drainSt_treeInv hs) hst
  have h0 : TreeInv T gprods o.trim toks ⟨[0], toks, [], [], []⟩ :=
    ⟨[], [], rfl, rfl, by simp, rfl, rfl, Path.base 0⟩
  rcases lrLoop_reach T o _ hnext fuel _ 0 h0 with hf | ⟨s0, s', k, hI0, ⟨r, hst, hout⟩ | ⟨hst, hout⟩⟩
  · rw [hf] at h; cases h
  · rw [hout] at h
    have hc := lrStep_core T o s0
    rw [hst] at hc
    exact absurd h (coreStep_stop_ne_ok hc.symm)
  · unfold lrStep at hst
    split at hst
    · cases hst
    · obtain ⟨p, kids, pre, hwf, hpre, hleaves, hacts, hpt, hinp⟩ :=
        lrAct_fin_tree hv (drainSt_drained _ _) hne (drainSt_treeInv hI0) hst
      refine ⟨p, kids, pre, hwf, hpre, hleaves, ?_, ?_⟩
      · rw [hout]
        unfold lrFinish
        split
        · exact hacts
        · exact hacts
      · rw [hout]
        unfold lrFinish
        cases htrim : o.trim with
        | true => simp
        | false =>
          rw [htrim] at hpt
          simp only [Bool.false_eq_true, if_false, hinp, lrDrain, hpt, List.map_cons, List.reverse_cons,
            List.flatMap_append, List.flatMap_cons, List.flatMap_nil, List.append_nil, DTree.item_events,
            List.append_assoc]
          rw [← List.map_reverse, List.flatMap_map]
          simp only [DTree.item_events, List.reverse_reverse]
          rw [← flatMap_leaf_events, List.flatMap_map]
          simp only [List.cons_append, List.append_assoc]

end ParolModel
