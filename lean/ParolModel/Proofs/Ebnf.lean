import ParolModel.Model.Ebnf
/-! Generic lemmas about `YieldE` (DESIGN.md Appendix B.6, extended): `append`/`split`, singleton
inversions, the two simulation principles every grammar rewrite step is proved with
(`yieldE_sim`: old → new, `yieldE_translate`: new → old through a deep substitution of the helper
non-terminal), and the deep congruence `yieldE_unsubst`. -/
namespace ParolModel

theorem YieldE.append {G : List EProd} {a b : List Factor} {u v : List Nat}
    (h1 : YieldE G a u) (h2 : YieldE G b v) : YieldE G (a ++ b) (u ++ v) := by
  induction h1 with
  | nil => simpa using h2
  | term x _ ih => simpa using YieldE.term x ih
  | nonterm p alt sa hp ha hr _ _ ih2 =>
    rw [List.append_assoc]; exact .nonterm p alt sa hp ha hr ih2
  | group alts alt ha hr _ _ ih2 => rw [List.append_assoc]; exact .group alts alt ha hr ih2
  | optSome alts alt ha hr _ _ ih2 => rw [List.append_assoc]; exact .optSome alts alt ha hr ih2
  | optNone alts _ ih => exact .optNone alts ih
  | repStop alts _ ih => exact .repStop alts ih
  | repStep alts alt ha hr _ _ ih2 => rw [List.append_assoc]; exact .repStep alts alt ha hr ih2

theorem YieldE.split {G : List EProd} : ∀ {a b : List Factor} {w : List Nat},
    YieldE G (a ++ b) w → ∃ u v, w = u ++ v ∧ YieldE G a u ∧ YieldE G b v := by
  intro a b w h
  generalize hab : a ++ b = ab at h
  induction h generalizing a with
  | nil =>
    have : a = [] ∧ b = [] := by simpa using hab
    obtain ⟨rfl, rfl⟩ := this
    exact ⟨[], [], rfl, .nil, .nil⟩
  | @term x fs w' h' ih =>
    cases a with
    | nil => simp at hab; subst hab; exact ⟨[], _, rfl, .nil, .term x h'⟩
    | cons s a' =>
      simp at hab; obtain ⟨rfl, hab⟩ := hab
      obtain ⟨u, v, rfl, hu, hv⟩ := ih hab
      exact ⟨x :: u, v, rfl, .term x hu, hv⟩
  | @nonterm p alt sa fs u' v' hp ha hr hs _ ih2 =>
    cases a with
    | nil => simp at hab; subst hab; exact ⟨[], _, rfl, .nil, .nonterm p alt sa hp ha hr hs⟩
    | cons s a' =>
      simp at hab; obtain ⟨rfl, hab⟩ := hab
      obtain ⟨u, v, rfl, hu, hv⟩ := ih2 hab
      exact ⟨u' ++ u, v, by simp, .nonterm p alt sa hp ha hr hu, hv⟩
  | @group alts alt fs u' v' ha hr hs _ ih2 =>
    cases a with
    | nil => simp at hab; subst hab; exact ⟨[], _, rfl, .nil, .group alts alt ha hr hs⟩
    | cons s a' =>
      simp at hab; obtain ⟨rfl, hab⟩ := hab
      obtain ⟨u, v, rfl, hu, hv⟩ := ih2 hab
      exact ⟨u' ++ u, v, by simp, .group alts alt ha hr hu, hv⟩
  | @optSome alts alt fs u' v' ha hr hs _ ih2 =>
    cases a with
    | nil => simp at hab; subst hab; exact ⟨[], _, rfl, .nil, .optSome alts alt ha hr hs⟩
    | cons s a' =>
      simp at hab; obtain ⟨rfl, hab⟩ := hab
      obtain ⟨u, v, rfl, hu, hv⟩ := ih2 hab
      exact ⟨u' ++ u, v, by simp, .optSome alts alt ha hr hu, hv⟩
  | @optNone alts fs v' hs ih =>
    cases a with
    | nil => simp at hab; subst hab; exact ⟨[], _, rfl, .nil, .optNone alts hs⟩
    | cons s a' =>
      simp at hab; obtain ⟨rfl, hab⟩ := hab
      obtain ⟨u, v, rfl, hu, hv⟩ := ih hab
      exact ⟨u, v, rfl, .optNone alts hu, hv⟩
  | @repStop alts fs v' hs ih =>
    cases a with
    | nil => simp at hab; subst hab; exact ⟨[], _, rfl, .nil, .repStop alts hs⟩
    | cons s a' =>
      simp at hab; obtain ⟨rfl, hab⟩ := hab
      obtain ⟨u, v, rfl, hu, hv⟩ := ih hab
      exact ⟨u, v, rfl, .repStop alts hu, hv⟩
  | @repStep alts alt fs u' v' ha hr hs _ ih2 =>
    cases a with
    | nil => simp at hab; subst hab; exact ⟨[], _, rfl, .nil, .repStep alts alt ha hr hs⟩
    | cons s a' =>
      simp at hab; obtain ⟨rfl, hab⟩ := hab
      obtain ⟨u, v, rfl, hu, hv⟩ := ih2 (a := .rep alts :: a') (by simp [hab])
      exact ⟨u' ++ u, v, by simp, .repStep alts alt ha hr hu, hv⟩

theorem YieldE.split_cons {G : List EProd} {f : Factor} {b : List Factor} {w : List Nat}
    (h : YieldE G (f :: b) w) : ∃ u v, w = u ++ v ∧ YieldE G [f] u ∧ YieldE G b v :=
  YieldE.split (a := [f]) (by simpa using h)

theorem YieldE.cons {G : List EProd} {f : Factor} {b : List Factor} {u v : List Nat}
    (h1 : YieldE G [f] u) (h2 : YieldE G b v) : YieldE G (f :: b) (u ++ v) := by
  simpa using YieldE.append h1 h2

/-- `A` derives `u` by one of its alternatives. -/
def Der (G : List EProd) (A : Name) (u : List Nat) : Prop :=
  ∃ p ∈ G, p.lhs = A ∧ ∃ alt ∈ p.alts, YieldE G alt.fs u

theorem Der.yield {G : List EProd} {A : Name} {u : List Nat} (h : Der G A u) (sa : SAttr) :
    YieldE G [.n A sa] u := by
  obtain ⟨p, hp, rfl, alt, ha, hr⟩ := h
  simpa using YieldE.nonterm p alt sa hp ha hr .nil

theorem yieldE_nil_inv {G : List EProd} {w : List Nat} (h : YieldE G [] w) : w = [] := by
  generalize hs : ([] : List Factor) = fs at h
  cases h <;> first | rfl | cases hs

theorem yieldE_nt_inv {G : List EProd} {A : Name} {sa : SAttr} {w : List Nat}
    (h : YieldE G [.n A sa] w) : Der G A w := by
  generalize hs : [Factor.n A sa] = fs at h
  cases h with
  | nonterm p alt sa' hp ha hr htl =>
    injection hs with h1 h2
    subst h2
    have := yieldE_nil_inv htl
    subst this
    injection h1 with h1 _
    exact ⟨p, hp, h1.symm, alt, ha, by simpa using hr⟩
  | _ => cases hs

theorem yieldE_group_inv {G : List EProd} {alts : Alts} {w : List Nat}
    (h : YieldE G [.group alts] w) : ∃ alt ∈ alts, YieldE G alt w := by
  generalize hs : [Factor.group alts] = fs at h
  cases h with
  | group alts' alt ha hr htl =>
    injection hs with h1 h2
    subst h2
    have := yieldE_nil_inv htl
    subst this
    injection h1 with h1
    subst h1
    exact ⟨alt, ha, by simpa using hr⟩
  | _ => cases hs

theorem yieldE_opt_inv {G : List EProd} {alts : Alts} {w : List Nat}
    (h : YieldE G [.opt alts] w) : w = [] ∨ ∃ alt ∈ alts, YieldE G alt w := by
  generalize hs : [Factor.opt alts] = fs at h
  cases h with
  | optSome alts' alt ha hr htl =>
    injection hs with h1 h2
    subst h2
    have := yieldE_nil_inv htl
    subst this
    injection h1 with h1
    subst h1
    exact .inr ⟨alt, ha, by simpa using hr⟩
  | optNone alts' htl =>
    injection hs with h1 h2
    subst h2
    exact .inl (yieldE_nil_inv htl)
  | _ => cases hs

theorem yieldE_term_inv {G : List EProd} {a : Nat} {w : List Nat}
    (h : YieldE G [.t a] w) : w = [a] := by
  generalize hs : [Factor.t a] = fs at h
  cases h with
  | term a' htl =>
    injection hs with h1 h2
    subst h2
    have := yieldE_nil_inv htl
    subst this
    injection h1 with h1
    subst h1; rfl
  | _ => cases hs

theorem yieldE_group_intro {G : List EProd} {alts : Alts} {alt : Alt} {w : List Nat}
    (ha : alt ∈ alts) (h : YieldE G alt w) : YieldE G [.group alts] w := by
  simpa using YieldE.group alts alt ha h .nil

theorem yieldE_opt_some {G : List EProd} {alts : Alts} {alt : Alt} {w : List Nat}
    (ha : alt ∈ alts) (h : YieldE G alt w) : YieldE G [.opt alts] w := by
  simpa using YieldE.optSome alts alt ha h .nil

theorem yieldE_opt_none {G : List EProd} {alts : Alts} : YieldE G [.opt alts] [] :=
  YieldE.optNone alts .nil

theorem yieldE_rep_nil {G : List EProd} {alts : Alts} : YieldE G [.rep alts] [] :=
  YieldE.repStop alts .nil

theorem yieldE_rep_step {G : List EProd} {alts : Alts} {alt : Alt} {u v : List Nat}
    (ha : alt ∈ alts) (h1 : YieldE G alt u) (h2 : YieldE G [.rep alts] v) :
    YieldE G [.rep alts] (u ++ v) := YieldE.repStep alts alt ha h1 h2

/-- induction principle for a repetition followed by a rest -/
theorem yieldE_rep_ind {G : List EProd} {alts : Alts} {rest : List Factor}
    (P : List Nat → Prop)
    (hstop : ∀ v, YieldE G rest v → P v)
    (hstep : ∀ alt u v, alt ∈ alts → YieldE G alt u → P v → P (u ++ v))
    {w : List Nat} (h : YieldE G (.rep alts :: rest) w) : P w := by
  generalize hs : Factor.rep alts :: rest = fs at h
  induction h with
  | repStop alts' htl _ =>
    injection hs with h1 h2
    subst h2
    exact hstop _ htl
  | repStep alts' alt ha hr hrec _ ih2 =>
    injection hs with h1 h2
    injection h1 with h1
    subst h1; subst h2
    exact hstep alt _ _ ha hr (ih2 rfl)
  | _ => cases hs

/-- `{alts}` followed by one more round is `{alts}` (left-recursive reading of a repetition). -/
theorem yieldE_rep_snoc {G : List EProd} {alts : Alts} {alt : Alt} {u v : List Nat}
    (ha : alt ∈ alts) (h1 : YieldE G [.rep alts] u) (h2 : YieldE G alt v) :
    YieldE G [.rep alts] (u ++ v) := by
  refine yieldE_rep_ind (rest := []) (fun u => YieldE G [.rep alts] (u ++ v)) ?_ ?_ h1
  · intro v' hv'
    have := yieldE_nil_inv hv'
    subst this
    have := yieldE_rep_step ha h2 (yieldE_rep_nil (G := G) (alts := alts))
    simpa using this
  · intro alt' u' v' ha' hu' ih
    have := yieldE_rep_step ha' hu' ih
    simpa using this

/-! ## old → new: every alternative of the old grammar is derivable in the new one -/

theorem yieldE_sim {G G' : List EProd}
    (hsim : ∀ p ∈ G, ∀ alt ∈ p.alts, ∀ u, YieldE G' alt.fs u → Der G' p.lhs u)
    {fs : List Factor} {w : List Nat} (h : YieldE G fs w) : YieldE G' fs w := by
  induction h with
  | nil => exact .nil
  | term a _ ih => exact .term a ih
  | nonterm p alt sa hp ha _ _ ih1 ih2 =>
    exact YieldE.cons ((hsim p hp alt ha _ ih1).yield sa) ih2
  | group alts alt ha _ _ ih1 ih2 => exact .group alts alt ha ih1 ih2
  | optSome alts alt ha _ _ ih1 ih2 => exact .optSome alts alt ha ih1 ih2
  | optNone alts _ ih => exact .optNone alts ih
  | repStop alts _ ih => exact .repStop alts ih
  | repStep alts alt ha _ _ ih1 ih2 => exact .repStep alts alt ha ih1 ih2

/-- Monotonicity in the production list. -/
theorem YieldE.mono {G G' : List EProd} (hsub : ∀ p, p ∈ G → p ∈ G')
    {fs w} (h : YieldE G fs w) : YieldE G' fs w :=
  yieldE_sim (fun p hp alt ha _ hu => ⟨p, hsub p hp, rfl, alt, ha, hu⟩) h

/-! ## deep substitution of a non-terminal by a factor string -/

mutual
def Factor.subst (X : Name) (R : List Factor) : Factor → List Factor
  | .t a => [.t a]
  | .n A sa => if A = X then R else [.n A sa]
  | .group as => [.group (substAlts X R as)]
  | .opt as => [.opt (substAlts X R as)]
  | .rep as => [.rep (substAlts X R as)]
def substAlts (X : Name) (R : List Factor) : List (List Factor) → List (List Factor)
  | [] => []
  | a :: as => substAlt X R a :: substAlts X R as
def substAlt (X : Name) (R : List Factor) : List Factor → List Factor
  | [] => []
  | f :: fs => f.subst X R ++ substAlt X R fs
end

theorem substAlt_append (X : Name) (R : List Factor) (a b : List Factor) :
    substAlt X R (a ++ b) = substAlt X R a ++ substAlt X R b := by
  induction a with
  | nil => simp [substAlt]
  | cons f a ih => simp [substAlt, ih]

theorem mem_substAlts {X : Name} {R : List Factor} {alt : Alt} {alts : Alts} (h : alt ∈ alts) :
    substAlt X R alt ∈ substAlts X R alts := by
  induction alts with
  | nil => cases h
  | cons a as ih =>
    simp only [substAlts, List.mem_cons] at *
    rcases h with rfl | h
    · exact .inl rfl
    · exact .inr (ih h)

theorem mem_substAlts_inv {X : Name} {R : List Factor} {alt' : Alt} {alts : Alts}
    (h : alt' ∈ substAlts X R alts) : ∃ alt ∈ alts, alt' = substAlt X R alt := by
  induction alts with
  | nil => simp [substAlts] at h
  | cons a as ih =>
    simp only [substAlts, List.mem_cons] at h
    rcases h with rfl | h
    · exact ⟨a, List.mem_cons_self, rfl⟩
    · obtain ⟨alt, ha, e⟩ := ih h
      exact ⟨alt, List.mem_cons_of_mem _ ha, e⟩

mutual
theorem Factor.subst_fresh (X : Name) (R : List Factor) :
    ∀ f : Factor, X ∉ f.vars → f.subst X R = [f]
  | .t a, _ => by simp [Factor.subst]
  | .n A sa, h => by
    have : A ≠ X := by intro e; apply h; simp [Factor.vars, e]
    simp [Factor.subst, this]
  | .group as, h => by
    simp only [Factor.subst]; rw [substAlts_fresh X R as (by simpa [Factor.vars] using h)]
  | .opt as, h => by
    simp only [Factor.subst]; rw [substAlts_fresh X R as (by simpa [Factor.vars] using h)]
  | .rep as, h => by
    simp only [Factor.subst]; rw [substAlts_fresh X R as (by simpa [Factor.vars] using h)]
theorem substAlts_fresh (X : Name) (R : List Factor) :
    ∀ as : List (List Factor), X ∉ altsVars as → substAlts X R as = as
  | [], _ => by simp [substAlts]
  | a :: as, h => by
    simp only [altsVars, List.mem_append, not_or] at h
    simp [substAlts, substAlt_fresh X R a h.1, substAlts_fresh X R as h.2]
theorem substAlt_fresh (X : Name) (R : List Factor) :
    ∀ fs : List Factor, X ∉ altVars fs → substAlt X R fs = fs
  | [], _ => by simp [substAlt]
  | f :: fs, h => by
    simp only [altVars, List.mem_append, not_or] at h
    simp [substAlt, Factor.subst_fresh X R f h.1, substAlt_fresh X R fs h.2]
end

/-! ## new → old: translate derivations of the new grammar through the substitution `X ↦ R` -/

theorem yieldE_translate {G' G : List EProd} (X : Name) (R : List Factor)
    (hother : ∀ p ∈ G', p.lhs ≠ X → ∀ alt ∈ p.alts, ∀ u,
      YieldE G (substAlt X R alt.fs) u → Der G p.lhs u)
    (hX : ∀ p ∈ G', p.lhs = X → ∀ alt ∈ p.alts, ∀ u,
      YieldE G (substAlt X R alt.fs) u → YieldE G R u)
    {fs : List Factor} {w : List Nat} (h : YieldE G' fs w) : YieldE G (substAlt X R fs) w := by
  induction h with
  | nil => exact .nil
  | term a _ ih => simpa [substAlt, Factor.subst] using YieldE.term a ih
  | nonterm p alt sa hp ha _ _ ih1 ih2 =>
    simp only [substAlt, Factor.subst]
    by_cases hx : p.lhs = X
    · simp only [hx, if_true]
      exact YieldE.append (hX p hp hx alt ha _ ih1) ih2
    · simp only [hx, if_false]
      exact YieldE.append ((hother p hp hx alt ha _ ih1).yield sa) ih2
  | group alts alt ha _ _ ih1 ih2 =>
    simp only [substAlt, Factor.subst, List.singleton_append]
    exact .group _ _ (mem_substAlts ha) ih1 ih2
  | optSome alts alt ha _ _ ih1 ih2 =>
    simp only [substAlt, Factor.subst, List.singleton_append]
    exact .optSome _ _ (mem_substAlts ha) ih1 ih2
  | optNone alts _ ih =>
    simp only [substAlt, Factor.subst, List.singleton_append]
    exact .optNone _ ih
  | repStop alts _ ih =>
    simp only [substAlt, Factor.subst, List.singleton_append]
    exact .repStop _ ih
  | repStep alts alt ha _ _ ih1 ih2 =>
    simp only [substAlt, Factor.subst, List.singleton_append] at ih2 ⊢
    exact .repStep _ _ (mem_substAlts ha) ih1 ih2

/-! ## deep congruence: if `R` can be replaced by `X`, so can every occurrence inside a context -/

theorem yieldE_rep_mono {G : List EProd} {alts alts' : Alts} {rest : List Factor}
    (h : ∀ alt' ∈ alts', ∀ u, YieldE G alt' u → ∃ alt ∈ alts, YieldE G alt u)
    {w : List Nat} (hw : YieldE G (.rep alts' :: rest) w) : YieldE G (.rep alts :: rest) w := by
  refine yieldE_rep_ind (fun w => YieldE G (.rep alts :: rest) w) ?_ ?_ hw
  · intro v hv; exact .repStop alts hv
  · intro alt' u v ha' hu ih
    obtain ⟨alt, ha, hu'⟩ := h alt' ha' u hu
    exact .repStep alts alt ha hu' ih

mutual
theorem Factor.unsubst {G : List EProd} (X : Name) (R : List Factor)
    (hR : ∀ w, YieldE G R w → Der G X w) :
    ∀ (f : Factor) (w : List Nat), YieldE G (f.subst X R) w → YieldE G [f] w
  | .t a, w, h => by simpa [Factor.subst] using h
  | .n A sa, w, h => by
    by_cases hx : A = X
    · subst hx
      simp only [Factor.subst, if_true] at h
      exact (hR w h).yield sa
    · simpa [Factor.subst, hx] using h
  | .group as, w, h => by
    simp only [Factor.subst] at h
    obtain ⟨alt', ha', hy⟩ := yieldE_group_inv h
    obtain ⟨alt, ha, rfl⟩ := mem_substAlts_inv ha'
    exact yieldE_group_intro ha (substAlt_unsubst X R hR alt w hy)
  | .opt as, w, h => by
    simp only [Factor.subst] at h
    rcases yieldE_opt_inv h with rfl | ⟨alt', ha', hy⟩
    · exact yieldE_opt_none
    · obtain ⟨alt, ha, rfl⟩ := mem_substAlts_inv ha'
      exact yieldE_opt_some ha (substAlt_unsubst X R hR alt w hy)
  | .rep as, w, h => by
    simp only [Factor.subst] at h
    refine yieldE_rep_mono (alts' := substAlts X R as) ?_ h
    intro alt' ha' u hu
    obtain ⟨alt, ha, rfl⟩ := mem_substAlts_inv ha'
    exact ⟨alt, ha, substAlt_unsubst X R hR alt u hu⟩
theorem substAlt_unsubst {G : List EProd} (X : Name) (R : List Factor)
    (hR : ∀ w, YieldE G R w → Der G X w) :
    ∀ (fs : List Factor) (w : List Nat), YieldE G (substAlt X R fs) w → YieldE G fs w
  | [], w, h => by simpa [substAlt] using h
  | f :: fs, w, h => by
    simp only [substAlt] at h
    obtain ⟨u, v, rfl, hu, hv⟩ := YieldE.split h
    exact YieldE.cons (Factor.unsubst X R hR f u hu) (substAlt_unsubst X R hR fs v hv)
end

/-! ## names -/

theorem altVars_append (a b : List Factor) : altVars (a ++ b) = altVars a ++ altVars b := by
  induction a with
  | nil => simp [altVars]
  | cons f a ih => simp [altVars, ih]

theorem altsVars_append (a b : Alts) : altsVars (a ++ b) = altsVars a ++ altsVars b := by
  induction a with
  | nil => simp [altsVars]
  | cons f a ih => simp [altsVars, ih]

theorem mem_altsVars {x : Name} {alts : Alts} : x ∈ altsVars alts ↔ ∃ alt ∈ alts, x ∈ altVars alt := by
  induction alts with
  | nil => simp [altsVars]
  | cons a as ih => simp [altsVars, ih]

theorem mem_altVars {x : Name} {fs : List Factor} : x ∈ altVars fs ↔ ∃ f ∈ fs, x ∈ f.vars := by
  induction fs with
  | nil => simp [altVars]
  | cons a as ih => simp [altVars, ih]

theorem mem_variableNames {x : Name} {ps : List EProd} :
    x ∈ variableNames ps ↔ ∃ p ∈ ps, x = p.lhs ∨ ∃ alt ∈ p.alts, x ∈ altVars alt.fs := by
  simp only [variableNames, List.mem_flatMap, EProd.vars, List.mem_cons, mem_altsVars, List.mem_map]
  constructor
  · rintro ⟨p, hp, h | ⟨_, ⟨alt, ha, rfl⟩, hx⟩⟩
    · exact ⟨p, hp, .inl h⟩
    · exact ⟨p, hp, .inr ⟨alt, ha, hx⟩⟩
  · rintro ⟨p, hp, h | ⟨alt, ha, hx⟩⟩
    · exact ⟨p, hp, .inl h⟩
    · exact ⟨p, hp, .inr ⟨_, ⟨alt, ha, rfl⟩, hx⟩⟩

end ParolModel
