import ParolModel.Model.BuildInfo
import ParolModel.Proofs.RegexSem
/-! Lemmas about the model of `generate_build_information` / `TerminalKind::expand` (C13b). -/
namespace ParolModel

/-! ### `escape_raw_terminal` -/

theorem rbrace_not_hex : isAsciiHexDigit '}' = false := by decide

theorem scanHexDigits_some {r ds : List Char} (h : scanHexDigits r = some ds) :
    (∃ r', r = ds ++ '}' :: r') ∧ ∀ c ∈ ds, isAsciiHexDigit c = true := by
  induction r generalizing ds with
  | nil => simp [scanHexDigits] at h
  | cons c r ih =>
    simp only [scanHexDigits] at h
    split at h
    · rename_i hc
      cases h
      exact ⟨⟨r, by simp [hc]⟩, by simp⟩
    · split at h
      · rename_i hx
        cases hs : scanHexDigits r with
        | none => simp [hs] at h
        | some ds' =>
          simp only [hs, Option.map_some, Option.some.injEq] at h
          subst h
          obtain ⟨⟨r', hr'⟩, hall⟩ := ih hs
          refine ⟨⟨r', by simp [hr']⟩, ?_⟩
          intro x hx'
          rcases List.mem_cons.mp hx' with rfl | hx'
          · exact hx
          · exact hall x hx'
      · cases h

theorem scanHexDigits_append {ds : List Char} (hall : ∀ c ∈ ds, isAsciiHexDigit c = true) (r' : List Char) :
    scanHexDigits (ds ++ '}' :: r') = some ds := by
  induction ds with
  | nil => simp [scanHexDigits]
  | cons c ds ih =>
    have hc : isAsciiHexDigit c = true := hall c (by simp)
    have hne : c ≠ '}' := by
      intro h; rw [h, rbrace_not_hex] at hc; cases hc
    simp [scanHexDigits, hne, hc, ih (fun x hx => hall x (List.mem_cons_of_mem _ hx))]

theorem unicodeEscapeDigits_some {r ds : List Char} (h : unicodeEscapeDigits r = some ds) :
    (∃ r', r = 'u' :: '{' :: (ds ++ '}' :: r')) ∧ ds ≠ [] ∧ ∀ c ∈ ds, isAsciiHexDigit c = true := by
  match r, h with
  | a :: b :: r, h =>
    simp only [unicodeEscapeDigits] at h
    split at h
    · rename_i hab
      obtain ⟨rfl, rfl⟩ := hab
      split at h
      · rename_i d ds' hs
        cases h
        obtain ⟨⟨r', hr'⟩, hall⟩ := scanHexDigits_some hs
        exact ⟨⟨r', by rw [hr']⟩, by simp, hall⟩
      · cases h
    · cases h
  | [], h => simp [unicodeEscapeDigits] at h
  | [_], h => simp [unicodeEscapeDigits] at h

theorem unicodeEscapeDigits_intro {ds : List Char} (hne : ds ≠ []) (hall : ∀ c ∈ ds, isAsciiHexDigit c = true)
    (r' : List Char) : unicodeEscapeDigits ('u' :: '{' :: (ds ++ '}' :: r')) = some ds := by
  simp only [unicodeEscapeDigits, and_self, if_true, scanHexDigits_append hall r']
  cases ds with
  | nil => exact absurd rfl hne
  | cons d ds => rfl

theorem escapeRawGo_skip (l r : List Char) : escapeRawGo l.length (l ++ r) = escapeRawGo 0 r := by
  induction l with
  | nil => rfl
  | cons x l ih => simpa [escapeRawGo] using ih

theorem rawMeaningGo_skip (l r : List Char) : rawMeaningGo l.length (l ++ r) = rawMeaningGo 0 r := by
  induction l with
  | nil => rfl
  | cons x l ih => simpa [rawMeaningGo] using ih

theorem readLiteralGo_skip (l r : List Char) : readLiteralGo l.length (l ++ r) = readLiteralGo 0 r := by
  induction l with
  | nil => rfl
  | cons x l ih => simpa [readLiteralGo] using ih

theorem u_not_meta : isMetaCharacter 'u' = false := by decide
theorem backslash_meta : isMetaCharacter '\\' = true := by decide

/-- Reading the escaped text back as a literal regex gives the meaning of the raw terminal. -/
theorem readLiteral_escapeRaw_aux (n : Nat) : ∀ t : List Char, t.length ≤ n →
    readLiteralGo 0 (escapeRawGo 0 t) = some (rawMeaningGo 0 t) := by
  induction n with
  | zero =>
    intro t ht
    cases t with
    | nil => rfl
    | cons c r => simp at ht
  | succ n ih =>
    intro t ht
    cases t with
    | nil => rfl
    | cons c r =>
      have hr : r.length ≤ n := by simp at ht; omega
      by_cases hc : c = '\\'
      · subst hc
        cases hu : unicodeEscapeDigits r with
        | some ds =>
          obtain ⟨⟨r', hr'⟩, hne, hall⟩ := unicodeEscapeDigits_some hu
          have hlen : ('u' :: '{' :: (ds ++ ['}'])).length = ds.length + 3 := by simp
          have hsplit : ∀ x : List Char, 'u' :: '{' :: (ds ++ '}' :: x) = ('u' :: '{' :: (ds ++ ['}'])) ++ x := by
            intro x; simp
          have hr'len : r'.length ≤ n := by
            have : r.length = ds.length + 3 + r'.length := by rw [hr']; simp; omega
            omega
          have e1 : escapeRawGo (ds.length + 3) r = escapeRawGo 0 r' := by
            rw [hr', hsplit, ← hlen]; exact escapeRawGo_skip _ _
          have e2 : rawMeaningGo (ds.length + 3) r = rawMeaningGo 0 r' := by
            rw [hr', hsplit, ← hlen]; exact rawMeaningGo_skip _ _
          have e3' : ∀ x : List Char, readLiteralGo (ds.length + 1) (ds ++ '}' :: x) = readLiteralGo 0 x := by
            intro x
            have := readLiteralGo_skip (ds ++ ['}']) x
            simpa using this
          have out : escapeRawGo 0 ('\\' :: r) = '\\' :: 'u' :: '{' :: (ds ++ '}' :: escapeRawGo 0 r') := by
            simp [escapeRawGo, hu, e1]
          have mean : rawMeaningGo 0 ('\\' :: r) = hexVal ds :: rawMeaningGo 0 r' := by
            simp [rawMeaningGo, hu, e2]
          rw [out, mean]
          simp only [readLiteralGo, if_true, u_not_meta, Bool.false_eq_true, if_false,
            unicodeEscapeDigits_intro hne hall, e3', ih r' hr'len, Option.map_some]
        | none =>
          have out : escapeRawGo 0 ('\\' :: r) = '\\' :: '\\' :: escapeRawGo 0 r := by
            simp [escapeRawGo, hu, regexEscapeChar, backslash_meta]
          have mean : rawMeaningGo 0 ('\\' :: r) = ('\\' : Char).toNat :: rawMeaningGo 0 r := by
            simp [rawMeaningGo, hu]
          rw [out, mean]
          simp only [readLiteralGo, if_true, backslash_meta, ih r hr, Option.map_some]
      · by_cases hm : isMetaCharacter c = true
        · have out : escapeRawGo 0 (c :: r) = '\\' :: c :: escapeRawGo 0 r := by
            simp [escapeRawGo, hc, regexEscapeChar, hm]
          have mean : rawMeaningGo 0 (c :: r) = c.toNat :: rawMeaningGo 0 r := by
            simp [rawMeaningGo, hc]
          rw [out, mean]
          simp only [readLiteralGo, if_true, hm, ih r hr, Option.map_some]
        · have hm' : isMetaCharacter c = false := by simpa using hm
          have out : escapeRawGo 0 (c :: r) = c :: escapeRawGo 0 r := by
            simp [escapeRawGo, hc, regexEscapeChar, hm']
          have mean : rawMeaningGo 0 (c :: r) = c.toNat :: rawMeaningGo 0 r := by
            simp [rawMeaningGo, hc]
          rw [out, mean]
          simp only [readLiteralGo, hc, if_false, hm', Bool.false_eq_true, ih r hr, Option.map_some]

theorem readLiteral_escapeRaw (t : List Char) : readLiteralRx (escapeRawTerminal t) = some (rawMeaning t) :=
  readLiteral_escapeRaw_aux t.length t (Nat.le_refl _)

/-- Without a backslash nothing is preserved: the terminal denotes its own characters. -/
theorem rawMeaning_plain (t : List Char) (h : '\\' ∉ t) : rawMeaning t = t.map Char.toNat := by
  unfold rawMeaning
  induction t with
  | nil => rfl
  | cons c r ih =>
    have hc : c ≠ '\\' := fun e => h (by simp [e])
    have hr : '\\' ∉ r := fun e => h (List.mem_cons_of_mem _ e)
    simp [rawMeaningGo, hc, ih hr]

/-! ### Literal regexes -/

theorem chr_matches_iff (c : Nat) (w : List Nat) : ReMatches (Re.chr c) w ↔ w = [c] := by
  unfold Re.chr
  rw [ReMatches.cls_iff]
  constructor
  · rintro ⟨x, rfl, hx⟩
    simp [Cls.mem] at hx
    have : x = c := by omega
    rw [this]
  · rintro rfl
    exact ⟨c, rfl, by simp [Cls.mem]⟩

theorem lit_matches_iff (l w : List Nat) : ReMatches (Re.lit l) w ↔ w = l := by
  induction l generalizing w with
  | nil => simpa [Re.lit] using ReMatches.eps_iff w
  | cons c cs ih =>
    cases cs with
    | nil => simpa [Re.lit] using chr_matches_iff c w
    | cons c' cs' =>
      simp only [Re.lit]
      rw [ReMatches.cat_iff]
      constructor
      · rintro ⟨u, v, rfl, hu, hv⟩
        rw [(chr_matches_iff c u).mp hu, (ih v).mp hv]; rfl
      · rintro rfl
        exact ⟨[c], c' :: cs', rfl, (chr_matches_iff c _).mpr rfl, (ih _).mpr rfl⟩

/-! ### `generate_build_information` -/

/-- The pure content of a mapping. -/
abbrev MapTriple := List Char × Nat × Option (Bool × List Char)

def TermMapping.triple (m : TermMapping) : MapTriple := (m.rx, m.tok, m.la)

/-- The user terminals of a scanner state, as the fold pushes them; `i` = index of the head. -/
def userTriples (state : Nat) : Nat → List TermSrc → List MapTriple
  | _, [] => []
  | i, t :: ts =>
    if t.states.contains state then
      (t.kind.expand t.text, i + firstUserTy, expandLookahead t.la) :: userTriples state (i + 1) ts
    else userTriples state (i + 1) ts

theorem mkMapping_ok {names : List String} {rx : List Char} {tok : Nat} {la : Option (Bool × List Char)}
    {m : TermMapping} (h : mkMapping names rx tok la = .ok m) : m.triple = (rx, tok, la) ∧ tok < names.length := by
  unfold mkMapping at h
  split at h
  · rename_i n hn
    cases h
    exact ⟨rfl, by
      rcases Nat.lt_or_ge tok names.length with h | h
      · exact h
      · rw [List.getElem?_eq_none h] at hn; cases hn⟩
  · cases h

theorem singletonMapping_ok {x : Except BinfoErr TermMapping} {ms : List TermMapping} (h : singletonMapping x = .ok ms) :
    ∃ m, x = .ok m ∧ ms = [m] := by
  unfold singletonMapping at h
  cases x with
  | error e => cases h
  | ok m => exact ⟨m, rfl, by cases h; rfl⟩

theorem singletonMapping_mk_ok {names : List String} {rx : List Char} {tok : Nat} {la : Option (Bool × List Char)}
    {ms : List TermMapping} (h : singletonMapping (mkMapping names rx tok la) = .ok ms) :
    ms.map TermMapping.triple = [(rx, tok, la)] ∧ tok < names.length := by
  obtain ⟨m, hm, rfl⟩ := singletonMapping_ok h
  obtain ⟨h1, h2⟩ := mkMapping_ok hm
  exact ⟨by simp [h1], h2⟩

theorem userPart_ok {names : List String} {state : Nat} : ∀ {ts : List TermSrc} {i : Nat} {ms : List TermMapping},
    userPart names state i ts = .ok ms → ms.map TermMapping.triple = userTriples state i ts := by
  intro ts
  induction ts with
  | nil => intro i ms h; cases h; rfl
  | cons t ts ih =>
    intro i ms h
    simp only [userPart] at h
    simp only [userTriples]
    split at h
    · rename_i hc
      rw [if_pos hc]
      split at h
      · cases h
      · rename_i m hm
        split at h
        · cases h
        · rename_i r hr
          cases h
          simp [(mkMapping_ok hm).1, ih hr]
    · rename_i hc
      rw [if_neg hc]
      exact ih h

theorem userTriples_tok (state : Nat) : ∀ (ts : List TermSrc) (i : Nat),
    (userTriples state i ts).map (·.2.1) =
      ((List.range ts.length).filter fun j => (((ts.map (·.states))[j]?).getD []).contains state).map (· + (i + firstUserTy)) := by
  intro ts
  induction ts with
  | nil => intro i; rfl
  | cons t ts ih =>
    intro i
    have hshift : ((List.range ts.length).filter fun j => (((ts.map (·.states))[j]?).getD []).contains state).map (· + (i + 1 + firstUserTy)) =
        (((List.range ts.length).map Nat.succ).filter fun j => ((((t :: ts).map (·.states))[j]?).getD []).contains state).map (· + (i + firstUserTy)) := by
      rw [List.filter_map, List.map_map]
      have hf : ((fun j => ((((t :: ts).map (·.states))[j]?).getD []).contains state) ∘ Nat.succ) =
          (fun j => (((ts.map (·.states))[j]?).getD []).contains state) := by
        funext j; simp
      rw [hf]
      apply List.map_congr_left
      intro a _
      simp only [Function.comp]
      omega
    simp only [userTriples, List.length_cons, List.range_succ_eq_map, List.filter_cons]
    have h0 : ((((t :: ts).map (·.states))[0]?).getD []) = t.states := by simp
    rw [h0]
    split
    · simp only [List.map_cons, ih (i + 1), hshift]
      simp
    · simp only [ih (i + 1), hshift]

/-- The mappings of a scanner state, as pure data. -/
def expectedTriples (nNames : Nat) (terms : List TermSrc) (sc : ScannerSrc) (alts : List (List Char)) : List MapTriple :=
  (if sc.autoNewline then [(newLineTokenRx, 1, none)] else []) ++
  (if sc.autoWs then [(whitespaceTokenRx, 2, none)] else []) ++
  (if sc.lineComments.isEmpty then [] else [(lineCommentsRx sc.lineComments, 3, none)]) ++
  (if sc.blockComments.isEmpty then [] else [(joinBar alts, 4, none)]) ++
  userTriples sc.state 0 terms ++
  (if sc.allowUnmatched then [] else [(errorTokenRx, nNames - 1, none)])

theorem buildInfo_ok {names : List String} {terms : List TermSrc} {sc : ScannerSrc} {ms : List TermMapping}
    (h : buildInfo names terms sc = .ok ms) :
    ∃ alts, (sc.blockComments.isEmpty = false → blockCommentAlts sc.blockComments = .ok alts) ∧
      ms.map TermMapping.triple = expectedTriples names.length terms sc alts := by
  unfold buildInfo at h
  split at h; · cases h
  rename_i a ha
  split at h; · cases h
  rename_i b hb
  split at h; · cases h
  rename_i c hc
  split at h; · cases h
  rename_i d hd
  split at h; · cases h
  rename_i u hu
  split at h; · cases h
  rename_i z hz
  cases h
  have ea : a.map TermMapping.triple = (if sc.autoNewline then [(newLineTokenRx, 1, none)] else []) := by
    unfold newlinePart at ha
    split at ha
    · rename_i hcond; rw [if_pos hcond]; exact (singletonMapping_mk_ok ha).1
    · rename_i hcond; rw [if_neg hcond]; cases ha; rfl
  have eb : b.map TermMapping.triple = (if sc.autoWs then [(whitespaceTokenRx, 2, none)] else []) := by
    unfold whitespacePart at hb
    split at hb
    · rename_i hcond; rw [if_pos hcond]; exact (singletonMapping_mk_ok hb).1
    · rename_i hcond; rw [if_neg hcond]; cases hb; rfl
  have ec : c.map TermMapping.triple =
      (if sc.lineComments.isEmpty then [] else [(lineCommentsRx sc.lineComments, 3, none)]) := by
    unfold lineCommentPart at hc
    split at hc
    · rename_i hcond; rw [if_pos hcond]; cases hc; rfl
    · rename_i hcond; rw [if_neg hcond]; exact (singletonMapping_mk_ok hc).1
  have ez : z.map TermMapping.triple = (if sc.allowUnmatched then [] else [(errorTokenRx, names.length - 1, none)]) := by
    unfold errorPart at hz
    split at hz
    · rename_i hcond; rw [if_pos hcond]; cases hz; rfl
    · rename_i hcond; rw [if_neg hcond]; exact (singletonMapping_mk_ok hz).1
  have eu := userPart_ok hu
  unfold blockCommentPart at hd
  split at hd
  · rename_i he
    cases hd
    refine ⟨[], by simp [he], ?_⟩
    simp [expectedTriples, ea, eb, ec, ez, eu, he]
  · rename_i he
    split at hd
    · cases hd
    · rename_i alts halts
      refine ⟨alts, fun _ => halts, ?_⟩
      have he' : sc.blockComments.isEmpty = false := by simpa using he
      simp [expectedTriples, ea, eb, ec, ez, eu, he', (singletonMapping_mk_ok hd).1]

theorem expectedTriples_tok (nNames : Nat) (terms : List TermSrc) (sc : ScannerSrc) (alts : List (List Char)) :
    (expectedTriples nNames terms sc alts).map (·.2.1) = buildOrder sc.modeCfg (terms.map (·.states)) nNames := by
  unfold expectedTriples buildOrder ScannerSrc.modeCfg
  simp only [List.map_append, userTriples_tok, List.length_map]
  cases sc.autoNewline <;> cases sc.autoWs <;> cases sc.lineComments.isEmpty <;> cases sc.blockComments.isEmpty <;>
    cases sc.allowUnmatched <;> simp

/-! ### No panic when `terminal_names` is long enough -/

theorem mkMapping_isOk {names : List String} {tok : Nat} (h : tok < names.length) (rx : List Char)
    (la : Option (Bool × List Char)) : ∃ m, mkMapping names rx tok la = .ok m := by
  unfold mkMapping
  rw [List.getElem?_eq_getElem h]
  exact ⟨_, rfl⟩

theorem singletonMapping_mk_isOk {names : List String} {tok : Nat} (h : tok < names.length) (rx : List Char)
    (la : Option (Bool × List Char)) : ∃ ms, singletonMapping (mkMapping names rx tok la) = .ok ms := by
  obtain ⟨m, hm⟩ := mkMapping_isOk h rx la
  exact ⟨[m], by rw [hm]; rfl⟩

theorem userPart_isOk {names : List String} {state : Nat} : ∀ (ts : List TermSrc) (i : Nat),
    i + ts.length + firstUserTy ≤ names.length → ∃ ms, userPart names state i ts = .ok ms := by
  intro ts
  induction ts with
  | nil => intro i _; exact ⟨[], rfl⟩
  | cons t ts ih =>
    intro i h
    simp only [List.length_cons] at h
    obtain ⟨r, hr⟩ := ih (i + 1) (by omega)
    simp only [userPart]
    split
    · obtain ⟨m, hm⟩ := mkMapping_isOk (names := names) (tok := i + firstUserTy) (by omega)
        (t.kind.expand t.text) (expandLookahead t.la)
      rw [hm, hr]
      exact ⟨_, rfl⟩
    · exact ⟨r, hr⟩

theorem buildInfo_no_panic {names : List String} {terms : List TermSrc} {sc : ScannerSrc}
    (hn : firstUserTy + terms.length < names.length) : buildInfo names terms sc ≠ .error .panic := by
  have h5 : firstUserTy = 5 := rfl
  obtain ⟨a, ha⟩ : ∃ a, newlinePart names sc = .ok a := by
    unfold newlinePart; split
    · exact singletonMapping_mk_isOk (by omega) _ _
    · exact ⟨_, rfl⟩
  obtain ⟨b, hb⟩ : ∃ b, whitespacePart names sc = .ok b := by
    unfold whitespacePart; split
    · exact singletonMapping_mk_isOk (by omega) _ _
    · exact ⟨_, rfl⟩
  obtain ⟨c, hc⟩ : ∃ c, lineCommentPart names sc = .ok c := by
    unfold lineCommentPart; split
    · exact ⟨_, rfl⟩
    · exact singletonMapping_mk_isOk (by omega) _ _
  obtain ⟨u, hu⟩ := userPart_isOk (names := names) (state := sc.state) terms 0 (by omega)
  obtain ⟨z, hz⟩ : ∃ z, errorPart names sc = .ok z := by
    unfold errorPart; split
    · exact ⟨_, rfl⟩
    · exact singletonMapping_mk_isOk (by omega) _ _
  have hd : blockCommentPart names sc ≠ .error .panic := by
    unfold blockCommentPart
    split
    · intro h; cases h
    · split
      · rename_i e he
        intro h
        cases h
        -- `blockCommentAlts` never yields `panic`
        have : ∀ l : List (List Char × List Char), blockCommentAlts l ≠ .error .panic := by
          intro l
          induction l with
          | nil => intro h; cases h
          | cons p l ih =>
            obtain ⟨s, e⟩ := p
            simp only [blockCommentAlts]
            split
            · intro h; cases h
            · split
              · rename_i e' he'
                intro h; cases h; exact ih he'
              · intro h; cases h
        exact this _ he
      · obtain ⟨ms, hms⟩ := singletonMapping_mk_isOk (names := names) (tok := 4) (by omega) (joinBar ‹_›) none
        rw [hms]; intro h; cases h
  unfold buildInfo
  rw [ha, hb, hc]
  simp only
  cases hd' : blockCommentPart names sc with
  | error e =>
    simp only
    intro h
    cases h
    exact hd hd'
  | ok d =>
    simp only [hu, hz]
    intro h; cases h

end ParolModel
