import ParolModel.Model.RegexDfa
/-! Soundness of the bisimulation checker and the class-abstraction argument (C15, C16). -/
namespace ParolModel

theorem SameSide.mono {cs ds : List Nat} {x y : Nat} (h : ∀ c ∈ cs, c ∈ ds) (hs : SameSide ds x y) :
    SameSide cs x y := fun c hc => hs c (h c hc)

theorem any_range_congr (rs : List (Nat × Nat)) (x y : Nat)
    (h : ∀ r ∈ rs, (r.1 ≤ x ↔ r.1 ≤ y) ∧ (r.2 + 1 ≤ x ↔ r.2 + 1 ≤ y)) :
    (rs.any fun r => decide (r.1 ≤ x) && decide (x ≤ r.2)) =
    (rs.any fun r => decide (r.1 ≤ y) && decide (y ≤ r.2)) := by
  induction rs with
  | nil => rfl
  | cons r rs ih =>
    have hr := h r (by simp)
    have ih' := ih (fun r' hr' => h r' (by simp [hr']))
    simp only [List.any_cons, ih']
    congr 1
    have h1 : decide (r.1 ≤ x) = decide (r.1 ≤ y) := by simp [hr.1]
    have h2 : decide (x ≤ r.2) = decide (y ≤ r.2) := by
      have : (x ≤ r.2) ↔ (y ≤ r.2) := by omega
      simp [this]
    rw [h1, h2]

theorem Cls.mem_congr (c : Cls) {x y : Nat} (h : SameSide (cutsOfCls c) x y) : c.mem x = c.mem y := by
  unfold Cls.mem
  congr 1
  apply any_range_congr
  intro r hr
  constructor
  · exact h r.1 (by simp only [cutsOfCls, List.mem_flatMap]; exact ⟨r, hr, by simp⟩)
  · exact h (r.2 + 1) (by simp only [cutsOfCls, List.mem_flatMap]; exact ⟨r, hr, by simp⟩)

/-- Characters that no class atom of `r` distinguishes can be exchanged: they have the same
    derivative (syntactically), hence lead to the same behaviour on every continuation. -/
theorem class_abstraction_sound (r : Re) {x y : Nat} (h : SameSide (cutsOf r) x y) :
    deriv r x = deriv r y := by
  induction r with
  | empty => rfl
  | eps => rfl
  | cls c => simp only [deriv, Cls.mem_congr c h]
  | cat a b iha ihb =>
    have ha := iha (h.mono (by intro c hc; simp [cutsOf, hc]))
    have hb := ihb (h.mono (by intro c hc; simp [cutsOf, hc]))
    simp only [deriv, ha, hb]
  | alt a b iha ihb =>
    have ha := iha (h.mono (by intro c hc; simp [cutsOf, hc]))
    have hb := ihb (h.mono (by intro c hc; simp [cutsOf, hc]))
    simp only [deriv, ha, hb]
  | star a iha =>
    have ha := iha (h.mono (by intro c hc; simpa [cutsOf] using hc))
    simp only [deriv, ha]

theorem reAut_respects : reAut.Respects := fun q _ _ h => class_abstraction_sound q h

theorem rep_le (cuts : List Nat) (x : Nat) : cutRep cuts x ≤ x := by
  induction cuts with
  | nil => simp [cutRep]
  | cons c cs ih => simp only [cutRep]; split <;> omega

theorem le_rep (cuts : List Nat) (x : Nat) : ∀ c ∈ cuts, c ≤ x → c ≤ cutRep cuts x := by
  induction cuts with
  | nil => intro c hc; cases hc
  | cons d cs ih =>
    intro c hc hcx
    simp only [cutRep]
    rcases List.mem_cons.mp hc with rfl | hc'
    · split <;> omega
    · have := ih c hc' hcx
      split <;> omega

theorem rep_mem (cuts : List Nat) (x : Nat) : cutRep cuts x = 0 ∨ cutRep cuts x ∈ cuts := by
  induction cuts with
  | nil => simp [cutRep]
  | cons c cs ih =>
    simp only [cutRep]
    split
    · right; simp
    · rcases ih with h | h
      · left; exact h
      · right; simp [h]

theorem rep_sameSide (cuts : List Nat) (x : Nat) : SameSide cuts x (cutRep cuts x) := by
  intro c hc
  constructor
  · exact le_rep cuts x c hc
  · intro h; exact Nat.le_trans h (rep_le cuts x)

section
variable {σ τ : Type} [DecidableEq σ] [DecidableEq τ]

/-- A set of state pairs accepted by `bisimClosed` is a simulation on ALL code points. -/
theorem closed_sound (rel : Bool → Bool → Bool) (A : Aut σ) (B : Aut τ) (hA : A.Respects) (hB : B.Respects)
    (alpha : List Nat) (p0 : σ) (q0 : τ) (seen : List (σ × τ))
    (h : bisimClosed rel A B alpha p0 q0 seen = true) :
    ∀ w, rel (A.accepts p0 w) (B.accepts q0 w) = true := by
  simp only [bisimClosed, Bool.and_eq_true, List.all_eq_true, List.contains_iff_mem] at h
  obtain ⟨⟨h0, hstart⟩, hall⟩ := h
  have step : ∀ pq ∈ seen, ∀ x, (A.step pq.1 x, B.step pq.2 x) ∈ seen := by
    intro pq hpq x
    obtain ⟨⟨⟨_, hca⟩, hcb⟩, hcl⟩ := hall pq hpq
    have hr := rep_sameSide alpha x
    have hin : cutRep alpha x ∈ alpha := by
      rcases rep_mem alpha x with h | h
      · rw [h]; exact h0
      · exact h
    have e1 : A.step pq.1 x = A.step pq.1 (cutRep alpha x) := hA _ _ _ (hr.mono hca)
    have e2 : B.step pq.2 x = B.step pq.2 (cutRep alpha x) := hB _ _ _ (hr.mono hcb)
    rw [e1, e2]
    exact hcl _ hin
  have run : ∀ w, ∀ pq ∈ seen, (A.run pq.1 w, B.run pq.2 w) ∈ seen := by
    intro w
    induction w with
    | nil => intro pq hpq; exact hpq
    | cons x w ih =>
      intro pq hpq
      have := ih _ (step pq hpq x)
      simpa [Aut.run] using this
  intro w
  have hw := run w _ hstart
  exact (hall _ hw).1.1.1

theorem autRel_sound (rel : Bool → Bool → Bool) (A : Aut σ) (B : Aut τ) (hA : A.Respects) (hB : B.Respects)
    (p0 : σ) (q0 : τ) (fuel : Nat) (h : autRel rel A B p0 q0 fuel = true) :
    ∀ w, rel (A.accepts p0 w) (B.accepts q0 w) = true := by
  simp only [autRel] at h
  cases hx : bisimExplore rel A B (alphabetOf A B p0 q0) fuel [((p0, q0), [])] [] with
  | equiv seen => rw [hx] at h; exact closed_sound rel A B hA hB _ p0 q0 _ h
  | differ w => rw [hx] at h; cases h
  | fuel => rw [hx] at h; cases h

theorem autEquiv_sound (A : Aut σ) (B : Aut τ) (hA : A.Respects) (hB : B.Respects)
    (p0 : σ) (q0 : τ) (fuel : Nat) (h : autEquiv A B p0 q0 fuel = true) :
    ∀ w, A.accepts p0 w = B.accepts q0 w := by
  intro w
  have := autRel_sound relEq A B hA hB p0 q0 fuel h w
  simpa [relEq] using this

theorem autIncl_sound (A : Aut σ) (B : Aut τ) (hA : A.Respects) (hB : B.Respects)
    (p0 : σ) (q0 : τ) (fuel : Nat) (h : autIncl A B p0 q0 fuel = true) :
    ∀ w, A.accepts p0 w = true → B.accepts q0 w = true := by
  intro w ha
  have := autRel_sound relImp A B hA hB p0 q0 fuel h w
  simpa [relImp, ha] using this
end

theorem reAut_accepts (r : Re) (w : List Nat) : reAut.accepts r w = matchesRe r w := rfl

/-- If the checker says yes, the regex and the automaton accept exactly the same strings (over
    all code point sequences), provided the automaton's step function only compares characters
    against its declared cut points. -/
theorem re_equiv_sound (r : Re) (D : SpecDfa) (hD : D.aut.Respects) (fuel : Nat)
    (h : reEquivDfa r D fuel = true) : ∀ w, matchesRe r w = D.accepts w := by
  intro w
  have := autEquiv_sound reAut D.aut reAut_respects hD r D.start fuel h w
  simpa [reAut_accepts, SpecDfa.accepts] using this

theorem re_equiv_re_sound (r s : Re) (fuel : Nat) (h : reEquiv r s fuel = true) :
    ∀ w, matchesRe r w = matchesRe s w := by
  intro w
  have := autEquiv_sound reAut reAut reAut_respects reAut_respects r s fuel h w
  simpa [reAut_accepts] using this

end ParolModel
