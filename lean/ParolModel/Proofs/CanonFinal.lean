import ParolModel.Proofs.CanonTerm
/-! `finalize` cannot fail on what the canonicalisation loops leave behind, provided no production
and no group / optional / repetition of the input has an empty list of alternations (the front end
never builds such lists: `EmptyGroup` … are refused, a production has at least one alternation).
Together with `Proofs/CanonTerm.lean`: `transform_productions` returns plain productions. -/
namespace ParolModel

/-! ## no empty list of alternations -/

mutual
def Factor.nea : Factor → Bool
  | .t _ => true
  | .n _ _ => true
  | .group as => !as.isEmpty && altsNea as
  | .opt as => !as.isEmpty && altsNea as
  | .rep as => !as.isEmpty && altsNea as
def altsNea : List (List Factor) → Bool
  | [] => true
  | a :: as => altNea a && altsNea as
def altNea : List Factor → Bool
  | [] => true
  | f :: fs => f.nea && altNea fs
end

/-- every production has at least one alternation, and so has every bracket at every depth -/
def NoEmptyAlts (G : List EProd) : Prop :=
  ∀ p ∈ G, p.alts ≠ [] ∧ ∀ a ∈ p.alts, altNea a.fs = true

theorem altNea_append (a b : List Factor) : altNea (a ++ b) = (altNea a && altNea b) := by
  induction a with
  | nil => simp [altNea]
  | cons f a ih => simp [altNea, ih, Bool.and_assoc]

theorem altsNea_iff {as : Alts} : altsNea as = true ↔ ∀ a ∈ as, altNea a = true := by
  induction as with
  | nil => simp [altsNea]
  | cons a as ih => simp [altsNea, ih]

theorem bracket_nea {as : Alts} (h : (!as.isEmpty && altsNea as) = true) :
    as ≠ [] ∧ altsNea as = true := by
  simp only [Bool.and_eq_true, Bool.not_eq_true', List.isEmpty_eq_false_iff] at h
  exact h

theorem nea_mid {pre post : List EProd} {p : EProd} {news : List EProd}
    (h : NoEmptyAlts (pre ++ p :: post))
    (hn : (∀ a ∈ p.alts, altNea a.fs = true) →
      ∀ q ∈ news, q.alts ≠ [] ∧ ∀ a ∈ q.alts, altNea a.fs = true) :
    NoEmptyAlts (pre ++ news ++ post) := by
  intro q hq
  simp only [List.mem_append] at hq
  rcases hq with (hq | hq) | hq
  · exact h q (by simp [hq])
  · exact hn (h p mem_mid).2 q hq
  · exact h q (by simp [hq])

theorem Loc.prod_nea {L : Loc} {f : Factor} (h : ∀ a ∈ (L.prod f).alts, altNea a.fs = true) :
    (∀ a ∈ L.apre, altNea a.fs = true) ∧ altNea L.x = true ∧ f.nea = true ∧
      altNea L.y = true ∧ (∀ a ∈ L.apost, altNea a.fs = true) := by
  rw [Loc.prod_alts] at h
  have hm := h ⟨L.x ++ f :: L.y, L.attr⟩ (by simp)
  simp only [altNea_append, altNea, Bool.and_eq_true] at hm
  exact ⟨fun a ha => h a (by simp [ha]), hm.1, hm.2.1, hm.2.2, fun a ha => h a (by simp [ha])⟩

theorem Loc.withAlt_nea {L : Loc} {fs : List Factor}
    (h1 : ∀ a ∈ L.apre, altNea a.fs = true) (h2 : altNea fs = true)
    (h3 : ∀ a ∈ L.apost, altNea a.fs = true) :
    (L.withAlt fs).alts ≠ [] ∧ ∀ a ∈ (L.withAlt fs).alts, altNea a.fs = true := by
  rw [Loc.withAlt_alts]
  refine ⟨by simp, ?_⟩
  intro a ha
  simp only [List.mem_append, List.mem_cons] at ha
  rcases ha with ha | rfl | ha
  · exact h1 a ha
  · exact h2
  · exact h3 a ha

/-! ## every step preserves it -/

theorem sepStep_nea {ps ps' : List EProd} (h : sepStep ps = .changed ps') (hn : NoEmptyAlts ps) :
    NoEmptyAlts ps' := by
  obtain ⟨pre, p, post, rfl, _, rfl⟩ := sepStep_spec h
  apply nea_mid hn
  intro hp q hq
  obtain ⟨a0, ha0, rfl⟩ := List.mem_map.1 hq
  refine ⟨by simp, ?_⟩
  intro a ha
  simp only [List.mem_singleton] at ha
  subst ha
  exact hp a ha0

theorem groupStep_nea {ps ps' : List EProd} (h : groupStep ps = .changed ps')
    (hn : NoEmptyAlts ps) : NoEmptyAlts ps' := by
  unfold groupStep at h
  split at h
  · cases h
  · rename_i L hL
    obtain ⟨f, hf, rfl⟩ := locate_spec hL
    have hfg := groupInner_eq hf
    subst hfg
    split at h
    · rename_i single hin
      injection h with h
      subst h
      apply nea_mid hn
      intro hp q hq
      simp only [List.mem_singleton] at hq
      subst hq
      obtain ⟨h1, h2, h3, h4, h5⟩ := Loc.prod_nea hp
      apply Loc.withAlt_nea h1 _ h5
      have := (bracket_nea (by simpa [Factor.nea] using h3)).2
      simp only [hin, altsNea, Bool.and_true] at this
      simp [altNea_append, h2, this, h4]
    · split at h
      · cases h
      · rename_i X hX
        injection h with h
        subst h
        apply nea_mid hn
        intro hp q hq
        obtain ⟨h1, h2, h3, h4, h5⟩ := Loc.prod_nea hp
        obtain ⟨hne, hin⟩ := bracket_nea (by simpa [Factor.nea] using h3)
        simp only [List.mem_cons, List.not_mem_nil, or_false] at hq
        rcases hq with rfl | rfl
        · apply Loc.withAlt_nea h1 _ h5
          simp [altNea_append, altNea, Factor.nea, h2, h4]
        · refine ⟨by simpa using hne, ?_⟩
          intro a ha
          obtain ⟨a0, ha0, rfl⟩ := List.mem_map.1 ha
          exact altsNea_iff.1 hin a0 ha0

theorem repStep_nea {ty : GType} {ps ps' : List EProd} (h : repStep ty ps = .changed ps')
    (hn : NoEmptyAlts ps) : NoEmptyAlts ps' := by
  unfold repStep at h
  split at h
  · cases h
  · rename_i L hL
    obtain ⟨f, hf, rfl⟩ := locate_spec hL
    have hfg := repInner_eq hf
    subst hfg
    split at h
    · cases h
    · rename_i X hX
      simp only at h
      injection h with h
      subst h
      apply nea_mid hn
      intro hp q hq
      obtain ⟨h1, h2, h3, h4, h5⟩ := Loc.prod_nea hp
      obtain ⟨hne, hin⟩ := bracket_nea (by simpa [Factor.nea] using h3)
      simp only [List.mem_cons, List.not_mem_nil, or_false] at hq
      rcases hq with rfl | rfl | rfl
      · apply Loc.withAlt_nea h1 _ h5
        simp [altNea_append, altNea, Factor.nea, h2, h4]
      · refine ⟨by simp, ?_⟩
        intro a ha
        simp only [List.mem_singleton] at ha
        subst ha
        simp only
        cases ty <;> split <;>
          simp_all [altNea_append, altNea, Factor.nea, altsNea]
      · refine ⟨by simp, ?_⟩
        intro a ha
        simp only [List.mem_singleton] at ha
        subst ha
        rfl

mutual
theorem exFactor_nea (X : Name) : ∀ (f f' : Factor) (inner : Alts), f.nea = true →
    exFactor X f = some (f', inner) → f'.nea = true ∧ inner ≠ [] ∧ altsNea inner = true
  | .t _, _, _, _, h => by simp [exFactor] at h
  | .n _ _, _, _, _, h => by simp [exFactor] at h
  | .opt as, f', inner, hf, h => by
    simp only [exFactor, Option.some.injEq, Prod.mk.injEq] at h
    obtain ⟨rfl, rfl⟩ := h
    obtain ⟨h1, h2⟩ := bracket_nea (by simpa [Factor.nea] using hf)
    exact ⟨rfl, h1, h2⟩
  | .group as, f', inner, hf, h => by
    simp only [exFactor] at h
    split at h
    · rename_i as' inner' hex
      simp only [Option.some.injEq, Prod.mk.injEq] at h
      obtain ⟨rfl, rfl⟩ := h
      obtain ⟨h1, h2⟩ := bracket_nea (by simpa [Factor.nea] using hf)
      obtain ⟨r1, r2, r3, r4⟩ := exAlts_nea X as as' inner' h2 hex
      refine ⟨?_, r3, r4⟩
      simp only [Factor.nea, Bool.and_eq_true, Bool.not_eq_true', List.isEmpty_eq_false_iff]
      exact ⟨r2, r1⟩
    · cases h
  | .rep as, f', inner, hf, h => by
    simp only [exFactor] at h
    split at h
    · rename_i as' inner' hex
      simp only [Option.some.injEq, Prod.mk.injEq] at h
      obtain ⟨rfl, rfl⟩ := h
      obtain ⟨h1, h2⟩ := bracket_nea (by simpa [Factor.nea] using hf)
      obtain ⟨r1, r2, r3, r4⟩ := exAlts_nea X as as' inner' h2 hex
      refine ⟨?_, r3, r4⟩
      simp only [Factor.nea, Bool.and_eq_true, Bool.not_eq_true', List.isEmpty_eq_false_iff]
      exact ⟨r2, r1⟩
    · cases h
theorem exAlt_nea (X : Name) : ∀ (fs fs' : List Factor) (inner : Alts), altNea fs = true →
    exAlt X fs = some (fs', inner) → altNea fs' = true ∧ inner ≠ [] ∧ altsNea inner = true
  | [], _, _, _, h => by simp [exAlt] at h
  | f :: fs, fs', inner, hf, h => by
    simp only [altNea, Bool.and_eq_true] at hf
    simp only [exAlt] at h
    split at h
    · rename_i f1 inner1 hex
      simp only [Option.some.injEq, Prod.mk.injEq] at h
      obtain ⟨rfl, rfl⟩ := h
      obtain ⟨r1, r2, r3⟩ := exFactor_nea X f f1 inner1 hf.1 hex
      exact ⟨by simp [altNea, r1, hf.2], r2, r3⟩
    · split at h
      · rename_i fs1 inner1 hex
        simp only [Option.some.injEq, Prod.mk.injEq] at h
        obtain ⟨rfl, rfl⟩ := h
        obtain ⟨r1, r2, r3⟩ := exAlt_nea X fs fs1 inner1 hf.2 hex
        exact ⟨by simp [altNea, r1, hf.1], r2, r3⟩
      · cases h
theorem exAlts_nea (X : Name) : ∀ (as as' : Alts) (inner : Alts), altsNea as = true →
    exAlts X as = some (as', inner) →
      altsNea as' = true ∧ as' ≠ [] ∧ inner ≠ [] ∧ altsNea inner = true
  | [], _, _, _, h => by simp [exAlts] at h
  | a :: as, as', inner, hf, h => by
    simp only [altsNea, Bool.and_eq_true] at hf
    simp only [exAlts] at h
    split at h
    · rename_i a1 inner1 hex
      simp only [Option.some.injEq, Prod.mk.injEq] at h
      obtain ⟨rfl, rfl⟩ := h
      obtain ⟨r1, r2, r3⟩ := exAlt_nea X a a1 inner1 hf.1 hex
      exact ⟨by simp [altsNea, r1, hf.2], by simp, r2, r3⟩
    · split at h
      · rename_i as1 inner1 hex
        simp only [Option.some.injEq, Prod.mk.injEq] at h
        obtain ⟨rfl, rfl⟩ := h
        obtain ⟨r1, _, r2, r3⟩ := exAlts_nea X as as1 inner1 hf.2 hex
        exact ⟨by simp [altsNea, r1, hf.1], by simp, r2, r3⟩
      · cases h
end

theorem exEAlts_nea (X : Name) : ∀ (alts alts' : List EAlt) (inner : Alts),
    (∀ a ∈ alts, altNea a.fs = true) → exEAlts X alts = some (alts', inner) →
      (∀ a ∈ alts', altNea a.fs = true) ∧ alts' ≠ [] ∧ inner ≠ [] ∧ altsNea inner = true
  | [], _, _, _, h => by simp [exEAlts] at h
  | a :: as, alts', inner, hf, h => by
    simp only [exEAlts] at h
    split at h
    · rename_i fs1 inner1 hex
      simp only [Option.some.injEq, Prod.mk.injEq] at h
      obtain ⟨rfl, rfl⟩ := h
      obtain ⟨r1, r2, r3⟩ := exAlt_nea X a.fs fs1 inner1 (hf a (by simp)) hex
      refine ⟨?_, by simp, r2, r3⟩
      intro b hb
      simp only [List.mem_cons] at hb
      rcases hb with rfl | hb
      · exact r1
      · exact hf b (by simp [hb])
    · split at h
      · rename_i as1 inner1 hex
        simp only [Option.some.injEq, Prod.mk.injEq] at h
        obtain ⟨rfl, rfl⟩ := h
        obtain ⟨r1, _, r2, r3⟩ :=
          exEAlts_nea X as as1 inner1 (fun b hb => hf b (by simp [hb])) hex
        refine ⟨?_, by simp, r2, r3⟩
        intro b hb
        simp only [List.mem_cons] at hb
        rcases hb with rfl | hb
        · exact hf b (by simp)
        · exact r1 b hb
      · cases h

theorem extractStep_nea {ps ps' : List EProd} (h : extractStep ps = .changed ps')
    (hn : NoEmptyAlts ps) : NoEmptyAlts ps' := by
  obtain ⟨pre, p, post, X, alts', inner, rfl, _, hex, rfl⟩ := extractInProds_spec _ _ _ h
  apply nea_mid hn
  intro hp q hq
  obtain ⟨r1, r2, r3, r4⟩ := exEAlts_nea X p.alts alts' inner hp hex
  simp only [List.mem_cons, List.not_mem_nil, or_false] at hq
  rcases hq with rfl | rfl | rfl
  · exact ⟨r2, r1⟩
  · refine ⟨by simp, ?_⟩
    intro a ha
    simp only [List.mem_singleton] at ha
    subst ha
    simp only [altNea, Factor.nea, Bool.and_true, Bool.and_eq_true, Bool.not_eq_true',
      List.isEmpty_eq_false_iff]
    exact ⟨r3, r4⟩
  · refine ⟨by simp, ?_⟩
    intro a ha
    simp only [List.mem_singleton] at ha
    subst ha
    rfl

theorem stepInv_noEmptyAlts : StepInv NoEmptyAlts :=
  ⟨fun _ _ hn h => extractStep_nea h hn, fun _ _ hn h => sepStep_nea h hn,
   fun _ _ _ hn h => repStep_nea h hn, fun _ _ hn h => groupStep_nea h hn⟩

/-! ## `finalize` succeeds when no step applies -/

theorem locate_none {sel : Factor → Option Alts} {ps : List EProd} (h : locate sel ps = none) :
    ∀ p ∈ ps, ∀ a ∈ p.alts, ∀ f ∈ a.fs, sel f = none := by
  unfold locate at h
  simp only at h
  split at h
  · cases h
  · rename_i hs
    intro p hp a ha f hf
    have h1 := splitFirstSome_none _ _ hs p hp
    simp only [Option.map_eq_none_iff] at h1
    have h2 := splitFirstSome_none _ _ h1 a ha
    simp only [Option.map_eq_none_iff] at h2
    exact splitFirstSome_none _ _ h2 f hf

theorem repStep_unchanged {ty : GType} {ps : List EProd} (h : repStep ty ps = .unchanged) :
    locate Factor.repInner ps = none := by
  unfold repStep at h
  split at h
  · assumption
  · rename_i L _
    obtain ⟨X, hX⟩ := generateName_total (variableNames ps) (L.lhs ++ "List".toList)
    rw [hX] at h
    cases h

theorem groupStep_unchanged {ps : List EProd} (h : groupStep ps = .unchanged) :
    locate Factor.groupInner ps = none := by
  unfold groupStep at h
  split at h
  · assumption
  · rename_i L _
    split at h
    · cases h
    · obtain ⟨X, hX⟩ := generateName_total (variableNames ps) (L.lhs ++ "Group".toList)
      rw [hX] at h
      cases h

theorem sepStep_unchanged {ps : List EProd} (h : sepStep ps = .unchanged) :
    ∀ p ∈ ps, p.alts.length ≤ 1 := by
  unfold sepStep at h
  split at h
  · cases h
  · rename_i hs
    intro p hp
    have := splitFirstSome_none _ _ hs p hp
    split at this
    · cases this
    · omega

theorem mapM_toSymN_some : ∀ fs : List Factor, (∀ f ∈ fs, ∃ s, f.toSymN = some s) →
    ∃ rhs, fs.mapM Factor.toSymN = some rhs
  | [], _ => ⟨[], by simp⟩
  | f :: fs, h => by
    obtain ⟨s, hs⟩ := h f (by simp)
    obtain ⟨rhs, hr⟩ := mapM_toSymN_some fs (fun f' hf' => h f' (by simp [hf']))
    exact ⟨s :: rhs, by simp [List.mapM_cons, hs, hr]⟩

theorem finalize_some {ty : GType} {ps : List EProd} (hno : NoOpt ps) (hne : NoEmptyAlts ps)
    (hs : sepStep ps = .unchanged) (hr : repStep ty ps = .unchanged)
    (hg : groupStep ps = .unchanged) : ∃ rs, finalize ps = some rs := by
  have hlen := sepStep_unchanged hs
  have hrep := locate_none (repStep_unchanged hr)
  have hgrp := locate_none (groupStep_unchanged hg)
  have hprod : ∀ p ∈ ps, ∃ r, finalizeProd p = some r := by
    intro p hp
    have h1 := hlen p hp
    have h2 := (hne p hp).1
    obtain ⟨a, ha⟩ : ∃ a, p.alts = [a] := by
      cases hp' : p.alts with
      | nil => exact absurd hp' h2
      | cons a l =>
        cases l with
        | nil => exact ⟨a, rfl⟩
        | cons b l => rw [hp'] at h1; simp at h1
    have hfs : ∀ f ∈ a.fs, ∃ s, f.toSymN = some s := by
      intro f hf
      have ha' : a ∈ p.alts := by rw [ha]; simp
      have o := altHasOpt_top (hno p hp a ha') f hf
      have r := hrep p hp a ha' f hf
      have g := hgrp p hp a ha' f hf
      cases f with
      | t x => exact ⟨.t x, rfl⟩
      | n A sa => exact ⟨.n A sa, rfl⟩
      | group as => simp [Factor.groupInner] at g
      | opt as => simp [Factor.optInner] at o
      | rep as => simp [Factor.repInner] at r
    obtain ⟨rhs, hrhs⟩ := mapM_toSymN_some a.fs hfs
    exact ⟨⟨p.lhs, rhs, a.attr⟩, by simp [finalizeProd, ha, hrhs]⟩
  clear hlen hrep hgrp hs hr hg hno hne
  unfold finalize
  induction ps with
  | nil => exact ⟨[], by simp⟩
  | cons p ps ih =>
    obtain ⟨r, hr⟩ := hprod p (by simp)
    obtain ⟨rs, hrs⟩ := ih (fun q hq => hprod q (by simp [hq]))
    exact ⟨r :: rs, by simp [List.mapM_cons, hr, hrs]⟩

/-- **`transform_productions` returns plain productions** for every input without empty lists of
    alternations, with any fuel above the measure -/
theorem canon_ok_of_noEmptyAlts (ty : GType) (ps : List EProd) (hne : NoEmptyAlts ps)
    (fuel : Nat) (hf : canonMeasure ps < fuel) : ∃ B, canon ty fuel ps = .ok B := by
  obtain ⟨ps0, m0, ps1, e0, e1, n1, j1, x1, x2, x3⟩ :=
    canon_reaches_finalize stepInv_noEmptyAlts ty ps hne fuel hf
  obtain ⟨rs, hrs⟩ := finalize_some n1 j1 x1 x2 x3
  exact ⟨rs, by unfold canon; simp only [e0, e1, hrs]⟩

/-! ## what the front end accepts has no empty list of alternations -/

mutual
theorem Factor.nea_of_noEmptyBracket : ∀ f : Factor, f.hasEmptyBracket = false → f.nea = true
  | .t _, _ => rfl
  | .n _ _, _ => rfl
  | .group as, h => by
    simp only [Factor.hasEmptyBracket, Bool.or_eq_false_iff] at h
    have h1 := altsNea_of_noEmptyBracket as h.1
    have h2 : as ≠ [] := by rintro rfl; simp [isEmptyAlts] at h
    simp [Factor.nea, h1, h2]
  | .opt as, h => by
    simp only [Factor.hasEmptyBracket, Bool.or_eq_false_iff] at h
    have h1 := altsNea_of_noEmptyBracket as h.1
    have h2 : as ≠ [] := by rintro rfl; simp [isEmptyAlts] at h
    simp [Factor.nea, h1, h2]
  | .rep as, h => by
    simp only [Factor.hasEmptyBracket, Bool.or_eq_false_iff] at h
    have h1 := altsNea_of_noEmptyBracket as h.1
    have h2 : as ≠ [] := by rintro rfl; simp [isEmptyAlts] at h
    simp [Factor.nea, h1, h2]
theorem altsNea_of_noEmptyBracket : ∀ as : List (List Factor),
    altsEmptyBracket as = false → altsNea as = true
  | [], _ => rfl
  | a :: as, h => by
    simp only [altsEmptyBracket, Bool.or_eq_false_iff] at h
    simp [altsNea, altNea_of_noEmptyBracket a h.1, altsNea_of_noEmptyBracket as h.2]
theorem altNea_of_noEmptyBracket : ∀ fs : List Factor,
    altEmptyBracket fs = false → altNea fs = true
  | [], _ => rfl
  | f :: fs, h => by
    simp only [altEmptyBracket, Bool.or_eq_false_iff] at h
    simp [altNea, Factor.nea_of_noEmptyBracket f h.1, altNea_of_noEmptyBracket fs h.2]
end

theorem noEmptyAlts_of_accepted {ps : List EProd} (hacc : frontEndRejects ps = false)
    (halts : ∀ p ∈ ps, p.alts ≠ []) : NoEmptyAlts ps := by
  intro p hp
  refine ⟨halts p hp, ?_⟩
  intro a ha
  unfold frontEndRejects at hacc
  simp only [Bool.or_eq_false_iff, List.any_eq_false] at hacc
  have h1 := hacc.1.2 p hp
  have h2 := altsNea_of_noEmptyBracket _ (by simpa using h1)
  exact altsNea_iff.1 h2 a.fs (List.mem_map.2 ⟨a, ha, rfl⟩)

end ParolModel
