import ParolModel.Model.Augment
import ParolModel.Proofs.FixNullable
/-! Helper lemmas for C12: the fresh-name search terminates and finds an unused non-terminal; the
augmented grammar's start symbol is isolated. -/
namespace ParolModel

theorem freshFrom_spec {excl : List Nat} {fuel n m : Nat} (h : freshFrom excl fuel n = some m) :
    m ∉ excl ∧ n ≤ m ∧ ∀ k, n ≤ k → k < m → k ∈ excl := by
  induction fuel generalizing n with
  | zero => simp [freshFrom] at h
  | succ f ih =>
    simp only [freshFrom] at h
    split at h
    · rename_i hn
      obtain ⟨h1, h2, h3⟩ := ih h
      refine ⟨h1, by omega, ?_⟩
      intro k hk hkm
      by_cases e : k = n
      · subst e; exact hn
      · exact h3 k (by omega) hkm
    · rename_i hn
      injection h with h
      subst h
      exact ⟨hn, Nat.le_refl _, fun k hk hkm => by omega⟩

/-- Pigeonhole for the search: among `|excl| + 1` consecutive candidates one is free. -/
theorem freshFrom_isSome_aux (excl : List Nat) (fuel : Nat) :
    ∀ (n : Nat) (excl' : List Nat), (∀ k, n ≤ k → k ∈ excl → k ∈ excl') → excl'.length < fuel →
      (freshFrom excl fuel n).isSome := by
  induction fuel with
  | zero => intro n excl' _ hl; omega
  | succ f ih =>
    intro n excl' hsub hl
    simp only [freshFrom]
    split
    · rename_i hn
      have hn' : n ∈ excl' := hsub n (Nat.le_refl _) hn
      apply ih (n + 1) (excl'.erase n)
      · intro k hk hke
        have hne : k ≠ n := by omega
        exact (List.mem_erase_of_ne hne).mpr (hsub k (by omega) hke)
      · rw [List.length_erase_of_mem hn']
        have := List.length_pos_of_mem hn'
        omega
    · rfl

theorem freshStart_isSome (G : Grammar) : (freshStart G).isSome :=
  freshFrom_isSome_aux (nts G) _ G.start (nts G) (fun _ _ h => h) (Nat.lt_succ_self _)

theorem usesNT_iff_mem_nts {G : Grammar} {x : Nat} : usesNT G x ↔ x ∈ nts G := by
  rw [mem_nts]
  unfold usesNT
  constructor
  · rintro (h | ⟨p, hp, h | h⟩)
    · exact Or.inl h
    · exact Or.inr ⟨p, hp, Or.inl h.symm⟩
    · exact Or.inr ⟨p, hp, Or.inr h⟩
  · rintro (h | ⟨p, hp, h | h⟩)
    · exact Or.inl h
    · exact Or.inr ⟨p, hp, Or.inl h.symm⟩
    · exact Or.inr ⟨p, hp, Or.inr h⟩

theorem usedOnRhs_eq_false_iff {G : Grammar} :
    usedOnRhs G = false ↔ ∀ p ∈ G.prods, Sym.n G.start ∉ p.rhs := by
  unfold usedOnRhs
  rw [Bool.eq_false_iff]
  simp only [ne_eq, List.any_eq_true, decide_eq_true_eq, not_exists, not_and]
  constructor
  · intro h p hp hm; exact h p hp _ hm rfl
  · intro h p hp s hs e; subst e; exact h p hp hs

theorem isolatedB_iff {G : Grammar} :
    isolatedB G = true ↔
      (G.prods.filter (fun p => p.lhs = G.start)).length = 1 ∧ ∀ p ∈ G.prods, Sym.n G.start ∉ p.rhs := by
  unfold isolatedB
  rw [Bool.and_eq_true, Bool.not_eq_true', usedOnRhs_eq_false_iff, decide_eq_true_eq]
  rfl

/-- The start symbol of `augment G s'` is isolated when `s'` is not a non-terminal of `G`. -/
theorem isolated_augment {G : Grammar} {s' : Nat} (hs : s' ∉ nts G) :
    isolatedB (augment G s') = true := by
  rw [isolatedB_iff]
  simp only [augment]
  constructor
  · rw [List.filter_cons]
    simp only [decide_true, if_true, List.length_cons, Nat.add_eq_right, List.length_eq_zero_iff,
      List.filter_eq_nil_iff]
    intro p hp hl
    have hl' : p.lhs = s' := of_decide_eq_true hl
    exact hs (hl' ▸ lhs_mem_nts hp)
  · intro p hp
    rcases List.mem_cons.mp hp with rfl | hp
    · simp only [List.mem_singleton, Sym.n.injEq]
      intro e
      exact hs (e ▸ start_mem_nts G)
    · intro hm
      exact hs (rhs_mem_nts hp hm)

end ParolModel
