import ParolModel.Model.FmtCheck
import ParolModel.Proofs.LLSim
/-! Lemmas for C27: `firstDiff`, and "the run on a token sequence whose significant tokens are named
by their significant index depends only on the (type, comment flag) sequence of the significant tokens". -/
namespace ParolModel.Ls27

theorem firstDiff_none_iff {α : Type} [DecidableEq α] :
    ∀ (a b : List α) (i : Nat), firstDiff a b i = none ↔ a = b := by
  intro a
  induction a with
  | nil => intro b i; cases b <;> simp [firstDiff]
  | cons x xs ih =>
    intro b i
    cases b with
    | nil => simp [firstDiff]
    | cons y ys =>
      simp only [firstDiff]
      split
      · rename_i h; subst h; simp [ih]
      · rename_i h; simp [h]

theorem sigToks_labelFrom : ∀ (a : List MTok) (i : Nat), sigToks (labelFrom i a) = relabel i (sigToks a) := by
  intro a
  induction a with
  | nil => intro i; rfl
  | cons t ts ih =>
    intro i
    simp only [labelFrom]
    by_cases h : t.skip = true
    · simp only [h, if_true]
      rw [sigToks_cons_skip h, sigToks_cons_skip h]
      exact ih i
    · have h' : t.skip = false := by simpa using h
      simp only [h', Bool.false_eq_true, if_false]
      rw [sigToks_cons_sig (t := ⟨t.ty, false, t.comment, i⟩) rfl, sigToks_cons_sig h']
      simp only [relabel, h']
      rw [ih (i + 1)]

theorem relabel_congr : ∀ (x y : List MTok) (i : Nat), (∀ t ∈ x, t.skip = false) → (∀ t ∈ y, t.skip = false) →
    (x.map fun t => (t.ty, t.comment)) = (y.map fun t => (t.ty, t.comment)) → relabel i x = relabel i y := by
  intro x
  induction x with
  | nil =>
    intro y i _ _ h
    cases y with
    | nil => rfl
    | cons _ _ => simp at h
  | cons a as ih =>
    intro y i hx hy h
    cases y with
    | nil => simp at h
    | cons b bs =>
      simp only [List.map_cons, List.cons.injEq, Prod.mk.injEq] at h
      obtain ⟨⟨h1, h2⟩, h3⟩ := h
      have ha := hx a List.mem_cons_self
      have hb := hy b List.mem_cons_self
      simp only [relabel]
      rw [ih bs (i + 1) (fun t ht => hx t (List.mem_cons_of_mem _ ht)) (fun t ht => hy t (List.mem_cons_of_mem _ ht)) h3]
      congr 1
      cases a; cases b; simp_all

theorem sigToks_all_sig (a : List MTok) : ∀ t ∈ sigToks a, t.skip = false := by
  intro t ht
  simp only [sigToks, List.mem_filter] at ht
  simpa using ht.2

theorem sigToks_labelSig_congr {a b : List MTok} (h : sigKey a = sigKey b) :
    sigToks (labelSig a) = sigToks (labelSig b) := by
  simp only [labelSig, sigToks_labelFrom]
  exact relabel_congr _ _ 0 (sigToks_all_sig a) (sigToks_all_sig b) h

theorem run_labelSig_congr (T : LLTables) (o : Opts) (fuel : Nat) {a b : List MTok} (h : sigKey a = sigKey b) :
    (llRun T o fuel (labelSig a)).res = (llRun T o fuel (labelSig b)).res ∧
    (llRun T o fuel (labelSig a)).actions = (llRun T o fuel (labelSig b)).actions := by
  have ha := llCoreRun_skip_irrelevant T o.maxDepth fuel (labelSig a)
  have hb := llCoreRun_skip_irrelevant T o.maxDepth fuel (labelSig b)
  rw [sigToks_labelSig_congr h] at ha
  have hab : (llCoreRun T o.maxDepth fuel (labelSig a)).ra = (llCoreRun T o.maxDepth fuel (labelSig b)).ra :=
    ha.symm.trans hb
  rw [← llRun_core T o, ← llRun_core T o] at hab
  simp only [LLOut.core, CoreOut.ra, Prod.mk.injEq] at hab
  exact ⟨hab.1, hab.2.1⟩

theorem toMToks_comment (ts : List ScanTok) : ∀ t ∈ toMToks ts, t.comment = isCommentTy t.ty := by
  intro t ht
  simp only [toMToks, List.mem_map] at ht
  obtain ⟨⟨s, i⟩, _, rfl⟩ := ht
  rfl

theorem sigKey_of_types {x y : List MTok} (hx : ∀ t ∈ x, t.comment = isCommentTy t.ty)
    (hy : ∀ t ∈ y, t.comment = isCommentTy t.ty) (h : sigTypesOf x = sigTypesOf y) : sigKey x = sigKey y := by
  have key : ∀ z : List MTok, (∀ t ∈ z, t.comment = isCommentTy t.ty) →
      sigKey z = (sigTypesOf z).map fun ty => (ty, isCommentTy ty) := by
    intro z hz
    simp only [sigKey, sigTypesOf, sigToks, List.map_map]
    apply List.map_congr_left
    intro t ht
    have := hz t (List.mem_filter.1 ht).1
    simp [this]
  rw [key x hx, key y hy, h]

end ParolModel.Ls27
