import ParolModel.Proofs.Comments
/-! Correctness of the specification automaton `firstEndDfa` (KMP) with respect to the declarative
specification `FirstEnd` (C15). -/
namespace ParolModel.Kmp
open ParolModel

theorem snoc_suffix_snoc {a t : List Nat} {x y : Nat} : a ++ [x] <:+ t ++ [y] ↔ x = y ∧ a <:+ t := by
  rw [← List.reverse_prefix]
  simp only [List.reverse_append, List.reverse_cons, List.reverse_nil, List.nil_append, List.singleton_append]
  rw [List.cons_prefix_cons, List.reverse_prefix]

theorem take_succ_snoc (e : List Nat) (j : Nat) (h : j < e.length) : e.take (j + 1) = e.take j ++ [e[j]] :=
  (List.take_append_getElem h).symm

/-- `borderLen e t k` is the greatest `j ≤ k` with `e.take j <:+ t`. -/
theorem borderLen_spec (e t : List Nat) : ∀ k,
    borderLen e t k ≤ k ∧ e.take (borderLen e t k) <:+ t ∧ ∀ j, j ≤ k → e.take j <:+ t → j ≤ borderLen e t k := by
  intro k
  induction k with
  | zero => exact ⟨Nat.le_refl _, by simp [borderLen], fun j hj _ => hj⟩
  | succ k ih =>
    simp only [borderLen]
    split
    · rename_i h
      exact ⟨Nat.le_refl _, List.isSuffixOf_iff_suffix.mp h, fun j hj _ => hj⟩
    · rename_i h
      obtain ⟨h1, h2, h3⟩ := ih
      refine ⟨by omega, h2, ?_⟩
      intro j hj hs
      by_cases hjk : j = k + 1
      · subst hjk; exact absurd (List.isSuffixOf_iff_suffix.mpr hs) h
      · exact h3 j (by omega) hs

theorem borderLen_unique (e t : List Nat) (k b : Nat) (h1 : b ≤ k) (h2 : e.take b <:+ t)
    (h3 : ∀ j, j ≤ k → e.take j <:+ t → j ≤ b) : borderLen e t k = b := by
  obtain ⟨g1, g2, g3⟩ := borderLen_spec e t k
  have := h3 _ g1 g2
  have := g3 b h1 h2
  omega

/-- length of the longest prefix of `e` that is a suffix of `z` -/
def lps (e z : List Nat) : Nat := borderLen e z e.length

theorem lps_le (e z : List Nat) : lps e z ≤ e.length := (borderLen_spec e z e.length).1
theorem lps_suffix (e z : List Nat) : e.take (lps e z) <:+ z := (borderLen_spec e z e.length).2.1
theorem lps_max (e z : List Nat) (j : Nat) (hj : j ≤ e.length) (h : e.take j <:+ z) : j ≤ lps e z :=
  (borderLen_spec e z e.length).2.2 j hj h

theorem lps_eq_length_iff (e z : List Nat) : lps e z = e.length ↔ e <:+ z := by
  constructor
  · intro h; have := lps_suffix e z; rwa [h, List.take_length] at this
  · intro h
    have := lps_max e z e.length (Nat.le_refl _) (by rwa [List.take_length])
    have := lps_le e z
    omega

/-- Knuth–Morris–Pratt: the automaton step computes the new overlap from the old one. -/
theorem kmp_step (e z : List Nat) (x : Nat) : lps e (z ++ [x]) = kmpStep e (lps e z) x := by
  unfold kmpStep
  obtain ⟨g1, g2, g3⟩ := borderLen_spec e (e.take (lps e z) ++ [x]) (min (lps e z + 1) e.length)
  apply borderLen_unique
  · omega
  · exact g2.trans (snoc_suffix_snoc.mpr ⟨rfl, lps_suffix e z⟩)
  · intro j hj hs
    cases j with
    | zero => omega
    | succ j =>
      have hjl : j < e.length := by omega
      rw [take_succ_snoc e j hjl, snoc_suffix_snoc] at hs
      obtain ⟨hx, hs'⟩ := hs
      have hjq : j ≤ lps e z := lps_max e z j (by omega) hs'
      apply g3 (j + 1) (by omega)
      rw [take_succ_snoc e j hjl, snoc_suffix_snoc]
      refine ⟨hx, ?_⟩
      exact List.suffix_of_suffix_length_le hs' (lps_suffix e z) (by simp [List.length_take]; omega)

theorem lps_nil (e : List Nat) : lps e [] = 0 := by
  have h := List.suffix_nil.mp (lps_suffix e [])
  have hlen := congrArg List.length h
  rw [List.length_take, List.length_nil] at hlen
  have := lps_le e []
  omega


def ValidText (w : List Nat) : Prop := ∀ x ∈ w, x ≤ maxCp
def NoEnd (e z : List Nat) : Prop := ∀ z', z' <+: z → ¬ e <:+ z'
def DeadText (s e w : List Nat) : Prop := ∀ y, ¬ FirstEnd s e (w ++ y)

def RunInv (s e w : List Nat) (q : Nat) : Prop :=
  (q < s.length ∧ w = s.take q ∧ ValidText w) ∨
  (s.length ≤ q ∧ q < s.length + e.length ∧ ∃ z, w = s ++ z ∧ ValidText w ∧ NoEnd e z ∧ q = s.length + lps e z) ∨
  (q = s.length + e.length ∧ FirstEnd s e w) ∨
  (q = s.length + e.length + 1 ∧ DeadText s e w)

theorem step_invalid (s e : List Nat) (q x : Nat) (h : x > maxCp) :
    firstEndStep s e q x = s.length + e.length + 1 := by simp [firstEndStep, h]

theorem step_s (s e : List Nat) (q x : Nat) (hx : x ≤ maxCp) (hq : q < s.length) :
    firstEndStep s e q x = if s[q] = x then q + 1 else s.length + e.length + 1 := by
  have : ¬ x > maxCp := by omega
  simp [firstEndStep, this, hq]

theorem step_kmp (s e : List Nat) (q x : Nat) (hx : x ≤ maxCp) (h1 : s.length ≤ q) (h2 : q < s.length + e.length) :
    firstEndStep s e q x = s.length + kmpStep e (q - s.length) x := by
  have : ¬ x > maxCp := by omega
  have h3 : ¬ q < s.length := by omega
  simp [firstEndStep, this, h3, h2]

theorem step_end (s e : List Nat) (q x : Nat) (h : s.length + e.length ≤ q) :
    firstEndStep s e q x = s.length + e.length + 1 := by
  have h3 : ¬ q < s.length := by omega
  have h4 : ¬ q < s.length + e.length := by omega
  simp [firstEndStep, h3, h4]

theorem valid_snoc {w : List Nat} {x : Nat} (hw : ValidText w) (hx : x ≤ maxCp) : ValidText (w ++ [x]) := by
  intro y hy
  rcases List.mem_append.mp hy with h | h
  · exact hw y h
  · simp at h; subst h; exact hx

theorem dead_of_invalid (s e w : List Nat) (x : Nat) (hx : x > maxCp) : DeadText s e (w ++ [x]) := by
  intro y hf
  have := hf.1 x (by simp)
  omega

theorem noEnd_nil (e : List Nat) (he : e ≠ []) : NoEnd e [] := by
  intro z' hz' hs
  have : z' = [] := List.prefix_nil.mp hz'
  subst this
  exact he (List.suffix_nil.mp hs)

theorem runInv_step (s e : List Nat) (he : e ≠ []) (w : List Nat) (q x : Nat) (h : RunInv s e w q) :
    RunInv s e (w ++ [x]) (firstEndStep s e q x) := by
  by_cases hx : x > maxCp
  · -- an invalid character kills every state
    rw [step_invalid s e q x hx]
    exact Or.inr (Or.inr (Or.inr ⟨rfl, dead_of_invalid s e w x hx⟩))
  have hx' : x ≤ maxCp := by omega
  rcases h with ⟨hq, hw, hv⟩ | ⟨h1, h2, z, hw, hv, hne, hq⟩ | ⟨hq, hf⟩ | ⟨hq, hd⟩
  · -- reading the start delimiter
    rw [step_s s e q x hx' hq]
    by_cases hsx : s[q] = x
    · simp only [hsx, if_true]
      have hw' : w ++ [x] = s.take (q + 1) := by rw [take_succ_snoc s q hq, hw, hsx]
      by_cases hq1 : q + 1 < s.length
      · exact Or.inl ⟨hq1, hw', valid_snoc hv hx'⟩
      · have hqn : q + 1 = s.length := by omega
        refine Or.inr (Or.inl ⟨by omega, ?_, [], ?_, valid_snoc hv hx', noEnd_nil e he, ?_⟩)
        · have : 0 < e.length := List.length_pos_iff.mpr he
          omega
        · rw [hw', hqn, List.take_length, List.append_nil]
        · rw [lps_nil]; omega
    · simp only [hsx, if_false]
      refine Or.inr (Or.inr (Or.inr ⟨rfl, ?_⟩))
      intro y hf
      obtain ⟨_, z, hz, _⟩ := hf
      have h1 := congrArg (List.take (q + 1)) hz
      rw [hw] at h1
      have hl : (s.take q ++ [x]).length = q + 1 := by simp [List.length_take]; omega
      rw [List.append_assoc, ← List.append_assoc, List.take_append_of_le_length (by omega), List.take_of_length_le (by omega),
        List.take_append_of_le_length (by omega), take_succ_snoc s q hq] at h1
      have := List.append_cancel_left h1
      simp at this
      exact hsx this.symm
  · -- inside the comment: KMP
    rw [step_kmp s e q x hx' h1 h2]
    have hqz : q - s.length = lps e z := by omega
    rw [hqz, ← kmp_step]
    have hw' : w ++ [x] = s ++ (z ++ [x]) := by rw [hw, List.append_assoc]
    have hpre : ∀ z', z' <+: z ++ [x] → z' = z ++ [x] ∨ z' <+: z := fun z' h => List.prefix_concat_iff.mp h
    by_cases hm : lps e (z ++ [x]) = e.length
    · refine Or.inr (Or.inr (Or.inl ⟨by omega, valid_snoc hv hx', z ++ [x], hw', (lps_eq_length_iff e _).mp hm, ?_⟩))
      intro z' hz' hne' hs
      rcases hpre z' hz' with h | h
      · exact hne' h
      · exact hne z' h hs
    · have hlt : lps e (z ++ [x]) < e.length := by have := lps_le e (z ++ [x]); omega
      refine Or.inr (Or.inl ⟨by omega, by omega, z ++ [x], hw', valid_snoc hv hx', ?_, rfl⟩)
      intro z' hz' hs
      rcases hpre z' hz' with h | h
      · subst h; exact hm ((lps_eq_length_iff e _).mpr hs)
      · exact hne z' h hs
  · -- after the end delimiter nothing may follow
    rw [step_end s e q x (by omega)]
    refine Or.inr (Or.inr (Or.inr ⟨rfl, ?_⟩))
    intro y hf2
    obtain ⟨_, z1, hz1, hs1, _⟩ := hf
    obtain ⟨_, z2, hz2, _, hno⟩ := hf2
    have hz : z2 = z1 ++ (x :: y) := by
      rw [hz1, List.append_assoc, List.append_assoc] at hz2
      have := List.append_cancel_left hz2
      simpa using this.symm
    apply hno z1 (by rw [hz]; exact List.prefix_append _ _) _ hs1
    intro h
    have := congrArg List.length h
    rw [hz] at this
    simp at this
  · rw [step_end s e q x (by omega)]
    refine Or.inr (Or.inr (Or.inr ⟨rfl, ?_⟩))
    intro y hf
    apply hd (x :: y)
    simpa using hf

theorem runInv_run (s e : List Nat) (he : e ≠ []) : ∀ (r : List Nat),
    RunInv s e r.reverse ((firstEndDfa s e).aut.run 0 r.reverse) := by
  intro r
  induction r with
  | nil =>
    simp only [List.reverse_nil, Aut.run, List.foldl_nil]
    by_cases hs : 0 < s.length
    · exact Or.inl ⟨hs, by simp, by intro x hx; cases hx⟩
    · have hs0 : s = [] := List.length_eq_zero_iff.mp (by omega)
      have : 0 < e.length := List.length_pos_iff.mpr he
      have hv : ValidText [] := fun x hx => by cases hx
      have hw : ([] : List Nat) = s ++ [] := by rw [hs0]; rfl
      refine Or.inr (Or.inl ⟨by omega, by omega, [], hw, hv, noEnd_nil e he, ?_⟩)
      rw [lps_nil]; simp [hs0]
  | cons x r ih =>
    simp only [List.reverse_cons, Aut.run, List.foldl_append, List.foldl_cons, List.foldl_nil]
    exact runInv_step s e he _ _ x ih

/-- The specification automaton accepts exactly the block comments of the declarative
    specification: valid text, `s` followed by a text whose first occurrence of `e` (not overlapping
    `s`) is at its very end. -/
theorem firstEndDfa_accepts_iff (s e : List Nat) (he : e ≠ []) (w : List Nat) :
    (firstEndDfa s e).accepts w = true ↔ FirstEnd s e w := by
  have hinv := runInv_run s e he w.reverse
  rw [List.reverse_reverse] at hinv
  have hacc : (firstEndDfa s e).accepts w = true ↔ (firstEndDfa s e).aut.run 0 w = s.length + e.length := by
    simp [SpecDfa.accepts, Aut.accepts, firstEndDfa]
  rw [hacc]
  constructor
  · intro hq
    rcases hinv with ⟨h, _⟩ | ⟨_, h, _⟩ | ⟨_, hf⟩ | ⟨h, _⟩
    · omega
    · omega
    · exact hf
    · omega
  · intro hf
    rcases hinv with ⟨hq, hw, _⟩ | ⟨_, _, z', hw, _, hne, _⟩ | ⟨h, _⟩ | ⟨_, hd⟩
    · obtain ⟨_, z, hz, _⟩ := hf
      have := congrArg List.length hz
      rw [hw] at this
      simp [List.length_take] at this
      omega
    · obtain ⟨_, z, hz, hs, _⟩ := hf
      have : z = z' := List.append_cancel_left (hz.symm.trans hw)
      subst this
      exact absurd hs (hne z (List.prefix_refl _))
    · exact h
    · exact absurd (by simpa using hf) (hd [])

end ParolModel.Kmp
