import ParolModel.Model.Proto
import ParolModel.Model.Lev
/-! Line-protocol driver: one request per line on stdin, one reply per line on stdout.
Unknown or malformed requests are answered with `bad-op` (never defaulted). -/
open ParolModel

def dispatch (line : String) : String :=
  match Proto.words line with
  | [] => "bad-op"
  | op :: args =>
    let r : Option String :=
      match op with
      | "lev" => handleLev args
      | "lev-check" => handleLevCheck args
      | _ => none
    r.getD "bad-op"

partial def loop (h : IO.FS.Stream) (out : IO.FS.Stream) : IO Unit := do
  let line ← h.getLine
  if line.isEmpty then return ()
  out.putStrLn (dispatch line)
  loop h out

def main : IO Unit := do
  let out ← IO.getStdout
  loop (← IO.getStdin) out
  out.flush
